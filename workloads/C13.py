"""C13 - geometric invariants and in-place == copy over transformation histories."""

META = {
    "property": "C13",
    "level": "exploration",
    "rule": (
        "case i of seed s from default_rng([s, i]); i%4 selects the object kind: 0 region "
        "history, 1 mesh-with-subregions history, 2 field history (rotate90 on the field, "
        "translate/scale on its mesh), 3 table of malformed/degenerate arguments in both "
        "forms. A history is a random sequence (<= 8 quick, <= 20 thorough steps) of "
        "translate/scale/rotate90, each step executed in the copying form on the object and "
        "in place on a clone; an independent affine model tracks corners, units, n, "
        "subregions, data. Signature = (kind, ndim, sorted set of step kinds, negative "
        "factor used, explicit reference used, number of in-place steps capped at 3); "
        "non-trivial = at least 2 steps of which at least one in place (kind 3: always)."
    ),
    "cases": {"quick": 400, "thorough": 24000},
    "workers": {"quick": 8, "thorough": 16},
    "timeout": {"quick": 600, "thorough": 5400},
    "deciding": [
        "C13.step_accepted",
        "C13.copy_leaves_original",
        "C13.inplace_returns_self",
        "C13.inplace_equals_copy",
        "C13.affine_model.corners",
        "C13.affine_model.n",
        "C13.affine_model.subregions",
        "C13.field.data_model",
        "C13.quiescent.region_inv",
        "C13.quiescent.mesh_inv",
        "C13.quiescent.field_inv",
        "C13.malformed_rejected",
        "C13.malformed_rejected.unchanged",
        "inv.region",
        "inv.mesh",
    ],
    "owns": ["inv.region", "inv.mesh", "inv.mesh.subregions", "inv.field.array", "inv.field.valid"],
    "ambient": {"quick": [], "thorough": ["discretisedfield/tests/test_region.py",
                                          "discretisedfield/tests/test_mesh.py"]},
    "anchor_files": ["discretisedfield/region.py", "discretisedfield/mesh.py",
                     "discretisedfield/field.py"],
    "assumptions": [
        "non-finite factors (nan/inf) are not generated (DESIGN C13, rule R7)",
        "translations and reference points stay within 1e3 edge lengths; the model carries a "
        "running rounding-error bound (magnified by |factor| at every scaling) - corners are "
        "compared at 16x that bound and a history is not continued once the bound exceeds "
        "1e-9 of the smallest cell",
    ],
}

import copy  # noqa: E402

import numpy as np  # noqa: E402

import discretisedfield as df  # noqa: E402
from dfmon import attach, core  # noqa: E402
from workloads import gen  # noqa: E402

EPS = np.finfo(float).eps
QTABLE = {0: (1, 0), 1: (0, 1), 2: (-1, 0), 3: (0, -1)}  # (cos, sin) of k quarter turns


# ------------------------------------------------------------------ affine model
class Box:
    """Axis-aligned box as a pair of float corner arrays (always sorted)."""

    def __init__(self, lo, hi):
        lo, hi = np.asarray(lo, float), np.asarray(hi, float)
        self.lo, self.hi = np.minimum(lo, hi), np.maximum(lo, hi)

    def translate(self, v):
        return Box(self.lo + v, self.hi + v)

    def scale(self, s, R):
        return Box(R + s * (self.lo - R), R + s * (self.hi - R))

    def rotate(self, ia, ib, k, R):
        c, s = QTABLE[k % 4]
        out = []
        for p in (self.lo, self.hi):
            q = p.copy()
            da, db = p[ia] - R[ia], p[ib] - R[ib]
            q[ia] = R[ia] + c * da - s * db
            q[ib] = R[ib] + s * da + c * db
            out.append(q)
        return Box(*out)

    @property
    def centre(self):
        return 0.5 * (self.lo + self.hi)


class Model:
    def __init__(self, box, units, n=None, subs=None, array=None, valid=None, comp=None):
        self.box, self.units = box, list(units)
        self.n = None if n is None else np.asarray(n, int)
        self.subs = dict(subs or {})
        self.array, self.valid = array, valid
        self.comp = comp  # {axis index: component index} for mapped components
        # running bound on the absolute rounding error of any corner coordinate
        # (library and model evaluate the same affine maps in different orders)
        self.err = 4 * EPS * self._mag()
        self.steps = 0

    def _mag(self, *vals):
        m = max(float(np.max(np.abs(self.box.lo))), float(np.max(np.abs(self.box.hi))))
        for v in vals:
            m = max(m, float(np.max(np.abs(v))))
        return m

    def translate(self, v):
        v = np.asarray(v, float)
        before = self._mag(v)
        self.box = self.box.translate(v)
        self.subs = {k: b.translate(v) for k, b in self.subs.items()}
        self.err += 4 * EPS * max(before, self._mag())
        self.steps += 1

    def scale(self, s, R):
        R = self.box.centre if R is None else np.asarray(R, float)
        s = np.asarray(s, float)
        smax = float(np.max(np.abs(s)))
        before = self._mag(R)
        self.box = self.box.scale(s, R)
        self.subs = {k: b.scale(s, R) for k, b in self.subs.items()}
        # old errors are magnified by |s|; x - R, the product and the sum round once each
        self.err = self.err * max(smax, 1.0) + 8 * EPS * (before * max(smax, 1.0) + self._mag())
        self.steps += 1

    def rotate(self, ia, ib, k, R):
        R = self.box.centre if R is None else np.asarray(R, float)
        before = self._mag(R)
        self.box = self.box.rotate(ia, ib, k, R)
        self.subs = {key: b.rotate(ia, ib, k, R) for key, b in self.subs.items()}
        if k % 2 == 1:
            self.units[ia], self.units[ib] = self.units[ib], self.units[ia]
            if self.n is not None:
                self.n[ia], self.n[ib] = self.n[ib], self.n[ia]
        if self.array is not None:
            arr, val = self.array, self.valid
            for _ in range(k % 4):
                # (x_a, x_b) -> (-x_b, x_a): new[n_b-1-j, i] = old[i, j]
                arr = np.flip(np.swapaxes(arr, ia, ib), axis=ia)
                val = np.flip(np.swapaxes(val, ia, ib), axis=ia)
                if self.comp is not None and arr.shape[-1] > 1:
                    ca, cb = self.comp[ia], self.comp[ib]
                    new = arr.copy()
                    new[..., ca] = -arr[..., cb]
                    new[..., cb] = arr[..., ca]
                    arr = new
            self.array, self.valid = arr.copy(), val.copy()
        self.err += 8 * EPS * max(before, self._mag())
        self.steps += 1

    @property
    def tol(self):
        return 16 * self.err

    @property
    def mag(self):
        return self.err / EPS

    def cond_region(self, tolerance_factor=1e-12):
        """Error bound in units of the region's own comparison tolerance."""
        edges = self.box.hi - self.box.lo
        return self.err / (tolerance_factor * float(np.min(edges)))

    def cond(self):
        """Error bound in units of the smallest cell (edge if there is no mesh)."""
        edges = self.box.hi - self.box.lo
        cell = edges if self.n is None else edges / self.n
        return self.err / float(np.min(cell))


# --------------------------------------------------------------- state comparison
def _region_of(obj):
    if hasattr(obj, "_mesh"):
        return obj._mesh._region
    if hasattr(obj, "_region"):
        return obj._region
    return obj


def _mesh_of(obj):
    if hasattr(obj, "_mesh"):
        return obj._mesh
    if hasattr(obj, "_region"):
        return obj
    return None


def state(obj):
    r = _region_of(obj)
    m = _mesh_of(obj)
    st = {"pmin": np.array(r.pmin, float), "pmax": np.array(r.pmax, float),
          "units": tuple(r.units), "dims": tuple(r.dims),
          "tolerance_factor": float(r.tolerance_factor)}
    if m is not None:
        st["n"] = np.array(m.n)
        st["bc"] = m.bc
        st["subs"] = {k: (np.array(s.pmin, float), np.array(s.pmax, float), tuple(s.units),
                          tuple(s.dims)) for k, s in m.subregions.items()}
    if hasattr(obj, "_mesh"):
        st["array"] = np.array(obj.array)
        st["valid"] = np.array(obj.valid)
        st["vdims"] = None if obj.vdims is None else tuple(obj.vdims)
        st["mapping"] = dict(obj.vdim_mapping)
        st["nvdim"] = obj.nvdim
        st["unit"] = obj.unit
    return st


def same_state(a, b, tol):
    def near(x, y):
        return x.shape == y.shape and bool(np.all(np.abs(x - y) <= tol))

    if not (near(a["pmin"], b["pmin"]) and near(a["pmax"], b["pmax"])):
        return "corners"
    if a["units"] != b["units"] or a["dims"] != b["dims"]:
        return "units/dims"
    if a["tolerance_factor"] != b["tolerance_factor"]:
        return "tolerance_factor"
    if "n" in a:
        if not np.array_equal(a["n"], b["n"]):
            return "n"
        if a["bc"] != b["bc"]:
            return "bc"
        if list(a["subs"]) != list(b["subs"]):
            return "subregion names"
        for k in a["subs"]:
            sa, sb = a["subs"][k], b["subs"][k]
            if not (near(sa[0], sb[0]) and near(sa[1], sb[1])):
                return f"subregion {k} corners"
            if sa[2] != sb[2] or sa[3] != sb[3]:
                return f"subregion {k} units/dims"
    if "array" in a:
        if a["array"].shape != b["array"].shape or a["array"].dtype != b["array"].dtype:
            return "array shape/dtype"
        if not core.close(a["array"], b["array"], rtol=4 * EPS):
            return "array values"
        if not np.array_equal(a["valid"], b["valid"]):
            return "valid"
        for key in ("vdims", "mapping", "nvdim", "unit"):
            if a[key] != b[key]:
                return key
    return None


def check_model(ctx, obj, model, step):
    st = state(obj)
    tol = model.tol
    ctx.check("C13.affine_model.corners",
              np.all(np.abs(st["pmin"] - model.box.lo) <= tol)
              and np.all(np.abs(st["pmax"] - model.box.hi) <= tol),
              step=step, pmin=st["pmin"], pmax=st["pmax"], expected_pmin=model.box.lo,
              expected_pmax=model.box.hi, tol=tol)
    ctx.check("C13.affine_model.units", list(st["units"]) == list(model.units),
              step=step, units=st["units"], expected=model.units,
              object=type(obj).__name__)
    if "n" in st:
        ctx.check("C13.affine_model.n", np.array_equal(st["n"], model.n),
                  step=step, n=st["n"], expected=model.n)
        ok = list(st["subs"]) == list(model.subs)
        if ok:
            for k, b in model.subs.items():
                ok = ok and bool(np.all(np.abs(st["subs"][k][0] - b.lo) <= tol)
                                 and np.all(np.abs(st["subs"][k][1] - b.hi) <= tol))
        ctx.check("C13.affine_model.subregions", ok, step=step,
                  subs={k: (v[0], v[1]) for k, v in st["subs"].items()},
                  expected={k: (b.lo, b.hi) for k, b in model.subs.items()}, tol=tol)
        m = _mesh_of(obj)
        edges = st["pmax"] - st["pmin"]
        ctx.check("C13.cell_times_n", np.all(np.abs(m.cell * m.n - edges) <= 8 * EPS * np.abs(edges))
                  and np.all(m.cell > 0), cell=m.cell, n=m.n, edges=edges, step=step)
    if "array" in st and model.array is not None:
        ctx.check("C13.field.data_model",
                  st["array"].shape == model.array.shape
                  and core.close(st["array"], model.array, rtol=4 * EPS)
                  and np.array_equal(st["valid"], model.valid),
                  step=step, shape=st["array"].shape, expected_shape=model.array.shape,
                  dtype=str(st["array"].dtype), maxdiff=core.maxdiff(st["array"], model.array))


def check_quiescent(ctx, obj, step):
    r, m = _region_of(obj), _mesh_of(obj)
    prob = attach._region_problem(r)
    ctx.check("C13.quiescent.region_inv", prob is None, problem=prob, step=step,
              pmin=r._pmin, pmax=r._pmax, units=r._units, object=type(obj).__name__)
    if m is not None:
        prob = attach._mesh_problem(m)
        subs = [] if prob else attach._subregion_problems(m)
        ctx.check("C13.quiescent.mesh_inv", prob is None and not subs, problem=prob,
                  subregions=subs, step=step)
    if hasattr(obj, "_mesh"):
        n = tuple(int(k) for k in obj._mesh._n)
        ctx.check("C13.quiescent.field_inv",
                  obj._array.shape == (*n, obj._nvdim) and obj._valid.shape == n
                  and obj._valid.dtype == np.bool_,
                  array_shape=obj._array.shape, valid_shape=obj._valid.shape,
                  valid_dtype=str(obj._valid.dtype), n=n, step=step)


def clone_of(obj):
    """Independent equal object (copy.deepcopy recurses in Field.__getattr__)."""
    if hasattr(obj, "_mesh"):
        return df.Field(copy.deepcopy(obj.mesh), nvdim=obj.nvdim, value=np.array(obj.array),
                        valid=np.array(obj.valid), vdims=None if obj.vdims is None else list(obj.vdims),
                        vdim_mapping=dict(obj.vdim_mapping), unit=obj.unit, dtype=obj.dtype)
    return copy.deepcopy(obj)


# ------------------------------------------------------------------- step choice
def rand_factor(rng, nd):
    def one():
        r = rng.random()
        if r < 0.35:
            return float(rng.choice([2, 0.5, 3, 0.25, 1.7, 10.0, 0.1]))
        if r < 0.6:
            return float(-rng.choice([1, 2, 0.5, 3, 1.7]))
        if r < 0.7:
            return float(rng.choice([1e3, 1e-3, -1e2]))
        if r < 0.8:
            return int(rng.choice([2, 3, -1, -2]))
        return float(rng.uniform(0.2, 5))

    if nd == 1 and rng.random() < 0.5:
        return one()
    if rng.random() < 0.5:
        return one()
    seq = [one() for _ in range(nd)]
    return pickseq(rng, seq)


def pickseq(rng, seq):
    r = rng.random()
    if r < 0.5:
        return tuple(seq)
    if r < 0.75:
        return list(seq)
    return np.array(seq)


def rand_ref(rng, box, nd):
    if rng.random() < 0.45:
        return None
    if nd == 1 and rng.random() < 0.25:
        # the origin in its *falsy* scalar forms (round 6, C13-11)
        return gen.pick(rng, [0, 0.0, np.float64(0.0)])
    edges = box.hi - box.lo
    far = 10.0 ** rng.uniform(-1, 3) if rng.random() < 0.3 else 1.0
    R = box.centre + rng.uniform(-1, 1, nd) * edges * far
    if rng.random() < 0.15:
        R = box.lo.copy()  # a corner
    elif rng.random() < 0.1:
        R = np.zeros(nd)  # the origin
    if nd == 1 and rng.random() < 0.3:
        return float(R[0])  # the scalar form of a one-dimensional point
    return pickseq(rng, R.tolist())


def rand_step(rng, model, dims, kinds):
    nd = len(dims)
    kind = gen.pick(rng, kinds)
    edges = model.box.hi - model.box.lo
    if kind == "translate":
        mag = 10.0 ** rng.uniform(-2, 3) if rng.random() < 0.3 else 1.0
        v = (rng.uniform(-1, 1, nd) * edges * mag).tolist()
        if rng.random() < 0.15:
            v = [int(round(x)) for x in v]
        vec = v[0] if (nd == 1 and rng.random() < 0.4) else pickseq(rng, v)
        return kind, {"vector": vec}
    if kind == "scale":
        return kind, {"factor": rand_factor(rng, nd), "reference_point": rand_ref(rng, model.box, nd)}
    a, b = rng.choice(nd, 2, replace=False)
    k = int(rng.integers(-9, 10))
    if rng.random() < 0.2:
        k = gen.pick(rng, [np.int64, np.int32])(k)  # an integer is an integer
    return "rotate90", {"ax1": dims[int(a)], "ax2": dims[int(b)], "k": k,
                        "reference_point": rand_ref(rng, model.box, nd)}


def apply_model(model, kind, kw, dims):
    if kind == "translate":
        v = kw["vector"]
        model.translate([v] if np.isscalar(v) else v)
    elif kind == "scale":
        f = kw["factor"]
        nd = len(dims)
        model.scale(np.full(nd, float(f)) if np.isscalar(f) else np.asarray(f, float),
                    kw["reference_point"])
    else:
        model.rotate(dims.index(kw["ax1"]), dims.index(kw["ax2"]), int(kw["k"]), kw["reference_point"])


def history(ctx, obj, model, dims, kinds, target=None, label="region"):
    """``target`` maps a step kind to 'self' or 'mesh' (field histories)."""
    rng = ctx.rng
    nsteps = int(rng.integers(2, 21 if ctx.thorough else 9))
    used, n_inplace, neg, ref = set(), 0, False, False
    ancestors = []  # (object, digest) of the receivers of earlier copying steps
    log = []
    check_quiescent(ctx, obj, -1)
    check_model(ctx, obj, model, -1)
    for step in range(nsteps):
        # rule R7: a history whose accumulated rounding error (magnified by large
        # factors about far-away points) exceeds 1e-9 cell is not generated - no
        # float64 implementation keeps region and subregions aligned there
        for _ in range(10):
            kind, kw = rand_step(rng, model, dims, kinds)
            keep = (model.array, model.valid)
            model.array = model.valid = None
            trial = copy.deepcopy(model)
            model.array, model.valid = keep
            apply_model(trial, kind, kw, dims)
            if trial.cond() < 1e-9:
                break
        else:
            ctx.event("history_ended_ill_conditioned")
            break
        inplace = bool(rng.random() < 0.5)
        on_mesh = target is not None and target[kind] == "mesh"
        if on_mesh:
            inplace = True  # a field has no copying translate/scale: its mesh moves in place
        log.append({"kind": kind, "inplace": inplace, **kw})
        used.add(kind)
        f = kw.get("factor")
        neg = neg or (f is not None and bool(np.any(np.asarray(f, float) < 0)))
        ref = ref or kw.get("reference_point") is not None
        # the in-place form runs on the object itself when the history continues in place
        # (so that objects returned by earlier copying steps are the ones being modified:
        # anything they still share with their originals shows), else on a clone
        clone = obj if inplace else clone_of(obj)
        d0 = core.digest(obj)
        recv = obj._mesh if on_mesh else obj
        recv_clone = clone._mesh if on_mesh else clone
        what = {"object": label, "form": "copy", "kind": kind, "log": log, "n": getattr(model, "n", None),
                "cond_region": float(trial.cond_region()), "cond_cell": float(trial.cond()),
                "pmin": state(obj)["pmin"], "pmax": state(obj)["pmax"],
                "subs": state(obj).get("subs")}
        if not on_mesh:
            ok, cp = ctx.expect_ok("C13.step_accepted", getattr(recv, kind), what=what, **kw)
            if not ok:
                break
            ctx.check("C13.copy_leaves_original", core.digest(obj) == d0, step=step, log=log,
                      object=label)
            ctx.check("C13.copy_is_new_object", cp is not obj, step=step, log=log)
        ok, ret = ctx.expect_ok("C13.step_accepted", getattr(recv_clone, kind),
                                what={**what, "form": "inplace"}, **kw, inplace=True)
        if not ok:
            break
        ctx.check("C13.inplace_returns_self", ret is recv_clone, step=step, log=log, object=label)
        apply_model(model, kind, kw, dims)
        if not on_mesh:
            diff = same_state(state(clone), state(cp), model.tol)
            ctx.check("C13.inplace_equals_copy", diff is None, differs_in=diff, step=step,
                      log=log, object=label, kind=kind,
                      inplace_state={k: v for k, v in state(clone).items() if k in ("pmin", "pmax", "units", "n")},
                      copy_state={k: v for k, v in state(cp).items() if k in ("pmin", "pmax", "units", "n")})
        for anc, danc in ancestors:
            ctx.check("C13.copy_leaves_original", core.digest(anc) == danc, step=step,
                      log=log, note="an earlier original changed by a later step on its copy")
        if inplace:
            n_inplace += 1
            obj = clone
        else:
            ancestors.append((obj, d0))
            ancestors[:] = ancestors[-4:]
            obj = cp
        check_quiescent(ctx, obj, step)
        check_model(ctx, obj, model, step)
        ctx.event("step." + kind + (".inplace" if inplace else ".copy"))
    ctx.sig((label, len(dims), tuple(sorted(used)), neg, ref, min(n_inplace, 3)),
            nontrivial=nsteps >= 2 and n_inplace >= 1)
    if ctx.i % 97 == 0:
        ctx.sample({"object": label, "dims": dims, "history": log})
    return obj


# -------------------------------------------------------------------- case kinds
def region_case(ctx):
    rng = ctx.rng
    spec = gen.rand_meshspec(rng, scale_decades=(-9, 3), dims="random")
    dims = spec.dim_names
    units = spec.units or ["m"] * spec.nd
    if rng.random() < 0.5:  # distinct units make unit swaps observable
        units = [f"u{k}" for k in range(spec.nd)]
    p1, p2 = spec.corners()
    kw = {}
    if rng.random() < 0.5:  # a non-default comparison tolerance must survive every step
        kw["tolerance_factor"] = float(gen.pick(rng, [1e-9, 1e-10, 1e-13]))
    region = df.Region(p1=p1, p2=p2, dims=spec.dims, units=units, **kw)
    model = Model(Box(spec.pmin, spec.pmax), units)
    kinds = ["translate", "scale", "rotate90"] if spec.nd > 1 else ["translate", "scale"]
    history(ctx, region, model, dims, kinds, label="region")


def mesh_case(ctx):
    rng = ctx.rng
    spec = gen.rand_meshspec(rng, n_max=5, scale_decades=(-9, 3))
    dims = spec.dim_names
    units = [f"u{k}" for k in range(spec.nd)] if rng.random() < 0.6 else (spec.units or ["m"] * spec.nd)
    spec.units = units
    boxes, regions = gen.rand_subregions(rng, spec, kmax=3)
    bc = gen.rand_bc(rng, dims)
    mesh = spec.mesh(subregions=regions, bc=bc)
    subs = {k: Box(spec.vertex(lo), spec.vertex(hi)) for k, (lo, hi) in boxes.items()}
    model = Model(Box(spec.pmin, spec.pmax), units, n=spec.n.copy(), subs=subs)
    kinds = ["translate", "scale", "rotate90"] if spec.nd > 1 else ["translate", "scale"]
    history(ctx, mesh, model, dims, kinds, label="mesh")


def field_case(ctx):
    rng = ctx.rng
    nd = int(rng.integers(2, 5))
    spec = gen.rand_meshspec(rng, nd=nd, n_max=4, scale_decades=(-9, 3))
    dims = spec.dim_names
    spec.units = [f"u{k}" for k in range(nd)]
    boxes, regions = gen.rand_subregions(rng, spec, kmax=2)
    mesh = spec.mesh(subregions=regions)
    n = tuple(int(k) for k in spec.n)
    nvdim = int(gen.pick(rng, [1, nd, nd, nd + 1 if nd < 4 else nd]))
    dtype = gen.pick(rng, ["float", "float", "complex"])
    arr = gen.rand_values(rng, (*n, nvdim), dtype)
    valid = gen.rand_valid(rng, n)
    kw, comp = {}, None
    if nvdim > 1:
        labels = gen.rand_vdims(rng, nvdim) or gen.default_vdims(nvdim)
        kw["vdims"] = labels
        perm = rng.permutation(nvdim)[:nd]  # axis k <- component perm[k]
        kw["vdim_mapping"] = {labels[j]: None for j in range(nvdim)}
        comp = {}
        for k in range(nd):
            kw["vdim_mapping"][labels[int(perm[k])]] = dims[k]
            comp[k] = int(perm[k])
        kw["vdim_mapping"] = gen.shuffle_keys(rng, kw["vdim_mapping"])
    field = df.Field(mesh, nvdim=nvdim, value=arr, valid=valid.copy(), **kw)
    subs = {k: Box(spec.vertex(lo), spec.vertex(hi)) for k, (lo, hi) in boxes.items()}
    model = Model(Box(spec.pmin, spec.pmax), spec.units, n=spec.n.copy(), subs=subs,
                  array=np.array(field.array), valid=valid.copy(), comp=comp)
    history(ctx, field, model, dims, ["rotate90", "rotate90", "translate", "scale"],
            target={"rotate90": "self", "translate": "mesh", "scale": "mesh"}, label="field")


def malformed_table(nd, dims, rng):
    good_v = [1.0] * nd
    t = [
        ("translate", {"vector": good_v + [1.0]}),
        ("translate", {"vector": "abc"[:nd] if nd <= 3 else "abcd"}),
        ("translate", {"vector": None}),
        ("translate", {"vector": [1.0] * (nd - 1) + ["a"]}),
        ("translate", {"vector": [1j] + [0.0] * (nd - 1)}),
        ("translate", {"vector": [good_v]}),
        ("scale", {"factor": [2.0] * (nd + 1)}),
        ("scale", {"factor": "a"}),
        ("scale", {"factor": None}),
        ("scale", {"factor": 0}),
        ("scale", {"factor": 0.0}),
        ("scale", {"factor": [2.0] * (nd - 1) + [0]}),
        ("scale", {"factor": [2.0] * (nd - 1) + ["a"]}),
        ("scale", {"factor": 2, "reference_point": [1.0] * (nd + 1)}),
        ("scale", {"factor": 2, "reference_point": "abcd"[:nd]}),
        ("scale", {"factor": 2, "reference_point": [1.0] * (nd - 1) + ["a"]}),
        ("scale", {"factor": 1j}),
        ("scale", {"factor": -0.0}),
        # numeric arrays of the wrong rank (a column vector, a matrix)
        ("scale", {"factor": np.full((nd, 1), 2.0)}),
        ("scale", {"factor": np.full((nd, nd), 2)}),
        ("translate", {"vector": np.ones((nd, 1))}),
        ("scale", {"factor": 2, "reference_point": np.zeros((nd, 1))}),
    ]
    if nd > 1:
        a, b = dims[0], dims[1]
        t += [
            ("translate", {"vector": good_v[:-1]}),
            ("scale", {"factor": [2.0] * (nd - 1)}),
            ("rotate90", {"ax1": a, "ax2": a}),
            ("rotate90", {"ax1": a, "ax2": "nope"}),
            ("rotate90", {"ax1": a, "ax2": b, "k": 1.5}),
            ("rotate90", {"ax1": a, "ax2": b, "k": "1"}),
            ("rotate90", {"ax1": a, "ax2": b, "reference_point": [1.0] * (nd + 1)}),
            ("rotate90", {"ax1": a, "ax2": b, "reference_point": "abcd"[:nd]}),
            ("rotate90", {"ax1": a, "ax2": b, "reference_point": 5}),
            ("rotate90", {"ax1": a, "ax2": b, "reference_point": ["a"] * nd}),
            ("rotate90", {"ax1": a, "ax2": b, "reference_point": [1 + 2j] + [0.0] * (nd - 1)}),
            ("rotate90", {"ax1": a, "ax2": b, "reference_point": [0.0] * (nd - 1) + [None]}),
            # a bad element on an axis that is not rotated (3-d and higher)
            ("rotate90", {"ax1": dims[0], "ax2": dims[1], "reference_point": [0.0] * (nd - 1) + ["a"]}),
        ]
    else:
        t += [("rotate90", {"ax1": dims[0], "ax2": dims[0]}),
              ("rotate90", {"ax1": dims[0], "ax2": "y"})]
    # the arguments that are NOT malformed take any legal value - including those for which
    # the step would be the identity (k a multiple of 4, factor 1): a malformed argument is
    # malformed whatever the others are
    out = []
    for name, kw in t:
        kw = dict(kw)
        if name == "rotate90" and "k" not in kw and rng.random() < 0.7:
            kw["k"] = int(rng.choice([0, 4, -4, 8, 2, -2, 3, -1, 5]))
        if name == "scale" and "reference_point" in kw and rng.random() < 0.7:
            kw["factor"] = gen.pick(rng, [1, 1.0, -1, 0.5, [1.0] * nd, [1] * nd])
        out.append((name, kw))
    return out


def malformed_case(ctx):
    rng = ctx.rng
    spec = gen.rand_meshspec(rng, n_max=4, scale_decades=(-6, 3))
    dims = spec.dim_names
    spec.units = [f"u{k}" for k in range(spec.nd)]
    boxes, regions = gen.rand_subregions(rng, spec, kmax=2)
    which = gen.pick(rng, ["region", "mesh", "field"])

    def make():
        if which == "region":
            return spec.region()
        mesh = spec.mesh(subregions=regions)
        if which == "mesh":
            return mesh
        return df.Field(mesh, nvdim=1, value=np.arange(int(np.prod(spec.n)), dtype=float)
                        .reshape(tuple(spec.n) + (1,)))

    table = malformed_table(spec.nd, dims, rng)
    for name, kw in table:
        if which == "field" and name != "rotate90":
            continue
        for inplace in (False, True):
            obj = make()
            ctx.expect_raises("C13.malformed_rejected", getattr(obj, name),
                              unchanged=[obj],
                              what={"object": which, "call": name, "args": kw, "inplace": inplace,
                                    "ndim": spec.nd},
                              **kw, inplace=inplace)
    # a vector field whose components are not mapped onto the rotation axes: refused (C12),
    # in both forms, without modifying the object
    if spec.nd >= 2:
        mesh = spec.mesh()
        nv = spec.nd + 1 if spec.nd < 4 else 2
        for inplace in (False, True):
            f = df.Field(mesh, nvdim=nv, value=np.ones(tuple(spec.n) + (nv,)))
            ctx.expect_raises("C13.malformed_rejected", f.rotate90, dims[0], dims[1],
                              unchanged=[f],
                              what={"object": "field", "call": "rotate90",
                                    "args": "vector field without component-to-axis mapping",
                                    "inplace": inplace, "ndim": spec.nd, "n": spec.n},
                              k=int(rng.choice([1, 2, 3])), inplace=inplace)
    # a step that would produce a degenerate region although every argument is well formed:
    # a region a million edge lengths from the origin, scaled by 1e-20 about its own centre -
    # the new edges are 1e-10 of the spacing of the floating-point numbers there, so both
    # corners are the centre whatever the order of the arithmetic
    sgn = rng.choice([-1.0, 1.0], spec.nd)
    far = gen.MeshSpec(sgn * 1e6 * spec.cell * spec.n, spec.cell, spec.n, spec.dims, spec.units,
                       spec.flip)
    tiny = float(gen.pick(rng, [1e-20, -1e-20, 1e-25]))
    for factor in (tiny, [tiny] * spec.nd, [1.0] * (spec.nd - 1) + [tiny]):
        for inplace in (False, True):
            obj = far.region() if which == "region" else far.mesh(bc="")
            if which == "field":
                obj = df.Field(obj, nvdim=1, value=1.0)
                if not hasattr(obj, "scale"):
                    break
            ctx.expect_raises("C13.malformed_rejected", obj.scale, unchanged=[obj],
                              what={"object": which, "call": "scale", "inplace": inplace,
                                    "args": {"factor": factor}, "degenerate_by_absorption": True,
                                    "ndim": spec.nd, "spec": far.describe()},
                              factor=factor, inplace=inplace)
    ctx.sig(("malformed", which, spec.nd), nontrivial=True)


def f29_witness(ctx):
    """Fixed witness of the repaired defect F29 (known_findings.json, 'fixed:' 42d3b52b):
    the copying forms re-attach the transformed subregions and refused them once their
    rounding error exceeded the region's 1e-12 comparison tolerance.  Executed as case 0
    of every run: every step must be accepted (a 'fixed:' entry suppresses nothing)."""
    cell = np.array([0.07928503324523198, 0.01884270559889971, 0.06676965309023948])
    n = np.array([2, 1, 1])
    spec = gen.MeshSpec(np.zeros(3), cell, n, ["x", "y", "w"], ["nm", "s", "K"], [False] * 3)
    mesh = spec.mesh(subregions={"s0": spec.box_region(np.array([1, 0, 0]), np.array([2, 1, 1]))})
    model = Model(Box(spec.pmin, spec.pmax), spec.units, n=n.copy(),
                  subs={"s0": Box(spec.vertex([1, 0, 0]), spec.vertex([2, 1, 1]))})
    steps = [
        ("scale", {"factor": 0.5, "reference_point": [36.88896988273779, -2.063172443113276, -6.975373546789243]}, True),
        ("rotate90", {"ax1": "w", "ax2": "y", "k": 8, "reference_point": [18.428718361258852, -1.0315815850020522, -3.4648201817435407]}, False),
        ("scale", {"factor": [0.5, -0.5, 3.0], "reference_point": None}, True),
        ("translate", {"vector": [-0.02104439032630129, -0.0035955013605145267, 0.08831881655575313]}, True),
        ("scale", {"factor": 1000.0, "reference_point": [18.465590081103688, -1.027795709946528, -3.4620629752886645]}, False),
        ("scale", {"factor": [-3.0, 2.0, 1.7], "reference_point": None}, False),
        ("translate", {"vector": [44.66349631046656, 4.558697392936265, -55.03510122386178]}, False),
    ]
    log = []
    for kind, kw, inplace in steps:
        log.append({"kind": kind, "inplace": inplace, **kw})
        apply_model(model, kind, kw, ["x", "y", "w"])
        what = {"object": "mesh", "form": "inplace" if inplace else "copy", "kind": kind, "log": log,
                "cond_region": float(model.cond_region()), "cond_cell": float(model.cond()),
                "witness_of": "F29"}
        ok, res = ctx.expect_ok("C13.step_accepted", getattr(mesh, kind), what=what, **kw,
                                inplace=inplace)
        if not ok:
            return
        mesh = res


def run_case(ctx, i):
    if i == 0:
        f29_witness(ctx)
    kind = i % 4
    if kind == 0:
        region_case(ctx)
    elif kind == 1:
        mesh_case(ctx)
    elif kind == 2:
        field_case(ctx)
    else:
        malformed_case(ctx)
