"""C05 - grad, div, curl and Laplacian are the textbook combinations of the derivatives."""

META = {
    "property": "C05",
    "level": "exploration",
    "rule": (
        "case i of seed s is generated from default_rng([s, i]); i%5 selects the kind "
        "(0: analytic quadratic fields on fully valid open meshes with >= 3 cells per "
        "direction; 1: combination identity against Field.diff itself, any n, masks, periodic "
        "directions, subregions; 2: curl grad = 0 and div curl = 0 on random data, 3-d fully "
        "valid, open or periodic; 3: commutation of all four operators with rotate90, every "
        "ordered axis pair, k in [-5,5]; 4: refusals). Meshes are 1-4-d with anisotropic cells "
        "(decade 1e-9..1e3), renamed/permuted dimension names, arbitrary component labels and "
        "a random permutation as component-to-axis mapping. Signature = (kind, ndim, "
        "min(n,3) per axis, label pool, mapping is identity?, periodic, has_invalid, "
        "has_subregions, k mod 4 for kind 3); a case is non-trivial when some axis has >= 3 "
        "cells (>= 2 for kinds 1-3) so that derivatives are not identically zero."
    ),
    "cases": {"quick": 400, "thorough": 8000},
    "workers": {"quick": 8, "thorough": 16},
    "timeout": {"quick": 600, "thorough": 5400},
    "deciding": [
        "C05.analytic.grad",
        "C05.analytic.laplace",
        "C05.analytic.div",
        "C05.analytic.curl",
        "C05.combination.grad",
        "C05.combination.div",
        "C05.combination.curl",
        "C05.combination.laplace",
        "C05.identity.curl_grad",
        "C05.identity.div_curl",
        "C05.commute.grad",
        "C05.commute.div",
        "C05.commute.curl",
        "C05.commute.laplace",
        "C05.commute.laplace_vector",
        "C05.laplace.vector_mapping",
        "C05.refused.grad_of_vector",
        "C05.refused.div_dimension",
        "C05.refused.curl_dimension",
        "C05.refused.unmapped",
    ],
    "ambient": {"quick": [], "thorough": []},
    "anchor_files": ["discretisedfield/field.py"],
    "assumptions": [
        "Field.diff is decided by C04; the combination oracle uses it as the reference for "
        "the directional derivatives (4 ulp of the summed magnitudes)",
        "vector-valued results are compared per *physical axis*: the component that the "
        "result's own component-to-axis mapping assigns to an axis (position i <-> axis i "
        "when the result has no complete mapping)",
        "analytic fields are quadratic forms in the cell coordinates measured from the mesh "
        "centre in units of the cell (any polynomial of degree <= 2 can be written so); "
        "tolerance 1e-9 of max|f|/min(cell)^order",
        "a mapping that sends two components to the same axis is not judged (rule R5)",
        "periodic directions need single-character dimension names",
    ],
}

import itertools  # noqa: E402

import numpy as np  # noqa: E402

import discretisedfield as df  # noqa: E402
from workloads import gen  # noqa: E402

EPS = np.finfo(float).eps
SINGLE_CHAR_POOLS = [["x", "y", "z", "w"], ["a", "b", "c", "d"], ["z", "x", "y", "w"],
                     ["y", "z", "x", "t"], ["p", "q", "r", "s"]]
LABEL_POOLS = {
    1: [["m0"], ["q0"]],
    2: [None, ["a", "b"], ["my", "mx"], ["v_1", "v_2"], ["y", "x"]],
    3: [None, ["a", "b", "c"], ["mz", "mx", "my"], ["v_1", "v_2", "v_3"], ["z", "x", "y"],
        ["y", "z", "x"]],
    4: [None, ["a", "b", "c", "d"], ["m_x", "m_y", "m_z", "m_t"], ["v3", "v2", "v1", "v0"]],
}


# ------------------------------------------------------------------ generators
def rand_mesh(ctx, nd=None, nd_range=(1, 4), min_n=1, n_max=5, periodic=False, subs=False,
              max_cells=400):
    rng = ctx.rng
    spec = gen.rand_meshspec(rng, nd=nd, nd_range=nd_range, n_max=n_max, min_n=min_n,
                             max_cells=max_cells, scale_decades=(-9, 3), dims="default")
    nd = spec.nd
    if periodic or rng.random() < 0.4:
        pool = gen.pick(rng, SINGLE_CHAR_POOLS)
        spec.dims = [pool[j] for j in rng.permutation(4)[:nd]]
    else:
        spec.dims = gen.rand_dims(rng, nd)
    names = spec.dim_names
    bc = ""
    if periodic:
        bc = "".join(d for d in names if rng.random() < 0.5) or names[int(rng.integers(0, nd))]
    subregions = None
    if subs:
        _, subregions = gen.rand_subregions(rng, spec, kmax=2)
        if not subregions:
            lo, hi = gen.rand_box(rng, spec.n)
            subregions = {"only": spec.box_region(lo, hi)}
        if rng.random() < 0.7:
            # a subregion that is exactly the first / last layer of cells along one axis
            lo, hi = gen.rand_box(rng, spec.n)
            j = int(rng.integers(0, nd))
            lo[j], hi[j] = (0, 1) if rng.random() < 0.7 else (spec.n[j] - 1, spec.n[j])
            subregions["layer"] = spec.box_region(lo, hi)
    return spec, spec.mesh(subregions=subregions, bc=bc), names, bc


def rand_labels(rng, nv):
    return gen.pick(rng, LABEL_POOLS[nv])


def label_list(labels, nv):
    return list(labels) if labels is not None else gen.default_vdims(nv)


def vector_field(rng, mesh, names, arr, valid=None, identity=None):
    """nv == nd vector field with random labels and a random permutation mapping.

    Returns (field, perm) with  labels[j] -> names[perm[j]]."""
    nd = len(names)
    labels = rand_labels(rng, nd)
    ll = label_list(labels, nd)
    if identity is None:
        identity = rng.random() < 0.25
    perm = np.arange(nd) if identity else rng.permutation(nd)
    mapping = gen.shuffle_keys(rng, {ll[j]: names[int(perm[j])] for j in range(nd)})
    kw = {} if valid is None else {"valid": valid.copy()}
    f = gen.via_history(None, df.Field(mesh, nvdim=nd, value=arr,
                                       vdims=ll if (labels is not None or nd == 1) else None,
                                       vdim_mapping=mapping, **kw))
    return f, [int(p) for p in perm]


def phys(field, names):
    """Array (*n, len(names)) of the components along each mesh axis according to the
    field's own mapping; positional when the mapping is not a complete bijection."""
    nv = field.nvdim
    if nv == 1:
        return field.array
    vm = field.vdim_mapping or {}
    rev = {v: k for k, v in vm.items()}
    if nv == len(names) and all(d in rev for d in names) and field.vdims is not None:
        return np.stack([field.array[..., field.vdims.index(rev[d])] for d in names], axis=-1)
    return field.array


def sig(ctx, kind, spec, extra=(), min_cells=3):
    ctx.sig((kind, spec.nd, tuple(int(min(k, 3)) for k in spec.n)) + tuple(extra),
            nontrivial=bool(np.any(spec.n >= min_cells)))


# ------------------------------------------------------------------ kind 0: analytic
def analytic(ctx, large=False):
    rng = ctx.rng
    nd = 3 if large else int(rng.integers(1, 5))
    spec, mesh, names, _ = rand_mesh(ctx, nd=nd, min_n=3, n_max=5 if nd < 4 else 4,
                                     max_cells=700)
    if large:
        # several thousand grid lines along every direction (sizes at which a blocked or
        # vectorised implementation has more than one block and a partial last one)
        n_new = np.array([int(rng.integers(3, 6)), int(rng.integers(65, 76)),
                          int(rng.integers(66, 77))])[rng.permutation(3)]
        spec = gen.MeshSpec(spec.pmin, spec.cell, n_new, spec.dims, spec.units, spec.flip)
        mesh = spec.mesh()
        ctx.event("large_meshes")
    n = tuple(int(k) for k in spec.n)
    cell = np.asarray(mesh.cell, dtype=float)
    # cell coordinates from the centre, in units of the cell: exact half-integers
    S = np.stack(np.meshgrid(*[np.arange(k) - (k - 1) / 2 for k in n], indexing="ij"), axis=-1)
    mag = 10.0 ** rng.uniform(-3, 3)

    def randpoly():
        A = rng.normal(size=(nd, nd))
        A = (A + A.T) / 2
        b = rng.normal(size=nd) * 3
        c = rng.normal() * 3
        if rng.random() < 0.3:  # an almost uniform field: large constant, small variation
            c += float(rng.choice([-1, 1])) * 10.0 ** rng.uniform(3, 6)
        val = mag * (np.einsum("...i,ij,...j->...", S, A, S) + S @ b + c)
        grad = mag * (2 * S @ A + b) / cell          # d/dx_i
        lap = mag * float(np.sum(2 * np.diag(A) / cell**2))
        return val, grad, lap

    val, grad, lap = randpoly()
    f = df.Field(mesh, nvdim=1, value=val[..., None])
    fmax = np.max(np.abs(val))
    t1 = 1e-9 * fmax / np.min(cell)
    t2 = 1e-9 * fmax / np.min(cell) ** 2
    info = {"ndim": nd, "n": n, "cell": cell, "dims": names}
    g = f.grad
    ctx.check("C05.analytic.grad",
              g.nvdim == nd and g.array.shape == grad.shape
              and np.all(np.abs(phys(g, names) - grad) <= t1),
              maxerr_over_scale=_md(phys(g, names), grad) / (fmax / np.min(cell)),
              result_vdims=g.vdims, result_mapping=g.vdim_mapping, **info)
    la = f.laplace
    ctx.check("C05.analytic.laplace",
              la.nvdim == 1 and np.all(np.abs(la.array[..., 0] - lap) <= t2),
              operand="scalar", got=la.array.ravel()[:4], expected=lap, **info)

    comps = [randpoly() for _ in range(nd)]  # comps[a]: the component along axis a
    arrp = np.stack([c[0] for c in comps], axis=-1)  # physical order
    labels_perm_field, perm = vector_field(rng, mesh, names, np.zeros((*n, nd)))
    arr = np.stack([comps[perm[j]][0] for j in range(nd)], axis=-1)
    v = df.Field(mesh, nvdim=nd, value=arr, vdims=labels_perm_field.vdims,
                 vdim_mapping=labels_perm_field.vdim_mapping)
    fmax = np.max(np.abs(arrp))
    t1 = 1e-9 * fmax / np.min(cell)
    t2 = 1e-9 * fmax / np.min(cell) ** 2
    info.update(vdims=v.vdims, mapping=v.vdim_mapping, perm=perm,
                mapping_is_identity=perm == list(range(nd)))
    sig(ctx, "analytic", spec, (str(v.vdims), info["mapping_is_identity"]))
    ctx.sample({"kind": "analytic", **{k: info[k] for k in ("ndim", "n", "dims", "vdims",
                                                               "mapping")}})
    dv = v.div
    exp = sum(comps[a][1][..., a] for a in range(nd))
    ctx.check("C05.analytic.div",
              dv.nvdim == 1 and np.all(np.abs(dv.array[..., 0] - exp) <= t1),
              maxerr_over_scale=_md(dv.array[..., 0], exp) / (fmax / np.min(cell)), **info)
    if nd == 3:
        G = [comps[a][1] for a in range(3)]  # G[a][..., j] = d v_a / d x_j
        expc = np.stack([G[2][..., 1] - G[1][..., 2], G[0][..., 2] - G[2][..., 0],
                         G[1][..., 0] - G[0][..., 1]], axis=-1)
        cu = v.curl
        ctx.check("C05.analytic.curl",
                  cu.nvdim == 3 and np.all(np.abs(phys(cu, names) - expc) <= t1),
                  maxerr_over_scale=_md(phys(cu, names), expc) / (fmax / np.min(cell)),
                  result_vdims=cu.vdims, result_mapping=cu.vdim_mapping, **info)
    if nd > 1:
        lv = v.laplace
        # minimal claim: component j of the result is the Laplacian of component j
        expl = np.stack([np.full(n, comps[perm[j]][2]) for j in range(nd)], axis=-1)
        ctx.check("C05.analytic.laplace",
                  lv.nvdim == nd and np.all(np.abs(lv.array - expl) <= t2),
                  operand="vector", by="position", **info)
        check_vector_laplace_mapping(ctx, v, lv, names, info)
        # history: a field derived from v is relabelled / re-mapped afterwards.  The operand
        # is an object of its own: its labels and its component-to-axis mapping stay, and
        # its divergence is still the textbook one.
        from dfmon import core
        d0 = core.field_digest(v)
        how = gen.pick(rng, ["diff", "neg", "scaled", "laplace", "pad", "rotate90_k4"])
        g = {"diff": lambda: v.diff(names[0]), "neg": lambda: -v, "scaled": lambda: v * 2.0,
             "laplace": lambda: lv,
             "pad": lambda: v.pad({names[0]: (1, 1)}, mode="constant"),
             "rotate90_k4": lambda: v.rotate90(names[0], names[1], k=4)}[how]()
        old = list(g.vdims)
        new = gen.pick(rng, [old[1:] + old[:1], old[::-1], [f"n{j}" for j in range(nd)]])
        okr, _ = ctx.expect_ok("C05.history.relabel_accepted", setattr, g, "vdims", new,
                               what=dict(info, derived_by=how, new_labels=new))
        if okr and rng.random() < 0.5:
            g.vdim_mapping = {}
        ctx.check("C05.history.operand_keeps_labels_and_mapping", core.field_digest(v) == d0,
                  derived_by=how, new_labels=new, operand_vdims=v.vdims,
                  operand_mapping=dict(v.vdim_mapping), **{k: info[k] for k in ("ndim", "n", "perm")})
        okd, dv2 = ctx.expect_ok("C05.history.div_accepted", lambda: v.div,
                                 what=dict(info, derived_by=how, new_labels=new))
        if okd:
            ctx.check("C05.history.div_unchanged", np.array_equal(dv2.array, dv.array),
                      derived_by=how, new_labels=new, **{k: info[k] for k in ("ndim", "n", "perm")})
        # history: the field itself (a twin with the mapping written in another key order) is
        # relabelled: the components keep their axes - a label is a name, the pairing with an
        # axis is what the mapping says - so the divergence is the same field as before
        old = list(v.vdims)
        vm = dict(v.vdim_mapping)
        w = df.Field(v.mesh, nvdim=nd, value=v.array, vdims=old, valid=v.valid,
                     vdim_mapping=gen.shuffle_keys(rng, vm, p=1.0))
        new = gen.pick(rng, [old[1:] + old[:1], old[::-1], [f"w{j}" for j in range(nd)]])
        okr, _ = ctx.expect_ok("C05.history.relabel_accepted", setattr, w, "vdims", new,
                               what=dict(info, relabelled="twin of the operand", new_labels=new,
                                         mapping_as_written=dict(w.vdim_mapping)))
        if okr:
            expm = {new[j]: vm[old[j]] for j in range(nd)}
            okd, dw = ctx.expect_ok("C05.history.div_accepted", lambda: w.div,
                                    what=dict(info, relabelled="twin", new_labels=new))
            ctx.check("C05.history.relabelled_keeps_axes",
                      dict(w.vdim_mapping) == expm and (not okd or np.array_equal(dw.array, dv.array)),
                      new_labels=new, old_labels=old, mapping_before=vm,
                      mapping_after=dict(w.vdim_mapping), expected_mapping=expm,
                      **{k: info[k] for k in ("ndim", "n", "perm")})


def check_vector_laplace_mapping(ctx, v, lv, names, info):
    """The Laplacian of a vector field is again a vector field: its component along an
    axis must be the Laplacian of the operand's component along that axis, so the
    result's mapping has to pair positions with the same axes as the operand's."""
    vm, rm = v.vdim_mapping or {}, lv.vdim_mapping or {}
    if not vm or v.vdims is None:
        return
    if not rm or lv.vdims is None:
        return  # result makes no claim about axes
    same = all(rm.get(lv.vdims[j]) == vm.get(v.vdims[j]) for j in range(v.nvdim))
    ctx.check("C05.laplace.vector_mapping", same,
              what="vector Laplacian: result component j is the Laplacian of operand "
                   "component j but the result maps it to a different axis",
              operand_vdims=v.vdims, operand_mapping=vm, result_vdims=lv.vdims,
              result_mapping=rm, op="laplace", nvdim=v.nvdim,
              mapping_is_identity=info.get("mapping_is_identity"))


def _md(a, b):
    a, b = np.asarray(a), np.asarray(b)
    if a.shape != b.shape:
        return float("inf")
    return float(np.max(np.abs(a - b))) if a.size else 0.0


# ------------------------------------------------------------------ kind 1: combination
def combination(ctx, i):
    rng = ctx.rng
    periodic = rng.random() < 0.4
    subs = (i // 5) % 2 == 1
    spec, mesh, names, bc = rand_mesh(ctx, min_n=1, n_max=5, periodic=periodic, subs=subs)
    nd = spec.nd
    n = tuple(int(k) for k in spec.n)
    cell = np.asarray(mesh.cell, dtype=float)
    valid = gen.rand_valid(rng, n, gen.pick(rng, ["all", "all", "random", "dense"]))
    mag = 10.0 ** rng.uniform(-3, 3)
    info = {"ndim": nd, "n": n, "dims": names, "bc": bc, "periodic": bool(bc),
            "has_invalid": bool(not valid.all()), "has_subregions": subs}

    def comp_field(a):
        return df.Field(mesh, nvdim=1, value=a[..., None], valid=valid.copy())

    def d(a, ax, order=1):
        return comp_field(a).diff(names[ax], order=order).array[..., 0]

    def near(got, terms):
        exp = sum(terms[1:], terms[0])
        scale = sum(np.max(np.abs(t)) if t.size else 0.0 for t in terms)
        return got.shape == exp.shape and bool(np.all(np.abs(got - exp) <= 4 * EPS * scale)), exp

    s = rng.normal(size=n) * mag
    f = comp_field(s)
    okc, g = ctx.expect_ok("C05.operator.accepted", lambda: f.grad,
                           what=dict(info, op="grad"))
    if not okc:
        sig(ctx, "combination", spec, ("raised", subs), 2)
        return
    ok = g.nvdim == nd
    for a in range(nd):
        ok = ok and np.array_equal(phys(g, names)[..., a] if nd > 1 else g.array[..., 0],
                                   d(s, a))
    ctx.check("C05.combination.grad", ok, result_vdims=g.vdims,
              result_mapping=g.vdim_mapping, **info)
    okl, exp = near(f.laplace.array[..., 0], [d(s, a, 2) for a in range(nd)])
    ctx.check("C05.combination.laplace", okl, operand="scalar", **info)

    arr = rng.normal(size=(*n, nd)) * mag
    v, perm = vector_field(rng, mesh, names, arr, valid)
    inv = {perm[j]: j for j in range(nd)}  # axis -> position of the component along it
    info.update(vdims=v.vdims, mapping=v.vdim_mapping, perm=perm,
                mapping_is_identity=perm == list(range(nd)))
    sig(ctx, "combination", spec, (str(v.vdims), info["mapping_is_identity"], bool(bc),
                                   info["has_invalid"], subs), 2)
    ctx.sample({"kind": "combination", **{k: info[k] for k in ("ndim", "n", "dims", "bc",
                                                                  "vdims", "mapping")}})
    dv = v.div
    okd, exp = near(dv.array[..., 0], [d(arr[..., j], perm[j]) for j in range(nd)])
    ctx.check("C05.combination.div", okd and dv.nvdim == 1,
              maxdiff=_md(dv.array[..., 0], exp), **info)
    if nd == 3:
        cu = v.curl
        pc = phys(cu, names)
        ok = cu.nvdim == 3
        for a in range(3):
            b, c = (a + 1) % 3, (a + 2) % 3
            # (curl v)_a = d v_c / d x_b - d v_b / d x_c
            t1, t2 = d(arr[..., inv[c]], b), d(arr[..., inv[b]], c)
            sc = np.max(np.abs(t1)) + np.max(np.abs(t2))
            ok = ok and bool(np.all(np.abs(pc[..., a] - (t1 - t2)) <= 4 * EPS * sc))
        ctx.check("C05.combination.curl", ok, result_vdims=cu.vdims,
                  result_mapping=cu.vdim_mapping, **info)
    if nd > 1:
        lv = v.laplace
        ok = lv.nvdim == nd
        for j in range(nd):
            okj, _ = near(lv.array[..., j], [d(arr[..., j], a, 2) for a in range(nd)])
            ok = ok and okj
        ctx.check("C05.combination.laplace", ok, operand="vector", by="position", **info)
        check_vector_laplace_mapping(ctx, v, lv, names, info)


# ------------------------------------------------------------------ kind 2: identities
def identities(ctx):
    rng = ctx.rng
    periodic = rng.random() < 0.4
    spec, mesh, names, bc = rand_mesh(ctx, nd=3, min_n=1, n_max=6, periodic=periodic)
    n = tuple(int(k) for k in spec.n)
    cell = np.asarray(mesh.cell, dtype=float)
    mag = 10.0 ** rng.uniform(-3, 3)
    info = {"n": n, "cell": cell, "dims": names, "bc": bc, "periodic": bool(bc)}
    s = rng.normal(size=(*n, 1)) * mag
    rf = df.Field(mesh, nvdim=1, value=s)
    cg = rf.grad.curl
    bound = 1e-9 * np.max(np.abs(s)) / np.min(cell) ** 2
    ctx.check("C05.identity.curl_grad", np.max(np.abs(cg.array)) <= bound,
              max_abs=float(np.max(np.abs(cg.array))), bound=bound, **info)
    arr = rng.normal(size=(*n, 3)) * mag
    v, perm = vector_field(rng, mesh, names, arr)
    dc = v.curl.div
    bound = 1e-9 * np.max(np.abs(arr)) / np.min(cell) ** 2
    sig(ctx, "identities", spec, (str(v.vdims), perm == [0, 1, 2], bool(bc)), 2)
    ctx.check("C05.identity.div_curl", np.max(np.abs(dc.array)) <= bound,
              max_abs=float(np.max(np.abs(dc.array))), bound=bound, vdims=v.vdims,
              mapping=v.vdim_mapping, **info)


# ------------------------------------------------------------------ kind 3: rotations
def commutation(ctx, i):
    rng = ctx.rng
    nd = int(rng.integers(2, 5))
    periodic = rng.random() < 0.25
    spec, mesh, names, bc = rand_mesh(ctx, nd=nd, min_n=1, n_max=5, periodic=periodic)
    n = tuple(int(k) for k in spec.n)
    cell = np.asarray(mesh.cell, dtype=float)
    pairs = list(itertools.permutations(range(nd), 2))
    a, b = pairs[(i // 5) % len(pairs)]
    k = int(rng.integers(-5, 6))
    if bc and k % 2 == 1 and (names[a] in bc) != (names[b] in bc):
        # the periodic direction would have to move with the rotation; the statement does
        # not say what bc does under rotation: keep the pair both periodic or both open
        k += 1
    ref = None
    if rng.random() < 0.5:
        ref = tuple((spec.pmin + rng.uniform(-2, 3, nd) * spec.edges).tolist())
    mag = 10.0 ** rng.uniform(-3, 3)
    info = {"ndim": nd, "n": n, "dims": names, "ax1": names[a], "ax2": names[b], "k": k,
            "reference": "default" if ref is None else "arbitrary", "bc": bc}

    def rot(fld):
        return fld.rotate90(names[a], names[b], k=k, reference_point=ref)

    def same(name, lhs, rhs, order, fmax, **kw):
        tol = 1e-9 * fmax / np.min(cell) ** order
        pl, pr = phys(lhs, names), phys(rhs, names)
        ok = (pl.shape == pr.shape and np.array_equal(lhs.mesh.n, rhs.mesh.n)
              and np.allclose(lhs.mesh.region.pmin, rhs.mesh.region.pmin, rtol=0,
                              atol=1e-9 * np.min(cell))
              and bool(np.all(np.abs(pl - pr) <= tol)))
        ctx.check(name, ok, maxdiff_over_scale=_md(pl, pr) / (fmax / np.min(cell) ** order)
                  if pl.shape == pr.shape else "shape", lhs="op(rotate90(f))",
                  rhs="rotate90(op(f))", lhs_mapping=lhs.vdim_mapping,
                  rhs_mapping=rhs.vdim_mapping, **kw, **info)

    s = rng.normal(size=(*n, 1)) * mag
    f = df.Field(mesh, nvdim=1, value=s)
    fm = float(np.max(np.abs(s)))
    same("C05.commute.grad", rot(f).grad, rot(f.grad), 1, fm, op="grad")
    same("C05.commute.laplace", rot(f).laplace, rot(f.laplace), 2, fm, op="laplace",
         nvdim=1)
    arr = rng.normal(size=(*n, nd)) * mag
    v, perm = vector_field(rng, mesh, names, arr)
    fm = float(np.max(np.abs(arr)))
    ident = perm == list(range(nd))
    info.update(vdims=v.vdims, mapping=v.vdim_mapping, mapping_is_identity=ident)
    sig(ctx, "commutation", spec, (str(v.vdims), ident, bool(bc), k % 4), 2)
    ctx.sample({"kind": "commutation", **info})
    same("C05.commute.div", rot(v).div, rot(v.div), 1, fm, op="div")
    if nd == 3:
        same("C05.commute.curl", rot(v).curl, rot(v.curl), 1, fm, op="curl")
    same("C05.commute.laplace_vector", rot(v).laplace, rot(v.laplace), 2, fm, op="laplace",
         nvdim=nd)


# ------------------------------------------------------------------ kind 4: refusals
def refusals(ctx):
    rng = ctx.rng
    spec, mesh, names, _ = rand_mesh(ctx, min_n=1, n_max=4)
    nd = spec.nd
    n = tuple(int(k) for k in spec.n)
    sig(ctx, "refusals", spec, (), 1)

    def fld(nv, **kw):
        return df.Field(mesh, nvdim=nv, value=rng.normal(size=(*n, nv)), **kw)

    # gradient of a vector field
    nv = int(rng.integers(2, 5))
    v = fld(nv, vdims=gen.rand_vdims(rng, nv))
    ctx.expect_raises("C05.refused.grad_of_vector", lambda: v.grad, unchanged=[v],
                      what={"nvdim": nv, "ndim": nd})
    # divergence with nvdim != ndim
    nv = gen.pick(rng, [k for k in (1, 2, 3, 4) if k != nd])
    v = fld(nv)
    ctx.expect_raises("C05.refused.div_dimension", lambda: v.div, unchanged=[v],
                      what={"nvdim": nv, "ndim": nd})
    # curl off 3 x 3
    if nd != 3:
        v = fld(3)
        ctx.expect_raises("C05.refused.curl_dimension", lambda: v.curl, unchanged=[v],
                          what={"nvdim": 3, "ndim": nd})
    else:
        nv = gen.pick(rng, [1, 2, 4])
        v = fld(nv)
        ctx.expect_raises("C05.refused.curl_dimension", lambda: v.curl, unchanged=[v],
                          what={"nvdim": nv, "ndim": nd})
    # fewer components than axes, every component mapped onto an axis of its own: the
    # component dimension still does not fit the operator
    if nd >= 2:
        nv = int(rng.integers(1, nd))
        lab = label_list(rand_labels(rng, nv), nv)
        axes = [int(x) for x in rng.permutation(nd)[:nv]]
        mp = {lab[j]: names[axes[j]] for j in range(nv)}
        v = fld(nv, vdims=lab, vdim_mapping=mp)
        ctx.expect_raises("C05.refused.div_dimension", lambda: v.div, unchanged=[v],
                          what={"nvdim": nv, "ndim": nd, "mapping": mp,
                                "all_components_mapped": True})
    if nd == 4:
        lab = label_list(rand_labels(rng, 3), 3)
        axes = [int(x) for x in rng.permutation(4)[:3]]
        mp = {lab[j]: names[axes[j]] for j in range(3)}
        v = fld(3, vdims=lab, vdim_mapping=mp)
        ctx.expect_raises("C05.refused.curl_dimension", lambda: v.curl, unchanged=[v],
                          what={"nvdim": 3, "ndim": 4, "mapping": mp,
                                "all_components_mapped": True})
    # more components than axes, every AXIS covered by a component of its own (what a plane
    # cut of a 3-d vector field looks like): the surplus component does not fit the operator
    if nd <= 3:
        nv = int(rng.integers(nd + 1, 5))
        lab = label_list(rand_labels(rng, nv), nv)
        order = [int(x) for x in rng.permutation(nv)]
        surplus = gen.pick(rng, [None, "nowhere", "off_" + names[0]])
        mp = {lab[c]: (names[j] if j < nd else surplus) for j, c in enumerate(order)}
        try:
            v = fld(nv, vdims=lab, vdim_mapping=gen.shuffle_keys(rng, mp))
        except Exception:  # noqa: BLE001 - a mapping the constructor refuses is no input
            v = None
            ctx.event("surplus_mapping_rejected_at_construction")
        if v is not None:
            what = {"nvdim": nv, "ndim": nd, "mapping": mp, "all_axes_covered": True}
            ctx.expect_raises("C05.refused.div_dimension", lambda: v.div, unchanged=[v], what=what)
            if nd == 3:
                ctx.expect_raises("C05.refused.curl_dimension", lambda: v.curl, unchanged=[v],
                                  what=what)
        # the same reached through the library: a plane cut keeps all components
        if nd >= 2 and all(k >= 1 for k in n):
            lab = label_list(rand_labels(rng, nd), nd)
            full = fld(nd, vdims=lab, vdim_mapping={lab[j]: names[j] for j in range(nd)})
            cut = full.sel(names[int(rng.integers(0, nd))])
            ctx.expect_raises("C05.refused.div_dimension", lambda: cut.div, unchanged=[cut],
                              what={"nvdim": nd, "ndim": nd - 1, "plane_cut": True})
    # nvdim == ndim but components not mapped onto the mesh axes
    labels = label_list(rand_labels(rng, nd), nd)
    good = {labels[j]: names[j] for j in range(nd)}
    j = int(rng.integers(0, nd))
    variants = {"missing": {}}
    part = dict(good)
    part[labels[j]] = None
    variants["partial_none"] = part
    foreign = dict(good)
    foreign[labels[j]] = gen.pick(rng, ["nowhere", "k_" + names[j], names[j] + "_"])
    variants["not_an_axis"] = foreign
    for vname, mp in variants.items():
        try:
            v = fld(nd, vdims=labels, vdim_mapping=mp)
        except Exception:  # noqa: BLE001 - refusing to build such a field is a refusal too
            ctx.event("unmapped_field_rejected_at_construction")
            continue
        if v.vdim_mapping == good:
            continue  # the library repaired the mapping: nothing unmapped to refuse
        what = {"mapping": mp, "variant": vname, "ndim": nd, "vdims": labels, "dims": names}
        ctx.expect_raises("C05.refused.unmapped", lambda: v.div, unchanged=[v],
                          what=dict(what, op="div"))
        if nd == 3:
            ctx.expect_raises("C05.refused.unmapped", lambda: v.curl, unchanged=[v],
                              what=dict(what, op="curl"))
    # scalar field on a 1-d mesh without labels: nothing is mapped
    if nd == 1:
        s = fld(1)
        ctx.expect_raises("C05.refused.unmapped", lambda: s.div, unchanged=[s],
                          what={"op": "div", "variant": "scalar_without_labels", "ndim": 1})


def run_case(ctx, i):
    if i % 400 == 211:
        return analytic(ctx, large=True)
    kind = i % 5
    if kind == 0:
        analytic(ctx)
    elif kind == 1:
        combination(ctx, i)
    elif kind == 2:
        identities(ctx)
    elif kind == 3:
        commutation(ctx, i)
    else:
        refusals(ctx)
