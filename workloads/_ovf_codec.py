"""Independent OVF 1.0 / 2.0 reader and writer (rule R1: written from the OOMMF
"OVF 1.0 format" / "OVF 2.0 format" chapters of the OOMMF user guide, *not* from
discretisedfield.io.ovf; nothing of the library is imported here).

The format in short
-------------------
* first line: ``# OOMMF: rectangular mesh v1.0`` (1.0) or ``# OOMMF OVF 2.0`` (2.0);
* ``# Segment count: 1``, ``# Begin: Segment``, ``# Begin: Header`` ... ``# End: Header``;
  every header line starts with ``#``; ``##`` starts a comment; records are
  ``# key: value`` (keys case-insensitive, blanks in keys ignored); empty ``#`` lines
  are allowed anywhere;
* rectangular mesh records: ``xbase/ybase/zbase`` (position of the first node = centre
  of the first cell), ``xstepsize..``, ``xnodes..``, bounding box ``xmin..zmax``,
  ``meshunit``; 1.0: ``valueunit``, ``valuemultiplier``, ``ValueRangeMinMag``,
  ``ValueRangeMaxMag`` and always 3 components; 2.0: ``valuedim``, ``valuelabels``
  (valuedim entries), ``valueunits`` (valuedim entries or one entry for all);
* data: ``# Begin: Data Text`` | ``# Begin: Data Binary 4`` | ``# Begin: Data Binary 8``;
  binary blocks start with the check value 1234567.0 (4 byte) / 123456789012345.0
  (8 byte); IEEE big-endian in 1.0, little-endian in 2.0; nodes are stored with the
  x index changing fastest, then y, then z, all components of a node together; the
  block is followed by a newline and ``# End: Data ...``, ``# End: Segment``.
"""

import struct

import numpy as np

CHECK = {4: 1234567.0, 8: 123456789012345.0}
MAGIC1 = "# OOMMF: rectangular mesh v1.0"
MAGIC2 = "# OOMMF OVF 2.0"


class OVFError(Exception):
    pass


class Decoded:
    """Result of :func:`decode`."""

    def __init__(self):
        self.version = None
        self.header = {}  # normalised key -> value string (last one wins; desc joined)
        self.mode = None  # "text" | "binary"
        self.nbytes = None
        self.n = None  # (nx, ny, nz)
        self.dim = None
        self.data = None  # (nx, ny, nz, dim) float64 (float32 values widened for bin4)
        self.raw = None  # the stored numbers in file order, file precision
        self.problems = []  # format deviations that do not stop decoding
        self.data_start = None  # byte offset of the first byte after "Begin: Data" line
        self.data_end = None  # byte offset just after the last data byte (binary only)

    def fl(self, key):
        return float(self.header[key])


def _norm_key(k):
    return "".join(k.split()).lower()


def decode(raw):
    """Decode the bytes of a single-segment OVF file.  Raises OVFError when the file
    cannot be decoded; milder deviations are collected in ``.problems``."""
    d = Decoded()
    pos = raw.find(b"\n")
    if pos < 0:
        raise OVFError("no first line")
    first = raw[:pos].decode("utf-8", "replace").rstrip("\r")
    if first.strip() == MAGIC2:
        d.version = 2
    elif first.strip().lower().replace(" ", "") == MAGIC1.lower().replace(" ", ""):
        d.version = 1
    else:
        raise OVFError(f"unknown magic line {first!r}")
    if first != (MAGIC2 if d.version == 2 else MAGIC1):
        d.problems.append(f"magic line spelled {first!r}")
    structure = []
    pos += 1
    while True:
        nl = raw.find(b"\n", pos)
        if nl < 0:
            raise OVFError("end of file inside the header")
        line = raw[pos:nl].decode("utf-8", "replace").rstrip("\r")
        pos = nl + 1
        if not line.startswith("#"):
            raise OVFError(f"header line without '#': {line!r}")
        if line.startswith("##"):
            continue
        body = line[1:]
        if "##" in body:
            body = body[: body.index("##")]
        if body.strip() == "":
            continue
        if ":" not in body:
            raise OVFError(f"header line without ':' {line!r}")
        key, val = body.split(":", 1)
        key, val = _norm_key(key), val.strip()
        if key in ("begin", "end"):
            what = " ".join(val.split()).lower()
            structure.append((key, what))
            if key == "begin" and what.startswith("data"):
                words = what.split()
                if len(words) >= 2 and words[1] == "text":
                    d.mode = "text"
                elif len(words) == 3 and words[1] == "binary" and words[2] in ("4", "8"):
                    d.mode, d.nbytes = "binary", int(words[2])
                else:
                    raise OVFError(f"unknown data block {val!r}")
                break
            continue
        if key == "desc" and "desc" in d.header:
            d.header["desc"] += "\n" + val
        else:
            d.header[key] = val
    d.data_start = pos
    want = [("begin", "segment"), ("begin", "header"), ("end", "header")]
    if structure[:3] != want:
        d.problems.append(f"segment/header structure {structure}")
    if d.header.get("segmentcount") != "1":
        d.problems.append(f"segment count {d.header.get('segmentcount')!r}")

    h = d.header
    required = ["meshtype", "meshunit"]
    for c in "xyz":
        required += [f"{c}base", f"{c}stepsize", f"{c}nodes", f"{c}min", f"{c}max"]
    required += ["title"]
    if d.version == 2:
        required += ["valuedim", "valuelabels", "valueunits"]
    else:
        required += ["valueunit", "valuemultiplier", "valuerangeminmag", "valuerangemaxmag"]
    missing = [k for k in required if k not in h]
    if missing:
        d.problems.append(f"missing header records {missing}")
    if h.get("meshtype", "rectangular").lower() != "rectangular":
        raise OVFError("not a rectangular mesh")
    try:
        d.n = tuple(int(h[f"{c}nodes"]) for c in "xyz")
        d.dim = int(h["valuedim"]) if d.version == 2 else 3
    except (KeyError, ValueError) as e:
        raise OVFError(f"nodes/valuedim unreadable: {e!r}") from None
    if min(d.n) < 1 or d.dim < 1:
        raise OVFError("non-positive nodes/valuedim")
    count = d.n[0] * d.n[1] * d.n[2] * d.dim

    if d.mode == "binary":
        nb = d.nbytes
        end = ">" if d.version == 1 else "<"
        code = "f" if nb == 4 else "d"
        if len(raw) < pos + nb:
            raise OVFError("file ends inside the check value")
        (chk,) = struct.unpack(end + code, raw[pos : pos + nb])
        if chk != CHECK[nb]:
            raise OVFError(f"check value {chk!r} != {CHECK[nb]!r}")
        pos += nb
        if len(raw) < pos + nb * count:
            raise OVFError("short data block")
        vals = np.frombuffer(raw, dtype=end + code, count=count, offset=pos)
        pos += nb * count
        d.data_end = pos
        d.raw = vals
        tail = raw[pos:].decode("utf-8", "replace")
        tl = [" ".join(t.replace(":", ": ").split()).lower() for t in tail.split("\n")
              if t.strip() not in ("", "#")]
        if not tail.startswith("\n"):
            d.problems.append("no newline after the binary block")
        if tl[:2] != [f"# end: data binary {nb}", "# end: segment"]:
            d.problems.append(f"trailer {tl[:3]}")
    else:
        toks = []
        ended = False
        rest = raw[pos:].decode("utf-8", "replace").split("\n")
        k = 0
        for k, line in enumerate(rest):
            s = line.strip()
            if s.startswith("#"):
                if " ".join(s.replace(":", ": ").split()).lower() == "# end: data text":
                    ended = True
                    break
                continue
            toks += s.split()
        if not ended:
            d.problems.append("no '# End: Data Text'")
        else:
            nxt = [" ".join(t.replace(":", ": ").split()).lower() for t in rest[k + 1 :]
                   if t.strip() not in ("", "#")]
            if nxt[:1] != ["# end: segment"]:
                d.problems.append(f"trailer {nxt[:2]}")
        if len(toks) != count:
            raise OVFError(f"{len(toks)} numbers in the text block, expected {count}")
        try:
            vals = np.array([float(t) for t in toks], dtype=float)
        except ValueError as e:
            raise OVFError(f"unreadable number: {e}") from None
        d.raw = vals
    nx, ny, nz = d.n
    # x fastest, then y, then z; components together
    d.data = np.asarray(d.raw, dtype=float).reshape(nz, ny, nx, d.dim).transpose(2, 1, 0, 3)
    return d


def geometry_problems(d):
    """Consistency of the rectangular-mesh records among themselves."""
    out = []
    eps = np.finfo(float).eps
    for k, c in enumerate("xyz"):
        try:
            lo, hi = d.fl(f"{c}min"), d.fl(f"{c}max")
            step, base, nodes = d.fl(f"{c}stepsize"), d.fl(f"{c}base"), d.n[k]
        except (KeyError, ValueError) as e:
            out.append(f"{c}: record unreadable ({e!r})")
            continue
        tol = 16 * eps * max(abs(lo), abs(hi)) + 1e-12 * abs(hi - lo)
        if not hi > lo:
            out.append(f"{c}max <= {c}min")
        if not step > 0:
            out.append(f"{c}stepsize not positive")
        if abs(base - (lo + step / 2)) > tol:
            out.append(f"{c}base {base!r} != {c}min + {c}stepsize/2 = {lo + step / 2!r}")
        if abs(nodes * step - (hi - lo)) > nodes * tol:
            out.append(f"{c}nodes*{c}stepsize = {nodes * step!r} != {c}max-{c}min = {hi - lo!r}")
    return out


# ------------------------------------------------------------------------- writer
def _num(x, fmt):
    x = float(x)
    if fmt == "repr":
        return repr(x)
    if fmt == "g17":
        return "%.17g" % x
    if fmt == "e16":
        return "%.16e" % x
    raise ValueError(fmt)


def encode(version, rep, pmin, cell, n, data, *, unit="A/m", labels=None, meshunit="m",
           style="oommf", numfmt="repr", title="m", valuemultiplier=1):
    """Bytes of an OVF file holding ``data`` (shape (nx, ny, nz, dim)).

    version 1|2, rep 'txt'|'bin4'|'bin8'; style 'oommf' (blank '#' lines, Desc records,
    '##' comment, leading blank in text rows, OOMMF record order) or 'mumax' (mumax3
    record order, a ``Desc`` record that contains a second colon, trailing blank in
    text rows).  ``unit=None`` writes an empty ``valueunits`` record (2.0 only).
    Returns (bytes, info) with info = dict(data_start, data_end).
    """
    n = [int(k) for k in n]
    data = np.asarray(data)
    dim = data.shape[-1]
    assert data.shape == (n[0], n[1], n[2], dim)
    if version == 1:
        assert dim == 3
    pmin = [float(x) for x in pmin]
    cell = [float(x) for x in cell]
    pmax = [pmin[i] + cell[i] * n[i] for i in range(3)]
    base = [pmin[i] + cell[i] / 2 for i in range(3)]
    f = lambda x: _num(x, numfmt)  # noqa: E731
    if labels is None:
        labels = [f"{title}_{c}" for c in "xyzabcdefg"[:dim]]
    units = "" if unit is None else " ".join([unit] * dim)

    rec_mesh = [f"meshtype: rectangular", f"meshunit: {meshunit}"]
    rec_base = [f"{a}base: {f(base[i])}" for i, a in enumerate("xyz")]
    rec_step = [f"{a}stepsize: {f(cell[i])}" for i, a in enumerate("xyz")]
    rec_nodes = [f"{a}nodes: {n[i]}" for i, a in enumerate("xyz")]
    rec_min = [f"{a}min: {f(pmin[i])}" for i, a in enumerate("xyz")]
    rec_max = [f"{a}max: {f(pmax[i])}" for i, a in enumerate("xyz")]
    if version == 1:
        mags = np.linalg.norm(data.reshape(-1, 3), axis=1) if data.size else [0.0]
        rec_val = [f"valueunit: {unit if unit is not None else ''}".rstrip(),
                   f"valuemultiplier: {valuemultiplier}",
                   f"ValueRangeMinMag: {f(np.min(mags))}",
                   f"ValueRangeMaxMag: {f(np.max(mags))}"]
    else:
        rec_val = [f"valuedim: {dim}", "valuelabels: " + " ".join(labels),
                   f"valueunits: {units}".rstrip()]

    L = [MAGIC1 if version == 1 else MAGIC2]
    if style == "oommf":
        sep = ["#"] if version == 2 else []
        L += sep + ["# Segment count: 1"] + sep + ["# Begin: Segment", "# Begin: Header"] + sep
        L += [f"# Title: {title}", "# Desc: independent writer", "# Desc:  Iteration: 3, State id: 7",
              "## a comment line"]
        body = rec_mesh + rec_base + rec_nodes + rec_step + rec_min + rec_max + rec_val
        L += ["# " + r for r in body]
        L += sep + ["# End: Header"] + sep
    elif style == "mumax":
        L += ["# Segment count: 1", "# Begin: Segment", "# Begin: Header", f"# Title: {title}"]
        body = rec_mesh + rec_min + rec_max + rec_val + ["Desc: Total simulation time:  0  s"]
        body += rec_base + rec_nodes + rec_step
        L += ["# " + r for r in body]
        L += ["# End: Header"]
    else:
        raise ValueError(style)

    flat = data.transpose(2, 1, 0, 3).reshape(-1, dim)  # x fastest
    if rep == "txt":
        L.append("# Begin: Data Text")
        head = ("\n".join(L) + "\n").encode()
        lead = " " if style == "oommf" else ""
        trail = " " if style == "mumax" else ""
        gap = "  " if (style == "oommf" and version == 1) else " "
        rows = [lead + gap.join(_num(v, numfmt) for v in row) + trail for row in flat]
        block = ("\n".join(rows) + "\n").encode() if rows else b""
        out = head + block + b"# End: Data Text\n# End: Segment\n"
        return out, {"data_start": len(head), "data_end": len(head) + len(block)}
    nb = 4 if rep == "bin4" else 8
    L.append(f"# Begin: Data Binary {nb}")
    head = ("\n".join(L) + "\n").encode()
    end = ">" if version == 1 else "<"
    code = "f" if nb == 4 else "d"
    with np.errstate(over="ignore"):
        block = struct.pack(end + code, CHECK[nb]) + flat.astype(end + code).tobytes()
    out = head + block + f"\n# End: Data Binary {nb}\n# End: Segment\n".encode()
    return out, {"data_start": len(head), "data_end": len(head) + len(block)}
