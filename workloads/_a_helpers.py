"""Helpers shared by the C02 and C07 workloads (generator-side lattice arithmetic).

Everything here works on ``gen.MeshSpec`` data (integers first, rule R3); nothing
is imported from the library except the constructors used to build the inputs.
"""

import itertools

import numpy as np

import discretisedfield as df
from workloads import gen

EPS = np.finfo(float).eps


def index_res(spec):
    """Uncertainty (in cells, per axis) of a coordinate expressed in index space."""
    big = np.maximum(np.abs(spec.pmin), np.abs(spec.pmax))
    return 16 * EPS * big / spec.cell


def coord_tol(spec):
    """Allowance for a coordinate computed by a different evaluation order."""
    return 16 * EPS * np.maximum(np.abs(spec.pmin), np.abs(spec.pmax)) + 1e-12 * spec.cell


def listed_subregions(rng, spec, kmax=3, kmin=0, overlap_bias=True):
    """Ordered {name: (lo, hi)} lattice boxes (integer index ranges) + Region dict.

    With ``overlap_bias`` later boxes are drawn around cells of earlier ones half of
    the time, so that overlapping / touching boxes are common.
    """
    names = ["s0", "r1", "sub_2", "Z"]
    k = int(rng.integers(kmin, kmax + 1))
    boxes, regions = {}, {}
    n = spec.n
    for j in range(k):
        lo, hi = gen.rand_box(rng, n)
        if overlap_bias and boxes and rng.random() < 0.5:
            plo, phi = list(boxes.values())[int(rng.integers(0, len(boxes)))]
            mode = rng.random()
            lo2, hi2 = lo.copy(), hi.copy()
            for a in range(spec.nd):
                if mode < 0.5:  # share at least one layer with the earlier box
                    c = int(rng.integers(plo[a], phi[a]))
                    lo2[a] = int(rng.integers(0, c + 1))
                    hi2[a] = int(rng.integers(c + 1, n[a] + 1))
                elif phi[a] < n[a] and rng.random() < 0.5:  # touch its upper face
                    lo2[a] = phi[a]
                    hi2[a] = int(rng.integers(phi[a] + 1, n[a] + 1))
            lo, hi = lo2, hi2
        boxes[names[j]] = (np.asarray(lo), np.asarray(hi))
        regions[names[j]] = spec.box_region(lo, hi)
    return boxes, regions


def mesh_with_subregions(ctx, prop, spec, regions, **kw):
    """The mesh, or None when the library refuses the lattice-aligned boxes.

    A refusal is recorded on ``<prop>.setup.subregions_accepted`` (mechanism: the
    subregion setter's alignment test, candidate finding F22 of C14) and the case
    is expected to continue without subregions.
    """
    if not regions:
        return spec.mesh(**kw)
    ok, mesh = ctx.expect_ok(
        f"{prop}.setup.subregions_accepted", lambda: spec.mesh(subregions=regions, **kw),
        what={"op": "Mesh(subregions=lattice boxes)", "mechanism": "subregion setter",
              "spec": spec.describe(),
              "boxes": {k: [r.pmin, r.pmax] for k, r in regions.items()}})
    return mesh if ok else None


def box_mask(n, lo, hi):
    m = np.zeros(tuple(int(k) for k in n), dtype=bool)
    m[tuple(slice(int(a), int(b)) for a, b in zip(lo, hi))] = True
    return m


def index_grid(n):
    """Array (*n, nd) of the cell indices."""
    return np.stack(np.meshgrid(*[np.arange(int(k)) for k in n], indexing="ij"), axis=-1)


def point_candidates(spec, p, face_tol=1e-6):
    """Per-axis candidate cell indices of a point given in coordinates.

    Within ``face_tol`` cells (plus the coordinate resolution) of a lattice plane
    both neighbours are candidates (rule R3); indices are clipped to the mesh.
    """
    rel = (np.asarray(p, dtype=float).reshape(-1) - spec.pmin) / spec.cell
    tol = np.maximum(face_tol, 4 * index_res(spec))
    out = []
    for q, k, t in zip(rel, spec.n, tol):
        r = np.round(q)
        if abs(q - r) <= t:
            out.append(sorted({int(np.clip(r - 1, 0, k - 1)), int(np.clip(r, 0, k - 1))}))
        else:
            out.append([int(np.clip(np.floor(q), 0, k - 1))])
    return out


def any_candidate_equal(value, array, cands, valid=None, got_valid=None):
    value = np.asarray(value)
    for c in itertools.product(*cands):
        if np.array_equal(value, array[c]) and (valid is None or bool(valid[c]) == bool(got_valid)):
            return True
    return False


def point_arg(rng, p, nd):
    """The same point in one of the accepted argument forms."""
    p = np.asarray(p, dtype=float)
    r = rng.random()
    if nd == 1 and r < 0.35:
        return float(p[0])
    if r < 0.6:
        return tuple(p.tolist())
    if r < 0.8:
        return p.tolist()
    return p.copy()


def interior_point(rng, spec, idx=None, fmin=1e-6):
    if idx is None:
        idx = tuple(int(rng.integers(0, k)) for k in spec.n)
    f = rng.uniform(fmin, 1 - fmin, spec.nd)
    if rng.random() < 0.3:  # close to a face, still clearly inside
        a = int(rng.integers(0, spec.nd))
        f[a] = fmin if rng.random() < 0.5 else 1 - fmin
    fm = np.maximum(fmin, 8 * index_res(spec))
    f = np.clip(f, fm, 1 - fm)
    return idx, spec.pmin + (np.asarray(idx) + f) * spec.cell


def safe_dims_spec(rng, **kw):
    """A MeshSpec whose dimension names do not collide with the ``r`` column of Line."""
    for _ in range(20):
        spec = gen.rand_meshspec(rng, **kw)
        if "r" not in spec.dim_names:
            return spec
    kw = dict(kw, dims="default")
    return gen.rand_meshspec(rng, **kw)


def region_of(spec, lo_coord, hi_coord, **kw):
    return df.Region(p1=np.asarray(lo_coord).tolist(), p2=np.asarray(hi_coord).tolist(), **kw)
