"""C17 - xarray export/import is lossless and uses cell centres as coordinates."""

META = {
    "property": "C17",
    "level": "exploration",
    "rule": (
        "case i of seed s is generated from default_rng([s, i]); (i + i//16)%4 selects the kind: "
        "0 export of a random field (1-4 components, 1-4-d mesh, named dims/units, "
        "float/int/complex dtypes of several widths) checked against generator-side data "
        "and import(export(f)) == f; 1 import after removing all or a random subset of the "
        "geometric attributes, and of hand-built DataArrays with evenly spaced coordinates; "
        "2 unevenly spaced coordinates (second difference >= 10 % of the spacing) at cell "
        "scales 1e-12..1e3 must be rejected; 3 missing nvdim, missing component axis, "
        "non-DataArray input must be rejected. Signature = (kind, dtype, nvdim, label "
        "class, removed attributes / perturbation class, scale decade, mesh signature); "
        "non-trivial when some axis has >= 2 cells."
    ),
    "cases": {"quick": 800, "thorough": 96000},
    "workers": {"quick": 8, "thorough": 16},
    "timeout": {"quick": 600, "thorough": 5400},
    "deciding": [
        "C17.export.coordinates",
        "C17.export.axis_units",
        "C17.export.components",
        "C17.export.attributes",
        "C17.export.values",
        "C17.roundtrip.equal",
        "C17.roundtrip.labels",
        "C17.roundtrip.dtype",
        "C17.noattrs.accepted",
        "C17.noattrs.mesh",
        "C17.noattrs.values",
        "C17.reject.uneven_spacing",
        "C17.reject.missing_nvdim",
        "C17.reject.missing_component_axis",
        "C17.reject.not_a_dataarray",
    ],
    "ambient": {"quick": [], "thorough": []},
    "anchor_files": ["discretisedfield/field.py"],
    "assumptions": [
        "the field unit, vdim_mapping, bc and subregions are not restored by the import and "
        "not in the statement's list (labels and dtype are); not judged",
        "when the cell attribute is removed every direction has >= 2 cells (a single "
        "coordinate defines no spacing); rebuilt corners are compared with 1e-9 of a cell "
        "plus the floating-point resolution of the coordinates",
        "uneven coordinates stay strictly increasing; the perturbed spacing differs from "
        "its neighbours by 10-40 % of a cell (clearly uneven, rule R3)",
    ],
}

import numpy as np  # noqa: E402
import xarray as xr  # noqa: E402

import discretisedfield as df  # noqa: E402
from workloads import _io_gen as ig  # noqa: E402
from workloads import gen  # noqa: E402

EPS = np.finfo(float).eps
DTYPES = ["float64", "float64", "float32", "int64", "int32", "complex128", "complex64"]
GEO_ATTRS = ["cell", "pmin", "pmax", "tolerance_factor", "units"]


def _values(rng, shape, dtype):
    dt = np.dtype(dtype)
    if dt.kind == "i":
        return rng.integers(-1000, 1000, shape).astype(dt)
    a = rng.normal(size=shape) * 10.0 ** rng.uniform(-3, 6)
    if dt.kind == "c":
        a = a + 1j * rng.normal(size=shape) * 10.0 ** rng.uniform(-3, 6)
    return a.astype(dt)


def _label_class(labels):
    if labels is None:
        return "default"
    return "underscore" if any("_" in c for c in labels) else "plain"


def _make(ctx, spec, nvdim=None, dtype=None):
    rng = ctx.rng
    nvdim = nvdim or int(rng.integers(1, 5))
    dtype = dtype or gen.pick(rng, DTYPES)
    n = tuple(int(k) for k in spec.n)
    arr = _values(rng, (*n, nvdim), dtype)
    labels = ig.rand_labels(rng, nvdim)
    if labels is not None and "vdims" in labels:
        labels = None
    unit = gen.pick(rng, ig.UNITS)
    tol = float(gen.pick(rng, [1e-12, 1e-12, 1e-10, 1e-9]))
    mesh = df.Mesh(region=spec.region(tolerance_factor=tol), n=list(n))
    nv_arg = nvdim
    if rng.random() < 0.2:
        # the component count as a numpy integer (what a field read from an HDF5 file holds)
        nv_arg = gen.pick(rng, [np.int64, np.int32])(nvdim)
    f = gen.via_history(None, df.Field(mesh, nvdim=nv_arg, value=arr, vdims=labels, unit=unit,
                                       dtype=arr.dtype))
    return f, arr, labels, unit, tol


def _coord_tol(spec):
    return 16 * EPS * np.maximum(np.abs(spec.pmin), np.abs(spec.pmax)) + 1e-12 * spec.cell


def _scale_decade(spec):
    return int(np.floor(np.log10(np.max(spec.cell))))


def _spec(ctx, min_n=1, decades=(-12, 3)):
    spec = gen.rand_meshspec(ctx.rng, n_max=6 if ctx.thorough else 5,
                             max_cells=600 if ctx.thorough else 250,
                             scale_decades=decades, min_n=min_n)
    if ctx.rng.random() < 0.1:
        # a dimensionless axis: its unit is the empty string (accepted by Region)
        units = list(spec.units) if spec.units is not None else ["m"] * spec.nd
        units[int(ctx.rng.integers(0, spec.nd))] = ""
        spec.units = units
    return spec


# ---------------------------------------------------------- kind 0: export + import
def check_export(ctx, xa, spec, arr, labels, unit, tol, what):
    nvdim = arr.shape[-1]
    names = spec.dim_names
    exp_dims = tuple(names) + (("vdims",) if nvdim > 1 else ())
    ctx.check("C17.export.is_dataarray", isinstance(xa, xr.DataArray) and tuple(xa.dims) == exp_dims,
              got=getattr(xa, "dims", None), expected=exp_dims, **what)
    if not isinstance(xa, xr.DataArray) or tuple(xa.dims) != exp_dims:
        return False
    ct = _coord_tol(spec)
    okc = True
    for k, d in enumerate(names):
        c = np.asarray(xa[d].values, dtype=float)
        ec = spec.pmin[k] + (np.arange(spec.n[k]) + 0.5) * spec.cell[k]
        okc = okc and c.shape == ec.shape and bool(np.all(np.abs(c - ec) <= ct[k]))
    ctx.check("C17.export.coordinates", okc,
              got={d: np.asarray(xa[d].values) for d in names},
              note="spatial coordinates must be the cell centres", **what)
    eu = list(spec.units) if spec.units is not None else ["m"] * spec.nd
    gu = [xa[d].attrs.get("units") for d in names]
    ctx.check("C17.export.axis_units", gu == eu, got=gu, expected=eu, **what)
    if nvdim > 1:
        el = ig.expected_labels(nvdim, labels)
        gl = [str(x) for x in xa["vdims"].values] if "vdims" in xa.coords else None
        ctx.check("C17.export.components", gl == el, got=gl, expected=el, **what)
    a = xa.attrs
    probs = []
    for key in ("cell", "pmin", "pmax", "nvdim", "units", "tolerance_factor"):
        if key not in a:
            probs.append(f"attribute {key} missing")
    if not probs:
        if not (np.shape(a["cell"]) == (spec.nd,) and np.all(np.abs(a["cell"] - spec.cell) <= ct)):
            probs.append(f"cell {a['cell']}")
        if not np.array_equal(a["pmin"], spec.pmin):
            probs.append(f"pmin {a['pmin']}")
        if not np.array_equal(a["pmax"], spec.pmax):
            probs.append(f"pmax {a['pmax']}")
        if a["nvdim"] != nvdim:
            probs.append(f"nvdim {a['nvdim']}")
        if a["units"] != unit:
            probs.append(f"units {a['units']!r} != {unit!r}")
        if a["tolerance_factor"] != tol:
            probs.append(f"tolerance_factor {a['tolerance_factor']}")
    ctx.check("C17.export.attributes", not probs, problems=probs, **what)
    ev = arr if nvdim > 1 else arr[..., 0]
    ctx.check("C17.export.values",
              xa.values.shape == ev.shape and xa.values.dtype == ev.dtype
              and ig.bits_equal(xa.values, ev), got_shape=xa.values.shape,
              got_dtype=str(xa.values.dtype), **what)
    return True


def export_import(ctx):
    rng = ctx.rng
    spec = _spec(ctx)
    f, arr, labels, unit, tol = _make(ctx, spec)
    nvdim = arr.shape[-1]
    ctx.sig(("export", str(arr.dtype), nvdim, _label_class(labels), unit is None)
            + spec.signature(), nontrivial=bool(np.any(spec.n >= 2)))
    what = {"spec": spec.describe(), "nvdim": nvdim, "dtype": str(arr.dtype), "labels": labels}
    ctx.sample({"kind": "export", **what})
    xa = f.to_xarray()
    if not check_export(ctx, xa, spec, arr, labels, unit, tol, what):
        return
    if ctx.rng.random() < 0.3:
        # what a user does between export and import: one coordinate is assigned again (the
        # very same numbers) - the DataArray describes the same field, but its coordinate
        # index is now listed in another order than its dimensions
        dsel = spec.dim_names[int(ctx.rng.integers(0, spec.nd))]
        xa = xa.assign_coords({dsel: (dsel, xa[dsel].values.copy(), dict(xa[dsel].attrs))})
        what = dict(what, coordinate_reassigned=dsel)
        ctx.event("export.coordinate_reassigned")
    ok, r = ctx.expect_ok("C17.roundtrip.accepted", df.Field.from_xarray, xa, what=what)
    if not ok:
        return
    reg = r.mesh.region
    ctx.check("C17.roundtrip.equal",
              bool(r == f) and bool(f == r) and ig.bits_equal(r.array, arr)
              and np.array_equal(reg.pmin, spec.pmin) and np.array_equal(reg.pmax, spec.pmax)
              and np.array_equal(r.mesh.n, spec.n) and r.nvdim == nvdim,
              got=[reg.pmin, reg.pmax, r.mesh.n, r.nvdim], **what)
    eu = list(spec.units) if spec.units is not None else ["m"] * spec.nd
    ctx.check("C17.roundtrip.region_meta",
              list(reg.dims) == spec.dim_names and list(reg.units) == eu
              and reg.tolerance_factor == tol,
              got=[reg.dims, reg.units, reg.tolerance_factor], **what)
    el = ig.expected_labels(nvdim, labels)
    gl = None if r.vdims is None else [str(c) for c in r.vdims]
    ctx.check("C17.roundtrip.labels", gl == el, got=gl, expected=el, **what)
    ctx.check("C17.roundtrip.dtype", r.array.dtype == arr.dtype, got=str(r.array.dtype),
              expected=str(arr.dtype), **what)
    ctx.check("C17.roundtrip.source_untouched",
              ig.bits_equal(f.array, arr) and ig.bits_equal(xa.values, arr if nvdim > 1 else arr[..., 0]),
              **what)
    # history: the same exported DataArray is imported a second time (a DataArray is the
    # user's object; they may well feed it to several consumers)
    ok2, r2 = ctx.expect_ok("C17.roundtrip.accepted", df.Field.from_xarray, xa,
                            what=dict(what, second_import_of_the_same_dataarray=True))
    if ok2:
        reg2 = r2.mesh.region
        ctx.check("C17.roundtrip.equal",
                  bool(r2 == f) and ig.bits_equal(r2.array, arr)
                  and np.array_equal(reg2.pmin, spec.pmin) and np.array_equal(reg2.pmax, spec.pmax)
                  and np.array_equal(r2.mesh.n, spec.n) and reg2.tolerance_factor == tol,
                  got=[reg2.pmin, reg2.pmax, r2.mesh.n, r2.nvdim],
                  second_import_of_the_same_dataarray=True, **what)


# ------------------------------------------------- kind 1: attributes removed / absent
def _check_rebuilt(ctx, r, spec, arr, what, exact_corners):
    n_ok = np.array_equal(r.mesh.n, spec.n)
    reg = r.mesh.region
    if exact_corners:
        ok = np.array_equal(reg.pmin, spec.pmin) and np.array_equal(reg.pmax, spec.pmax)
    else:
        tol = 1e-9 * spec.cell + 16 * EPS * np.maximum(np.abs(spec.pmin), np.abs(spec.pmax))
        ok = bool(np.all(np.abs(reg.pmin - spec.pmin) <= tol)
                  and np.all(np.abs(reg.pmax - spec.pmax) <= tol))
    ctx.check("C17.noattrs.mesh", n_ok and ok and list(reg.dims) == spec.dim_names,
              got=[reg.pmin, reg.pmax, r.mesh.n, reg.dims],
              expected=[spec.pmin, spec.pmax, spec.n, spec.dim_names],
              note="mesh must reach half a cell beyond the outermost centres", **what)
    ctx.check("C17.noattrs.values",
              r.nvdim == arr.shape[-1] and r.array.dtype == arr.dtype and ig.bits_equal(r.array, arr),
              got_dtype=str(r.array.dtype), got_shape=r.array.shape, **what)


def attrs_removed(ctx):
    rng = ctx.rng
    mode = gen.pick(rng, ["all", "subset", "subset", "handbuilt"])
    need_two = mode in ("all", "handbuilt")
    remove = list(GEO_ATTRS)
    if mode == "subset":
        k = int(rng.integers(1, len(GEO_ATTRS)))
        remove = [GEO_ATTRS[j] for j in sorted(rng.choice(len(GEO_ATTRS), k, replace=False))]
        need_two = "cell" in remove
    spec = _spec(ctx, min_n=2 if need_two else 1)
    f, arr, labels, unit, tol = _make(ctx, spec)
    nvdim = arr.shape[-1]
    names = spec.dim_names
    ctx.sig(("noattrs", mode, tuple(remove), str(arr.dtype), nvdim) + spec.signature(),
            nontrivial=bool(np.any(spec.n >= 2)))
    what = {"mode": mode, "removed": remove, "spec": spec.describe(), "nvdim": nvdim,
            "scale_decade": _scale_decade(spec)}
    if mode == "handbuilt":
        # a DataArray an xarray user would build: centres from my own arithmetic
        coords = {d: spec.pmin[k] + (np.arange(spec.n[k]) + 0.5) * spec.cell[k]
                  for k, d in enumerate(names)}
        dims = list(names)
        data = arr if nvdim > 1 else arr[..., 0]
        if nvdim > 1:
            dims.append("vdims")
            if labels is not None or rng.random() < 0.5:
                coords["vdims"] = ig.expected_labels(nvdim, labels)
        xa = xr.DataArray(data, dims=dims, coords=coords, name="handbuilt",
                          attrs={"nvdim": nvdim})
        has_labels = "vdims" in coords
    else:
        xa = f.to_xarray()
        xa.attrs = {k: v for k, v in xa.attrs.items() if k not in remove}
        has_labels = nvdim > 1
        if rng.random() < 0.2:
            for d in names:  # coordinate units dropped as well
                xa[d].attrs.pop("units", None)
    ok, r = ctx.expect_ok("C17.noattrs.accepted", df.Field.from_xarray, xa, what=what)
    if not ok:
        return
    exact = mode == "subset" and "pmin" not in remove and "pmax" not in remove
    _check_rebuilt(ctx, r, spec, arr, what, exact_corners=exact)
    if nvdim > 1 and has_labels:
        el = ig.expected_labels(nvdim, labels)
        gl = None if r.vdims is None else [str(c) for c in r.vdims]
        ctx.check("C17.noattrs.labels", gl == el, got=gl, expected=el, **what)


# ------------------------------------------------------ kind 2: uneven coordinates
def uneven(ctx):
    rng = ctx.rng
    spec = _spec(ctx, min_n=3)
    if rng.random() < 0.25 and not spec.int_corners and not spec.dyadic:
        # an axis far from the origin compared with its spacing (a 100 nm sample at
        # x = 1 mm): the spacing is still what decides, not the distance from the origin
        mag = 10.0 ** rng.uniform(4, 6)
        pmin = rng.choice([-1, 1], spec.nd) * mag * spec.cell * spec.n
        spec = gen.MeshSpec(pmin, spec.cell, spec.n, spec.dims, spec.units, spec.flip)
        ctx.event("uneven.far_from_origin")
    long_axis = rng.random() < 0.12
    if long_axis:
        # thousands of cells along one axis: "evenly spaced" is still about one spacing
        base = gen.rand_meshspec(rng, nd=1, n_max=3, int_corners=False)
        spec = gen.MeshSpec(base.pmin, base.cell, np.array([int(10 ** rng.uniform(3.5, 4.5))]),
                            base.dims, base.units, base.flip)
        ctx.event("uneven.long_axis")
    f, arr, labels, unit, tol = _make(ctx, spec, dtype="float64")
    names = spec.dim_names
    ax = int(rng.integers(0, spec.nd))
    d = names[ax]
    n = int(spec.n[ax])
    c = spec.pmin[ax] + (np.arange(n) + 0.5) * spec.cell[ax]
    how = gen.pick(rng, ["one_point", "one_point", "end_point", "geometric", "two_spacings", "tent"])
    if long_axis:
        how = gen.pick(rng, ["one_point", "end_point"])
    if how == "one_point":
        j = int(rng.integers(1, n - 1))
        c[j] += rng.choice([-1, 1]) * rng.uniform(0.1, 0.4) * spec.cell[ax]
    elif how == "end_point":
        j = int(rng.choice([0, n - 1]))
        c[j] += (1 if j else -1) * rng.uniform(0.1, 0.4) * spec.cell[ax] * rng.choice([1, 2])
    elif how == "geometric":
        q = rng.uniform(1.15, 1.5)
        c = c[0] + spec.cell[ax] * np.concatenate([[0], np.cumsum(q ** np.arange(n - 1))])
    elif how == "tent":
        # steps of one size that turn round: up to a peak and down again (not a lattice)
        peak = int(rng.integers(1, n - 1))
        steps = np.where(np.arange(n - 1) < peak, 1.0, -1.0)
        c = c[0] + spec.cell[ax] * np.concatenate([[0], np.cumsum(steps)])
    else:
        steps = np.where(np.arange(n - 1) % 2 == 0, 1.0, rng.uniform(1.2, 2.0))
        c = c[0] + spec.cell[ax] * np.concatenate([[0], np.cumsum(steps)])
    sp = np.diff(c)
    assert (how == "tent" or np.all(sp > 0)) and np.max(np.abs(np.diff(sp))) >= 0.099 * spec.cell[ax]
    strip = gen.pick(rng, ["keep_attrs", "no_geometry_attrs"])
    xa = f.to_xarray()
    xa = xa.assign_coords({d: (d, c, dict(xa[d].attrs))})
    if strip == "no_geometry_attrs":
        xa.attrs = {"nvdim": arr.shape[-1]}
    decade = _scale_decade(spec)
    ctx.sig(("uneven", how, strip, decade, spec.nd), nontrivial=True)
    ctx.event(f"uneven.decade.{decade}")
    try:
        res = df.Field.from_xarray(xa)
    except Exception:  # noqa: BLE001 - rule R4: any exception is a rejection
        ctx.check("C17.reject.uneven_spacing", True)
        return
    ctx.check("C17.reject.uneven_spacing", False, scale_decade=decade, axis=d, coordinates=c,
              spacing=sp, perturbation=how, attrs=strip,
              relative_second_difference=float(np.max(np.abs(np.diff(sp))) / spec.cell[ax]),
              note="unevenly spaced coordinates accepted", result=repr(res)[:200])


# ---------------------------------------------------------- kind 3: other rejections
def rejections(ctx):
    rng = ctx.rng
    spec = _spec(ctx)
    nv = int(rng.integers(2, 5))
    f, arr, labels, unit, tol = _make(ctx, spec, nvdim=nv)
    ctx.sig(("reject", nv) + spec.signature(), nontrivial=bool(np.any(spec.n >= 2)))
    names = spec.dim_names
    xa = f.to_xarray()
    # missing component count
    xb = xa.copy()
    xb.attrs = {k: v for k, v in xa.attrs.items() if k != "nvdim"}
    ctx.expect_raises("C17.reject.missing_nvdim", df.Field.from_xarray, xb,
                      what={"attrs": sorted(xb.attrs)})
    xs = df.Field(f.mesh, nvdim=1, value=arr[..., :1]).to_xarray()
    xs.attrs = {k: v for k, v in xs.attrs.items() if k != "nvdim"}
    ctx.expect_raises("C17.reject.missing_nvdim", df.Field.from_xarray, xs,
                      what={"attrs": sorted(xs.attrs), "scalar": True})
    # vector field without component axis: one component taken out, nvdim left at nv
    xc = xa.isel(vdims=0, drop=True)
    xc.attrs = dict(xa.attrs)
    ctx.expect_raises("C17.reject.missing_component_axis", df.Field.from_xarray, xc,
                      what={"dims": xc.dims, "nvdim": nv})
    coords = {d: xa[d] for d in names}
    xd = xr.DataArray(arr[..., 0], dims=names, coords=coords, attrs={"nvdim": nv})
    ctx.expect_raises("C17.reject.missing_component_axis", df.Field.from_xarray, xd,
                      what={"dims": xd.dims, "nvdim": nv, "handbuilt": True})
    # not a DataArray
    others = {"ndarray": xa.values, "dataset": xa.to_dataset(name="field"), "list": arr.tolist(),
              "none": None, "field": f, "dict": {"data": arr}}
    key = gen.pick(rng, sorted(others))
    for k in ("ndarray", "dataset", key):
        ctx.expect_raises("C17.reject.not_a_dataarray", df.Field.from_xarray, others[k],
                          what={"input": k})
    # the intact DataArray is still accepted (the rejections above are not blanket)
    ok, r = ctx.expect_ok("C17.roundtrip.accepted", df.Field.from_xarray, xa, what="intact")
    if ok:
        ctx.check("C17.roundtrip.equal", bool(r == f) and ig.bits_equal(r.array, arr))


def run_case(ctx, i):
    kind = ig.kind_of(i)
    if kind == 0:
        export_import(ctx)
    elif kind == 1:
        attrs_removed(ctx)
    elif kind == 2:
        uneven(ctx)
    else:
        rejections(ctx)
