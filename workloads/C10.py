"""C10 - HDF5 files preserve the complete state of a field."""

META = {
    "property": "C10",
    "level": "exploration",
    "rule": (
        "case i of seed s is generated from default_rng([s, i]); (i + i//16)%4 selects the kind: "
        "0,1 a random field on a 1-4-d mesh (named dims/units, tolerance factor, bc, 0-3 "
        "possibly overlapping subregions, labels/unit present or absent, float/complex/int "
        "values, validity mask) written to .h5/.hdf5, read back and compared attribute by "
        "attribute, plus an independent h5py view of the written file; 2 the four int/float "
        "typings of region corners x subregion corners (fractional subregion corners on an "
        "integer-cornered region included); 3 files in the legacy layout written by an own "
        "h5py writer (and the repository's legacy sample) must load. Signature = (kind, "
        "dtype, nvdim, labels none, unit none, number of subregions, bc class, corner "
        "typing, mesh signature); non-trivial when the mesh has >= 2 cells along some axis."
    ),
    "cases": {"quick": 480, "thorough": 128000},
    "workers": {"quick": 8, "thorough": 16},
    "timeout": {"quick": 600, "thorough": 5400},
    "deciding": [
        "C10.roundtrip.loads",
        "C10.roundtrip.equal",
        "C10.roundtrip.corners",
        "C10.roundtrip.region_meta",
        "C10.roundtrip.bc",
        "C10.roundtrip.subregions",
        "C10.roundtrip.labels",
        "C10.roundtrip.unit",
        "C10.roundtrip.values",
        "C10.roundtrip.valid",
        "C10.h5view.structure",
        "C10.h5view.subregion_table",
        "C10.legacy.loads",
        "C10.legacy.content",
        "C10.sample.loads",
    ],
    "ambient": {"quick": [], "thorough": []},
    "anchor_files": ["discretisedfield/io/hdf5.py", "discretisedfield/io/__init__.py",
                     "discretisedfield/region.py"],
    "assumptions": [
        "integer-valued data may come back as float64 (the statement demands 'real staying "
        "real'); values are then compared numerically, float and complex data bit for bit",
        "corners are compared by value (an integer-typed corner array may come back as "
        "float with the same values)",
        "vdim_mapping is not in the statement's list and not judged",
        "meshes whose subregions the library's own setter refuses (C14 matter) are written "
        "without subregions",
        "the independent h5py view knows the documented layout names (field/array, "
        "field/valid, field/mesh/subregions, ...) and judges their content, not their "
        "storage type, except: valid must be Boolean and array must keep the field's "
        "real/complex kind",
    ],
}

import json  # noqa: E402
import os  # noqa: E402
import shutil  # noqa: E402
import tempfile  # noqa: E402

import h5py  # noqa: E402
import numpy as np  # noqa: E402

import discretisedfield as df  # noqa: E402
from workloads import _io_gen as ig  # noqa: E402
from workloads import gen  # noqa: E402

TOLS = [1e-12, 1e-12, 1e-10, 1e-9, 1e-6, 1e-12, 1e-10, 0, 0.0]  # 0: exact comparisons
SAMPLE = os.path.join(os.path.dirname(df.__file__), "tests", "test_sample", "hdf5-file.hdf5")


def _rand_bc(rng, dims):
    single = [d for d in dims if len(d) == 1 and d == d.lower()]
    r = rng.random()
    if r < 0.3 or (not single and r < 0.6):
        return ""
    if r < 0.4:
        return "neumann"
    if r < 0.5:
        return "dirichlet"
    if not single:
        return ""
    k = int(rng.integers(1, len(single) + 1))
    return "".join(rng.permutation(single)[:k])


def _values(rng, shape, dtype):
    if dtype == "float":
        return ig.rand_float_values(rng, shape)
    if dtype == "complex":
        return ig.rand_float_values(rng, shape, "normal") + 1j * ig.rand_float_values(
            rng, shape, "decades")
    if dtype == "complex64":
        return (rng.normal(size=shape) + 1j * rng.normal(size=shape)).astype(np.complex64)
    if dtype == "float32":
        return (rng.normal(size=shape) * 10.0 ** rng.uniform(-6, 6)).astype(np.float32)
    if dtype == "bool":
        return rng.random(shape) < 0.5
    if dtype == "int32":
        return rng.integers(-2**31, 2**31 - 1, shape).astype(np.int32)
    if dtype == "bigint":  # whole numbers that a float64 cannot hold
        return rng.integers(2**53, 2**62, shape) * rng.choice([-1, 1], shape) + 1
    return rng.integers(-1000, 1000, shape)


def _as_float(a):
    return np.asarray(a, dtype=float)


def compare(ctx, f, r, exp, what):
    """Attribute-by-attribute comparison of the loaded field ``r`` with generator-side
    expectations ``exp`` (and the library's own ``==``)."""
    spec, arr, valid = exp["spec"], exp["arr"], exp["valid"]
    reg = r.mesh.region
    ctx.check("C10.roundtrip.equal", bool(r == f) and bool(f == r),
              note="Field.__eq__ of written and loaded field", **what)
    ctx.check("C10.roundtrip.corners",
              np.array_equal(reg.pmin, spec.pmin) and np.array_equal(reg.pmax, spec.pmax),
              got=[reg.pmin, reg.pmax], expected=[spec.pmin, spec.pmax], **what)
    ctx.check("C10.roundtrip.region_meta",
              list(reg.dims) == spec.dim_names and list(reg.units) == exp["units"]
              and all(isinstance(d, str) for d in reg.dims)
              and all(isinstance(u, str) for u in reg.units)
              and reg.ndim == spec.nd,
              got=[reg.dims, reg.units], expected=[spec.dim_names, exp["units"]], **what)
    ctx.check("C10.roundtrip.tolerance_factor", reg.tolerance_factor == exp["tol"],
              got=reg.tolerance_factor, expected=exp["tol"], **what)
    ctx.check("C10.roundtrip.n", np.array_equal(r.mesh.n, spec.n)
              and np.asarray(r.mesh.n).dtype.kind in "iu", got=r.mesh.n, expected=spec.n, **what)
    ctx.check("C10.roundtrip.bc", r.mesh.bc == exp["bc"] and isinstance(r.mesh.bc, str),
              got=repr(r.mesh.bc), expected=exp["bc"], **what)
    subs = r.mesh.subregions
    ok = list(subs.keys()) == list(exp["subs"].keys())
    if ok:
        for k, (p1, p2) in exp["subs"].items():
            ok = ok and np.array_equal(subs[k].pmin, p1) and np.array_equal(subs[k].pmax, p2)
            ok = ok and list(subs[k].dims) == spec.dim_names
    ctx.check("C10.roundtrip.subregions", ok, got=ig.subs_describe(subs),
              expected={k: [np.asarray(a).tolist(), np.asarray(b).tolist()]
                        for k, (a, b) in exp["subs"].items()}, **what)
    ctx.check("C10.roundtrip.nvdim", r.nvdim == arr.shape[-1] and isinstance(r.nvdim, (int, np.integer)),
              got=r.nvdim, **what)
    lab = None if r.vdims is None else list(r.vdims)
    ctx.check("C10.roundtrip.labels",
              lab == exp["labels"] and (lab is None or all(type(c) is str for c in lab)),
              got=lab, expected=exp["labels"], labels_none=exp["labels"] is None, **what)
    ctx.check("C10.roundtrip.unit", r.unit == exp["unit"] and type(r.unit) is type(exp["unit"]),
              got=repr(r.unit), expected=repr(exp["unit"]), unit_is_none=exp["unit"] is None,
              **what)
    ra = r.array
    if np.iscomplexobj(arr):
        okv = np.iscomplexobj(ra) and ra.dtype == arr.dtype and ig.bits_equal(ra, arr)
    elif arr.dtype.kind == "f":
        okv = ra.dtype == arr.dtype and ig.bits_equal(ra, arr)
    else:
        # integer and Boolean values: the same numbers in the same representation ("values
        # bit-identical"; 2**53 + 1 is not a float64)
        okv = ra.dtype == arr.dtype and ra.shape == arr.shape and np.array_equal(ra, arr)
    ctx.check("C10.roundtrip.values", okv, got_dtype=str(ra.dtype), expected_dtype=str(arr.dtype),
              maxdiff=None if okv else _md(ra, arr), **what)
    ctx.check("C10.roundtrip.valid",
              r.valid.dtype == np.bool_ and np.array_equal(r.valid, valid),
              got_dtype=str(r.valid.dtype), **what)


def _md(a, b):
    try:
        return float(np.max(np.abs(np.asarray(a, complex) - np.asarray(b, complex))))
    except Exception:  # noqa: BLE001
        return "n/a"


def _s(x):
    return x.decode("utf-8") if isinstance(x, bytes) else str(x)


def h5view(ctx, fn, exp, what):
    """What an h5py user finds in the file (independent of the library's reader)."""
    spec, arr, valid = exp["spec"], exp["arr"], exp["valid"]
    probs = []
    table_ok, table = True, None
    with h5py.File(fn, "r") as h:
        for a in ("ubermag-hdf5-file-version", "type"):
            if a not in h.attrs:
                probs.append(f"file attribute {a} missing")
        if "field" not in h:
            ctx.check("C10.h5view.structure", False, problems=["group field missing"], **what)
            return
        g = h["field"]
        for d in ("array", "valid", "mesh"):
            if d not in g:
                probs.append(f"field/{d} missing")
        for a in ("nvdim", "vdims", "unit"):
            if a not in g.attrs:
                probs.append(f"field attribute {a} missing")
        if not probs:
            ds = g["array"]
            if ds.shape != arr.shape:
                probs.append(f"array shape {ds.shape} != {arr.shape}")
            elif np.iscomplexobj(arr) != (ds.dtype.kind == "c"):
                probs.append(f"array stored as {ds.dtype} for {arr.dtype} data")
            else:
                stored = ds[...]
                same = (ig.bits_equal(stored, arr) if stored.dtype == arr.dtype
                        else np.array_equal(stored, arr))
                if not same:
                    probs.append("array content differs from the field's values")
            vs = g["valid"]
            if vs.dtype != np.bool_:
                probs.append(f"valid stored as {vs.dtype}")
            if vs.shape != valid.shape or not np.array_equal(vs[...], valid):
                probs.append("valid content differs from the field's validity")
            if int(g.attrs["nvdim"]) != arr.shape[-1]:
                probs.append(f"nvdim attribute {g.attrs['nvdim']}")
            m = g["mesh"]
            if "n" not in m.attrs or not np.array_equal(m.attrs["n"], spec.n):
                probs.append(f"mesh attribute n {m.attrs.get('n')}")
            if "bc" not in m.attrs or _s(m.attrs["bc"]) != exp["bc"]:
                probs.append(f"mesh attribute bc {m.attrs.get('bc')!r}")
            if "region" not in m:
                probs.append("mesh/region missing")
            else:
                ra = m["region"].attrs
                need = ("pmin", "pmax", "dims", "units", "tolerance_factor")
                miss = [a for a in need if a not in ra]
                if miss:
                    probs.append(f"region attributes missing {miss}")
                else:
                    if not (np.array_equal(ra["pmin"], spec.pmin)
                            and np.array_equal(ra["pmax"], spec.pmax)):
                        probs.append("region corners differ")
                    if [_s(x) for x in ra["dims"]] != spec.dim_names:
                        probs.append(f"dims {list(ra['dims'])}")
                    if [_s(x) for x in ra["units"]] != exp["units"]:
                        probs.append(f"units {list(ra['units'])}")
                    if float(ra["tolerance_factor"]) != exp["tol"]:
                        probs.append(f"tolerance_factor {ra['tolerance_factor']}")
            if exp["subs"]:
                if "subregions" not in m or "subregion_names" not in m:
                    table_ok = False
                    table = "datasets missing"
                else:
                    names = [_s(x) for x in m["subregion_names"][...]]
                    table = m["subregions"][...]
                    want = np.array([[*_as_float(a), *_as_float(b)] for a, b in exp["subs"].values()])
                    table_ok = (names == list(exp["subs"].keys()) and table.shape == want.shape
                                and np.array_equal(np.asarray(table, float), want))
    ctx.check("C10.h5view.structure", not probs, problems=probs, **what)
    if exp["subs"]:
        ctx.check("C10.h5view.subregion_table", table_ok, table=table,
                  expected={k: [np.asarray(a).tolist(), np.asarray(b).tolist()]
                            for k, (a, b) in exp["subs"].items()},
                  note="file does not hold the subregion corners", **what)


def write_read(ctx, tmp, f, exp, what, ext=None, keep=False):
    fn = os.path.join(tmp, "f" + (ext or gen.pick(ctx.rng, [".h5", ".hdf5"])))
    try:
        f.to_file(fn)
    except Exception as e:  # noqa: BLE001
        ctx.check("C10.roundtrip.loads", False, exc=e, stage="to_file", **what)
        return
    try:
        h5view(ctx, fn, exp, what)
        try:
            r = df.Field.from_file(fn)
        except Exception as e:  # noqa: BLE001
            ctx.check("C10.roundtrip.loads", False, exc=e, stage="from_file", **what)
            return
        ctx.check("C10.roundtrip.loads", True)
        # the side-car JSON is an OVF/VTK mechanism: HDF5 keeps everything in the file
        ctx.check("C10.roundtrip.self_contained", os.listdir(tmp) == [os.path.basename(fn)],
                  files=os.listdir(tmp), **what)
        compare(ctx, f, r, exp, what)
    finally:
        if os.path.exists(fn) and not keep:
            os.remove(fn)


# ------------------------------------------------------------- kinds 0, 1: random
def random_field(ctx, tmp, spec=None, ext=None, large=False):
    rng = ctx.rng
    again = spec is None and not large and rng.random() < 0.35
    if again:
        ext = gen.pick(rng, [".h5", ".hdf5"])
    if spec is None:
        spec = gen.rand_meshspec(rng, n_max=6 if ctx.thorough else 5,
                                 max_cells=600 if ctx.thorough else 200)
    if large:
        # more than 2**20 stored numbers, odd cell counts: a writer or reader that works in
        # slabs / chunks has several of them and a partial last one
        spec = gen.rand_meshspec(rng, nd=3, n_max=3, int_corners=False)
        n_big = np.array([int(rng.integers(120, 160)) | 1, int(rng.integers(70, 90)) | 1,
                          int(rng.integers(34, 44)) | 1])[rng.permutation(3)]
        spec = gen.MeshSpec(spec.pmin, spec.cell, n_big, spec.dims, spec.units, spec.flip)
        ctx.event("large_fields")
    tol = float(gen.pick(rng, TOLS))
    bc = _rand_bc(rng, spec.dim_names)
    boxes, regions = gen.rand_subregions(rng, spec, kmax=3)
    if regions and rng.random() < 0.2:
        # subregion names taken from a numpy array of strings (numpy.str_ keys)
        regions = {np.str_(k): v for k, v in regions.items()}
        ctx.event("subregion_names_as_numpy_strings")
    region = spec.region(tolerance_factor=tol)
    if rng.random() < 0.2:
        # dimension names and units as numpy strings (accepted by the setters)
        p1, p2 = spec.corners()
        region = df.Region(p1=p1, p2=p2, dims=np.array(spec.dim_names),
                           units=np.array(spec.units if spec.units is not None else ["m"] * spec.nd),
                           tolerance_factor=tol)
    nlist = [int(k) for k in spec.n]
    try:
        mesh = df.Mesh(region=region, n=nlist, bc=bc, subregions=regions)
    except Exception:  # noqa: BLE001 - subregion setter refusal is a C14 matter
        ctx.event("subregions_refused_by_setter")
        boxes, regions = {}, {}
        mesh = df.Mesh(region=region, n=nlist, bc=bc)
    nvdim = int(gen.pick(rng, [1, 1, 2, 3, 3, 4, 5]))
    dtype = gen.pick(rng, ["float", "float", "complex", "int", "int32", "bigint", "bool",
                           "float32", "complex64"])
    if large:
        nvdim, dtype = 3, gen.pick(rng, ["float", "float32", "int32"])
    arr = _values(rng, (*nlist, nvdim), dtype)
    labels = ig.rand_labels(rng, nvdim)
    if nvdim == 1 and rng.random() < 0.3:  # a one-component field may carry a label too
        labels = [gen.pick(rng, ["s", "rho", "m_s", "T1"])]
    kwl = {}
    given = labels
    if labels is not None and rng.random() < 0.25:
        given = np.array(labels)  # labels as numpy strings (what from_xarray hands over)
    elif nvdim > 1 and labels is None and rng.random() < 0.3:
        # a vector field without labels (vdims=[]); it cannot have a mapping either
        given = []
        kwl["vdim_mapping"] = {}
    unit = gen.pick(rng, ig.UNITS)
    valid = gen.rand_valid(rng, nlist)
    f = gen.via_history(None, df.Field(mesh, nvdim=nvdim, value=arr, vdims=given, unit=unit,
                                       valid=valid.copy(), dtype=arr.dtype, **kwl))
    unlabelled = isinstance(given, list) and len(given) == 0
    typing = ("int" if spec.int_corners else "float") + "_region_" + (
        "none" if not boxes else "float_sub")
    exp = {
        "spec": spec, "arr": arr, "valid": valid, "tol": tol, "bc": bc,
        "units": list(spec.units) if spec.units is not None else ["m"] * spec.nd,
        "labels": None if unlabelled else ig.expected_labels(nvdim, labels), "unit": unit,
        # what the mesh held before writing (value-identical to lattice vertices)
        "subs": {k: (np.array(v.pmin), np.array(v.pmax)) for k, v in mesh.subregions.items()},
    }
    ctx.sig(("random", dtype, nvdim, labels is None, unit is None, len(boxes),
             "periodic" if bc not in ("", "neumann", "dirichlet") else bc, typing)
            + spec.signature(), nontrivial=bool(np.any(spec.n >= 2)))
    what = {"spec": spec.describe(), "nvdim": nvdim, "dtype": dtype, "labels": labels,
            "unit": unit, "bc": bc, "tolerance_factor": tol, "corner_typing": typing,
            "layout": "current", "subregions": ig.subs_describe(mesh.subregions)}
    ctx.sample({"kind": "random", **what})
    # the field under test holds what was generated (guards the comparison's premise)
    ctx.check("C10.premise.field_holds_generated",
              ig.bits_equal(f.array, arr) if arr.dtype.kind in "fc" else np.array_equal(f.array, arr),
              dtype=dtype)
    exp["arr"] = np.array(f.array) if arr.dtype.kind not in "fc" else arr
    write_read(ctx, tmp, f, exp, what, ext=ext, keep=again)
    if again:
        # the same file name written again (the next step of a run overwrites the last):
        # same lattice, everything else drawn afresh - boundary conditions, subregions,
        # tolerance factor, components, dtype, labels, unit, validity
        ctx.event("same_file_rewritten")
        random_field(ctx, tmp, spec=spec, ext=ext)


# ------------------------------------------------------- kind 2: corner typings
def corner_typing(ctx, tmp):
    rng = ctx.rng
    nd = int(rng.integers(1, 5))
    region_int = bool(rng.random() < 0.5)
    sub_int = bool(rng.random() < 0.5)
    # one set of subregions may mix both: the first one with whole-number (integer-typed)
    # corners, later ones with fractional (float) corners
    mixed = bool(rng.random() < 0.3)
    if mixed:
        sub_int = False
    typing = f"{'int' if region_int else 'float'}_region_{'mixed' if mixed else 'int' if sub_int else 'float'}_sub"
    # integer lattice coordinates; cell is 1 (integer vertices) or 0.5 (half-integer)
    m = rng.integers(1, 5, nd)  # region edge = m (integers)
    half = (not sub_int) or rng.random() < 0.3
    n = m * 2 if half else m
    cellv = 0.5 if half else 1.0
    p1 = rng.integers(-5, 6, nd)
    p2 = p1 + m
    if region_int:
        c1, c2 = [int(x) for x in p1], [int(x) for x in p2]
    else:
        c1, c2 = [float(x) for x in p1], [float(x) for x in p2]
    dims = gen.rand_dims(rng, nd)
    region = df.Region(p1=c1, p2=c2, dims=dims)
    k = int(rng.integers(2, 4)) if mixed else int(rng.integers(1, 4))
    subs, want = {}, {}
    for j in range(k):
        sub_int = (j == 0) if mixed else sub_int
        for _ in range(40):
            lo, hi = gen.rand_box(rng, n)
            a = p1 + lo * cellv
            b = p1 + hi * cellv
            if sub_int and not (np.all(a == np.round(a)) and np.all(b == np.round(b))):
                continue
            if (not sub_int) and half and np.all(a == np.round(a)) and np.all(b == np.round(b)) \
                    and rng.random() < 0.8:
                continue  # prefer genuinely fractional corners
            break
        else:
            a, b = p1.astype(float), p2.astype(float)
        if sub_int:
            sr = df.Region(p1=[int(x) for x in a], p2=[int(x) for x in b])
        else:
            sr = df.Region(p1=[float(x) for x in a], p2=[float(x) for x in b])
        subs[f"s{j}"] = sr
        want[f"s{j}"] = (np.asarray(a, float), np.asarray(b, float))
    mesh = df.Mesh(region=region, n=[int(x) for x in n], subregions=subs)
    nvdim = int(rng.integers(1, 4))
    arr = ig.rand_float_values(rng, (*[int(x) for x in n], nvdim), "normal")
    valid = gen.rand_valid(rng, n)
    f = df.Field(mesh, nvdim=nvdim, value=arr, valid=valid.copy())
    spec = gen.MeshSpec(p1.astype(float), np.full(nd, cellv), n, dims, None, [False] * nd,
                        int_corners=region_int)
    fractional = any(np.any(a != np.round(a)) or np.any(b != np.round(b)) for a, b in want.values())
    exp = {"spec": spec, "arr": arr, "valid": valid, "tol": 1e-12, "bc": "",
           "units": ["m"] * nd, "labels": ig.expected_labels(nvdim, None), "unit": None,
           "subs": want}
    ctx.sig(("typing", typing, fractional, nd, k), nontrivial=True)
    what = {"corner_typing": typing, "fractional_sub_corners": fractional,
            "region": [c1, c2], "n": n, "layout": "current",
            "subregions": {k_: [a.tolist(), b.tolist()] for k_, (a, b) in want.items()},
            "unit": None}
    ctx.event(f"typing.{typing}")
    write_read(ctx, tmp, f, exp, what)


# ------------------------------------------------------------ kind 3: legacy files
def write_legacy(fn, p1, p2, n, arr, variant):
    """The layout of files written before the versioned format:
    field/mesh/region/{p1,p2}, field/mesh/n, field/dim, field/array."""
    with h5py.File(fn, "w") as h:
        g = h.create_group("field")
        m = g.create_group("mesh")
        r = m.create_group("region")
        if variant == "tuple":
            r.create_dataset("p1", data=tuple(p1))
            r.create_dataset("p2", data=tuple(p2))
            m.create_dataset("n", data=tuple(int(k) for k in n))
        else:
            r.create_dataset("p1", data=np.asarray(p1, dtype=float))
            r.create_dataset("p2", data=np.asarray(p2, dtype=float))
            m.create_dataset("n", data=np.asarray(n, dtype=np.int64))
        g.create_dataset("dim", data=int(arr.shape[-1]))
        g.create_dataset("array", data=arr)


def sample_file(ctx):
    """The repository's sample (a current-layout file written by version 0.65.1)."""
    ctx.sig(("sample",), nontrivial=True)
    what = {"file": "tests/test_sample/hdf5-file.hdf5"}
    with h5py.File(SAMPLE, "r") as h:
        legacy_layout = "ubermag-hdf5-file-version" not in h.attrs
        arr = h["field/array"][...]
        if legacy_layout:
            n = np.array(h["field/mesh/n"])
            p1, p2 = np.array(h["field/mesh/region/p1"]), np.array(h["field/mesh/region/p2"])
            names, table, valid = [], None, None
        else:
            m = h["field/mesh"]
            n = np.array(m.attrs["n"])
            p1, p2 = np.array(m["region"].attrs["pmin"]), np.array(m["region"].attrs["pmax"])
            names = [_s(x) for x in m["subregion_names"][...]] if "subregion_names" in m else []
            table = m["subregions"][...] if names else None
            valid = h["field/valid"][...]
    what["layout"] = "legacy" if legacy_layout else "current"
    ok, r = ctx.expect_ok("C10.sample.loads", df.Field.from_file, SAMPLE, what=what)
    if not ok:
        return
    okc = (np.array_equal(r.mesh.n, n) and np.array_equal(r.array, arr)
           and np.array_equal(r.mesh.region.pmin, np.minimum(p1, p2))
           and np.array_equal(r.mesh.region.pmax, np.maximum(p1, p2))
           and list(r.mesh.subregions.keys()) == names)
    if okc and valid is not None:
        okc = np.array_equal(r.valid, valid)
    for j, k in enumerate(names):
        nd = len(n)
        okc = okc and np.array_equal(r.mesh.subregions[k].pmin, table[j][:nd]) \
            and np.array_equal(r.mesh.subregions[k].pmax, table[j][nd:])
    ctx.check("C10.sample.content", okc, **what)


def legacy(ctx, tmp, use_sample):
    rng = ctx.rng
    if use_sample:
        sample_file(ctx)
        return
    spec = ig.spec_3d(rng, ctx.thorough, same_units=False)
    spec.units, spec.dims = None, None
    n = [int(k) for k in spec.n]
    nvdim = int(gen.pick(rng, [1, 2, 3, 3]))
    arr = ig.rand_float_values(rng, (*n, nvdim), gen.pick(rng, ["normal", "decades"]))
    variant = gen.pick(rng, ["tuple", "array"])
    c1, c2 = spec.corners()
    fn = os.path.join(tmp, "legacy" + gen.pick(rng, [".h5", ".hdf5"]))
    write_legacy(fn, c1, c2, n, arr, variant)
    with_sidecar = bool(rng.random() < 0.4)
    boxes = {}
    if with_sidecar:
        boxes, _ = gen.rand_subregions(rng, spec, kmax=2)
        side = {k: {"pmin": spec.vertex(lo).tolist(), "pmax": spec.vertex(hi).tolist(),
                    "dims": ["x", "y", "z"], "units": ["m", "m", "m"],
                    "tolerance_factor": 1e-12} for k, (lo, hi) in boxes.items()}
        with open(fn + ".subregions.json", "w") as fh:
            json.dump(side, fh)
    ctx.sig(("legacy", variant, nvdim, bool(boxes)) + spec.signature(),
            nontrivial=bool(np.any(spec.n >= 2)))
    what = {"layout": "legacy", "variant": variant, "nvdim": nvdim, "spec": spec.describe(),
            "sidecar_subregions": len(boxes)}
    try:
        r = df.Field.from_file(fn)
    except Exception as e:  # noqa: BLE001
        refused = boxes and "ubregion" in str(e)
        if refused:
            ctx.event("legacy.sidecar_refused_by_setter")  # C14 matter (F22), not judged
        else:
            ctx.check("C10.legacy.loads", False, exc=e, **what)
        return
    ctx.check("C10.legacy.loads", True)
    ctx.check("C10.legacy.content",
              np.array_equal(r.mesh.n, spec.n) and r.nvdim == nvdim
              and np.array_equal(r.mesh.region.pmin, spec.pmin)
              and np.array_equal(r.mesh.region.pmax, spec.pmax)
              and r.array.dtype == np.float64 and ig.bits_equal(r.array, arr),
              got=[r.mesh.n, r.nvdim, r.mesh.region.pmin, r.mesh.region.pmax], **what)
    if boxes:
        ctx.check("C10.legacy.sidecar_subregions",
                  ig.sub_corners_equal(r.mesh.subregions, boxes, spec),
                  got=ig.subs_describe(r.mesh.subregions), **what)


def run_case(ctx, i):
    tmp = tempfile.mkdtemp(prefix="c10_")
    try:
        kind = ig.kind_of(i)
        if i % 480 == 97:
            random_field(ctx, tmp, large=True)
        elif kind in (0, 1):
            random_field(ctx, tmp)
        elif kind == 2:
            corner_typing(ctx, tmp)
        else:
            legacy(ctx, tmp, use_sample=((i // 4) % 16 == 0))
    finally:
        shutil.rmtree(tmp, ignore_errors=True)
