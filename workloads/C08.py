"""C08 - validity masks follow the data through every operation that keeps or maps cells."""

META = {
    "property": "C08",
    "level": "exploration",
    "rule": (
        "case i of seed s from default_rng([s, i]); i%4: 0 every unary/derived operation and "
        "every binary operation between fields on a random field (validity pass-through / AND, "
        "result mask is Boolean, of the mesh shape and not aliased: every entry of the result "
        "mask is flipped in place and the operands' digests compared); 1 mapped operations "
        "(sel plane/range, extraction by name/region, pad in 6 modes, resample, rotate90, HDF5 "
        "and VTK round trips) against the marker-field oracle (the same operation applied to a "
        "field whose data is the operand's mask); 2 random programs (chains of 2-5 unary, binary "
        "and mapped operations) with the marker carried along; 3 setting validity (array of any "
        "dtype/shape form, nested list, function, constant, None, 'norm') on constructor and "
        "setter. Signature = (kind, ndim, nvdim, mask kind, dtype, sorted operations used in the "
        "program); non-trivial = mask with both valid and invalid cells."
    ),
    "cases": {"quick": 480, "thorough": 32000},
    "workers": {"quick": 8, "thorough": 16},
    "timeout": {"quick": 900, "thorough": 5400},
    "deciding": [
        "C08.unary.valid",
        "C08.binary.valid_and",
        "C08.result.bool_shape",
        "C08.no_alias.flip",
        "C08.mapped.marker",
        "C08.program.marker",
        "C08.set.values_unchanged",
        "C08.set.bool_shape",
        "C08.set.content",
        "C08.set.norm",
        "amb.valid.propagation",
        "amb.valid.no_alias",
        "inv.field.valid",
    ],
    "owns": ["amb.valid.propagation", "amb.valid.no_alias", "inv.field.valid"],
    "ambient": {"quick": [], "thorough": ["discretisedfield/tests/test_field.py"]},
    "ambient_k": "valid or neg or abs or norm or orientation or diff or sel or pad or resample "
                 "or rotate or getitem or hdf5 or vtk or operator or add or mul or dot or cross",
    "anchor_files": ["discretisedfield/field.py", "discretisedfield/io/hdf5.py",
                     "discretisedfield/io/vtk.py"],
    "assumptions": [
        "'norm' validity is judged for lengths >= 1.1e-8 (valid) and <= 0.9e-8 or exactly 0 "
        "(invalid): the statement itself names the absolute 1e-8 threshold on the length",
        "unary and binary operations reached through the numpy ufunc protocol (np.sin(field), "
        "np.add(f, g), np.float64(2) * field - numpy evaluates an operator with a numpy number "
        "on the left this way) are judged like the operators they stand for",
    ],
}

import os  # noqa: E402
import shutil  # noqa: E402
import tempfile  # noqa: E402

import numpy as np  # noqa: E402

import discretisedfield as df  # noqa: E402
from dfmon import core  # noqa: E402
from workloads import gen  # noqa: E402


def make(ctx, nd=None, nvdim=None, min_n=1, n_max=4, mask=None, subregions=False, bc=False):
    rng = ctx.rng
    spec = gen.rand_meshspec(rng, nd=nd, n_max=n_max, min_n=min_n, max_cells=400,
                             scale_decades=(-9, 2))
    boxes, regions = gen.rand_subregions(rng, spec, kmax=2) if subregions else ({}, None)
    mesh = spec.mesh(subregions=regions, bc=gen.rand_bc(rng, spec.dim_names) if bc else "")
    n = tuple(int(k) for k in spec.n)
    if nvdim is None:
        nvdim = int(gen.pick(rng, [1, 2, 3, 3, 4, spec.nd]))
    dtype = gen.pick(rng, ["float", "float", "complex", "int"])
    arr = gen.rand_values(rng, (*n, nvdim), dtype)
    kind = mask or gen.pick(rng, ["random", "random", "sparse", "dense", "all"])
    valid = gen.rand_valid(rng, n, kind)
    kw = {}
    if nvdim > 1 and rng.random() < 0.5:
        kw["vdims"] = [v for v in gen.VDIM_POOLS[nvdim] if v is not None][int(rng.integers(0, 2))]
    if dtype == "complex":
        kw["dtype"] = np.complex128
    f = gen.via_history(None, df.Field(mesh, nvdim=nvdim, value=arr, valid=valid.copy(), **kw))
    return spec, boxes, f, valid, (kind, dtype)


def marker_of(f):
    """Scalar all-valid field whose *data* is f's validity mask."""
    return df.Field(f.mesh, nvdim=1, value=f.valid.astype(float)[..., np.newaxis])


def mask_of(marker):
    return np.abs(marker.array[..., 0]) > 0.5


def check_result(ctx, res, what):
    n = tuple(int(k) for k in res.mesh.n)
    ctx.check("C08.result.bool_shape",
              isinstance(res.valid, np.ndarray) and res.valid.dtype == np.bool_ and res.valid.shape == n,
              what=what, dtype=str(res.valid.dtype), shape=res.valid.shape, n=n)


def flip_test(ctx, res, operands, what):
    """Changing the result's mask afterwards never alters an operand."""
    before = [core.field_digest(o) for o in operands]
    if res.valid.size:
        np.logical_not(res.valid, out=res.valid)  # in place, every entry
    ok = all(core.field_digest(o) == d for o, d in zip(operands, before))
    np.logical_not(res.valid, out=res.valid)
    res.valid = ~res.valid  # through the setter, too
    ok = ok and all(core.field_digest(o) == d for o, d in zip(operands, before))
    res.valid = ~res.valid
    ctx.check("C08.no_alias.flip", ok, what=what,
              shares_memory=[bool(np.shares_memory(res.valid, o.valid)) for o in operands])


def unary_ops(f):
    ops = {"neg": lambda x: -x, "abs": lambda x: abs(x), "norm": lambda x: x.norm,
           "real": lambda x: x.real, "imag": lambda x: x.imag, "conjugate": lambda x: x.conjugate,
           "cabs": lambda x: x.abs, "phase": lambda x: x.phase,
           "orientation": lambda x: x.orientation}
    if f.nvdim > 1:
        for c in f.vdims:
            ops[f"component:{c}"] = lambda x, c=c: getattr(x, c)
    for d in f.mesh.region.dims:
        ops[f"diff:{d}"] = lambda x, d=d: x.diff(d)
        ops[f"diff2:{d}"] = lambda x, d=d: x.diff(d, order=2)
        ops[f"diff_unrestricted:{d}"] = lambda x, d=d: x.diff(d, restrict2valid=False)
    return ops


def binary_ops(nvdim):
    ops = {"add": lambda a, b: a + b, "sub": lambda a, b: a - b, "mul": lambda a, b: a * b,
           "truediv": lambda a, b: a / b, "pow": lambda a, b: a**b,
           "dot": lambda a, b: a.dot(b), "matmul": lambda a, b: a @ b,
           "angle": lambda a, b: a.angle(b)}
    if nvdim == 3:
        ops["cross"] = lambda a, b: a.cross(b)
        ops["and"] = lambda a, b: a & b
    return ops


# --------------------------------------------------------------- 0 unary + binary
def unary_binary(ctx):
    rng = ctx.rng
    spec, _, f, valid, sigk = make(ctx, bc=True)
    ctx.sig(("unary_binary", spec.nd, f.nvdim) + sigk, nontrivial=bool(valid.any() and not valid.all()))
    base = {"ndim": spec.nd, "nvdim": f.nvdim, "n": spec.n, "bc": f.mesh.bc, "dtype": sigk[1]}
    for name, op in unary_ops(f).items():
        what = {"op": name, **base}
        ok, r = ctx.expect_ok("C08.unary.defined", op, f, what=what)
        if not ok:
            continue
        check_result(ctx, r, what)
        ctx.check("C08.unary.valid", np.array_equal(r.valid, f.valid), what=what,
                  got=r.valid, expected=f.valid)
        flip_test(ctx, r, [f], what)
        ctx.event("unary." + name.split(":")[0])
    n = tuple(int(k) for k in spec.n)
    g = df.Field(f.mesh, nvdim=f.nvdim, value=gen.rand_values(rng, (*n, f.nvdim), "float"),
                 valid=gen.rand_valid(rng, n, "random"))
    s = df.Field(f.mesh, nvdim=1, value=gen.rand_values(rng, (*n, 1), "float"),
                 valid=gen.rand_valid(rng, n, "random"))
    for name, op in binary_ops(f.nvdim).items():
        pairs = [("f,g", f, g), ("g,f", g, f)]
        if name in ("add", "sub", "mul", "truediv", "pow"):
            pairs += [("f,scalar_field", f, s), ("scalar_field,f", s, f)]
        for tag, a, b in pairs:
            what = {"op": name, "operands": tag, **base}
            ok, r = ctx.expect_ok("C08.binary.defined", op, a, b, what=what)
            if not ok:
                continue
            check_result(ctx, r, what)
            ctx.check("C08.binary.valid_and", np.array_equal(r.valid, a.valid & b.valid), what=what,
                      got=r.valid, a=a.valid, b=b.valid)
            flip_test(ctx, r, [a, b], what)
            ctx.event("binary." + name)
    for name, uf in {"np.add": np.add, "np.multiply": np.multiply, "np.subtract": np.subtract}.items():
        for tag, a, b in (("f,g", f, g), ("g,f", g, f)):
            what = {"op": name, "operands": tag, **base}
            ok, r = ctx.expect_ok("C08.binary.defined", uf, a, b, what=what)
            if ok:
                check_result(ctx, r, what)
                ctx.check("C08.binary.valid_and", np.array_equal(r.valid, a.valid & b.valid), what=what,
                          got=r.valid, a=a.valid, b=b.valid)
                flip_test(ctx, r, [a, b], what)
                ctx.event("binary.ufunc")
    # ufuncs with several outputs (np.divmod, np.modf, np.frexp): the library may refuse
    # them (it does at the pinned commit, which is not judged); if it returns fields, each of
    # them is the result of a binary / unary operation and carries the AND / the operand's mask
    for name, call, ops in (("np.divmod", lambda: np.divmod(f, g), [f, g]),
                            ("np.divmod(g, f)", lambda: np.divmod(g, f), [g, f]),
                            ("np.modf", lambda: np.modf(f), [f]),
                            ("np.frexp", lambda: np.frexp(f), [f])):
        if f.array.dtype.kind == "c":
            break
        try:
            with np.errstate(all="ignore"):
                outs = call()
        except Exception:  # noqa: BLE001 - refused
            ctx.event("multi_output_ufunc.refused")
            continue
        ctx.event("multi_output_ufunc.returned")
        expv = ops[0].valid if len(ops) == 1 else ops[0].valid & ops[1].valid
        for k, r in enumerate(outs if isinstance(outs, tuple) else (outs,)):
            if isinstance(r, df.Field):
                ctx.check("C08.binary.valid_and" if len(ops) == 2 else "C08.unary.valid",
                          np.array_equal(r.valid, expv),
                          what={"op": name, "output": k, **base}, got=r.valid, expected=expv)
    # stacking
    comps = [s, df.Field(f.mesh, nvdim=1, value=1.0, valid=gen.rand_valid(rng, n, "random"))]
    what = {"op": "lshift", **base}
    r = comps[0] << comps[1]
    check_result(ctx, r, what)
    ctx.check("C08.binary.valid_and", np.array_equal(r.valid, comps[0].valid & comps[1].valid), what=what)
    flip_test(ctx, r, comps, what)
    # operations with non-field operands keep the field's validity
    for name, fn in {"mul_number": lambda x: x * 2.5, "rmul_number": lambda x: 2.5 * x,
                     "add_vector": lambda x: x + tuple([1.0] * x.nvdim),
                     "rsub_number": lambda x: 3 - x,
                     "dot_vector": lambda x: x.dot([1.0] * x.nvdim),
                     # neutral elements in every position (shortcuts that hand back the
                     # operand itself would make the result's validity the operand's)
                     "add_zero": lambda x: x + 0, "radd_zero": lambda x: 0 + x,
                     "radd_zero_float": lambda x: 0.0 + x, "radd_zero_complex": lambda x: 0j + x,
                     "sum_of_one": lambda x: sum([x]), "sub_zero": lambda x: x - 0,
                     "mul_one": lambda x: x * 1, "rmul_one": lambda x: 1 * x,
                     "rmul_one_float": lambda x: 1.0 * x, "div_one": lambda x: x / 1,
                     "pow_one": lambda x: x ** 1,
                     "add_zero_vector": lambda x: x + tuple([0.0] * x.nvdim),
                     "mul_ones_array": lambda x: x * np.ones_like(x.array),
                     "double_neg": lambda x: -(-x),
                     # a numpy number or array on the left: numpy evaluates the operator
                     # through the ufunc protocol (Field.__array_ufunc__), not through the
                     # reflected operator
                     "np_float64_mul": lambda x: np.float64(2.5) * x,
                     "np_sqrt_mul": lambda x: (1 / np.sqrt(2)) * x,
                     "np_int64_add": lambda x: np.int64(2) + x,
                     "mean_component_mul": lambda x: np.abs(x.mean()).max() * x,
                     "ndarray_mul": lambda x: np.full(x.nvdim, 1.5) * x,
                     "np_float64_sub": lambda x: np.float64(3) - x,
                     "ufunc_negative": lambda x: np.negative(x),
                     "ufunc_absolute": lambda x: np.abs(x),
                     "ufunc_sin": lambda x: np.sin(x),
                     "ufunc_multiply_number": lambda x: np.multiply(x, 2.0)}.items():
        what = {"op": name, **base}
        r = fn(f)
        check_result(ctx, r, what)
        ctx.check("C08.unary.valid", np.array_equal(r.valid, f.valid), what=what)
        flip_test(ctx, r, [f], what)


# ------------------------------------------------------------- 1 mapped operations
PAD_MODES = ["constant", "wrap", "edge", "reflect", "symmetric", "maximum"]


def mapped_ops(ctx, spec, boxes, f, tmp, kinds=None):
    """{name: callable(field) -> field}: deterministic once built (same op for marker)."""
    rng = ctx.rng
    nd, n = spec.nd, np.array(f.mesh.n)
    dims = list(f.mesh.region.dims)
    pmin, cell = np.asarray(f.mesh.region.pmin, float), np.asarray(f.mesh.cell, float)
    ops = {}
    ax = int(rng.integers(0, nd))
    i = int(rng.integers(0, n[ax]))
    j = int(rng.integers(i, n[ax]))
    x = float(pmin[ax] + (i + rng.uniform(0.2, 0.8)) * cell[ax])
    y = float(pmin[ax] + (j + rng.uniform(0.2, 0.8)) * cell[ax])
    if nd > 1:
        ops["sel_plane"] = lambda q: q.sel(**{dims[ax]: x})
        ops["sel_plane_default"] = lambda q: q.sel(dims[ax])
    ops["sel_range"] = lambda q: q.sel(**{dims[ax]: (x, y)})
    for name in boxes:
        ops[f"getitem_name:{name}"] = lambda q, name=name: q[name]
    lo, hi = gen.rand_box(rng, n)
    sub = df.Region(p1=(pmin + (lo + rng.uniform(0.05, 0.45, nd)) * cell).tolist(),
                    p2=(pmin + (hi - rng.uniform(0.05, 0.45, nd)) * cell).tolist())
    ops["getitem_region"] = lambda q: q[sub]
    pw = {dims[ax]: (int(rng.integers(0, 3)), int(rng.integers(0, 3)))}
    if nd > 1 and rng.random() < 0.5:
        pw[dims[(ax + 1) % nd]] = (int(rng.integers(0, 3)), 1)
    for mode in PAD_MODES:
        if mode in ("reflect",) and any(n[dims.index(d)] < 2 for d in pw):
            continue  # numpy cannot reflect a single cell
        ops[f"pad:{mode}"] = lambda q, mode=mode: q.pad(pw, mode=mode)
    # "mode as defined in numpy.pad": a function that fills the new cells itself (here: with
    # the nearest old cell) - the new cells then carry that cell's validity as well
    ops["pad:function"] = lambda q: q.pad(pw, mode=_pad_nearest)
    n2 = tuple(int(k) for k in rng.integers(1, 7, nd))
    ops["resample"] = lambda q: q.resample(n2)
    if any(k % 2 == 0 for k in n):
        # coarsening by an even factor: every new cell centre lies on a face of the old
        # lattice (a tie) - whichever neighbour the data take, the validity must take it too
        n3 = tuple(int(k // 2) if k % 2 == 0 else int(k) for k in n)
        ops["resample_even_coarsening"] = lambda q: q.resample(n3)
    if nd > 1:
        a, b = (int(t) for t in rng.choice(nd, 2, replace=False))
        k = int(rng.integers(-5, 6))
        ref = None if rng.random() < 0.5 else (pmin + rng.uniform(-2, 3, nd) * cell * n).tolist()
        ops["rotate90"] = lambda q: q.rotate90(dims[a], dims[b], k=k, reference_point=ref)
        ops["rotate90_inplace"] = lambda q: _rot_inplace(q, dims[a], dims[b], k, ref)

    def h5(q):
        fn = os.path.join(tmp, "f.h5")
        q.to_file(fn)
        return df.Field.from_file(fn)

    ops["hdf5"] = h5
    if nd == 3 and not np.iscomplexobj(f.array):  # VTK cannot store complex values
        for rep in ("bin", "xml", "txt"):
            def vtk(q, rep=rep):
                fn = os.path.join(tmp, f"f_{rep}.vtk")
                q.to_file(fn, representation=rep, save_subregions=False)
                return df.Field.from_file(fn)

            ops[f"vtk:{rep}"] = vtk
    if kinds is not None:
        ops = {k: v for k, v in ops.items() if k.split(":")[0] in kinds}
    return ops


def _pad_nearest(vector, iaxis_pad_width, iaxis, kwargs):
    """A numpy.pad mode function: new cells copy the nearest cell of the original."""
    a, b = iaxis_pad_width
    if a:
        vector[:a] = vector[a]
    if b:
        vector[-b:] = vector[-b - 1]


def _rot_inplace(q, a, b, k, ref):
    c = df.Field(q.mesh.translate([0.0] * q.mesh.region.ndim), nvdim=q.nvdim, value=q.array.copy(),
                 valid=q.valid.copy(), vdims=q.vdims, vdim_mapping=q.vdim_mapping, dtype=q.dtype)
    return c.rotate90(a, b, k=k, reference_point=ref, inplace=True)


def rotatable(f):
    return f.nvdim == 1 or all(d in f.vdim_mapping.values() for d in f.mesh.region.dims)


def mapped(ctx):
    spec, boxes, f, valid, sigk = make(ctx, subregions=True)
    ctx.sig(("mapped", spec.nd, f.nvdim) + sigk, nontrivial=bool(valid.any() and not valid.all()))
    tmp = tempfile.mkdtemp(prefix="dfmon_c08_")
    try:
        m = marker_of(f)
        for name, op in mapped_ops(ctx, spec, boxes, f, tmp).items():
            if name.startswith("rotate90") and not rotatable(f):
                continue
            what = {"op": name, "ndim": spec.nd, "nvdim": f.nvdim, "n": spec.n,
                    "dtype": sigk[1], "mask": sigk[0]}
            ok, r = ctx.expect_ok("C08.mapped.defined", op, f, what=what)
            ok2, mk = ctx.expect_ok("C08.mapped.defined", op, m, what={**what, "on": "marker"})
            if not (ok and ok2):
                continue
            check_result(ctx, r, what)
            ctx.check("C08.mapped.marker",
                      r.valid.shape == mask_of(mk).shape and np.array_equal(r.valid, mask_of(mk)),
                      what=what, got=r.valid, expected=mask_of(mk))
            flip_test(ctx, r, [f], what)
            ctx.event("mapped." + name.split(":")[0])
    finally:
        shutil.rmtree(tmp, ignore_errors=True)


# ------------------------------------------------------------------- 2 programs
def program(ctx):
    rng = ctx.rng
    spec, boxes, f, valid, sigk = make(ctx, min_n=2, subregions=False)
    tmp = tempfile.mkdtemp(prefix="dfmon_c08_")
    used = []
    try:
        cur, m = f, marker_of(f)
        originals = [(f, core.field_digest(f))]
        for step in range(int(rng.integers(2, 6))):
            r = rng.random()
            if r < 0.35:
                ops = unary_ops(cur)
                name = gen.pick(rng, sorted(ops))
                nxt, m2 = ops[name](cur), m
            elif r < 0.6:
                n = tuple(int(k) for k in cur.mesh.n)
                other = df.Field(cur.mesh, nvdim=cur.nvdim,
                                 value=gen.rand_values(rng, (*n, cur.nvdim), "float"),
                                 valid=gen.rand_valid(rng, n, "random"))
                originals.append((other, core.field_digest(other)))
                ops = binary_ops(cur.nvdim)
                name = gen.pick(rng, sorted(ops))
                a, b = (cur, other) if rng.random() < 0.5 else (other, cur)
                nxt = ops[name](a, b)
                m2 = m * marker_of(other)
            else:
                ops = mapped_ops(ctx, gen.MeshSpec(cur.mesh.region.pmin, cur.mesh.cell, cur.mesh.n,
                                                   list(cur.mesh.region.dims), None,
                                                   [False] * cur.mesh.region.ndim), {}, cur, tmp)
                ops = {k: v for k, v in ops.items()
                       if not (k.startswith("rotate90") and not rotatable(cur))
                       and not (k.startswith("sel_plane") and cur.mesh.region.ndim < 2)}
                name = gen.pick(rng, sorted(ops))
                nxt, m2 = ops[name](cur), ops[name](m)
            used.append(name.split(":")[0])
            if not isinstance(nxt, df.Field):
                break
            cur, m = nxt, m2
            what = {"program": used, "step": step, "ndim": spec.nd, "nvdim0": f.nvdim}
            check_result(ctx, cur, what)
            ctx.check("C08.program.marker",
                      cur.valid.shape == mask_of(m).shape and np.array_equal(cur.valid, mask_of(m)),
                      what=what, got=cur.valid, expected=mask_of(m))
    finally:
        shutil.rmtree(tmp, ignore_errors=True)
    ctx.sig(("program", spec.nd, f.nvdim, sigk[0], tuple(sorted(set(used)))),
            nontrivial=bool(valid.any() and not valid.all()))
    if ctx.i % 40 == 2:
        ctx.sample({"program": used, "mesh": spec.describe(), "nvdim": f.nvdim})


# ----------------------------------------------------------------- 3 set validity
def set_validity(ctx):
    rng = ctx.rng
    spec, _, f, valid, sigk = make(ctx, mask="all")
    n = tuple(int(k) for k in spec.n)
    ctx.sig(("set", spec.nd, f.nvdim) + sigk, nontrivial=True)
    target = gen.rand_valid(rng, n, "random")
    centre_axis = int(rng.integers(0, spec.nd))
    # threshold on a lattice vertex: every cell centre is half a cell away from it
    thr = float(spec.pmin[centre_axis] + int(rng.integers(0, n[centre_axis] + 1)) * spec.cell[centre_axis])

    def fun(p):
        p = np.atleast_1d(p)
        return bool(p[centre_axis] > thr)

    exp_fun = np.zeros(n, dtype=bool)
    for idx in spec.indices():
        exp_fun[idx] = spec.centre(idx)[centre_axis] > thr
    forms = {
        "bool_array": (target.copy(), target),
        "int_array": (target.astype(int), target),
        "float_array": (target.astype(float), target),
        "array_n_1": (target[..., np.newaxis].copy(), target),
        "nested_list": (target.tolist(), target),
        "int_nested_list": (target.astype(int).tolist(), target),
        "function": (fun, exp_fun),
        "True": (True, np.ones(n, bool)),
        "False": (False, np.zeros(n, bool)),
        "None": (None, np.ones(n, bool)),
        "one": (1, np.ones(n, bool)),
        "zero": (0, np.zeros(n, bool)),
        # constants as numpy hands them out (the result of .all() / .any(), one entry of a mask)
        "np.True_": (np.True_, np.ones(n, bool)),
        "np.False_": (np.False_, np.zeros(n, bool)),
        "mask.any()": (target.any() | True, np.ones(n, bool)),
        # a scalar field of zeros and non-zeros on the same mesh (what Field.resample passes)
        "float_field": (df.Field(f.mesh, nvdim=1, value=np.where(target, 2.5, 0.0)[..., np.newaxis]),
                        target),
        "int_field": (df.Field(f.mesh, nvdim=1, value=target.astype(int)[..., np.newaxis], dtype=int),
                      target),
    }
    for name, (spec_v, expected) in forms.items():
        for via in ("setter", "constructor"):
            what = {"form": name, "via": via, "ndim": spec.nd, "nvdim": f.nvdim, "n": spec.n}
            if via == "setter":
                g = df.Field(f.mesh, nvdim=f.nvdim, value=f.array.copy(), dtype=f.dtype)
                a0 = core.arr_hash(g.array)

                def assign(g=g, v=spec_v):
                    g.valid = v

                ok, _ = ctx.expect_ok("C08.set.accepted", assign, what=what)
            else:
                a0 = core.arr_hash(f.array)
                ok, g = ctx.expect_ok("C08.set.accepted",
                                      lambda v=spec_v: df.Field(f.mesh, nvdim=f.nvdim,
                                                                value=f.array.copy(), valid=v,
                                                                dtype=f.dtype), what=what)
            if not ok:
                continue
            ctx.check("C08.set.values_unchanged", core.arr_hash(g.array) == a0, what=what)
            ctx.check("C08.set.bool_shape", isinstance(g.valid, np.ndarray)
                      and g.valid.dtype == np.bool_ and g.valid.shape == n, what=what,
                      dtype=str(getattr(g.valid, "dtype", None)), shape=getattr(g.valid, "shape", None))
            ctx.check("C08.set.content", np.array_equal(np.asarray(g.valid).astype(bool), expected),
                      what=what, got=g.valid, expected=expected)
            if isinstance(spec_v, np.ndarray):
                # the stored mask is the field's own: changing the caller's array later
                # (or the mask itself) does not couple the two
                ctx.check("C08.set.own_copy", not np.shares_memory(g.valid, spec_v), what=what)
    # wrong shape is rejected and leaves the field unchanged
    g = df.Field(f.mesh, nvdim=f.nvdim, value=f.array.copy(), valid=target.copy(), dtype=f.dtype)
    bad = np.ones(tuple(k + 1 for k in n), dtype=bool)

    def assign_bad():
        g.valid = bad

    ctx.expect_raises("C08.set.wrong_shape_rejected", assign_bad, unchanged=[g],
                      what={"shape": bad.shape, "n": n})
    # 'norm': exactly the cells whose value is non-zero; the statement fixes the
    # threshold (absolute 1e-8 on the length), so lengths clearly below (<= 0.9e-8) and
    # clearly above (>= 1.1e-8) it are judged; components may all be below 1e-8 while the
    # length is above it
    r = rng.random(n)
    lengths = np.where(r < 0.35, 10.0 ** rng.uniform(-6, 6, n), 0.0)
    lengths = np.where((r >= 0.35) & (r < 0.5), 10.0 ** rng.uniform(-15, -9, n), lengths)
    lengths = np.where((r >= 0.5) & (r < 0.65), rng.uniform(1.1e-8, 1.7e-8, n), lengths)
    lengths = np.where((r >= 0.65) & (r < 0.75), rng.uniform(0.2e-8, 0.9e-8, n), lengths)
    exp_norm = lengths >= 1.1e-8
    dirs = rng.normal(size=(*n, f.nvdim))
    diag = rng.random(n) < 0.5  # near-diagonal directions: all components alike
    dirs = np.where(diag[..., np.newaxis], rng.choice([-1.0, 1.0], size=(*n, f.nvdim))
                    * (1 + 0.05 * rng.random((*n, f.nvdim))), dirs)
    dirs /= np.linalg.norm(dirs, axis=-1, keepdims=True)
    arr = dirs * lengths[..., np.newaxis]
    lengths = np.linalg.norm(arr, axis=-1)  # as stored
    judged = (lengths <= 0.9e-8) | (lengths >= 1.1e-8)
    for via in ("setter", "constructor"):
        what = {"form": "norm", "via": via, "ndim": spec.nd, "nvdim": f.nvdim}
        if via == "setter":
            h = df.Field(f.mesh, nvdim=f.nvdim, value=arr.copy())
            a0 = core.arr_hash(h.array)
            h.valid = "norm"
        else:
            h = df.Field(f.mesh, nvdim=f.nvdim, value=arr.copy(), valid="norm")
            a0 = core.arr_hash(np.asarray(arr, dtype=h.array.dtype))
        ctx.check("C08.set.values_unchanged", core.arr_hash(h.array) == a0, what=what)
        ctx.check("C08.set.bool_shape", h.valid.dtype == np.bool_ and h.valid.shape == n, what=what)
        ctx.check("C08.set.norm", np.array_equal(h.valid[judged], exp_norm[judged]), what=what,
                  got=h.valid, expected=exp_norm, lengths=lengths)


def run_case(ctx, i):
    [unary_binary, mapped, program, set_validity][i % 4](ctx)
