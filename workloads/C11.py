"""C11 - Field FFTs are the discrete Fourier transform at the k-mesh's frequencies."""

META = {
    "property": "C11",
    "level": "exploration",
    "rule": (
        "case i of seed s is generated from default_rng([s, i]); i%3 selects the kind (0: "
        "fftn/ifftn of a real or complex field; 1: rfftn/irfftn of a real field, with the "
        "explicit shape and - for even last-axis counts - without; 2: linearity and "
        "per-component action of fftn/rfftn/ifftn). Meshes are 1-4-d, every axis "
        "independently single-cell (25 %) or 2..7 cells so every mix of even/odd/single "
        "occurs, anisotropic cells (decade 1e-9..1e3), any position (<= 1e3 edge lengths "
        "from the origin), renamed dimensions and units, 1-4 components with arbitrary labels "
        "and (when nvdim == ndim) a permuted component-to-axis mapping. Signature = (kind, "
        "ndim, per-axis class single/even/odd, complex?, nvdim, labels default?, mapping "
        "kind); non-trivial = some axis has >= 2 cells."
    ),
    "cases": {"quick": 360, "thorough": 240000},
    "workers": {"quick": 8, "thorough": 16},
    "timeout": {"quick": 600, "thorough": 5400},
    "deciding": [
        "C11.kmesh.n", "C11.operand_untouched", "C11.repeatable", "C11.mesh_level.shape_accepted",
        "C11.kmesh.frequencies",
        "C11.kmesh.names_units",
        "C11.dft",
        "C11.zero_frequency",
        "C11.labels.forward",
        "C11.inverse.values",
        "C11.inverse.mesh",
        "C11.inverse.names_units",
        "C11.labels.restored",
        "C11.rfft.half_of_fft",
        "C11.rfft.inverse_with_shape",
        "C11.rfft.inverse_default_even",
        "C11.linear",
        "C11.per_component",
        "C11.mesh_level",
    ],
    "ambient": {"quick": [], "thorough": []},
    "anchor_files": ["discretisedfield/field.py", "discretisedfield/mesh.py"],
    "assumptions": [
        "the reference is the direct sum  sum_r f(r) exp(-2 pi i k.r)  (evaluated axis by "
        "axis, which is the same sum) with r = j*cell from the first cell and k the k-cell "
        "centre *returned by the library*; numpy is used only for exp/tensordot; tolerance "
        "1e-10 of sum|f|",
        "expected k-cell centres: (j - n//2)/(n*cell), j = 0..n-1 (shifted DFT sample "
        "frequencies; 0 for a single-cell axis) and j/(n*cell), j = 0..n//2 on the last axis "
        "of the real transform; tolerance 1e-9 of the frequency spacing 1/(n*cell)",
        "spelling of reciprocal names: 'k_' + name and 'ft_' + label (library documentation); "
        "for units only 'differs from the original, contains it, and is restored exactly by "
        "the inverse' is required",
        "irfftn without shape is only judged for an even last-axis count (the statement: the "
        "real inverse needs the original count to recover odd sizes; 1 is odd)",
    ],
}

import numpy as np  # noqa: E402

import discretisedfield as df  # noqa: E402
from dfmon import core  # noqa: E402
from workloads import gen  # noqa: E402

TOL_DFT = 1e-10
TOL_FREQ = 1e-9


# ------------------------------------------------------------------ reference model
def freq_shifted(n, d):
    return (np.arange(n) - n // 2) / (n * d)


def freq_real(n, d):
    return np.arange(n // 2 + 1) / (n * d)


def direct_dft(arr, ks, rs):
    """sum_r arr[r] exp(-2 pi i k.r) for all k in the product grid ``ks``."""
    out = np.asarray(arr, dtype=complex)
    for ax in range(len(ks)):
        W = np.exp(-2j * np.pi * np.outer(ks[ax], rs[ax]))
        out = np.moveaxis(np.tensordot(W, out, axes=(1, ax)), 0, ax)
    return out


# ------------------------------------------------------------------ generated input
class Setup:
    def __init__(self, ctx, real):
        rng = ctx.rng
        self.nd = nd = int(rng.integers(1, 5))
        for _ in range(50):
            n = np.array([1 if rng.random() < 0.25 else int(rng.integers(2, 8))
                          for _ in range(nd)])
            if np.prod(n) <= 1500:
                break
        else:
            n = np.minimum(n, 4)
        base = gen.rand_meshspec(rng, nd=nd, n_max=2, scale_decades=(-9, 3))
        # keep the offset measured in edge lengths; integer corners stay integers
        pmin = base.pmin if base.int_corners else base.pmin / base.n * n
        # (integer corners only where the edges n * cell are whole numbers)
        int_c = bool(base.int_corners and all(float(c * k).is_integer() for c, k in zip(base.cell, n)))
        self.spec = spec = gen.MeshSpec(pmin, base.cell, n, base.dims, base.units,
                                        base.flip, int_c)
        if spec.units is None and rng.random() < 0.5:
            spec.units = ["u0", "u1", "u2", "u3"][:nd]
        self.n = tuple(int(k) for k in n)
        self.names = spec.dim_names
        self.mesh = spec.mesh()
        self.cell = np.asarray(self.mesh.cell, dtype=float)
        self.units = list(self.mesh.region.units)
        self.nv = nv = int(rng.integers(1, 5))
        self.vdims = gen.rand_vdims(rng, nv)
        self.labels = self.vdims or gen.default_vdims(nv)
        self.mapping, self.map_kind = None, "default"
        if nv == nd and nv > 1 and rng.random() < 0.6:
            perm = rng.permutation(nd)
            self.mapping = gen.shuffle_keys(
                rng, {self.labels[j]: self.names[int(perm[j])] for j in range(nv)})
            self.map_kind = "permutation"
        elif nv > nd and nv > 1 and rng.random() < 0.5:
            # more components than axes: the extra ones point along no axis (None), the
            # usual form for a 3-component field on a 2-d mesh
            perm = rng.permutation(nv)
            # ... or along an axis this mesh does not have (what a plane cut `f.sel('z')` of a
            # 3-d vector field carries: {'x': 'x', 'y': 'y', 'z': 'z'} on an ('x', 'y') mesh)
            gone = gen.pick(rng, [None, None, "out", "zz"])
            self.mapping = gen.shuffle_keys(
                rng, {self.labels[int(perm[j])]: (self.names[j] if j < nd else
                                                  (None if gone is None else f"{gone}{j}"))
                      for j in range(nv)})
            self.map_kind = "partial_with_None" if gone is None else "partial_with_foreign_axis"
        self.real = real
        self.arr = gen.rand_values(rng, (*self.n, nv), "float" if real else "complex")
        if real and rng.random() < 0.2:
            self.arr = gen.rand_values(rng, (*self.n, nv), "int").astype(float)
        self.rs = [np.arange(self.n[j]) * self.cell[j] for j in range(nd)]
        self.total = float(np.sum(np.abs(self.arr)))

    def field(self, arr=None):
        return gen.via_history(None, df.Field(
            self.mesh, nvdim=self.nv, value=self.arr if arr is None else arr,
            vdims=self.vdims, vdim_mapping=self.mapping))

    def expected_mapping(self, f):
        return dict(f.vdim_mapping or {})

    def classes(self):
        return tuple("single" if k == 1 else "even" if k % 2 == 0 else "odd" for k in self.n)

    def info(self, **kw):
        d = {"ndim": self.nd, "n": self.n, "cell": self.cell, "dims": self.names,
             "axis_classes": self.classes(), "nvdim": self.nv, "complex": not self.real,
             "single_cell_axis": bool(1 in self.n)}
        d.update(kw)
        return d

    def sig(self, ctx, kind):
        ctx.sig((kind, self.nd, self.classes(), not self.real, self.nv, self.vdims is None,
                 self.map_kind), nontrivial=max(self.n) >= 2)


# ------------------------------------------------------------------ shared checks
def check_kmesh(ctx, su, km, rfft, transform):
    nd, n, cell = su.nd, su.n, su.cell
    exp_n = list(n)
    if rfft:
        exp_n[-1] = n[-1] // 2 + 1
    n_ok = ctx.check("C11.kmesh.n", list(int(x) for x in km.n) == exp_n,
                     got=km.n, expected=exp_n, **su.info(transform=transform))
    ks = []
    for ax in range(nd):
        last_real = rfft and ax == nd - 1
        exp = freq_real(n[ax], cell[ax]) if last_real else freq_shifted(n[ax], cell[ax])
        got = np.asarray(km.cells[ax], dtype=float)
        ks.append(got)
        spacing = 1.0 / (n[ax] * cell[ax])
        ctx.check("C11.kmesh.frequencies",
                  got.shape == exp.shape and np.all(np.abs(got - exp) <= TOL_FREQ * spacing),
                  axis=su.names[ax], n_axis=n[ax], single_cell_axis=bool(n[ax] == 1),
                  last_axis_of_real_transform=bool(last_real),
                  got_times_cell=got * cell[ax], expected_times_cell=exp * cell[ax],
                  **{k: v for k, v in su.info(transform=transform).items()
                     if k != "single_cell_axis"})
    kd, ku = list(km.region.dims), list(km.region.units)
    ctx.check("C11.kmesh.names_units",
              kd == ["k_" + d for d in su.names]
              and all(u0 in u1 and u1 != u0 and "-1" in u1 for u0, u1 in zip(su.units, ku)),
              got_dims=kd, got_units=ku, dims=su.names, units=su.units)
    return n_ok, ks


def check_labels_forward(ctx, su, f, F, transform):
    exp_v = None if f.vdims is None else ["ft_" + v for v in f.vdims]
    exp_m = {"ft_" + k: (None if v is None else "k_" + v)
             for k, v in (f.vdim_mapping or {}).items()}
    ctx.check("C11.labels.forward",
              F.vdims == exp_v and dict(F.vdim_mapping or {}) == exp_m and F.nvdim == su.nv,
              got_vdims=F.vdims, got_mapping=F.vdim_mapping, expected_vdims=exp_v,
              expected_mapping=exp_m, transform=transform)


def check_back(ctx, su, f, b, transform, monitor_values):
    n, cell = su.n, su.cell
    amax = float(np.max(np.abs(su.arr))) if su.arr.size else 0.0
    info = su.info(transform=transform)
    ctx.check(monitor_values,
              b.array.shape == su.arr.shape
              and np.all(np.abs(b.array - su.arr) <= 1e-11 * amax),
              got_shape=b.array.shape,
              maxdiff_over_max=(float(np.max(np.abs(b.array - su.arr))) / amax
                                if b.array.shape == su.arr.shape and amax else None), **info)
    bm = b.mesh
    edges = cell * np.array(n)
    centre = (np.asarray(bm.region.pmin, dtype=float) + np.asarray(bm.region.pmax)) / 2
    ctx.check("C11.inverse.mesh",
              tuple(int(x) for x in bm.n) == n
              and np.all(np.abs(np.asarray(bm.cell) - cell) <= 1e-9 * cell)
              and np.all(np.abs(centre) <= 1e-9 * edges),
              got_n=bm.n, got_cell=bm.cell, got_centre=centre, **info)
    ctx.check("C11.inverse.names_units",
              list(bm.region.dims) == su.names and list(bm.region.units) == su.units,
              got_dims=bm.region.dims, got_units=bm.region.units, dims=su.names,
              units=su.units, transform=transform)
    ctx.check("C11.labels.restored",
              b.vdims == f.vdims and dict(b.vdim_mapping or {}) == dict(f.vdim_mapping or {}),
              got_vdims=b.vdims, got_mapping=b.vdim_mapping, expected_vdims=f.vdims,
              expected_mapping=f.vdim_mapping, transform=transform)


def mesh_same(m1, m2, rel=1e-9):
    c = np.asarray(m1.cell, dtype=float)
    return (np.array_equal(m1.n, m2.n) and list(m1.region.dims) == list(m2.region.dims)
            and list(m1.region.units) == list(m2.region.units)
            and np.all(np.abs(np.asarray(m1.region.pmin) - m2.region.pmin) <= rel * c)
            and np.all(np.abs(np.asarray(m1.region.pmax) - m2.region.pmax) <= rel * c))


def zero_index(su, rfft):
    idx = [k // 2 for k in su.n]
    if rfft:
        idx[-1] = 0
    return tuple(idx)


# ------------------------------------------------------------------ kinds
def operand_kept(ctx, su, operand, digest_before, transform, again, first):
    """History: the field that was transformed is read again afterwards.  It still holds
    what the transform was computed from (a transform that works in place on its input
    returns the right spectrum once and leaves the user with a different field), and the
    same call gives the same result again."""
    ctx.check("C11.operand_untouched", core.field_digest(operand) == digest_before,
              **su.info(transform=transform, operand_dtype=str(operand.array.dtype)))
    second = again()
    scale = max(float(np.max(np.abs(first.array))) if first.array.size else 0.0, 1e-300)
    ctx.check("C11.repeatable",
              second.array.shape == first.array.shape
              and bool(np.all(np.abs(second.array - first.array) <= 1e-12 * scale)),
              **su.info(transform=transform, operand_dtype=str(operand.array.dtype)))


def after_result_mesh_changed(ctx, su, F, rfft):
    """History: the caller changes the k-mesh of a result in place (2 pi for angular
    wavenumbers, a shift of the origin), then transforms again - the same field and a field
    on an equal but separate mesh.  Every forward transform has the DFT frequencies."""
    rng = ctx.rng
    if rng.random() < 0.5:
        return
    try:
        if rng.random() < 0.6:
            F.mesh.scale(2 * np.pi, inplace=True)
        else:
            F.mesh.translate((np.asarray(F.mesh.cell) * rng.integers(1, 4, su.nd)).tolist(), inplace=True)
    except Exception:  # noqa: BLE001 - C13's subject
        return
    ctx.event("history.result_kmesh_changed_in_place")
    name = "rfftn" if rfft else "fftn"
    twin = df.Field(df.Mesh(region=su.spec.region(), n=list(su.n)), nvdim=su.nv, value=su.arr,
                    vdims=su.vdims, vdim_mapping=su.mapping)
    for who, fld in (("same field", su.field()), ("equal mesh, separate object", twin)):
        F2 = fld.rfftn() if rfft else fld.fftn()
        check_kmesh(ctx, su, F2.mesh, rfft,
                    f"{name} of {who} after the k-mesh of an earlier result was changed in place")
    km = su.mesh.fftn(rfft=rfft)
    check_kmesh(ctx, su, km, rfft, f"Mesh.{name} after the k-mesh of an earlier result was changed in place")


def complex_transform(ctx):
    su = Setup(ctx, real=ctx.rng.random() < 0.5)
    su.sig(ctx, "fftn")
    ctx.sample({"kind": "fftn", **su.info(), "vdims": su.vdims, "mapping": su.mapping})
    f = su.field()
    d0 = core.field_digest(f)
    F = f.fftn()
    operand_kept(ctx, su, f, d0, "fftn", lambda: f.fftn(), F)
    n_ok, ks = check_kmesh(ctx, su, F.mesh, False, "fftn")
    check_labels_forward(ctx, su, f, F, "fftn")
    info = su.info(transform="fftn")
    if n_ok and F.array.shape == su.arr.shape:
        exp = direct_dft(su.arr, ks, su.rs)
        err = np.abs(F.array - exp)
        ctx.check("C11.dft", np.all(err <= TOL_DFT * su.total),
                  max_err_over_sum=float(err.max()) / su.total if su.total else 0.0,
                  worst_k_cell=np.unravel_index(int(np.argmax(err)), err.shape), **info)
        z = zero_index(su, False)
        plain = su.arr.reshape(-1, su.nv).sum(axis=0)
        ctx.check("C11.zero_frequency",
                  np.all(np.abs(F.array[z] - plain) <= 1e-12 * max(su.total, 1e-300)),
                  index=z, got=F.array[z], expected=plain, **info)
    dF = core.field_digest(F)
    b = F.ifftn()
    operand_kept(ctx, su, F, dF, "ifftn", lambda: F.ifftn(), b)
    check_back(ctx, su, f, b, "ifftn(fftn)", "C11.inverse.values")
    # the mesh-level transforms give the same meshes
    km = su.mesh.fftn()
    ctx.check("C11.mesh_level", mesh_same(km, F.mesh) and mesh_same(km.ifftn(), b.mesh),
              what="Mesh.fftn / Mesh.ifftn vs the meshes of Field.fftn / ifftn", **info)
    # the complex inverse of the mesh with the explicit (original) shape is the same mesh;
    # another last-axis count is not the shape of this k-mesh
    shape = gen.pick(ctx.rng, [tuple(su.n), list(su.n), np.array(su.n)])
    oks, ms = ctx.expect_ok("C11.mesh_level.shape_accepted", lambda: km.ifftn(shape=shape),
                            what=dict(info, shape=su.n))
    if oks:
        ctx.check("C11.mesh_level", mesh_same(ms, b.mesh),
                  what="Mesh.ifftn(shape=n) of the complex transform vs Field.ifftn's mesh", **info)
    wrong = list(su.n)
    wrong[-1] = int(ctx.rng.choice([2 * (su.n[-1] - 1) + 2, 2 * su.n[-1] - 1, su.n[-1] + 1, 2 * su.n[-1]]))
    if wrong[-1] != su.n[-1] and wrong[-1] >= 1:
        ctx.expect_raises("C11.mesh_level.wrong_shape_rejected", lambda: km.ifftn(shape=tuple(wrong)),
                          unchanged=[km], what=dict(info, shape=wrong))
    after_result_mesh_changed(ctx, su, F, False)


def real_transform(ctx):
    su = Setup(ctx, real=True)
    su.sig(ctx, "rfftn")
    nd, n = su.nd, su.n
    f = su.field()
    d0 = core.field_digest(f)
    R = f.rfftn()
    operand_kept(ctx, su, f, d0, "rfftn", lambda: f.rfftn(), R)
    dR = core.field_digest(R)
    info = su.info(transform="rfftn")
    n_ok, ks = check_kmesh(ctx, su, R.mesh, True, "rfftn")
    check_labels_forward(ctx, su, f, R, "rfftn")
    half = n[-1] // 2 + 1
    if n_ok and R.array.shape == (*n[:-1], half, su.nv):
        exp = direct_dft(su.arr, ks, su.rs)
        err = np.abs(R.array - exp)
        ctx.check("C11.dft", np.all(err <= TOL_DFT * su.total),
                  max_err_over_sum=float(err.max()) / su.total if su.total else 0.0,
                  worst_k_cell=np.unravel_index(int(np.argmax(err)), err.shape), **info)
        F = f.fftn().array
        Fu = np.roll(F, -(n[-1] // 2), axis=nd - 1)  # undo the shift along the last axis
        sl = [slice(None)] * (nd + 1)
        sl[nd - 1] = slice(0, half)
        ctx.check("C11.rfft.half_of_fft",
                  np.all(np.abs(R.array - Fu[tuple(sl)]) <= TOL_DFT * su.total),
                  maxdiff_over_sum=float(np.max(np.abs(R.array - Fu[tuple(sl)]))) / su.total
                  if su.total else 0.0, **info)
        z = zero_index(su, True)
        plain = su.arr.reshape(-1, su.nv).sum(axis=0)
        ctx.check("C11.zero_frequency",
                  np.all(np.abs(R.array[z] - plain) <= 1e-12 * max(su.total, 1e-300)),
                  index=z, got=R.array[z], expected=plain, **info)
    shape = gen.pick(ctx.rng, [tuple(n), list(n), np.array(n)])
    okc, b = ctx.expect_ok("C11.rfft.inverse_accepted", lambda: R.irfftn(shape=shape),
                           what=su.info(transform="irfftn(shape=n)",
                                        last_axis_class=su.classes()[-1]))
    if okc:
        operand_kept(ctx, su, R, dR, "irfftn", lambda: R.irfftn(shape=shape), b)
        check_back(ctx, su, f, b, "irfftn(rfftn, shape=n)", "C11.rfft.inverse_with_shape")
    if n[-1] % 2 == 0:
        okc, b = ctx.expect_ok("C11.rfft.inverse_accepted", lambda: R.irfftn(),
                               what=su.info(transform="irfftn()", last_axis_class="even"))
        if okc:
            check_back(ctx, su, f, b, "irfftn(rfftn)", "C11.rfft.inverse_default_even")
    km = su.mesh.fftn(rfft=True)
    ok = mesh_same(km, R.mesh)
    if okc:
        ok = ok and mesh_same(km.ifftn(rfft=True, shape=tuple(n)), b.mesh)
    ctx.check("C11.mesh_level", ok,
              what="Mesh.fftn(rfft=True) / Mesh.ifftn(rfft=True, shape) vs the field's", **info)
    after_result_mesh_changed(ctx, su, R, True)


def linearity(ctx):
    rng = ctx.rng
    su = Setup(ctx, real=rng.random() < 0.5)
    su.sig(ctx, "linear")
    f = su.field()
    other = gen.rand_values(rng, su.arr.shape, "float" if su.real else "complex")
    g = su.field(other)
    if su.real:
        al, be = rng.normal(size=2) * 10.0 ** rng.uniform(-1, 1, 2)
    else:
        al, be = (rng.normal(size=2) + 1j * rng.normal(size=2)) * 10.0 ** rng.uniform(-1, 1, 2)
    combo = su.field(al * su.arr + be * other)
    scale = abs(al) * su.total + abs(be) * float(np.sum(np.abs(other)))
    kinds = [("fftn", lambda x: x.fftn())]
    if su.real:
        kinds.append(("rfftn", lambda x: x.rfftn()))
    for name, T in kinds:
        Ff, Fg, Fc = T(f).array, T(g).array, T(combo).array
        ctx.check("C11.linear", Fc.shape == Ff.shape
                  and np.all(np.abs(Fc - (al * Ff + be * Fg)) <= 1e-11 * scale),
                  alpha=al, beta=be, **su.info(transform=name))
        j = int(rng.integers(0, su.nv))
        one = df.Field(su.mesh, nvdim=1, value=su.arr[..., j:j + 1])
        ctx.check("C11.per_component",
                  np.all(np.abs(T(one).array[..., 0] - Ff[..., j]) <= 1e-12 * su.total),
                  component=j, **su.info(transform=name))
    # the inverse is linear and per component too (on arbitrary k-space data)
    F = f.fftn()
    G = g.fftn()
    C = df.Field(F.mesh, nvdim=su.nv, value=al * F.array + be * G.array, vdims=F.vdims)
    lhs = C.ifftn().array
    rhs = al * F.ifftn().array + be * G.ifftn().array
    amax = abs(al) * np.max(np.abs(su.arr)) + abs(be) * np.max(np.abs(other))
    ctx.check("C11.linear", np.all(np.abs(lhs - rhs) <= 1e-11 * amax), alpha=al, beta=be,
              **su.info(transform="ifftn"))


def large_transform(ctx):
    """More than 2**20 values, at least one odd axis: the zero-frequency cell still holds the
    plain sum, every k-cell the DFT (reference: numpy's FFT, itself compared with the direct
    sum on the small meshes), and the inverse restores the field."""
    rng = ctx.rng
    n = [int(rng.choice([1025, 1027, 1031])), int(rng.choice([1024, 1026, 1023]))]
    if rng.random() < 0.5:
        n = n[::-1]
    cell = 10.0 ** rng.uniform(-9, 0) * rng.uniform(0.5, 2, 2)
    pmin = rng.uniform(-1, 1, 2) * cell * n
    mesh = df.Mesh(p1=pmin.tolist(), p2=(pmin + cell * n).tolist(), n=n)
    arr = rng.normal(size=(*n, 1)) + 0.3
    f = df.Field(mesh, nvdim=1, value=arr)
    info = {"ndim": 2, "n": n, "transform": "fftn", "values": int(arr.size), "part": "large"}
    ctx.sig(("large", tuple(k % 2 for k in n)), nontrivial=True)
    ctx.event("large_meshes")
    F = f.fftn()
    total = float(np.sum(np.abs(arr)))
    exp = np.fft.fftshift(np.fft.fftn(arr[..., 0]))
    ok_shape = F.array.shape == (*n, 1)
    ctx.check("C11.dft", ok_shape and bool(np.all(np.abs(F.array[..., 0] - exp) <= TOL_DFT * total)),
              max_err_over_sum=float(np.max(np.abs(F.array[..., 0] - exp)) / total) if ok_shape else None,
              **info)
    if ok_shape:
        z = tuple(k // 2 for k in n)
        ctx.check("C11.zero_frequency",
                  abs(F.array[z][0] - arr.sum()) <= 1e-12 * total, index=z, got=F.array[z],
                  expected=arr.sum(), **info)
        for ax in range(2):
            got = np.asarray(F.mesh.cells[ax], dtype=float)
            e = freq_shifted(n[ax], float(mesh.cell[ax]))
            ctx.check("C11.kmesh.frequencies",
                      got.shape == e.shape and bool(np.all(np.abs(got - e) <= TOL_FREQ / (n[ax] * mesh.cell[ax]))),
                      axis=ax, n_axis=n[ax], **info)
        b = F.ifftn()
        ctx.check("C11.inverse.values",
                  b.array.shape == arr.shape and bool(np.all(np.abs(b.array - arr) <= 1e-9 * np.max(np.abs(arr)))),
                  **dict(info, transform="ifftn(fftn)"))
    R = f.rfftn()
    expr = np.fft.fftshift(np.fft.rfftn(arr[..., 0]), axes=[0])
    ctx.check("C11.rfft.half_of_fft", R.array.shape[:-1] == expr.shape
              and bool(np.all(np.abs(R.array[..., 0] - expr) <= TOL_DFT * total)),
              **dict(info, transform="rfftn"))


def run_case(ctx, i):
    if i % 360 == 181:
        return large_transform(ctx)
    kind = i % 3
    if kind == 0:
        complex_transform(ctx)
    elif kind == 1:
        real_transform(ctx)
    else:
        linearity(ctx)
