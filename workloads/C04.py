"""C04 - derivatives: exact on low-degree polynomials, linear, local, blind across gaps."""

META = {
    "property": "C04",
    "level": "exploration",
    "rule": (
        "case i of seed s is generated from default_rng([s, i]). i%5 in (0..3): exhaustive 1-d "
        "part, tuple t = (4*(i//5) + i%5) mod T of the finite space (L, validity pattern, order, "
        "periodic) in the fixed order [for L in 1..Lmax: for pattern in 0..2^L-1: for order in "
        "(1,2): for periodic in (False,True)], Lmax=7 quick / 11 thorough, T=4*(2^(Lmax+1)-2) = "
        "1016 / 16376; the default case counts (5*T/4 = 1270 / 20470) visit every tuple exactly "
        "once; only cell size, origin, dimension name, polynomial coefficients and the random "
        "data are drawn from the rng. i%5 == 4: random 1-4-d meshes, "
        "sub-kind (i//5)%3 = open / periodic / with subregions, random axis, order, 1-4 "
        "components, cell decade 1e-9..1e3, random validity. "
        "Signature: exhaustive = (L, number of runs, longest run capped at 5, order, periodic, "
        "has_invalid); random = (sub-kind, ndim, axis, n along the axis, nvdim, order, "
        "periodic, has_invalid, has_subregions, decade of the cell). Non-trivial = some run of "
        "valid cells is longer than the derivative order."
    ),
    "exhaustive_part": (
        "all 2^L validity patterns x order {1,2} x {open, periodic} for every line length "
        "L = 1..7 (quick, 1016 tuples) / 1..11 (thorough, 16376 tuples), one tuple per case "
        "index with i%5 != 4, in lexicographic order (L, pattern bits little-endian = cell index, "
        "order, periodic); every tuple runs the polynomial-exactness (degrees 0-3 as four "
        "components), short-run/invalid-cell zero, locality, linearity, restrict2valid=False, "
        "metadata and (periodic) all-cyclic-shift / centred-difference oracles"
    ),
    "cases": {"quick": 1270, "thorough": 20470},
    "workers": {"quick": 8, "thorough": 16},
    "timeout": {"quick": 600, "thorough": 5400},
    "deciding": [
        "C04.exact",
        "C04.short_run_zero",
        "C04.invalid_zero",
        "C04.locality",
        "C04.linearity",
        "C04.restrict_false",
        "C04.meta",
        "C04.periodic.shift",
        "C04.periodic.centred",
        "C04.line_independent",
        "C04.component_independent",
        "C04.diff.accepted",
    ],
    "ambient": {"quick": [], "thorough": []},
    "anchor_files": ["discretisedfield/field.py", "discretisedfield/operators.py"],
    "assumptions": [
        "no stencil is assumed on open runs: only the exactness classes named in the statement "
        "(degree <=2 / <=1 for two-cell runs, first derivative; <=3 / <=2 for three-cell runs, "
        "second derivative) are compared with the analytic derivative, tolerance 1e-9 of "
        "max|f|/dx^order",
        "in a periodic direction a run is a maximal *cyclic* run of valid cells; a fully valid "
        "ring is compared with the centred difference with wrap-around (1e-12 of "
        "max|f|/dx^order), masked rings with the run rules and with commutation under cyclic "
        "shifts of data and validity",
        "periodic directions need single-character dimension names (the library's bc string)",
        "values are finite reals of magnitude 1e-3..1e3 (all real values by linearity); NaN and "
        "1e30 are used only in cells whose content must not matter (locality)",
    ],
}

import numpy as np  # noqa: E402

import discretisedfield as df  # noqa: E402
from workloads import gen  # noqa: E402

TOL_EXACT = 1e-9
TOL_LIN = 1e-10
TOL_CENTRED = 1e-12
SINGLE_CHAR_POOLS = [["x", "y", "z", "w"], ["a", "b", "c", "d"], ["z", "x", "y", "w"],
                     ["y", "z", "x", "t"], ["p", "q", "r", "s"]]


# ------------------------------------------------------------------ run model
def open_runs(valid):
    """Maximal runs of True in a 1-d bool array: list of index arrays (in order)."""
    out, s = [], None
    for j, v in enumerate(valid):
        if v and s is None:
            s = j
        if not v and s is not None:
            out.append(np.arange(s, j))
            s = None
    if s is not None:
        out.append(np.arange(s, len(valid)))
    return out


def ring_runs(valid):
    """Maximal *cyclic* runs; (runs, unwrapped coordinate u per cell) or (None, None)
    for the fully valid ring (no ends at all)."""
    L = len(valid)
    inv = np.flatnonzero(~valid)
    if len(inv) == 0:
        return None, None
    z = int(inv[0])
    u = (np.arange(L) - z) % L  # cut the ring at an invalid cell
    order = np.argsort(u)  # cell indices in unwrapped order
    runs = [order[r] for r in open_runs(valid[order])]
    return runs, u.astype(float)


def max_degree(m, order):
    """Highest polynomial degree the statement promises to be exact on a run of m."""
    if m <= order:
        return None
    if order == 1:
        return 2 if m >= 3 else 1
    return 3 if m >= 4 else 2


def poly_and_derivative(coefs, s, order):
    """value and order-th derivative of sum_d coefs[d] * s**d (with respect to s)."""
    p = np.polynomial.Polynomial(coefs)
    return p(s), p.deriv(order)(s)


def runs_of_line(valid, periodic):
    """(list of runs, unwrapped coordinate in cells, full_ring flag)."""
    if periodic:
        runs, u = ring_runs(valid)
        if runs is None:
            return [], np.arange(len(valid), dtype=float), True
        return runs, u, False
    return open_runs(valid), np.arange(len(valid), dtype=float), False


# ------------------------------------------------------------------ helpers
def mk_field(mesh, arr, valid, **kw):
    return gen.via_history(
        None, df.Field(mesh, nvdim=arr.shape[-1], value=arr, valid=valid.copy(), **kw))


def centred(a, ax, dx, order):
    if order == 1:
        return (np.roll(a, -1, axis=ax) - np.roll(a, 1, axis=ax)) / (2 * dx)
    return (np.roll(a, -1, axis=ax) - 2 * a + np.roll(a, 1, axis=ax)) / dx**2


def bits_of(valid):
    return "".join("T" if v else "F" for v in valid)


def exhaustive_tuple(t, lmax):
    """t -> (L, pattern bits, order, periodic) in the documented order."""
    t = t % (4 * (2 ** (lmax + 1) - 2))
    q, r = divmod(t, 4)
    order, periodic = (1, 2)[r // 2], bool(r % 2)
    L = 1
    while q >= 2**L:
        q -= 2**L
        L += 1
    return L, q, order, periodic


# ------------------------------------------------------------------ the oracle set
def check_line_oracles(ctx, base, mesh, dname, ax, dx, order, periodic, valid, cls):
    """All oracles that need only one mesh/validity: called by both parts.

    ``valid`` has the mesh shape; ``cls`` (dict) is attached to every witness so a
    violation names its mechanism (periodic / has_invalid / ...).
    """
    rng = ctx.rng
    n = tuple(int(k) for k in mesh.n)
    nd = len(n)
    L = n[ax]
    nv = int(base["nv"])
    mag = 10.0 ** rng.uniform(-3, 3)
    a = rng.normal(size=(*n, nv)) * mag
    unit = gen.pick(rng, [None, "T", "A/m"])
    vdims = gen.rand_vdims(rng, nv)
    f = mk_field(mesh, a, valid, unit=unit, vdims=vdims)
    info = dict(cls, order=order, axis=dname, n=n, cell=dx)

    def D(field, **kw):
        return field.diff(dname, order=order, **kw)

    okc, dfield = ctx.expect_ok("C04.diff.accepted", D, f, what=info)
    if not okc:
        return None
    d = dfield.array
    scale = mag * 4 / dx**order  # natural scale of the derivative of the random data

    # ---- mesh, labels, unit, validity kept
    ctx.check("C04.meta",
              dfield.mesh == mesh and dfield.mesh.bc == mesh.bc
              and dfield.vdims == f.vdims and dfield.unit == f.unit
              and dfield.nvdim == nv and d.shape == a.shape
              and np.array_equal(dfield.valid, valid)
              and dfield.vdim_mapping == f.vdim_mapping
              and dfield.mesh.subregions == mesh.subregions,
              got={"vdims": dfield.vdims, "unit": dfield.unit, "valid_equal":
                   bool(np.array_equal(dfield.valid, valid)), "shape": d.shape},
              expected={"vdims": f.vdims, "unit": f.unit, "shape": a.shape}, **info)
    ctx.check("C04.invalid_zero", np.all(d[~valid] == 0),
              nonzero_at_invalid=int(np.count_nonzero(d[~valid])), **info)

    # ---- locality 1: content of invalid cells is irrelevant (bit-wise)
    if not valid.all():
        a2 = a.copy()
        junk = rng.choice([np.nan, 1e30, -1e30, np.inf], size=a2[~valid].shape)
        a2[~valid] = junk
        d2 = D(mk_field(mesh, a2, valid)).array
        ctx.check("C04.locality", np.array_equal(d2[valid], d[valid])
                  and np.all(d2[~valid] == 0),
                  what="values of invalid cells replaced by nan/inf/1e30",
                  maxdiff=_md(d2[valid], d[valid]), **info)

    # ---- locality 2: other runs, other grid lines, other components (bit-wise)
    line = tuple(int(rng.integers(0, k)) if j != ax else slice(None)
                 for j, k in enumerate(n))
    vline = valid[line]
    runs, _, full = runs_of_line(vline, periodic)
    if runs or full:
        keep = np.zeros(n, dtype=bool)
        if full:
            keep[line] = True
            sel_cells = np.arange(L)
        else:
            sel_cells = runs[int(rng.integers(0, len(runs)))]
            kl = np.zeros(L, dtype=bool)
            kl[sel_cells] = True
            keep[line] = kl
        comp = int(rng.integers(0, nv))
        a3 = a.copy()
        other = np.ones(a.shape, dtype=bool)
        other[keep, comp] = False
        a3[other] = rng.normal(size=int(other.sum())) * mag * 1e6
        d3 = D(mk_field(mesh, a3, valid)).array
        lhs = d3[line][sel_cells, comp]
        rhs = d[line][sel_cells, comp]
        ctx.check("C04.locality", np.array_equal(lhs, rhs),
                  what="everything outside one run of one line of one component replaced",
                  line=[x if isinstance(x, int) else ":" for x in line], run=sel_cells,
                  component=comp, line_valid=bits_of(vline), got=lhs, expected=rhs, **info)

    # ---- components are independent: component j alone gives the same numbers
    j = int(rng.integers(0, nv))
    dj = D(mk_field(mesh, a[..., j:j + 1], valid)).array[..., 0]
    ctx.check("C04.component_independent", np.array_equal(dj, d[..., j]),
              component=j, nvdim=nv, maxdiff=_md(dj, d[..., j]), **info)

    # ---- linearity
    b = rng.normal(size=a.shape) * mag
    al, be = rng.normal(size=2) * 10.0 ** rng.uniform(-2, 2, 2)
    db = D(mk_field(mesh, b, valid)).array
    dl = D(mk_field(mesh, al * a + be * b, valid)).array
    ref = al * d + be * db
    lscale = (abs(al) + abs(be)) * scale
    ctx.check("C04.linearity", np.all(np.abs(dl - ref) <= TOL_LIN * lscale),
              alpha=al, beta=be, maxdiff_over_scale=_md(dl, ref) / lscale, **info)

    # ---- restrict2valid=False == the whole line is one run
    r1 = D(f, restrict2valid=False)
    r2 = D(mk_field(mesh, a, np.ones(n, dtype=bool))).array
    ctx.check("C04.restrict_false", np.array_equal(r1.array, r2)
              and np.array_equal(r1.valid, valid),
              maxdiff=_md(r1.array, r2), valid_kept=bool(np.array_equal(r1.valid, valid)),
              **info)

    # ---- periodic direction: ring
    if periodic:
        if valid.all():
            exp = centred(a, ax, dx, order)
            ctx.check("C04.periodic.centred",
                      np.all(np.abs(d - exp) <= TOL_CENTRED * scale),
                      ring_len=L, maxdiff_over_scale=_md(d, exp) / scale, **info)
        else:
            # restrict2valid=False on a ring: centred difference everywhere
            exp = centred(a, ax, dx, order)
            ctx.check("C04.periodic.centred",
                      np.all(np.abs(r1.array - exp) <= TOL_CENTRED * scale),
                      ring_len=L, restrict2valid=False,
                      maxdiff_over_scale=_md(r1.array, exp) / scale, **info)
        shifts = list(range(1, L)) if L <= 7 else sorted(
            {1, L - 1, *[int(x) for x in rng.integers(1, L, 2)]})
        if nd > 1 and len(shifts) > 3:
            shifts = sorted({int(x) for x in rng.choice(shifts, 3, replace=False)})
        for s in shifts:
            fs = mk_field(mesh, np.roll(a, s, axis=ax), np.roll(valid, s, axis=ax))
            ds = D(fs).array
            exp = np.roll(d, s, axis=ax)
            ctx.check("C04.periodic.shift", np.all(np.abs(ds - exp) <= TOL_LIN * scale),
                      shift=s, ring_len=L, maxdiff_over_scale=_md(ds, exp) / scale,
                      line_valid=bits_of(vline) if nd > 1 else bits_of(valid.ravel()),
                      **info)
    return d


def _md(a, b):
    with np.errstate(all="ignore"):
        x = np.abs(np.asarray(a, dtype=float) - np.asarray(b, dtype=float))
        x = x[np.isfinite(x)]
        return float(x.max()) if x.size else 0.0


def check_polynomial(ctx, mesh, dname, ax, dx, order, periodic, valid, cls, junk=None):
    """Exactness / zero rules on every run of every grid line (vectorised by hand).

    Component c holds  g(other coordinates) * P_c(u) + h(other coordinates)  with P_c a
    random polynomial of degree c in the unwrapped cell coordinate u of the line.
    """
    rng = ctx.rng
    n = tuple(int(k) for k in mesh.n)
    nd = len(n)
    L = n[ax]
    ndeg = 4
    other_shape = tuple(k for j, k in enumerate(n) if j != ax)
    # one case in five stores whole numbers in an integer-typed field (the derivative of
    # integer data is still a real number)
    as_int = rng.random() < 0.2
    if as_int:
        g = rng.integers(1, 3, other_shape) * rng.choice([-1, 1], other_shape)
        h = rng.integers(-5, 6, other_shape)
        coefs = [rng.integers(1, 4, c + 1) * rng.choice([-1, 1], c + 1) for c in range(ndeg)]
    else:
        g = rng.uniform(0.5, 2.0, other_shape) * rng.choice([-1, 1], other_shape)
        h = rng.normal(size=other_shape)
        if rng.random() < 0.3:
            # a large constant on top of a small variation (a field that is "almost
            # uniform" along the line still has its exact derivative)
            h = h + 10.0 ** rng.uniform(3, 6) * rng.choice([-1, 1])
        coefs = [rng.uniform(0.5, 2.0, c + 1) * rng.choice([-1, 1], c + 1) for c in range(ndeg)]
    arr = np.zeros((*n, ndeg))
    exp = np.zeros((*n, ndeg))
    claimed = np.zeros((*n, ndeg), dtype=bool)  # exactness promised here
    zero = np.zeros(n, dtype=bool)              # result must be exactly zero here
    runlen = np.zeros(n, dtype=int)
    wraps = np.zeros(n, dtype=bool)
    any_full = False
    for oidx in np.ndindex(*other_shape):
        line = oidx[:ax] + (slice(None),) + oidx[ax:]
        vline = valid[line]
        runs, u, full = runs_of_line(vline, periodic)
        any_full = any_full or full
        for c in range(ndeg):
            val, der = poly_and_derivative(coefs[c], u, order)
            arr[line + (c,)] = g[oidx] * val + h[oidx]
            exp[line + (c,)] = g[oidx] * der / dx**order
        zl = ~vline
        rl = np.zeros(L, dtype=int)
        wl = np.zeros(L, dtype=bool)
        cl = np.zeros((L, ndeg), dtype=bool)
        for r in runs:
            m = len(r)
            rl[r] = m
            wl[r] = bool(np.any(np.diff(r) < 0))
            md = max_degree(m, order)
            if md is None:
                zl[r] = True
            else:
                cl[r, : md + 1] = True
        zero[line] = zl
        runlen[line] = rl
        wraps[line] = wl
        claimed[line] = cl
    info = dict(cls, order=order, axis=dname, n=n, cell=dx, integer_dtype=as_int)
    stored = arr
    if not valid.all() and (junk or (junk is None and rng.random() < 0.6)):
        # whatever sits in the invalid cells must not matter: the polynomial does not
        # continue through the gaps (a result computed across a gap is then visibly wrong)
        stored = arr.copy()
        k = int((~valid).sum())
        junk = rng.normal(size=(k, ndeg)) * (np.max(np.abs(arr)) + 1.0) * 10.0 ** rng.uniform(0, 2)
        stored[~valid] = np.rint(junk) if as_int else junk
        info["junk_in_invalid_cells"] = True
    if as_int:
        dt = gen.pick(rng, [int, np.int64, np.int32])
        f = mk_field(mesh, np.rint(stored).astype(np.int64), valid, dtype=dt)
        ctx.event("integer_typed_fields")
    else:
        f = mk_field(mesh, stored, valid)
    okc, dfield = ctx.expect_ok("C04.diff.accepted",
                                lambda: f.diff(dname, order=order), what=info)
    if not okc:
        return False
    d = dfield.array
    fmax = np.max(np.abs(arr))
    # natural scale of the derivative: the variation of the data (not the constant on
    # top), plus the rounding error of the stored values themselves
    fvar = np.max(np.abs(arr - np.broadcast_to(np.expand_dims(
        np.broadcast_to(h, other_shape), ax)[..., None], arr.shape)))
    tol = (TOL_EXACT * fvar + 64 * np.finfo(float).eps * fmax) / dx**order
    # zeros: invalid cells and runs not longer than the order
    short = zero & valid
    if short.any():
        bad = np.argwhere(short[..., None] & (d != 0))
        ctx.check("C04.short_run_zero", len(bad) == 0, first_bad=bad[:3],
                  got=d[tuple(bad[0])] if len(bad) else None,
                  run_length=int(runlen[tuple(bad[0][:-1])]) if len(bad) else None, **info)
    ctx.check("C04.invalid_zero", np.all(d[~valid] == 0), what="polynomial data", **info)
    if claimed.any():
        err = np.abs(d - exp)
        badm = claimed & ~(err <= tol)
        bad = np.argwhere(badm)
        w = {}
        if len(bad):
            b0 = tuple(bad[0])
            line = b0[:ax] + (slice(None),) + b0[ax + 1:-1]
            w = {"at_cell": b0[:-1], "degree": int(b0[-1]), "got": d[b0], "expected": exp[b0],
                 "err_over_scale": float(err[b0] / (fmax / dx**order)),
                 "run_length": int(runlen[b0[:-1]]), "run_wraps": bool(wraps[b0[:-1]]),
                 "line_valid": bits_of(valid[line]), "line_got": d[line + (b0[-1],)],
                 "line_expected": exp[line + (b0[-1],)], "count": int(len(bad))}
        ctx.check("C04.exact", len(bad) == 0, **w, **info)
    ctx.event("cells_exactness_checked", int(claimed.any(axis=-1).sum()))
    return True


# ------------------------------------------------------------------ part A: exhaustive 1-d
def exhaustive(ctx, t):
    rng = ctx.rng
    lmax = 11 if ctx.thorough else 7
    L, pattern, order, periodic = exhaustive_tuple(t, lmax)
    valid = np.array([(pattern >> j) & 1 for j in range(L)], dtype=bool)
    dx = 10.0 ** rng.uniform(-9, 3) * rng.uniform(1, 10)
    x0 = 0.0 if rng.random() < 0.3 else rng.uniform(-1, 1) * 10.0 ** rng.uniform(0, 3) * dx * L
    dname = gen.pick(rng, ["x", "a", "q", "t"]) if periodic else gen.pick(
        rng, ["x", "a", "rho", "phi_2"])
    bc = dname if periodic else ""
    if not periodic and rng.random() < 0.3:
        # an open direction whose one-letter name occurs in the boundary-condition keyword
        bc = gen.pick(rng, ["neumann", "dirichlet"])
        dname = gen.pick(rng, sorted(set(bc)))
        ctx.event("open_direction_named_like_a_letter_of_the_bc_keyword")
    mesh = df.Mesh(region=df.Region(p1=x0, p2=x0 + L * dx, dims=[dname]), n=L, bc=bc)
    dxm = float(mesh.cell[0])
    runs, _, full = runs_of_line(valid, periodic)
    longest = max([len(r) for r in runs], default=L if full else 0)
    cls = {"part": "exhaustive_1d", "L": L, "pattern": bits_of(valid), "periodic": periodic,
           "has_invalid": bool(not valid.all()), "has_subregions": False, "ndim": 1}
    ctx.sig(("ex", L, len(runs), min(longest, 5), order, periodic, cls["has_invalid"]),
            nontrivial=longest > order)
    if t % 97 == 0:
        ctx.sample(dict(cls, order=order, cell=dxm, x0=x0))
    ctx.event("exhaustive_tuples")
    base = {"nv": 1 + int(rng.integers(0, 2))}
    if check_polynomial(ctx, mesh, dname, 0, dxm, order, periodic, valid, cls):
        check_line_oracles(ctx, base, mesh, dname, 0, dxm, order, periodic, valid, cls)


# ------------------------------------------------------------------ part B: random n-d
def random_nd(ctx, sub):
    rng = ctx.rng
    periodic = sub == 1 or (sub == 2 and rng.random() < 0.4)
    with_sub = sub == 2
    spec = gen.rand_meshspec(rng, n_max=7 if ctx.thorough else 6, max_cells=700 if ctx.thorough else 400,
                             scale_decades=(-9, 3), dims="default")
    nd = spec.nd
    if periodic or rng.random() < 0.5:
        pool = gen.pick(rng, SINGLE_CHAR_POOLS)
        dims = [pool[j] for j in rng.permutation(4)[:nd]]
    else:
        dims = gen.rand_dims(rng, nd)
    spec.dims = dims
    names = spec.dim_names
    ax = int(rng.integers(0, nd))
    if periodic and rng.random() < 0.5:
        # make sure the periodic axis is long enough to be interesting
        n_new = np.where(np.arange(nd) == ax, np.maximum(spec.n, 3), spec.n)
        spec = gen.MeshSpec(spec.pmin, spec.cell, n_new, dims, spec.units, spec.flip,
                            bool(spec.int_corners and all(float(c * k).is_integer()
                                                          for c, k in zip(spec.cell, n_new))))
    n = tuple(int(k) for k in spec.n)
    dname = names[ax]
    bc = ""
    if periodic:
        bc = dname + "".join(d for d in names if d != dname and rng.random() < 0.3)
    elif rng.random() < 0.25:
        # every direction is open, but the names are letters of the bc keyword
        bc = gen.pick(rng, ["neumann", "dirichlet"])
        letters = sorted(set(bc))
        dims = [letters[int(j)] for j in rng.permutation(len(letters))[:nd]]
        spec.dims = dims
        names = spec.dim_names
        dname = names[ax]
        ctx.event("open_direction_named_like_a_letter_of_the_bc_keyword")
    subregions = None
    if with_sub:
        _, subregions = gen.rand_subregions(rng, spec, kmax=3)
        if not subregions:
            lo, hi = gen.rand_box(rng, spec.n)
            subregions = {"only": spec.box_region(lo, hi)}
        if rng.random() < 0.6:
            # a subregion that is exactly the first / last layer of cells along one axis
            # (its face coincides with the single-layer selection Field.diff makes)
            lo, hi = gen.rand_box(rng, spec.n)
            j = ax if rng.random() < 0.6 else int(rng.integers(0, nd))
            lo[j], hi[j] = (0, 1) if rng.random() < 0.7 else (spec.n[j] - 1, spec.n[j])
            subregions["layer"] = spec.box_region(lo, hi)
    mesh = spec.mesh(subregions=subregions, bc=bc)
    dx = float(mesh.cell[ax])
    order = int(rng.integers(1, 3))
    vkind = gen.pick(rng, ["all", "random", "dense", "dense", "random"])
    valid = gen.rand_valid(rng, n, vkind)
    nv = int(rng.integers(1, 5))
    cls = {"part": "random_nd", "ndim": nd, "periodic": periodic,
           "has_invalid": bool(not valid.all()), "has_subregions": bool(subregions),
           "bc": bc, "dims": names}
    longest = 0
    for oidx in np.ndindex(*[k for j, k in enumerate(n) if j != ax]):
        line = oidx[:ax] + (slice(None),) + oidx[ax:]
        runs, _, full = runs_of_line(valid[line], periodic)
        longest = max([longest, n[ax] if full else 0] + [len(r) for r in runs])
    ctx.sig(("nd", sub, nd, ax, n[ax], nv, order, periodic, cls["has_invalid"],
             cls["has_subregions"], int(np.floor(np.log10(dx)))), nontrivial=longest > order)
    ctx.sample(dict(cls, order=order, axis=dname, nvdim=nv, **spec.describe()))

    if not check_polynomial(ctx, mesh, dname, ax, dx, order, periodic, valid, cls):
        return
    d = check_line_oracles(ctx, {"nv": nv}, mesh, dname, ax, dx, order, periodic, valid, cls)
    if d is None:
        return
    # ---- every grid line is differentiated on its own: same numbers as a 1-d field
    # holding just that line (1-d behaviour is decided by the exhaustive part)
    rng2 = ctx.rng
    mag = 10.0 ** rng2.uniform(-3, 3)
    a = rng2.normal(size=(*n, nv)) * mag
    dfull = mk_field(mesh, a, valid).diff(dname, order=order).array
    L = n[ax]
    m1 = df.Mesh(region=df.Region(p1=float(spec.pmin[ax]), p2=float(spec.pmax[ax]),
                                  dims=[dname]), n=L, bc=dname if periodic else "")
    lines = list(np.ndindex(*[k for j, k in enumerate(n) if j != ax]))
    if len(lines) > 5:
        lines = [lines[j] for j in rng2.choice(len(lines), 5, replace=False)]
    for oidx in lines:
        line = oidx[:ax] + (slice(None),) + oidx[ax:]
        c = int(rng2.integers(0, nv))
        one = df.Field(m1, nvdim=1, value=a[line + (c,)].reshape(L, 1),
                       valid=valid[line].copy()).diff(dname, order=order).array[:, 0]
        got = dfull[line + (c,)]
        ctx.check("C04.line_independent",
                  np.all(np.abs(got - one) <= 1e-12 * 4 * mag / dx**order),
                  line=[x if isinstance(x, int) else ":" for x in line], component=c,
                  line_valid=bits_of(valid[line]), got=got, as_1d_field=one,
                  order=order, axis=dname, n=n, cell=dx, **cls)


# ------------------------------------------------------------------ part C: large meshes
def large_nd(ctx):
    """One long axis (65-100 cells) times several thousand grid lines: sizes at which a
    blocked / grouped / vectorised implementation has more than one block, lines that agree
    over their first 64 cells and differ further along, run ends deep inside the array.
    Fully valid, or a sample with a few holes (1-3 invalid cells on a third of the lines)."""
    rng = ctx.rng
    nd = int(rng.integers(2, 4))
    ax = int(rng.integers(0, nd))
    n = np.zeros(nd, dtype=int)
    n[ax] = int(rng.integers(65, 101))
    others = [j for j in range(nd) if j != ax]
    lines = int(rng.integers(4100, 5000))
    if len(others) == 1:
        n[others[0]] = lines
    else:
        n[others[0]] = int(rng.integers(60, 75))
        n[others[1]] = lines // n[others[0]] + 1
    scale = 10.0 ** rng.uniform(-9, 3)
    cell = scale * rng.uniform(0.2, 5.0, nd)
    pmin = rng.uniform(-1, 1, nd) * 10.0 ** rng.uniform(-1, 2) * cell * n
    pool = gen.pick(rng, SINGLE_CHAR_POOLS)
    dims = [pool[j] for j in rng.permutation(4)[:nd]]
    periodic = rng.random() < 0.3
    dname = dims[ax]
    spec = gen.MeshSpec(pmin, cell, n, dims, None, np.zeros(nd, dtype=bool))
    mesh = spec.mesh(bc=dname if periodic else "")
    dx = float(mesh.cell[ax])
    order = int(rng.integers(1, 3))
    nt = tuple(int(k) for k in n)
    valid = np.ones(nt, dtype=bool)
    holes = rng.random() < 0.85
    if holes:
        other_shape = tuple(k for j, k in enumerate(nt) if j != ax)
        for oidx in np.ndindex(*other_shape):
            if rng.random() < 0.33:
                line = oidx[:ax] + (slice(None),) + oidx[ax:]
                v = np.ones(nt[ax], dtype=bool)
                v[rng.integers(0, nt[ax], int(rng.integers(1, 4)))] = False
                valid[line] = v
    cls = {"part": "large_nd", "ndim": nd, "periodic": periodic, "has_invalid": holes,
           "has_subregions": False, "bc": mesh.bc, "dims": dims, "lines": int(np.prod(n) // n[ax])}
    ctx.sig(("large", nd, ax, order, periodic, holes), nontrivial=True)
    ctx.sample(dict(cls, order=order, axis=dname, **spec.describe()))
    ctx.event("large_meshes")
    check_polynomial(ctx, mesh, dname, ax, dx, order, periodic, valid, cls, junk=True)


# ------------------------------------------------------------------ part D: names
def concatenated_name(ctx):
    """A direction whose (multi-character, hence never periodic) name is spelled with the
    letters of the periodic directions: dims ('x', 'y', 'xy') with bc = 'xy'.  Which
    directions are rings is said by the *set of one-letter names* in bc, not by substrings."""
    rng = ctx.rng
    pool = gen.pick(rng, SINGLE_CHAR_POOLS)
    a, b = (pool[int(j)] for j in rng.permutation(4)[:2])
    dims = [a, b, gen.pick(rng, [a + b, b + a, a + a])]
    order3 = [int(j) for j in rng.permutation(3)]
    dims = [dims[j] for j in order3]
    n = rng.integers(3, 7, 3)
    cell = 10.0 ** rng.uniform(-9, 3) * rng.uniform(0.2, 5, 3)
    pmin = rng.uniform(-2, 2, 3) * cell * n
    bc = gen.pick(rng, [a + b, b + a, a, b])
    spec = gen.MeshSpec(pmin, cell, n, dims, None, np.zeros(3, dtype=bool))
    mesh = spec.mesh(bc=bc)
    valid = gen.rand_valid(rng, tuple(int(k) for k in n), gen.pick(rng, ["all", "dense", "random"]))
    order = int(rng.integers(1, 3))
    for ax, dname in enumerate(dims):
        periodic = len(dname) == 1 and dname in bc
        cls = {"part": "concatenated_name", "ndim": 3, "periodic": periodic,
               "has_invalid": bool(not valid.all()), "has_subregions": False, "bc": bc, "dims": dims}
        check_polynomial(ctx, mesh, dname, ax, float(mesh.cell[ax]), order, periodic, valid, cls)
    ctx.sig(("concat", order, bc in (a, b)), nontrivial=True)
    ctx.event("direction_named_with_the_letters_of_periodic_directions")


def run_case(ctx, i):
    if i % 1270 == 633:
        return large_nd(ctx)
    if i % 127 == 64:
        return concatenated_name(ctx)
    # 5 is coprime to the worker counts (8, 16): every shard gets the same mix
    if i % 5 != 4:
        exhaustive(ctx, 4 * (i // 5) + i % 5)
    else:
        random_nd(ctx, (i // 5) % 3)
