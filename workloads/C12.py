"""C12 - quarter-turn rotations move values, vectors, validity and geometry together."""

META = {
    "property": "C12",
    "level": "exploration",
    "rule": (
        "case i of seed s is generated from default_rng([s, i]); i%5 selects the kind (0,1: "
        "copying Field.rotate90 against the cell-by-cell oracle g(R+Q(p-R)) = Q f(p); 2: "
        "identities k == k mod 4, four turns, turn+reverse, Region/Mesh/Field consistency; 3: "
        "in place == copy for Region, Mesh and Field; 4: refusals). The ordered axis pair is "
        "taken from the enumeration of all ordered pairs by (i//5) so every pair of a 2-4-d "
        "mesh occurs; k in [-9,9]; reference default / near / far (<= 1e3 edge lengths); "
        "n 1..5 and cells anisotropic; mapping identity / permutation / partial (extra "
        "components mapped to None, or fewer components than axes); dtype float/int/complex; "
        "validity masks; subregions. Signature = (kind, ndim, nvdim class, dtype, k mod 4, "
        "k<0, mapping kind, reference kind, has_subregions, n[a] != n[b]); non-trivial = "
        "k mod 4 != 0 and more than one cell in the rotation plane."
    ),
    "cases": {"quick": 600, "thorough": 120000},
    "workers": {"quick": 8, "thorough": 16},
    "timeout": {"quick": 600, "thorough": 5400},
    "deciding": [
        "C12.geometry.region",
        "C12.geometry.n",
        "C12.geometry.units",
        "C12.geometry.names",
        "C12.geometry.subregions",
        "C12.cells.centres",
        "C12.cells.values",
        "C12.cells.validity",
        "C12.labels_kept",
        "C12.identity.k_mod_4",
        "C12.identity.four_turns",
        "C12.identity.reverse",
        "C12.consistent.mesh_field",
        "C12.consistent.region_mesh",
        "C12.inplace.returns_self",
        "C12.inplace.equals_copy",
        "C12.copy.operand_untouched",
        "C12.refused.unmapped",
    ],
    "ambient": {"quick": [], "thorough": []},
    "anchor_files": ["discretisedfield/region.py", "discretisedfield/mesh.py",
                     "discretisedfield/field.py"],
    "assumptions": [
        "Q is the exact integer quarter-turn table; coordinates are compared with a tolerance "
        "of 64 ulp of (|reference| + |corner|) (the library evaluates ref + Q (p - ref) in "
        "floating point), values with 16 ulp of |v_a| + |v_b| (exact for integers)",
        "reference points up to 1e3 edge lengths away (rule R7), with and without "
        "subregions",
        "units/dims of subregions and the bc string after a rotation are not judged (the "
        "statement is silent)",
    ],
}

import itertools  # noqa: E402

import numpy as np  # noqa: E402

import discretisedfield as df  # noqa: E402
from workloads import gen  # noqa: E402

EPS = np.finfo(float).eps
QTAB = [(1, 0), (0, 1), (-1, 0), (0, -1)]  # (cos, sin) of k*90 degrees, k mod 4


# ------------------------------------------------------------------ exact model
def rot_points(P, R, a, b, k):
    c, s = QTAB[k % 4]
    P = np.asarray(P, dtype=float)
    Q = P.copy()
    da, db = P[..., a] - R[a], P[..., b] - R[b]
    Q[..., a] = R[a] + c * da - s * db
    Q[..., b] = R[b] + s * da + c * db
    return Q


def rot_box(pmin, pmax, R, a, b, k):
    c1, c2 = rot_points(pmin, R, a, b, k), rot_points(pmax, R, a, b, k)
    return np.minimum(c1, c2), np.maximum(c1, c2)


def swap_if_odd(seq, a, b, k):
    seq = list(seq)
    if k % 2 == 1:
        seq[a], seq[b] = seq[b], seq[a]
    return seq


# ------------------------------------------------------------------ generated input
class Setup:
    """Generator-side description; ``region()/mesh()/field()`` build *fresh* objects."""

    def __init__(self, ctx, i, need_vector=False, unmapped=False):
        rng = ctx.rng
        self.nd = nd = int(rng.integers(2, 5))
        self.spec = spec = gen.rand_meshspec(rng, nd=nd, n_max=5, max_cells=400,
                                             scale_decades=(-9, 3))
        if spec.units is None and rng.random() < 0.5:
            spec.units = ["u0", "u1", "u2", "u3"][:nd]
        self.names = spec.dim_names
        self.n = tuple(int(k) for k in spec.n)
        pairs = list(itertools.permutations(range(nd), 2))
        self.a, self.b = pairs[(i // 5) % len(pairs)]
        self.k = int(rng.integers(-9, 10))
        if rng.random() < 0.15:
            # many turns ("all integer k"): k and k mod 4 agree however large |k| is
            self.k = int(rng.choice([-1, 1])) * int(10 ** rng.uniform(2, 9)) + int(rng.integers(0, 4))
        self.k_as_numpy = bool(rng.random() < 0.2)
        # subregions
        self.boxes = {}
        if rng.random() < 0.5:
            self.boxes, _ = gen.rand_subregions(rng, spec, kmax=2)
        # reference point
        r = rng.random()
        centre = (spec.pmin + spec.pmax) / 2
        if r < 0.45:
            self.ref, self.ref_kind = None, "default"
        elif r < 0.85:
            self.ref = spec.pmin + rng.uniform(-2, 3, nd) * spec.edges
            self.ref_kind = "near"
        else:
            self.ref = centre + rng.uniform(-1, 1, nd) * 10.0 ** rng.uniform(1, 3) * spec.edges
            self.ref_kind = "far"
        self.R = centre if self.ref is None else np.asarray(self.ref, dtype=float)
        self.ref_arg = None if self.ref is None else gen.pick(
            rng, [tuple(self.ref.tolist()), self.ref.tolist(), np.array(self.ref)])
        # components
        if need_vector:
            nv_kind = gen.pick(rng, ["nd", "nd", "nd+1", "fewer"])
        else:
            nv_kind = gen.pick(rng, ["scalar", "nd", "nd", "nd+1", "fewer"])
        if nv_kind == "fewer" and nd == 2 and not unmapped:
            nv_kind = "nd"
        self.nv_kind = nv_kind
        names = self.names
        if nv_kind == "scalar":
            self.nv, self.vdims, self.mapping, self.map_kind = 1, None, None, "none"
        else:
            if nv_kind == "nd":
                nv = nd
                ident = rng.random() < 0.3
                axes = list(range(nd)) if ident else [int(x) for x in rng.permutation(nd)]
                self.map_kind = "identity" if axes == list(range(nd)) else "permutation"
            elif nv_kind == "nd+1":
                nv = nd + 1
                axes = [int(x) for x in rng.permutation(nd)]
                axes.insert(int(rng.integers(0, nd + 1)), None)
                self.map_kind = "partial_extra_component"
            else:  # fewer components than axes: the rotation plane must be mapped
                nv = 2 if nd == 3 or rng.random() < 0.5 else nd - 1
                nv = max(nv, 2)
                others = [x for x in range(nd) if x not in (self.a, self.b)]
                extra = [int(x) for x in rng.permutation(others)[: nv - 2]]
                axes = [self.a, self.b] + extra
                axes = [axes[int(j)] for j in rng.permutation(nv)]
                self.map_kind = "partial_fewer_components"
            if unmapped:
                # take the mapping of a or b away
                victim = self.a if rng.random() < 0.5 else self.b
                how = gen.pick(rng, ["none", "other_axis_missing", "empty"])
                if victim in axes:
                    if how == "empty":
                        axes = [None] * nv
                    else:
                        axes[axes.index(victim)] = None
                self.unmapped_how = how
                self.map_kind = "unmapped_" + how
            self.nv = nv
            self.vdims = gen.rand_vdims(rng, nv)
            labels = self.vdims or gen.default_vdims(nv)
            self.labels = labels
            self.mapping = gen.shuffle_keys(
                rng, {labels[j]: (None if axes[j] is None else names[axes[j]]) for j in range(nv)})
            if unmapped and self.unmapped_how == "empty":
                self.mapping = {}
            self.axes = axes
        self.dtype = gen.pick(rng, ["float", "float", "int", "complex"])
        self.arr = gen.rand_values(rng, (*self.n, self.nv), self.dtype)
        if self.dtype == "int" and rng.random() < 0.4:
            # whole numbers that a float64 cannot hold: Q is an exact (integer) matrix
            self.arr = self.arr + gen.pick(rng, [2**53 + 1, -(2**60) - 1])
        self.valid = gen.rand_valid(rng, self.n)
        self.unit = gen.pick(rng, [None, "A/m", "T"])

    # fresh objects ---------------------------------------------------------
    def region(self):
        return self.spec.region()

    def mesh(self):
        subs = {name: self.spec.box_region(lo, hi) for name, (lo, hi) in self.boxes.items()}
        return self.spec.mesh(subregions=subs or None)

    def field(self):
        kw = {}
        if self.dtype == "int":
            kw["dtype"] = np.int64
        return gen.via_history(None, df.Field(
            self.mesh(), nvdim=self.nv, value=self.arr.copy(), valid=self.valid.copy(),
            vdims=self.vdims, vdim_mapping=self.mapping, unit=self.unit, **kw))

    def rotate(self, obj, k=None, inplace=False):
        k = self.k if k is None else k
        if self.k_as_numpy:
            k = np.int64(k)  # e.g. an entry of mesh.n: an integer is an integer
        return obj.rotate90(self.names[self.a], self.names[self.b], k=k,
                            reference_point=self.ref_arg, inplace=inplace)

    def info(self, **kw):
        d = {"ndim": self.nd, "n": self.n, "dims": self.names, "units": self.spec.units,
             "ax1": self.names[self.a], "ax2": self.names[self.b], "k": self.k,
             "k_mod_4": self.k % 4, "reference": self.ref_kind, "nvdim": self.nv,
             "mapping": self.mapping, "mapping_kind": self.map_kind, "dtype": self.dtype,
             "has_subregions": bool(self.boxes)}
        d.update(kw)
        return d

    def signature(self, kind):
        return (kind, self.nd, self.nv_kind, self.dtype, self.k % 4, self.k < 0,
                self.map_kind, self.ref_kind, bool(self.boxes),
                self.n[self.a] != self.n[self.b])

    def nontrivial(self):
        return self.k % 4 != 0 and self.n[self.a] * self.n[self.b] > 1

    def ctol(self):
        """Rounding allowance for a rotated coordinate."""
        spec = self.spec
        return 64 * EPS * (np.max(np.abs(self.R)) + np.max(np.abs(spec.pmin))
                           + np.max(np.abs(spec.pmax)))


# ------------------------------------------------------------------ snapshots
def snap(obj):
    """Observable state of a Region / Mesh / Field as plain data."""
    out = {}
    if hasattr(obj, "array"):
        out.update(array=obj.array.copy(), valid=obj.valid.copy(),
                   vdims=None if obj.vdims is None else list(obj.vdims),
                   vdim_mapping=dict(obj.vdim_mapping or {}), unit=obj.unit,
                   nvdim=obj.nvdim)
        obj = obj.mesh
    if hasattr(obj, "region"):
        out.update(n=np.array(obj.n).copy(), bc=obj.bc,
                   subregions={k: (np.array(v.pmin, dtype=float), np.array(v.pmax, dtype=float))
                               for k, v in obj.subregions.items()})
        obj = obj.region
    out.update(pmin=np.array(obj.pmin, dtype=float), pmax=np.array(obj.pmax, dtype=float),
               dims=list(obj.dims), units=list(obj.units))
    return out


def snap_diff(s1, s2, ctol, vrel=16 * EPS):
    """Names of the attributes in which two snapshots differ."""
    bad = []
    for key in s1:
        x, y = s1[key], s2.get(key)
        if key in ("pmin", "pmax"):
            if x.shape != y.shape or np.any(np.abs(x - y) > ctol):
                bad.append(key)
        elif key == "subregions":
            if list(x) != list(y) or any(  # the listing order is part of it (first listed wins)
                    np.any(np.abs(x[k][0] - y[k][0]) > ctol)
                    or np.any(np.abs(x[k][1] - y[k][1]) > ctol) for k in x):
                bad.append(key)
        elif key == "array":
            if x.shape != y.shape:
                bad.append("array.shape")
            else:
                sc = np.max(np.abs(x)) if x.size else 0.0
                if np.any(np.abs(x - y) > vrel * 2 * sc):
                    bad.append("array")
        elif key in ("n", "valid"):
            if not np.array_equal(x, y):
                bad.append(key)
        elif x != y:
            bad.append(key)
    return bad


# ------------------------------------------------------------------ the cell oracle
def check_rotated_field(ctx, su, f0, g, info):
    """g must be f0 (snapshot of the operand) rotated: geometry, cells, values."""
    spec, a, b, k, R = su.spec, su.a, su.b, su.k, su.R
    nd = su.nd
    ctol = su.ctol()
    emin, emax = rot_box(spec.pmin, spec.pmax, R, a, b, k)
    en = np.array(swap_if_odd(su.n, a, b, k))
    ecell = np.array(swap_if_odd(spec.cell, a, b, k), dtype=float)
    gs = snap(g)
    ctx.check("C12.geometry.region",
              np.all(np.abs(gs["pmin"] - emin) <= ctol) and np.all(np.abs(gs["pmax"] - emax)
                                                                    <= ctol),
              got_pmin=gs["pmin"], got_pmax=gs["pmax"], expected_pmin=emin,
              expected_pmax=emax, tolerance=ctol, **info)
    n_ok = ctx.check("C12.geometry.n", np.array_equal(gs["n"], en), got=gs["n"], expected=en,
                     **info)
    exp_units = swap_if_odd(f0["units"], a, b, k)
    ctx.check("C12.geometry.units", gs["units"] == exp_units, got=gs["units"],
              expected=exp_units, **info)
    ctx.check("C12.geometry.names", gs["dims"] == f0["dims"], got=gs["dims"],
              expected=f0["dims"], **info)
    # subregions move with the cells
    exp_sub = {name: rot_box(spec.vertex(lo), spec.vertex(hi), R, a, b, k)
               for name, (lo, hi) in su.boxes.items()}
    ok = list(gs["subregions"]) == list(exp_sub) and all(
        np.all(np.abs(gs["subregions"][m][0] - exp_sub[m][0]) <= ctol)
        and np.all(np.abs(gs["subregions"][m][1] - exp_sub[m][1]) <= ctol) for m in exp_sub)
    ctx.check("C12.geometry.subregions", ok,
              got={m: [v[0], v[1]] for m, v in gs["subregions"].items()},
              expected={m: [v[0], v[1]] for m, v in exp_sub.items()}, **info)
    ctx.check("C12.labels_kept",
              gs["vdims"] == f0["vdims"] and gs["vdim_mapping"] == f0["vdim_mapping"]
              and gs["unit"] == f0["unit"] and gs["nvdim"] == f0["nvdim"],
              got=[gs["vdims"], gs["vdim_mapping"], gs["unit"]],
              expected=[f0["vdims"], f0["vdim_mapping"], f0["unit"]], **info)
    if not n_ok or gs["array"].shape != (*en, su.nv):
        return
    # every cell centre p of the operand lands on the centre of a cell of g
    idx = np.stack(np.meshgrid(*[np.arange(m) for m in su.n], indexing="ij"), axis=-1)
    P = spec.pmin + (idx + 0.5) * spec.cell
    Qp = rot_points(P, R, a, b, k)
    t = (Qp - emin) / ecell
    gi = np.floor(t).astype(int)
    frac_ok = np.all(np.abs(t - gi - 0.5) <= 1e-6)
    inside = np.all((gi >= 0) & (gi < en))
    flat = np.ravel_multi_index(tuple(gi[..., j].ravel() for j in range(nd)), tuple(en),
                                mode="clip")
    ctx.check("C12.cells.centres",
              frac_ok and inside and len(np.unique(flat)) == flat.size,
              note="model: rotated centres are centres of the rotated lattice, one to one",
              **info)
    if not (frac_ok and inside):
        return
    sel = tuple(gi[..., j] for j in range(nd))
    src = f0["array"]
    exp = src.copy()
    scale = np.zeros(src.shape[:-1])
    if su.nv > 1:
        ia, ib = su.axes.index(a), su.axes.index(b)
        c, s = QTAB[k % 4]
        va, vb = src[..., ia], src[..., ib]
        exp[..., ia] = c * va - s * vb
        exp[..., ib] = s * va + c * vb
        scale = np.abs(va) + np.abs(vb)
    got = gs["array"][sel]
    tol = 16 * EPS * scale[..., None]
    if src.dtype.kind in "iub" and got.dtype.kind in "iub":
        tol = 0  # integers in, integers out: exact
    bad = np.argwhere(~(np.abs(got - exp) <= tol))
    w = {}
    if len(bad):
        b0 = tuple(bad[0])
        w = {"cell": b0[:-1], "component": int(b0[-1]), "got": got[b0], "expected": exp[b0],
             "operand_value": src[b0[:-1]], "count": int(len(bad)),
             "result_dtype": str(gs["array"].dtype)}
    ctx.check("C12.cells.values", len(bad) == 0, **w, **info)
    ctx.check("C12.cells.validity", np.array_equal(gs["valid"][sel], f0["valid"]),
              mismatches=int(np.count_nonzero(gs["valid"][sel] != f0["valid"])), **info)


# ------------------------------------------------------------------ kinds
def copy_rotation(ctx, i):
    su = Setup(ctx, i)
    ctx.sig(su.signature("copy"), nontrivial=su.nontrivial())
    ctx.sample({"kind": "copy", **su.info(), **su.spec.describe()})
    f = su.field()
    f0 = snap(f)
    info = su.info(inplace=False, object="field")
    okc, g = ctx.expect_ok("C12.rotate.accepted", su.rotate, f, what=info)
    if not okc:
        return
    ctx.check("C12.copy.operand_untouched", not snap_diff(f0, snap(f), 0.0, 0.0),
              changed=snap_diff(f0, snap(f), 0.0, 0.0), **info)
    ctx.check("C12.copy.is_new_object", g is not f and g.mesh is not f.mesh
              and not np.shares_memory(g.array, f.array)
              and not np.shares_memory(g.valid, f.valid), **info)
    check_rotated_field(ctx, su, f0, g, info)


def identities(ctx, i):
    su = Setup(ctx, i)
    ctx.sig(su.signature("identities"), nontrivial=su.nontrivial())
    ctol = su.ctol()
    f = su.field()
    f0 = snap(f)
    info = su.info(inplace=False)
    g = su.rotate(f)
    gs = snap(g)
    check_rotated_field(ctx, su, f0, g, su.info(inplace=False, object="field"))
    g4 = su.rotate(f, k=su.k % 4)
    ctx.check("C12.identity.k_mod_4", not snap_diff(gs, snap(g4), ctol),
              differs=snap_diff(gs, snap(g4), ctol), object="field", **info)
    back = su.rotate(g, k=-su.k)
    ctx.check("C12.identity.reverse", not snap_diff(f0, snap(back), 2 * ctol),
              differs=snap_diff(f0, snap(back), 2 * ctol), object="field", **info)
    h = f
    for _ in range(4):
        h = su.rotate(h, k=1)
    ctx.check("C12.identity.four_turns", not snap_diff(f0, snap(h), 4 * ctol),
              differs=snap_diff(f0, snap(h), 4 * ctol), object="field", **info)
    # the same for plain regions and meshes, and mutual consistency
    mesh, region = su.mesh(), su.region()
    mr, rr = su.rotate(mesh), su.rotate(region)
    ms, rs = snap(mr), snap(rr)
    gm = {key: gs[key] for key in ms}
    ctx.check("C12.consistent.mesh_field", not snap_diff(ms, gm, ctol),
              differs=snap_diff(ms, gm, ctol), **info)
    mreg = {key: ms[key] for key in rs}
    ctx.check("C12.consistent.region_mesh", not snap_diff(rs, mreg, ctol),
              differs=snap_diff(rs, mreg, ctol), **info)
    for obj, name in ((mesh, "mesh"), (region, "region")):
        o0 = snap(obj)
        r1 = su.rotate(obj)
        ctx.check("C12.identity.k_mod_4",
                  not snap_diff(snap(r1), snap(su.rotate(obj, k=su.k % 4)), ctol),
                  object=name, **info)
        ctx.check("C12.identity.reverse",
                  not snap_diff(o0, snap(su.rotate(r1, k=-su.k)), 2 * ctol),
                  differs=snap_diff(o0, snap(su.rotate(r1, k=-su.k)), 2 * ctol),
                  object=name, **info)
        h = obj
        for _ in range(4):
            h = su.rotate(h, k=1)
        ctx.check("C12.identity.four_turns", not snap_diff(o0, snap(h), 4 * ctol),
                  differs=snap_diff(o0, snap(h), 4 * ctol), object=name, **info)


def inplace(ctx, i):
    su = Setup(ctx, i)
    ctx.sig(su.signature("inplace"), nontrivial=su.nontrivial())
    ctol = su.ctol()
    for name, build in (("region", su.region), ("mesh", su.mesh), ("field", su.field)):
        info = su.info(inplace=True, object=name, odd_k=bool(su.k % 2))
        cp = su.rotate(build())
        obj = build()
        okc, ret = ctx.expect_ok("C12.rotate.accepted", su.rotate, obj, inplace=True,
                                 what=info)
        if not okc:
            continue
        ctx.check("C12.inplace.returns_self", ret is obj, returned=type(ret).__name__, **info)
        d = snap_diff(snap(cp), snap(obj), ctol)
        ctx.check("C12.inplace.equals_copy", not d, differs=d,
                  copy_units=list((cp.mesh.region if name == "field" else
                                   cp.region if name == "mesh" else cp).units),
                  inplace_units=list((obj.mesh.region if name == "field" else
                                      obj.region if name == "mesh" else obj).units), **info)
        if name != "region":
            # "equal to what the copying form returns": both forms carry out the same
            # arithmetic on the same numbers, so region and subregions agree to the last bit
            ma, mb = (cp.mesh, obj.mesh) if name == "field" else (cp, obj)
            same = (np.array_equal(ma.region.pmin, mb.region.pmin)
                    and np.array_equal(ma.region.pmax, mb.region.pmax)
                    and list(ma.subregions) == list(mb.subregions)
                    and all(np.array_equal(ma.subregions[q].pmin, mb.subregions[q].pmin)
                            and np.array_equal(ma.subregions[q].pmax, mb.subregions[q].pmax)
                            for q in ma.subregions))
            ctx.check("C12.inplace.equals_copy", same, exact=True,
                      copy={q: [ma.subregions[q].pmin, ma.subregions[q].pmax] for q in ma.subregions},
                      in_place={q: [mb.subregions[q].pmin, mb.subregions[q].pmax] for q in mb.subregions},
                      **info)
        if name == "field":
            check_rotated_field(ctx, su, snap(su.field()), obj, info)


def refusals(ctx, i):
    su = Setup(ctx, i, need_vector=True, unmapped=True)
    ctx.sig(su.signature("refusals"), nontrivial=su.n[su.a] * su.n[su.b] > 1)
    try:
        f = su.field()
    except Exception:  # noqa: BLE001 - the library may refuse to build such a field
        ctx.event("unmapped_field_rejected_at_construction")
        return
    names = su.names
    rev = {v: key for key, v in (f.vdim_mapping or {}).items()}
    if names[su.a] in rev and names[su.b] in rev:
        ctx.event("mapping_complete_after_all")
        return
    for inpl in (False, True):
        info = su.info(inplace=inpl, object="field", field_mapping=f.vdim_mapping)
        ctx.expect_raises("C12.refused.unmapped", su.rotate, f, inplace=inpl, unchanged=[f],
                          what=info)
    # a scalar field needs no mapping; a vector field whose plane is mapped is accepted
    # whatever else is unmapped
    su2 = Setup(ctx, i)
    if su2.k == 0:
        su2.k = 1
    ctx.expect_ok("C12.rotate.accepted", su2.rotate, su2.field(),
                  what=su2.info(inplace=False, object="field"))


def run_case(ctx, i):
    kind = i % 5
    if kind in (0, 1):
        copy_rotation(ctx, i)
    elif kind == 2:
        identities(ctx, i)
    elif kind == 3:
        inplace(ctx, i)
    else:
        refusals(ctx, i)
