"""C09 - OVF files round-trip fields and follow the OVF 1.0/2.0 format (fault enumeration)."""

META = {
    "property": "C09",
    "level": "fault_enumeration",
    "rule": (
        "case i of seed s is generated from default_rng([s, i]); (i + i//16)%4 selects the kind: "
        "0 round trip of a random 3-d field through bin8/bin4/txt + independent OVF 2.0 "
        "reader on the written bytes; 1 files from an independent OVF 1.0/2.0 writer "
        "(txt/bin4/bin8, OOMMF/mumax style) read by Field.from_file; 2 fault enumeration "
        "on small binary files (every truncation offset for files <= 4 KiB, every "
        "single-bit corruption of the check value, wrong check values); 3 extend_scalar, "
        "a field crossing the writer's 100 000-value chunk, repository sample files "
        "cross-read by both readers. Signature = (kind, representation/version, nvdim, "
        "value class, unit none, label class, subregions, mesh signature); a case is "
        "non-trivial when the mesh has >= 2 cells along at least two directions (an axis "
        "transposition is then visible) or, for fault cases, always."
    ),
    "cases": {"quick": 320, "thorough": 14400},
    "workers": {"quick": 8, "thorough": 16},
    "timeout": {"quick": 600, "thorough": 5400},
    "deciding": [
        "C09.roundtrip.loads",
        "C09.roundtrip.corners",
        "C09.roundtrip.values",
        "C09.roundtrip.unit",
        "C09.roundtrip.labels",
        "C09.roundtrip.subregions",
        "C09.reader.decodes",
        "C09.reader.conformance",
        "C09.reader.data",
        "C09.foreign.loads",
        "C09.foreign.data",
        "C09.fault.truncation_rejected",
        "C09.fault.checkvalue_bitflip_rejected",
        "C09.extend_scalar.scalar",
    ],
    "ambient": {"quick": [], "thorough": []},
    "anchor_files": ["discretisedfield/io/ovf.py", "discretisedfield/io/__init__.py"],
    "exhaustive_part": (
        "per fault file <= 4 KiB: all truncation offsets 0..len-1; all 32/64 single-bit "
        "flips of the check value; counts in events fault.*"
    ),
    "assumptions": [
        "labels are ASCII identifiers that do not shadow a Field attribute; units and "
        "mesh units contain no blanks (OVF records are blank separated lists)",
        "values are finite float64 (full exponent range incl. +-0, max, min normal, "
        "smallest subnormal); for txt the 1e-9 relative bound is applied per element with "
        "the smallest normal number as floor (subnormals are not judged relatively)",
        "label/unit conversion of foreign files and OVF 1.0's singular valueunit / "
        "valuemultiplier are the library's choice and not judged; flips inside the data "
        "block are undetectable by the format and not demanded",
        "only truncations (file cut at an offset) are enumerated as short data blocks, as "
        "in the quantifier; bytes removed from the middle with the trailer kept are not",
        "meshes whose subregions the library's own setter refuses (C14 matter) are "
        "written without subregions",
    ],
}

import glob  # noqa: E402
import os  # noqa: E402
import shutil  # noqa: E402
import struct  # noqa: E402
import tempfile  # noqa: E402

import numpy as np  # noqa: E402

import discretisedfield as df  # noqa: E402
from workloads import _io_gen as ig  # noqa: E402
from workloads import _ovf_codec as oc  # noqa: E402
from workloads import gen  # noqa: E402

REPS = ("bin8", "bin4", "txt")
EXTS = (".ovf", ".omf", ".ohf")
SAMPLE_DIR = os.path.join(os.path.dirname(df.__file__), "tests", "test_sample")


# ------------------------------------------------------------------ helpers
def _label_class(labels):
    if labels is None:
        return "default"
    return "underscore" if any("_" in c for c in labels) else "plain"


def _expected_values(arr, rep):
    arr = np.asarray(arr, dtype=float)
    if rep == "bin4":
        with np.errstate(over="ignore"):
            return arr.astype(np.float32).astype(np.float64)
    return arr


def _values_ok(got, arr, rep):
    exp = _expected_values(arr, rep)
    got = np.asarray(got)
    if got.shape != exp.shape:
        return False
    if rep == "txt":
        return ig.rel_close(got, exp, 1e-9)
    return got.dtype == np.float64 and ig.bits_equal(got, exp)


def _make_field(ctx, spec, nvdim=None, wide=None, p_sub=0.5, int_values=False):
    rng = ctx.rng
    mesh, boxes, note = ig.mesh_with_subregions(rng, spec, p_sub=p_sub)
    if note:
        ctx.event("subregions_refused_by_setter")
    if nvdim is None:
        nvdim = int(gen.pick(rng, [1, 1, 2, 3, 3, 3, 4, 5, 6]))
    labels = ig.rand_labels(rng, nvdim)
    if nvdim > 1 and rng.random() < 0.15:
        # "any labels without spaces": punctuation inside a label (dm/dt, m.x, a-b, B^2)
        base = [ig.rand_identifier(rng) for _ in range(nvdim)]
        labels = [b + gen.pick(rng, ["-", "/", ".", "#", "+", "^", "*"]) + "xyzt"[j % 4] + str(j)
                  for j, b in enumerate(base)]
    unit = gen.pick(rng, ig.UNITS)
    n = tuple(int(k) for k in spec.n)
    if int_values:
        arr = rng.integers(-1000, 1000, (*n, nvdim))
    else:
        arr = ig.rand_float_values(rng, (*n, nvdim), wide)
    f = gen.via_history(None, df.Field(mesh, nvdim=nvdim, value=arr, vdims=labels, unit=unit))
    return f, arr, labels, unit, boxes


def _visible_transposition(n):
    return int(np.sum(np.asarray(n) >= 2)) >= 2


# ------------------------------------------------------------ kind 0: round trip
def roundtrip(ctx, tmp):
    rng = ctx.rng
    spec = ig.spec_3d(rng, ctx.thorough)
    int_values = rng.random() < 0.1
    wide = gen.pick(rng, ["normal", "normal", "decades", "full"])
    f, arr, labels, unit, boxes = _make_field(ctx, spec, wide=wide, int_values=int_values)
    nvdim = arr.shape[-1]
    n = tuple(int(k) for k in spec.n)
    exp_labels = ig.expected_labels(nvdim, labels)
    ctx.sig(("roundtrip", nvdim, "int" if int_values else wide, unit is None,
             _label_class(labels), bool(boxes)) + spec.signature(),
            nontrivial=_visible_transposition(n))
    what0 = {"spec": spec.describe(), "nvdim": nvdim, "labels": labels, "unit": unit,
             "subregions": {k: [lo.tolist(), hi.tolist()] for k, (lo, hi) in boxes.items()}}
    ctx.sample({"kind": "roundtrip", **what0})
    sub_before = dict(f.mesh.subregions)
    pmin0, pmax0 = np.array(f.mesh.region.pmin), np.array(f.mesh.region.pmax)
    meshunit = spec.units[0] if spec.units is not None else "m"

    for rep in REPS:
        fn = os.path.join(tmp, f"f_{rep}{gen.pick(rng, EXTS)}")
        what = {"representation": rep, **what0}
        try:
            if rng.random() < 0.3:
                # history: the file name was used before, for a field on another mesh with
                # a subregion of its own
                old_mesh = df.Mesh(p1=(0, 0, 0), p2=(2, 2, 2), n=(2, 2, 2),
                                   subregions={"old": df.Region(p1=(0, 0, 0), p2=(1, 2, 2))})
                df.Field(old_mesh, nvdim=1, value=1.0).to_file(fn, representation=rep)
                what["file_name_used_before"] = True
                ctx.event("roundtrip.file_name_reused")
            f.to_file(fn, representation=rep)
            r = df.Field.from_file(fn)
        except Exception as e:  # noqa: BLE001
            ctx.check("C09.roundtrip.loads", False, exc=e, **what)
            continue
        ctx.check("C09.roundtrip.loads", True)
        ctx.event(f"roundtrip.{rep}")
        reg = r.mesh.region
        ctx.check("C09.roundtrip.corners",
                  np.array_equal(reg.pmin, pmin0) and np.array_equal(reg.pmax, pmax0)
                  and np.array_equal(pmin0, spec.pmin) and np.array_equal(pmax0, spec.pmax),
                  got=[reg.pmin, reg.pmax], expected=[spec.pmin, spec.pmax], **what)
        ctx.check("C09.roundtrip.n", tuple(int(k) for k in r.mesh.n) == n,
                  got=r.mesh.n, expected=n, **what)
        ctx.check("C09.roundtrip.meshunit", tuple(reg.units) == (meshunit,) * 3,
                  got=reg.units, expected=meshunit, **what)
        ctx.check("C09.roundtrip.nvdim", r.nvdim == nvdim, got=r.nvdim, **what)
        ctx.check("C09.roundtrip.unit", r.unit == unit and type(r.unit) is type(unit),
                  got=repr(r.unit), expected=repr(unit), unit_is_none=unit is None, **what)
        if nvdim > 1:
            ctx.check("C09.roundtrip.labels", r.vdims == exp_labels, got=r.vdims,
                      expected=exp_labels,
                      label_has_underscore=any("_" in c for c in exp_labels), **what)
        ctx.check("C09.roundtrip.values", _values_ok(r.array, arr, rep),
                  maxdiff=_maxrel(r.array, _expected_values(arr, rep)), value_class=wide, **what)
        ctx.check("C09.roundtrip.subregions",
                  ig.subs_identical(r.mesh.subregions, sub_before)
                  and ig.sub_corners_equal(r.mesh.subregions, boxes, spec),
                  got=ig.subs_describe(r.mesh.subregions), has_subregions=bool(boxes), **what)
        ctx.check("C09.roundtrip.sidecar_file",
                  os.path.exists(fn + ".subregions.json") == bool(boxes),
                  has_subregions=bool(boxes), **what)

        # ---- the written bytes through the independent reader
        raw = open(fn, "rb").read()
        independent_reader(ctx, raw, rep, arr, spec, n, meshunit, exp_labels, unit, what)
        for p in (fn, fn + ".subregions.json"):
            if os.path.exists(p):
                os.remove(p)


def _maxrel(got, exp):
    got, exp = np.asarray(got, float), np.asarray(exp, float)
    if got.shape != exp.shape:
        return f"shape {got.shape} vs {exp.shape}"
    with np.errstate(all="ignore"):
        d = np.abs(got - exp) / np.maximum(np.abs(exp), np.finfo(float).tiny)
        d = d[np.isfinite(d)]
        return float(d.max()) if d.size else 0.0


def independent_reader(ctx, raw, rep, arr, spec, n, meshunit, exp_labels, unit, what,
                       write_dim=None, exp_data=None):
    try:
        d = oc.decode(raw)
    except oc.OVFError as e:
        ctx.check("C09.reader.decodes", False, exc=e, **what)
        return None
    ctx.check("C09.reader.decodes", True)
    probs = list(d.problems) + oc.geometry_problems(d)
    if d.version != 2:
        probs.append("not an OVF 2.0 file")
    mode = {"bin8": ("binary", 8), "bin4": ("binary", 4), "txt": ("text", None)}[rep]
    if (d.mode, d.nbytes) != mode:
        probs.append(f"data block is {d.mode} {d.nbytes}, requested {rep}")
    ctx.check("C09.reader.conformance", not probs, problems=probs, **what)
    try:
        lo = np.array([d.fl(f"{c}min") for c in "xyz"])
        hi = np.array([d.fl(f"{c}max") for c in "xyz"])
        ok = (np.array_equal(lo, spec.pmin) and np.array_equal(hi, spec.pmax)
              and tuple(d.n) == tuple(n) and d.header.get("meshunit") == meshunit)
    except (KeyError, ValueError):
        lo = hi = None
        ok = False
    ctx.check("C09.reader.mesh", ok, got=[lo, hi, d.n, d.header.get("meshunit")],
              expected=[spec.pmin, spec.pmax, n, meshunit], **what)
    nvdim = arr.shape[-1]
    write_dim = write_dim or nvdim
    exp = arr if exp_data is None else exp_data
    ctx.check("C09.reader.data", d.dim == write_dim and _values_ok(d.data, exp, rep),
              valuedim=d.dim, maxdiff=_maxrel(d.data, _expected_values(exp, rep)),
              note="x-fastest data decoded by the independent reader", **what)
    if d.version == 2 and exp_data is None:
        labs = d.header.get("valuelabels", "").split()
        units = d.header.get("valueunits", "").split()
        ok = len(labs) == d.dim and (len(units) in (1, d.dim) or (unit is None and not units))
        if ok and nvdim > 1:
            ok = all(a == b or a.endswith("_" + b) for a, b in zip(labs, exp_labels))
        if ok and unit is not None:
            ok = all(u == unit for u in units)
        ctx.check("C09.reader.labels_units", ok, valuelabels=labs, valueunits=units,
                  expected_labels=exp_labels, expected_unit=unit, **what)
    return d


# ------------------------------------------------- kind 1: independent writer
def foreign(ctx, tmp):
    rng = ctx.rng
    spec = ig.spec_3d(rng, ctx.thorough)
    n = tuple(int(k) for k in spec.n)
    version = int(gen.pick(rng, [1, 2, 2]))
    dim = 3 if version == 1 else int(gen.pick(rng, [1, 2, 3, 3, 4, 6]))
    wide = gen.pick(rng, ["normal", "normal", "decades", "full"])
    data = ig.rand_float_values(rng, (*n, dim), wide)
    style = gen.pick(rng, ["oommf", "mumax"])
    numfmt = gen.pick(rng, ["repr", "g17", "e16"])
    unit = gen.pick(rng, ["A/m", "T", "J/m3", None]) if version == 2 else "A/m"
    meshunit = gen.pick(rng, ["m", "nm"])
    ctx.sig(("foreign", version, style, dim, wide, unit is None) + spec.signature(),
            nontrivial=_visible_transposition(n))
    for rep in REPS:
        raw, _ = oc.encode(version, rep, spec.pmin, spec.cell, n, data, unit=unit,
                           meshunit=meshunit, style=style, numfmt=numfmt)
        fn = os.path.join(tmp, f"w_{rep}{gen.pick(rng, EXTS)}")
        with open(fn, "wb") as fh:
            fh.write(raw)
        what = {"version": version, "representation": rep, "style": style, "numfmt": numfmt,
                "dim": dim, "spec": spec.describe(), "value_class": wide}
        ok, r = ctx.expect_ok("C09.foreign.loads", df.Field.from_file, fn, what=what)
        os.remove(fn)
        if not ok:
            continue
        ctx.event(f"foreign.v{version}.{rep}")
        # the writer's own numbers: pmax as written is pmin + cell*n evaluated there
        wpmax = np.array([float(spec.pmin[k]) + float(spec.cell[k]) * n[k] for k in range(3)])
        reg = r.mesh.region
        ctx.check("C09.foreign.mesh",
                  np.array_equal(reg.pmin, spec.pmin) and np.array_equal(reg.pmax, wpmax)
                  and tuple(int(k) for k in r.mesh.n) == n
                  and tuple(reg.units) == (meshunit,) * 3,
                  got=[reg.pmin, reg.pmax, r.mesh.n, reg.units],
                  expected=[spec.pmin, wpmax, n, meshunit], **what)
        ctx.check("C09.foreign.nvdim", r.nvdim == dim, got=r.nvdim, **what)
        ctx.check("C09.foreign.data", _values_ok(r.array, data, rep),
                  maxdiff=_maxrel(r.array, _expected_values(data, rep)), **what)
        if version == 2:
            ctx.check("C09.foreign.unit", r.unit == unit, got=repr(r.unit),
                      expected=repr(unit), **what)


# ---------------------------------------------------- kind 2: fault enumeration
def _try_load(fn):
    try:
        return None, df.Field.from_file(fn)
    except Exception as e:  # noqa: BLE001 - rule R4: any exception is a rejection
        return e, None


def _open_fds():
    try:
        return len(os.listdir("/proc/self/fd"))
    except OSError:
        return 0


def faults(ctx, tmp):
    rng = ctx.rng
    source = gen.pick(rng, ["library", "library", "writer_v1", "writer_v2"])
    rep = gen.pick(rng, ["bin4", "bin8"])
    big = ctx.thorough and rng.random() < 0.15  # > 4 KiB: stratified truncation sample
    if big:
        spec = ig.spec_3d(rng, True, n_max=9, max_cells=700)
    else:
        spec = gen.rand_meshspec(rng, nd=3, n_max=4, max_cells=36)
        spec.units = None
    n = tuple(int(k) for k in spec.n)
    nvdim = 3 if source == "writer_v1" else int(gen.pick(rng, [1, 2, 3]))
    if big:
        nvdim = 3
    arr = ig.rand_float_values(rng, (*n, nvdim), "normal")
    fn = os.path.join(tmp, "fault.ovf")
    if source == "library":
        f = df.Field(spec.mesh(), nvdim=nvdim, value=arr)
        f.to_file(fn, representation=rep)
        raw = open(fn, "rb").read()
    else:
        raw, _ = oc.encode(1 if source == "writer_v1" else 2, rep, spec.pmin, spec.cell, n,
                           arr, style=gen.pick(rng, ["oommf", "mumax"]))
    d = oc.decode(raw)  # my own reader locates the data block (rule R1)
    nb = d.nbytes
    start, end = d.data_start, d.data_end
    exp = _expected_values(arr, rep)
    what = {"source": source, "representation": rep, "n": n, "nvdim": nvdim,
            "file_size": len(raw), "data_start": start, "data_end": end}
    ctx.sig(("faults", source, rep, nvdim, len(raw) <= 4096), nontrivial=True)
    ctx.event("fault.files")

    with open(fn, "wb") as fh:
        fh.write(raw)
    e0, r0 = _try_load(fn)
    ctx.check("C09.fault.intact_file_loads",
              e0 is None and ig.bits_equal(np.asarray(r0.array, float), exp), exc=e0, **what)

    def same_as_original(r):
        return (tuple(int(k) for k in r.mesh.n) == n and r.nvdim == nvdim
                and ig.bits_equal(np.asarray(r.array, float), exp)
                and np.array_equal(r.mesh.region.pmin, spec.pmin))

    fds0 = _open_fds()
    # ---- truncations (descending, one file shortened step by step)
    if len(raw) <= 4096:
        cuts = range(len(raw) - 1, -1, -1)
        ctx.event("fault.files_exhaustive")
    else:
        c = set(range(0, start + nb + 64)) | set(range(end - 64, len(raw)))
        c |= set(int(x) for x in rng.integers(start, end, 300))
        c |= {start + nb + k * nb * nvdim for k in range(0, len(arr.reshape(-1, nvdim)), 7)}
        cuts = sorted((x for x in c if 0 <= x < len(raw)), reverse=True)
    n_tr = 0
    for cut in cuts:
        os.truncate(fn, cut)
        e, r = _try_load(fn)
        n_tr += 1
        where = ("header" if cut < start else "check_value" if cut < start + nb
                 else "data" if cut < end else "trailer")
        if cut < end:
            ctx.check("C09.fault.truncation_rejected", e is not None, cut=cut, where=where,
                      note="a field was returned from a file with a short data block",
                      **what)
        else:
            ctx.check("C09.fault.truncation_in_trailer", e is not None or same_as_original(r),
                      cut=cut, where=where,
                      note="complete data block: rejection or the original field", **what)
    ctx.event("fault.truncations", n_tr)

    # ---- check value: every single-bit flip, and plainly wrong values
    end_c = ">" if d.version == 1 else "<"
    other = "<" if end_c == ">" else ">"
    code = "f" if nb == 4 else "d"
    chk = raw[start:start + nb]
    n_fl = 0
    for bit in range(8 * nb):
        b = bytearray(chk)
        b[bit // 8] ^= 1 << (bit % 8)
        with open(fn, "wb") as fh:
            fh.write(raw[:start] + bytes(b) + raw[start + nb:])
        e, r = _try_load(fn)
        n_fl += 1
        ctx.check("C09.fault.checkvalue_bitflip_rejected", e is not None, bit=bit,
                  note="a field was returned although the check value is corrupted", **what)
    ctx.event("fault.checkvalue_bitflips", n_fl)
    wrong = {
        "byte_swapped": struct.pack(other + code, oc.CHECK[nb]),
        "other_precisions_value": struct.pack(end_c + code, oc.CHECK[12 - nb]),
        "zero": b"\x00" * nb,
        "nan": struct.pack(end_c + code, float("nan")),
        "negated": struct.pack(end_c + code, -oc.CHECK[nb]),
    }
    for name, b in wrong.items():
        with open(fn, "wb") as fh:
            fh.write(raw[:start] + b + raw[start + nb:])
        e, r = _try_load(fn)
        ctx.check("C09.fault.checkvalue_wrong_rejected", e is not None, variant=name,
                  note="a field was returned although the check value is wrong", **what)
    ctx.event("fault.checkvalue_wrong", len(wrong))
    # supporting observer only (never deciding): file handles left open by rejected loads
    ctx.event("fault.open_fd_growth", max(0, _open_fds() - fds0))


# ---------------------------------------------------------------- kind 3: misc
def extend_scalar(ctx, tmp):
    rng = ctx.rng
    spec = ig.spec_3d(rng, ctx.thorough)
    n = tuple(int(k) for k in spec.n)
    wide = gen.pick(rng, ["normal", "decades"])
    f, arr, labels, unit, boxes = _make_field(ctx, spec, nvdim=1, wide=wide, p_sub=0.2)
    ctx.sig(("extend_scalar", wide, unit is None) + spec.signature(),
            nontrivial=_visible_transposition(n))
    meshunit = spec.units[0] if spec.units is not None else "m"
    exp3 = np.concatenate([arr, np.zeros_like(arr), np.zeros_like(arr)], axis=-1)
    for rep in REPS:
        fn = os.path.join(tmp, f"x_{rep}.ovf")
        what = {"representation": rep, "spec": spec.describe(), "extend_scalar": True}
        try:
            f.to_file(fn, representation=rep, extend_scalar=True)
            r = df.Field.from_file(fn)
        except Exception as e:  # noqa: BLE001
            ctx.check("C09.extend_scalar.scalar", False, exc=e, **what)
            continue
        ctx.check("C09.extend_scalar.scalar",
                  r.nvdim == 3 and _values_ok(r.array, exp3, rep)
                  and tuple(int(k) for k in r.mesh.n) == n,
                  nvdim=r.nvdim, note="value X must be stored as (X, 0, 0)", **what)
        raw = open(fn, "rb").read()
        independent_reader(ctx, raw, rep, arr, spec, n, meshunit, None, unit, what,
                           write_dim=3, exp_data=exp3)
        # the flag off: plain scalar file
        f.to_file(fn, representation=rep, extend_scalar=False)
        r = df.Field.from_file(fn)
        ctx.check("C09.extend_scalar.off", r.nvdim == 1 and _values_ok(r.array, arr, rep),
                  nvdim=r.nvdim, **what)


def extend_scalar_vector(ctx, tmp):
    """extend_scalar=True on a vector field: the flag concerns scalar fields only, the
    quantifier still ranges over it ("extend_scalar on/off" for all fields)."""
    rng = ctx.rng
    spec = ig.spec_3d(rng, ctx.thorough)
    nvdim = int(gen.pick(rng, [2, 3, 3, 4]))
    f, arr, labels, unit, boxes = _make_field(ctx, spec, nvdim=nvdim, wide="normal", p_sub=0.0)
    ctx.sig(("extend_scalar_vector", nvdim) + spec.signature(),
            nontrivial=_visible_transposition(spec.n))
    exp_labels = ig.expected_labels(nvdim, labels)
    for rep in (gen.pick(rng, REPS),):  # one representation: keeps the volume small
        fn = os.path.join(tmp, f"xv_{rep}.ovf")
        what = {"representation": rep, "nvdim": nvdim, "extend_scalar_on_vector": True,
                "labels": labels, "spec": spec.describe()}
        try:
            f.to_file(fn, representation=rep, extend_scalar=True)
            r = df.Field.from_file(fn)
        except Exception as e:  # noqa: BLE001
            ctx.check("C09.extend_scalar.vector_field", False, exc=e, **what)
            continue
        ctx.check("C09.extend_scalar.vector_field",
                  r.nvdim == nvdim and _values_ok(r.array, arr, rep) and r.vdims == exp_labels,
                  got_nvdim=r.nvdim, got_labels=r.vdims, **what)


def chunk_crossing(ctx, tmp):
    """> 100 000 stored values: the binary writer works in chunks of 100 000."""
    rng = ctx.rng
    n = np.array([int(rng.integers(30, 44)), int(rng.integers(28, 36)), int(rng.integers(28, 34))])
    nvdim = int(gen.pick(rng, [3, 4, 5]))
    if rng.random() < 0.4:
        # the round sizes people actually use (100 x 100 x 10 cells, ...): cell and value
        # counts that are whole multiples - or just not - of any round chunk size
        n = np.array(gen.pick(rng, [(100, 100, 10), (50, 50, 40), (125, 80, 10), (40, 50, 50),
                                    (200, 50, 10), (100, 50, 20), (64, 64, 32)]))[rng.permutation(3)]
        nvdim = int(gen.pick(rng, [3, 3, 6, 7, 9, 1, 2]))
        ctx.event("chunk_crossing_round_sizes")
    cell = 10.0 ** rng.uniform(-9, 0) * rng.uniform(0.5, 2, 3)
    spec = gen.MeshSpec(-rng.uniform(0, 1, 3) * cell * n, cell, n, None, None, [False] * 3)
    arr = ig.rand_float_values(rng, (*n, nvdim), "normal")
    f = df.Field(spec.mesh(), nvdim=nvdim, value=arr)
    ctx.sig(("chunk", nvdim, int(arr.size // 100000)), nontrivial=True)
    for rep in ("bin8", "bin4"):
        fn = os.path.join(tmp, f"big_{rep}.omf")
        what = {"representation": rep, "n": n, "nvdim": nvdim, "values": int(arr.size)}
        f.to_file(fn, representation=rep)
        r = df.Field.from_file(fn)
        ctx.check("C09.roundtrip.values", _values_ok(r.array, arr, rep), chunked=True, **what)
        d = oc.decode(open(fn, "rb").read())
        ctx.check("C09.reader.data", _values_ok(d.data, arr, rep), chunked=True, **what)
        os.remove(fn)
    ctx.event("chunk_crossing_fields")


def sample_files(ctx, tmp, k):
    files = sorted(glob.glob(os.path.join(SAMPLE_DIR, "*.o?f")))
    if not files:
        ctx.event("samples.missing")
        return
    src = files[k % len(files)]
    ctx.sig(("sample", os.path.basename(src)), nontrivial=True)
    raw = open(src, "rb").read()
    try:
        d = oc.decode(raw)
    except oc.OVFError as e:
        ctx.check("C09.samples.cross_read", False, file=os.path.basename(src), exc=e,
                  note="independent reader cannot decode a repository sample")
        return
    ok, r = ctx.expect_ok("C09.samples.cross_read", df.Field.from_file, src,
                          what={"file": os.path.basename(src)})
    if not ok:
        return
    if d.mode == "text":
        same = ig.rel_close(r.array, d.data, 1e-9)
    else:
        same = ig.bits_equal(np.asarray(r.array, float), d.data)
    lo = np.array([d.fl(f"{c}min") for c in "xyz"])
    hi = np.array([d.fl(f"{c}max") for c in "xyz"])
    ctx.check("C09.samples.cross_read",
              same and tuple(int(x) for x in r.mesh.n) == tuple(d.n) and r.nvdim == d.dim
              and np.array_equal(r.mesh.region.pmin, lo) and np.array_equal(r.mesh.region.pmax, hi),
              file=os.path.basename(src), n=[r.mesh.n, d.n], nvdim=[r.nvdim, d.dim],
              maxdiff=_maxrel(r.array, d.data))
    ctx.event("samples.cross_read")


def run_case(ctx, i):
    tmp = tempfile.mkdtemp(prefix="c09_")
    try:
        kind = ig.kind_of(i)
        if kind == 0:
            roundtrip(ctx, tmp)
        elif kind == 1:
            foreign(ctx, tmp)
        elif kind == 2:
            faults(ctx, tmp)
        else:
            g = i // 4  # one kind-3 case per group of four indices
            sub = g % 16
            if g == 3 or (sub < 8 and ctx.rng.random() < 1 / 16):
                extend_scalar_vector(ctx, tmp)
            elif sub < 8:
                extend_scalar(ctx, tmp)
            elif sub < 13:
                sample_files(ctx, tmp, (g // 16) * 5 + (sub - 8))
            else:
                chunk_crossing(ctx, tmp)
    finally:
        shutil.rmtree(tmp, ignore_errors=True)
