"""C07 - sub-selection, padding and resampling keep every value at its physical position."""

META = {
    "property": "C07",
    "level": "exploration",
    "rule": (
        "case i of seed s is generated from default_rng([s, i]); i%6 selects the kind "
        "(0: plane selection with / without coordinate; 1: range selection; 2: extraction "
        "by subregion name, by lattice-aligned region, by arbitrary region, and the index "
        "slices of a region; 3: padding with several widths and modes; 4: resampling; "
        "5: requests outside the region). The generator draws cell indices first and "
        "derives the coordinates from them, so the expected block of cells is known in "
        "integers. Meshes are 1-4-d with random dimension names, 0-3 overlapping / touching "
        "lattice subregions, random validity masks, 1-3 components, int / float / complex "
        "values. Signature = (kind, sub-kind, ndim, min(n,3) per axis, nvdim, dtype, "
        "number of subregions, offset decade, named dims); non-trivial = the selected axis "
        "(or some axis) has >= 2 cells."
    ),
    "cases": {"quick": 1800, "thorough": 72000},
    "workers": {"quick": 8, "thorough": 16},
    "timeout": {"quick": 600, "thorough": 5400},
    "deciding": [
        "C07.sel.plane.block",
        "C07.sel.plane.mesh",
        "C07.sel.range.block",
        "C07.sel.range.mesh",
        "C07.getitem.name.block",
        "C07.getitem.name.mesh",
        "C07.getitem.region.inside.block",
        "C07.getitem.region.inside.mesh",
        "C07.getitem.region.vertex.accepted",
        "C07.region2slices",
        "C07.pad.inside",
        "C07.pad.outside_values",
        "C07.pad.mesh",
        "C07.resample.value_and_validity",
        "C07.resample.region_kept",
        "C07.outside.sel_rejected",
        "C07.outside.region_rejected",
    ],
    "ambient": {"quick": [], "thorough": []},
    "anchor_files": ["discretisedfield/field.py", "discretisedfield/mesh.py"],
    "assumptions": [
        "selection coordinates lie >= 1e-6 cell inside their cell (exactly one right "
        "answer) or exactly on a lattice plane / region face, where either neighbouring "
        "cell is accepted (rule R3); the central cell of an even axis is either middle cell",
        "arbitrary regions have their corners 5 %..95 % inside cells; aligned regions have "
        "their corners on lattice vertices computed as pmin + i*cell (possibly not "
        "representable): the smallest block of whole cells containing them is the box "
        "itself (monitor class 'vertex')",
        "result corners are compared with 16 eps * |coordinate| + 1e-12 cell",
        "a plane selection of a 1-d field has no mesh left: the bare values of the selected "
        "cell are expected (what Field.sel returns); Mesh.sel on a 1-d mesh is not judged",
        "validity of padding cells outside the source is compared with numpy.pad of the "
        "mask for the modes without extra arguments only (non-deciding monitor)",
        "which subregions a selected mesh keeps is C14's subject; here the selection only "
        "has to succeed on meshes that have subregions",
    ],
}

import itertools  # noqa: E402

import numpy as np  # noqa: E402

import discretisedfield as df  # noqa: E402
from workloads import _a_helpers as H  # noqa: E402
from workloads import gen  # noqa: E402


# --------------------------------------------------------------------------- generators
def _setup(ctx, kind, subregions=True, nvmax=3, **kw):
    rng = ctx.rng
    spec = gen.rand_meshspec(rng, n_max=7 if ctx.thorough else 6,
                             max_cells=800 if ctx.thorough else 400, **kw)
    if rng.random() < 0.12 and not spec.int_corners and not spec.dyadic:
        # a far-away mesh: 1e4..1e6 edge lengths from the origin (a film at z = 20 um cut
        # into nm cells); coordinates still resolve 1e-6 of a cell there
        mag = 10.0 ** rng.uniform(4, 6)
        pmin = rng.choice([-1, 1], spec.nd) * mag * spec.cell * spec.n
        spec = gen.MeshSpec(pmin, spec.cell, spec.n, spec.dims, spec.units, spec.flip)
        ctx.event("far_mesh")
    boxes, regions = H.listed_subregions(rng, spec, kmax=3) if subregions else ({}, {})
    # boundary conditions are a property of the mesh that no clause mentions: selection is
    # by position on periodic and open meshes alike
    bc = gen.rand_bc(rng, spec.dim_names, p_none=0.6)
    mesh = H.mesh_with_subregions(ctx, "C07", spec, regions, bc=bc)
    if mesh is None:
        boxes, regions, mesh = {}, {}, spec.mesh(bc=bc)
    nvdim = int(rng.integers(1, nvmax + 1))
    dtype = gen.pick(rng, ["float", "float", "int", "complex"])
    n = tuple(int(k) for k in spec.n)
    arr = gen.rand_values(rng, (*n, nvdim), dtype)
    valid = gen.rand_valid(rng, n)
    kwf = {"vdims": gen.rand_vdims(rng, nvdim), "unit": gen.pick(rng, [None, "A/m"])}
    if dtype == "complex":
        kwf["dtype"] = complex
    elif dtype == "int" and rng.random() < 0.6:
        # a declared integer field holds whole numbers that a float64 need not hold
        kwf["dtype"] = gen.pick(rng, [int, np.int64])
        arr = arr + gen.pick(rng, [0, 2**53 + 1, -(2**60) - 1])
    f = gen.via_history(None, df.Field(mesh, nvdim=nvdim, value=arr.copy(), valid=valid.copy(), **kwf))
    A = np.array(f.array, copy=True)   # as stored (int -> float conversion is C02's subject)
    info = {"ndim": spec.nd, "n": spec.n, "nvdim": nvdim, "dtype": dtype,
            "dims": spec.dim_names, "n_subregions": len(boxes), "bc": bc}
    base_sig = (spec.nd, tuple(int(min(k, 3)) for k in spec.n), nvdim, dtype, len(boxes),
                spec.signature()[3], "default" if spec.dims is None else "named")
    return spec, mesh, boxes, f, A, valid, info, base_sig


def _coord_in_cell(rng, spec, ax, i, where=None):
    """A coordinate along ``ax`` with known cell: (x, [candidate cells], label)."""
    n = int(spec.n[ax])
    where = where or gen.pick(rng, ["inside", "inside", "inside", "centre", "near_face", "vertex"])
    fm = max(1e-6, 8 * H.index_res(spec)[ax])
    if where == "vertex":
        v = int(rng.integers(0, n + 1))
        x = spec.pmin[ax] + v * spec.cell[ax]
        if v == n:
            x = min(x, spec.pmax[ax])   # never beyond the face the region reports
        return float(x), sorted({max(v - 1, 0), min(v, n - 1)}), where
    if where == "centre":
        fr = 0.5
    elif where == "near_face":
        fr = fm if rng.random() < 0.5 else 1 - fm
    else:
        fr = float(np.clip(rng.uniform(0, 1), fm, 1 - fm))
    return float(spec.pmin[ax] + (i + fr) * spec.cell[ax]), [i], where


def _adjacent(boxes, ax, lo, hi):
    """Names of subregions whose face along ``ax`` coincides with a face of layers lo..hi."""
    out = []
    for name, (blo, bhi) in boxes.items():
        if int(bhi[ax]) == lo or int(blo[ax]) == hi + 1:
            out.append(name)
    return out


def _expected_mesh_ok(spec, got_mesh, lo, hi, removed=None):
    """Result mesh == cells lo..hi (exclusive hi) of the source lattice, axis removed."""
    keep = [k for k in range(spec.nd) if k != removed]
    names = spec.dim_names
    lo = np.asarray(lo)[keep]
    hi = np.asarray(hi)[keep]
    tol = H.coord_tol(spec)[keep]
    if not isinstance(got_mesh, df.Mesh):
        return False, {"got_type": type(got_mesh).__name__}
    r = got_mesh.region
    exp_pmin = spec.pmin[keep] + lo * spec.cell[keep]
    exp_pmax = spec.pmin[keep] + hi * spec.cell[keep]
    detail = {"dims_got": list(r.dims), "dims_expected": [names[k] for k in keep],
              "n_got": got_mesh.n, "n_expected": hi - lo, "pmin_got": r.pmin,
              "pmin_expected": exp_pmin, "pmax_got": r.pmax, "pmax_expected": exp_pmax}
    ok = (list(r.dims) == [names[k] for k in keep]
          and np.array_equal(got_mesh.n, hi - lo)
          and np.shape(r.pmin) == (len(keep),)
          and bool(np.all(np.abs(r.pmin - exp_pmin) <= tol))
          and bool(np.all(np.abs(r.pmax - exp_pmax) <= tol))
          and bool(np.all(np.abs(got_mesh.cell - spec.cell[keep]) <= tol)))
    if ok:
        # cell-aligned with the source: index-space offset within 1e-6 of an integer
        off = (np.asarray(r.pmin, dtype=float) - spec.pmin[keep]) / spec.cell[keep]
        ok = bool(np.all(np.abs(off - np.round(off)) <= np.maximum(1e-6, 4 * H.index_res(spec)[keep])))
        detail["index_offset"] = off
    return ok, detail


def _block(A, lo, hi, removed=None, layer=None):
    sl = [slice(int(a), int(b)) for a, b in zip(lo, hi)]
    if removed is not None:
        sl[removed] = int(layer)
    return A[tuple(sl)]


def _pointwise(ctx, monitor, f, res, spec, lo, removed, layer, info, k=4):
    """result(c) == source(c) and same validity at centres of the result (library maps)."""
    rng = ctx.rng
    rn = [int(x) for x in res.mesh.n]
    for _ in range(k):
        ridx = tuple(int(rng.integers(0, m)) for m in rn)
        c = np.asarray(res.mesh.index2point(ridx), dtype=float)
        full = list(c)
        sidx = list(np.asarray(ridx) + np.asarray([l for a, l in enumerate(lo) if a != removed]))
        if removed is not None:
            full.insert(removed, spec.centre([0] * removed + [layer] + [0] * (spec.nd - removed - 1))[removed])
            sidx.insert(removed, layer)
        sidx = tuple(int(x) for x in sidx)
        try:
            src_val = f(full)
            res_val = res(c if len(c) > 1 else float(c[0]))
        except Exception as e:  # noqa: BLE001
            ctx.check(monitor, False, note="sampling raised", exc=e, point=full, **info)
            return
        ctx.check(monitor,
                  np.array_equal(src_val, res_val) and np.array_equal(res_val, f.array[sidx])
                  and bool(res.valid[ridx]) == bool(f.valid[sidx]),
                  point=full, result_index=ridx, source_index=sidx, result_value=res_val,
                  source_value=src_val, **info)


def _check_result(ctx, pre, f, A, valid, res, spec, lo, hi, info, removed=None, layer=None):
    """``res`` must be the block lo..hi of the source (axis ``removed`` at ``layer``)."""
    if not isinstance(res, df.Field):
        ctx.check(pre + ".block", False, note="result is not a Field",
                  got_type=type(res).__name__, **info)
        return
    exp_a = _block(A, lo, hi, removed, layer)
    exp_v = _block(valid, lo, hi, removed, layer)
    # the same numbers in the same representation (an int64 beyond 2**53 is not a float64;
    # numpy would compare the two as equal after converting both to float)
    ok_a = (res.array.shape == exp_a.shape and res.array.dtype == exp_a.dtype
            and np.array_equal(res.array, exp_a))
    ctx.check(pre + ".block", ok_a and res.nvdim == f.nvdim,
              dtype_got=str(res.array.dtype), dtype_expected=str(exp_a.dtype),
              shape_got=res.array.shape, shape_expected=exp_a.shape,
              expected_layers=[lo, hi], **info)
    ctx.check(pre + ".validity", res.valid.shape == exp_v.shape and np.array_equal(res.valid, exp_v),
              shape_got=res.valid.shape, shape_expected=exp_v.shape, **info)
    okm, detail = _expected_mesh_ok(spec, res.mesh, lo, hi, removed)
    ctx.check(pre + ".mesh", okm, **detail, **info)
    if ok_a and okm:
        _pointwise(ctx, pre + ".pointwise", f, res, spec, lo, removed, layer, info)


def _sel(obj, dim, arg, style):
    if arg is None:
        return obj.sel(dim)
    return obj.sel(**{dim: arg})


# ------------------------------------------------------------------------------ kind 0
def plane(ctx):
    rng = ctx.rng
    spec, mesh, boxes, f, A, valid, info, bsig = _setup(ctx, "plane")
    nd, names = spec.nd, spec.dim_names
    ax = int(rng.integers(0, nd))
    nax = int(spec.n[ax])
    given = rng.random() < 0.7
    if given:
        i = int(rng.integers(0, nax))
        x, cands, where = _coord_in_cell(rng, spec, ax, i)
        if spec.int_corners and rng.random() < 0.6:
            # integer-typed corners, a coordinate an eighth of a cell off a lattice point
            # (exact in single precision), handed over as numpy.float32 / float16 / float64
            xq = float(spec.pmin[ax] + (i + int(rng.integers(1, 8)) / 8) * spec.cell[ax])
            conv = gen.pick(rng, [np.float32, np.float32, np.float16, np.float64])
            if float(conv(xq)) == xq:
                x, cands, where = conv(xq), [i], "eighth_" + conv.__name__
                ctx.event("plane.single_precision_coordinate_on_int_cornered_mesh")
        if rng.random() < 0.1:   # the face exactly as the region reports it
            hi_face = rng.random() < 0.5
            x = float(mesh.region.pmax[ax] if hi_face else mesh.region.pmin[ax])
            cands, where = [nax - 1 if hi_face else 0], "region_face"
        if (spec.int_corners and not where.startswith("eighth") and float(x).is_integer()
                and rng.random() < 0.5):
            x = int(x)
    else:
        x, where = None, "central"
        cands = [(nax - 1) // 2] if nax % 2 else [nax // 2 - 1, nax // 2]
    op = {"op": "sel(plane)", "axis": ax, "dim": names[ax], "coordinate": x, "where": where,
          "candidate_layers": cands}
    ctx.sig(("plane", where) + bsig, nontrivial=nax >= 2)
    ctx.sample({"kind": "plane", **op, **spec.describe()})
    lo, hi = np.zeros(nd, dtype=int), spec.n.copy()

    okc, res = ctx.expect_ok("C07.sel.plane.accepted" if nd > 1 else "C07.sel.plane.1d.accepted",
                             lambda: _sel(f, names[ax], x, "kw"), what=dict(info, **op))
    if okc:
        if nd == 1:
            ctx.check("C07.sel.plane.1d_values",
                      not isinstance(res, df.Field)
                      and any(np.array_equal(res, A[c]) for c in cands), got=res, **op, **info)
        elif not isinstance(res, df.Field):
            ctx.check("C07.sel.plane.block", False, note="result is not a Field", **op, **info)
        else:
            # which of the candidate layers was taken (faces: either neighbour)
            layer = next((c for c in cands
                          if res.array.shape == _block(A, lo, hi, ax, c).shape
                          and np.array_equal(res.array, _block(A, lo, hi, ax, c))
                          and np.array_equal(res.valid, _block(valid, lo, hi, ax, c))), cands[0])
            _check_result(ctx, "C07.sel.plane", f, A, valid, res, spec, lo, hi,
                          dict(info, **op), removed=ax, layer=layer)
    # the mesh on its own
    if nd > 1:
        okc, ms = ctx.expect_ok("C07.sel.plane.accepted", lambda: _sel(mesh, names[ax], x, "kw"),
                                what=dict(info, **op, on="Mesh"))
        if okc:
            okm, detail = _expected_mesh_ok(spec, ms, lo, hi, ax)
            ctx.check("C07.sel.plane.mesh", okm, on="Mesh", **detail, **op, **info)
    else:
        ctx.event("plane_on_1d")


# ------------------------------------------------------------------------------ kind 1
def range_(ctx):
    rng = ctx.rng
    spec, mesh, boxes, f, A, valid, info, bsig = _setup(ctx, "range")
    nd, names = spec.nd, spec.dim_names
    ax = int(rng.integers(0, nd))
    nax = int(spec.n[ax])
    l0 = int(rng.integers(0, nax))
    h0 = int(rng.integers(l0, nax))
    style = gen.pick(rng, ["inside", "inside", "centres", "vertex"])
    if spec.int_corners and rng.random() < 0.6:
        style = "vertex"  # whole-number lower bounds on integer-cornered meshes
    if style == "centres":
        (a, ca, _), (b, cb, _) = (_coord_in_cell(rng, spec, ax, l0, "centre"),
                                  _coord_in_cell(rng, spec, ax, h0, "centre"))
    elif style == "vertex":
        a, ca, _ = _coord_in_cell(rng, spec, ax, l0, "vertex")
        b, cb, _ = _coord_in_cell(rng, spec, ax, h0, "inside")
        if a > b:
            a, ca, _ = _coord_in_cell(rng, spec, ax, l0, "inside")
    else:
        a, ca, _ = _coord_in_cell(rng, spec, ax, l0, "inside")
        b, cb, _ = _coord_in_cell(rng, spec, ax, h0, "inside")
        if l0 == h0 and a > b:
            a, b = b, a
    form = gen.pick(rng, ["tuple", "tuple", "list", "array", "reversed"])
    # the two bounds are numbers of whatever kind the caller has at hand: a whole number is
    # written as a Python int, the other bound stays a float (sel(x=(1, 2.7)))
    a, b = float(a), float(b)
    if a.is_integer() and abs(a) < 2**53 and rng.random() < (0.9 if spec.int_corners else 0.6):
        a = int(a)
    if b.is_integer() and abs(b) < 2**53 and rng.random() < 0.6:
        b = int(b)
    arg = {"tuple": (a, b), "list": [a, b], "array": np.array([a, b]), "reversed": (b, a)}[form]
    adj = sorted({nm for la, lb in itertools.product(ca, cb) for nm in _adjacent(boxes, ax, la, lb)})
    op = {"op": "sel(range)", "axis": ax, "dim": names[ax], "range": [a, b], "form": form,
          "style": style, "lower_layer_candidates": ca, "upper_layer_candidates": cb,
          "subregions_ending_on_selection_face": adj,
          "subregion_layers": {k: [int(v[0][ax]), int(v[1][ax])] for k, v in boxes.items()}}
    ctx.sig(("range", style, bool(adj)) + bsig, nontrivial=nax >= 2)
    ctx.sample({"kind": "range", **op, **spec.describe()})

    def judge(res, on):
        got_mesh = res.mesh if isinstance(res, df.Field) else res
        # which candidate (faces: either neighbour) matches
        for la, lb in itertools.product(ca, cb):
            lo, hi = np.zeros(nd, dtype=int), spec.n.copy()
            lo[ax], hi[ax] = la, lb + 1
            okm, detail = _expected_mesh_ok(spec, got_mesh, lo, hi)
            if okm:
                break
        if on == "Mesh":
            ctx.check("C07.sel.range.mesh", okm, on="Mesh", **detail, **op, **info)
        else:
            _check_result(ctx, "C07.sel.range", f, A, valid, res, spec, lo, hi, dict(info, **op))

    # monitor class by input: selections whose face coincides with a subregion face
    cls = "C07.sel.range.on_subregion_face" if adj else "C07.sel.range"
    okc, res = ctx.expect_ok(cls + ".accepted", lambda: f.sel(**{names[ax]: arg}),
                             what=dict(info, **op, on="Field"))
    if okc:
        judge(res, "Field")
    okc, ms = ctx.expect_ok(cls + ".accepted", lambda: mesh.sel(**{names[ax]: arg}),
                            what=dict(info, **op, on="Mesh"))
    if okc:
        judge(ms, "Mesh")


# ------------------------------------------------------------------------------ kind 2
def getitem(ctx):
    rng = ctx.rng
    spec, mesh, boxes, f, A, valid, info, bsig = _setup(ctx, "getitem")
    nd = spec.nd
    ctx.sig(("getitem",) + bsig, nontrivial=bool(np.any(spec.n >= 2)))

    # ---- by subregion name: exactly that box
    for name, (lo, hi) in boxes.items():
        op = {"op": "getitem(name)", "name": name, "box": [lo, hi]}
        okc, res = ctx.expect_ok("C07.getitem.name.accepted", lambda: f[name],
                                 what=dict(info, **op))
        if okc:
            _check_result(ctx, "C07.getitem.name", f, A, valid, res, spec, lo, hi,
                          dict(info, **op))
        okc, ms = ctx.expect_ok("C07.getitem.name.accepted", lambda: mesh[name],
                                what=dict(info, **op, on="Mesh"))
        if okc:
            okm, detail = _expected_mesh_ok(spec, ms, lo, hi)
            ctx.check("C07.getitem.name.mesh", okm, on="Mesh", **detail, **op, **info)
    if not boxes:
        ctx.event("getitem_no_subregions")

    # ---- by region: smallest block of whole cells containing it
    for cls in ("inside", "vertex", gen.pick(rng, ["inside", "vertex", "mixed"])):
        lo, hi = gen.rand_box(rng, spec.n)
        if cls == "inside":
            on_vertex = np.zeros(nd, dtype=bool)
        elif cls == "vertex":
            on_vertex = np.ones(nd, dtype=bool)
        else:
            on_vertex = rng.random(nd) < 0.5
        flo = np.where(on_vertex, 0.0, rng.uniform(0.05, 0.95, nd))
        fhi = np.where(on_vertex, 0.0, rng.uniform(0.05, 0.95, nd))
        p1 = spec.pmin + (lo + flo) * spec.cell
        p2 = spec.pmin + np.where(on_vertex, hi, hi - 1 + fhi) * spec.cell
        same = (~on_vertex) & (hi - 1 == lo) & (fhi <= flo)
        p2 = np.where(same, spec.pmin + (lo + np.minimum(flo + 0.04, 0.99)) * spec.cell, p2)
        p1 = np.maximum(p1, np.asarray(mesh.region.pmin, dtype=float))
        p2 = np.minimum(p2, np.asarray(mesh.region.pmax, dtype=float))
        mcls = "C07.getitem.region.vertex" if on_vertex.any() else "C07.getitem.region.inside"
        region = df.Region(p1=p1.tolist(), p2=p2.tolist(),
                           dims=spec.dims if rng.random() < 0.5 else None)
        op = {"op": "getitem(Region)", "corners_on_vertices": on_vertex, "box": [lo, hi],
              "p1": p1, "p2": p2, "class": "vertex" if on_vertex.any() else "inside"}
        ctx.sample({"kind": "getitem", **op, **spec.describe()})
        okc, res = ctx.expect_ok(mcls + ".accepted", lambda: f[region],
                                 what=dict(info, **op, on="Field"))
        if okc:
            _check_result(ctx, mcls, f, A, valid, res, spec, lo, hi, dict(info, **op))
        okc, ms = ctx.expect_ok(mcls + ".accepted", lambda: mesh[region],
                                what=dict(info, **op, on="Mesh"))
        if okc:
            okm, detail = _expected_mesh_ok(spec, ms, lo, hi)
            ctx.check(mcls + ".mesh", okm, on="Mesh", **detail, **op, **info)

    # ---- the index slices of a (lattice) region
    todo = [(spec.box_region(lo, hi), lo, hi) for lo, hi in [gen.rand_box(rng, spec.n)]]
    todo += [(mesh.subregions[k], lo, hi) for k, (lo, hi) in boxes.items()]
    todo.append((mesh.region, np.zeros(nd, dtype=int), spec.n))
    for region, lo, hi in todo:
        op = {"op": "region2slices", "box": [lo, hi]}
        okc, sl = ctx.expect_ok("C07.region2slices.accepted", mesh.region2slices, region,
                                what=dict(info, **op))
        if okc:
            ok = (isinstance(sl, tuple) and len(sl) == nd
                  and all(isinstance(s, slice) for s in sl)
                  and [s.indices(int(k))[:2] for s, k in zip(sl, spec.n)]
                  == [(int(a), int(b)) for a, b in zip(lo, hi)]
                  and all(s.step in (None, 1) for s in sl))
            ctx.check("C07.region2slices", ok, got=repr(sl), **op, **info)
            if ok:
                ctx.check("C07.region2slices.values",
                          np.array_equal(f.array[sl], _block(A, lo, hi))
                          and np.array_equal(f.valid[sl], _block(valid, lo, hi)), **op, **info)


# ------------------------------------------------------------------------------ kind 3
PAD_MODES = ["constant", "constant", "edge", "wrap", "reflect", "symmetric", "constant_values"]


def pad(ctx):
    rng = ctx.rng
    spec, mesh, boxes, f, A, valid, info, bsig = _setup(ctx, "pad", subregions=rng.random() < 0.3)
    nd, names = spec.nd, spec.dim_names
    k = int(rng.integers(1, nd + 1))
    axes = [int(x) for x in rng.permutation(nd)[:k]]
    widths = {}
    for a in axes:
        w = (int(rng.integers(0, 4)), int(rng.integers(0, 4)))
        widths[a] = w if rng.random() < 0.7 else gen.pick(rng, [(w[0], 0), (0, w[1]), (0, 0)])
    mode = gen.pick(rng, PAD_MODES)
    kwargs = {}
    npmode = mode
    if mode == "constant_values":
        npmode = "constant"
        kwargs["constant_values"] = float(np.round(rng.normal() * 5, 2)) or 1.5
    arg = {names[a]: (widths[a] if rng.random() < 0.7 else list(widths[a])) for a in axes}
    op = {"op": "pad", "mode": mode, "pad_width": {names[a]: widths[a] for a in axes},
          "kwargs": kwargs}
    asym = any(w[0] != w[1] for w in widths.values())
    ctx.sig(("pad", mode, asym, k) + bsig, nontrivial=bool(np.any(spec.n >= 2)) and
            any(sum(w) > 0 for w in widths.values()))
    ctx.sample({"kind": "pad", **op, **spec.describe()})
    okc, res = ctx.expect_ok("C07.pad.accepted", lambda: f.pad(arg, mode=npmode, **kwargs),
                             what=dict(info, **op))
    before = np.zeros(nd, dtype=int)
    after = np.zeros(nd, dtype=int)
    for a, w in widths.items():
        before[a], after[a] = w
    lo, hi = -before, spec.n + after
    if okc and isinstance(res, df.Field):
        seq = [(int(b), int(a_)) for b, a_ in zip(before, after)]
        exp_a = np.pad(A, seq + [(0, 0)], mode=npmode, **kwargs)
        inner = tuple(slice(int(b), int(b) + int(m)) for b, m in zip(before, spec.n))
        ok_shape = res.array.shape == exp_a.shape and res.valid.shape == exp_a.shape[:-1]
        ctx.check("C07.pad.shape", ok_shape, got=res.array.shape, expected=exp_a.shape,
                  **op, **info)
        if ok_shape:
            # inside the source: values and validity in place
            ctx.check("C07.pad.inside",
                      np.array_equal(res.array[inner], A) and np.array_equal(res.valid[inner], valid),
                      values_equal=bool(np.array_equal(res.array[inner], A)),
                      validity_equal=bool(np.array_equal(res.valid[inner], valid)), **op, **info)
            outside = np.ones(exp_a.shape[:-1], dtype=bool)
            outside[inner] = False
            ctx.check("C07.pad.outside_values",
                      np.array_equal(res.array[outside], exp_a[outside]),
                      n_outside=int(outside.sum()), **op, **info)
            if not kwargs:
                exp_v = np.pad(valid, seq, mode=npmode)
                ctx.check("C07.pad.valid_outside",
                          np.array_equal(res.valid[outside], exp_v[outside]), **op, **info)
        okm, detail = _expected_mesh_ok(spec, res.mesh, lo, hi)
        ctx.check("C07.pad.mesh", okm, **detail, **op, **info)
    elif okc:
        ctx.check("C07.pad.shape", False, note="result is not a Field", **op, **info)
    okc, pm = ctx.expect_ok("C07.pad.accepted", lambda: mesh.pad(arg),
                            what=dict(info, **op, on="Mesh"))
    if okc:
        okm, detail = _expected_mesh_ok(spec, pm, lo, hi)
        ctx.check("C07.pad.mesh", okm, on="Mesh", **detail, **op, **info)


# ------------------------------------------------------------------------------ kind 4
def _check_resampled(ctx, res, A, valid, n_old, n_new, op, info):
    """Every new cell holds value and validity of a source cell containing its centre."""
    nd = len(n_old)
    cands_axis = []
    for k in range(nd):
        per = []
        for j in range(int(n_new[k])):
            num, den = (2 * j + 1) * int(n_old[k]), 2 * int(n_new[k])
            q = num // den
            per.append([q - 1, q] if num % den == 0 else [q])
        cands_axis.append(per)
    bad = None
    for idx in itertools.product(*[range(int(k)) for k in n_new]):
        cands = [cands_axis[k][idx[k]] for k in range(nd)]
        if not H.any_candidate_equal(res.array[idx], A, cands, valid, res.valid[idx]):
            bad = {"index": idx, "got": res.array[idx], "got_valid": bool(res.valid[idx]),
                   "source_cell_candidates": cands,
                   "source_values": [A[c] for c in itertools.product(*cands)][:4],
                   "source_valid": [bool(valid[c]) for c in itertools.product(*cands)][:4]}
            break
    ctx.check("C07.resample.value_and_validity", bad is None, **(bad or {}), **op, **info)


def resample_large(ctx):
    """A source of more than 2**16 cells (odd counts) resampled to a few cells per axis: a
    size at which a fast path for large sources, if there is one, is the code that runs."""
    rng = ctx.rng
    n_old = np.array([int(rng.integers(45, 52)) | 1, int(rng.integers(41, 46)) | 1,
                      int(rng.integers(37, 42)) | 1])[rng.permutation(3)]
    cell = 10.0 ** rng.uniform(-9, 2) * rng.uniform(0.3, 3, 3)
    pmin = rng.uniform(-2, 2, 3) * cell * n_old
    dims = gen.pick(rng, [None, ["a", "b", "c"]])
    mesh = df.Mesh(region=df.Region(p1=pmin.tolist(), p2=(pmin + cell * n_old).tolist(), dims=dims),
                   n=[int(k) for k in n_old])
    nv = int(rng.integers(1, 4))
    A = rng.normal(size=(*n_old, nv))
    valid = rng.random(tuple(n_old)) < 0.85
    f = df.Field(mesh, nvdim=nv, value=A, valid=valid)
    n_new = rng.integers(2, 15, 3)
    if rng.random() < 0.5:
        n_new[int(rng.integers(0, 3))] = int(n_old[0]) + int(rng.integers(1, 9))  # one axis refined
    op = {"op": "resample", "n_new": n_new, "style": "large source"}
    info = {"ndim": 3, "n": n_old, "nvdim": nv, "cells": int(np.prod(n_old))}
    ctx.sig(("resample", "large", nv), nontrivial=True)
    ctx.event("large_meshes")
    okc, res = ctx.expect_ok("C07.resample.accepted", lambda: f.resample(tuple(int(k) for k in n_new)),
                             what=dict(info, **op))
    if not okc:
        return
    ok_f = (res.array.shape == (*[int(k) for k in n_new], nv)
            and res.valid.shape == tuple(int(k) for k in n_new))
    ctx.check("C07.resample.shape", ok_f, got=res.array.shape, **op, **info)
    if ok_f:
        _check_resampled(ctx, res, A, valid, n_old, n_new, op, info)
    ctx.check("C07.resample.source_untouched",
              np.array_equal(f.array, A) and np.array_equal(f.valid, valid), **op, **info)


def resample(ctx):
    rng = ctx.rng
    spec, mesh, boxes, f, A, valid, info, bsig = _setup(ctx, "resample",
                                                      subregions=rng.random() < 0.3)
    nd = spec.nd
    n_old = spec.n
    style = gen.pick(rng, ["random", "random", "double", "half", "same", "odd"])
    if style == "double":
        n_new = n_old * 2
    elif style == "half":
        n_new = np.maximum(1, n_old // 2)
    elif style == "same":
        n_new = n_old.copy()
    elif style == "odd":
        n_new = 2 * rng.integers(0, 4, nd) + 1
    else:
        n_new = rng.integers(1, 9, nd)
    arg = gen.pick(rng, [tuple, list, np.array])([int(k) for k in n_new])
    op = {"op": "resample", "n_new": n_new, "style": style}
    ctx.sig(("resample", style) + bsig, nontrivial=bool(np.any(n_old >= 2)))
    ctx.sample({"kind": "resample", **op, **spec.describe()})
    okc, res = ctx.expect_ok("C07.resample.accepted", lambda: f.resample(arg),
                             what=dict(info, **op))
    if not okc:
        return
    ok_f = (isinstance(res, df.Field) and res.nvdim == f.nvdim
            and res.array.shape == (*[int(k) for k in n_new], f.nvdim)
            and res.valid.shape == tuple(int(k) for k in n_new))
    ctx.check("C07.resample.shape", ok_f, got=getattr(getattr(res, "array", None), "shape", None),
              **op, **info)
    if not ok_f:
        return
    # the region is kept
    r = res.mesh.region
    tol = H.coord_tol(spec)
    ctx.check("C07.resample.region_kept",
              list(r.dims) == spec.dim_names and np.array_equal(res.mesh.n, n_new)
              and bool(np.all(np.abs(r.pmin - spec.pmin) <= tol))
              and bool(np.all(np.abs(r.pmax - spec.pmax) <= tol)),
              pmin_got=r.pmin, pmax_got=r.pmax, pmin_expected=spec.pmin,
              pmax_expected=spec.pmax, n_got=res.mesh.n, **op, **info)
    _check_resampled(ctx, res, A, valid, n_old, n_new, op, info)
    ctx.check("C07.resample.source_untouched",
              np.array_equal(f.array, A) and np.array_equal(f.valid, valid), **op, **info)


# ------------------------------------------------------------------------------ kind 5
def outside(ctx):
    rng = ctx.rng
    spec, mesh, boxes, f, A, valid, info, bsig = _setup(ctx, "outside")
    nd, names = spec.nd, spec.dim_names
    ctx.sig(("outside",) + bsig, nontrivial=bool(np.any(spec.n >= 2)))
    band = 1e-11 * (np.min(spec.edges) + np.maximum(np.abs(spec.pmin), np.abs(spec.pmax)))
    for _ in range(3):
        ax = int(rng.integers(0, nd))
        dist = max(10 * band[ax], 10.0 ** rng.uniform(-6, 1) * spec.cell[ax])
        below = rng.random() < 0.5
        x = float(spec.pmin[ax] - dist if below else spec.pmax[ax] + dist)
        inside = float(H.interior_point(rng, spec)[1][ax])
        op = {"op": "sel", "axis": ax, "dim": names[ax], "coordinate": x}
        for obj, on in ((f, "Field"), (mesh, "Mesh")):
            ctx.expect_raises("C07.outside.sel_rejected", lambda: obj.sel(**{names[ax]: x}),
                              unchanged=[obj], what=dict(info, **op, on=on, kind="plane"))
            rg = (x, inside) if below else (inside, x)
            ctx.expect_raises("C07.outside.sel_rejected", lambda: obj.sel(**{names[ax]: rg}),
                              unchanged=[obj], what=dict(info, **op, on=on, kind="range", range=rg))
    # a region sticking out of the mesh / lying next to it
    for _ in range(2):
        lo, hi = gen.rand_box(rng, spec.n)
        ax = int(rng.integers(0, nd))
        p1, p2 = spec.vertex(lo), spec.vertex(hi)
        dist = max(10 * band[ax], rng.uniform(0.01, 2) * spec.cell[ax])
        if rng.random() < 0.5:
            p2[ax] = spec.pmax[ax] + dist
        else:
            p1[ax] = spec.pmin[ax] - dist
        region = df.Region(p1=p1.tolist(), p2=p2.tolist(), dims=spec.dims)
        op = {"op": "getitem(Region)", "p1": p1, "p2": p2, "axis": ax}
        for obj, on in ((f, "Field"), (mesh, "Mesh")):
            ctx.expect_raises("C07.outside.region_rejected", lambda: obj[region],
                              unchanged=[obj], what=dict(info, **op, on=on))
    # the index slices of a region that sticks out by most of a cell or more (below that
    # region2slices, which works with the centres of the outermost cells, cannot tell and is
    # not judged)
    for _ in range(2):
        lo, hi = gen.rand_box(rng, spec.n)
        ax = int(rng.integers(0, nd))
        p1, p2 = spec.vertex(lo), spec.vertex(hi)
        dist = rng.uniform(0.75, 3) * spec.cell[ax]
        up = rng.random() < 0.5
        if up:
            p2[ax] = spec.pmax[ax] + dist
        else:
            p1[ax] = spec.pmin[ax] - dist
        region = df.Region(p1=p1.tolist(), p2=p2.tolist(), dims=spec.dims)
        ctx.expect_raises("C07.outside.region_rejected", lambda: mesh.region2slices(region),
                          what=dict(info, op="region2slices", p1=p1, p2=p2, axis=ax, up=up))
    # unknown names
    ctx.expect_raises("C07.outside.unknown_name_rejected", lambda: f["no_such_subregion"],
                      unchanged=[f], what=dict(info, op="getitem(name)"))
    ctx.expect_raises("C07.outside.unknown_name_rejected", lambda: mesh["no_such_subregion"],
                      what=dict(info, op="getitem(name)", on="Mesh"))
    ctx.expect_raises("C07.outside.unknown_name_rejected", lambda: f.sel("no_such_dim"),
                      unchanged=[f], what=dict(info, op="sel(unknown dim)"))
    ctx.expect_raises("C07.outside.unknown_name_rejected",
                      lambda: f.pad({"no_such_dim": (1, 1)}, mode="constant"),
                      unchanged=[f], what=dict(info, op="pad(unknown dim)"))
    # wrong-length target resolution
    ctx.expect_raises("C07.outside.resample_malformed_rejected",
                      lambda: f.resample([2] * (nd + 1)), unchanged=[f],
                      what=dict(info, op="resample(n of wrong length)"))
    ctx.expect_raises("C07.outside.resample_malformed_rejected",
                      lambda: f.resample([0] * nd), unchanged=[f],
                      what=dict(info, op="resample(n = 0)"))


def run_case(ctx, i):
    if i % 1800 == 907:
        return resample_large(ctx)
    kind = i % 6
    if kind == 0:
        plane(ctx)
    elif kind == 1:
        range_(ctx)
    elif kind == 2:
        getitem(ctx)
    elif kind == 3:
        pad(ctx)
    elif kind == 4:
        resample(ctx)
    else:
        outside(ctx)
