"""C03 - field algebra is cell-wise numpy algebra on one mesh; operands stay untouched."""

META = {
    "property": "C03",
    "level": "exploration",
    "rule": (
        "case i of seed s from default_rng([s, i]); i%4: 0,1 random well-typed expression tree "
        "(depth <= 3) over fields on one random 1-4-d mesh (1-4 components, float/int/complex, "
        "random validity, default or custom labels/mapping), numbers, constant vectors, per-cell "
        "arrays, evaluated on the real Fields and node by node with plain numpy on the operand "
        "arrays; 2 commutation/stacking/label checks; 3 rejection of different meshes and "
        "incompatible component counts for every binary operator, method and ufunc. Signature "
        "= (kind, ndim, sorted set of operations in the tree, dtypes of the leaves); "
        "non-trivial = tree with >= 2 operations (kinds 2,3: always)."
    ),
    "cases": {"quick": 1600, "thorough": 80000},
    "workers": {"quick": 8, "thorough": 16},
    "timeout": {"quick": 600, "thorough": 5400},
    "deciding": [
        "C03.node.values",
        "C03.node.mesh",
        "C03.raise_parity",
        "C03.operands_untouched",
        "C03.commute.values",
        "C03.commute.labels",
        "C03.stack.reproduces",
        "C03.reject.different_mesh",
        "C03.reject.component_count",
        "amb.operand_untouched",
    ],
    "owns": ["amb.operand_untouched"],
    "ambient": {"quick": [], "thorough": ["discretisedfield/tests/test_field.py"]},
    "ambient_k": "add or sub or mul or div or pow or dot or cross or lshift or operator or "
                 "neg or pos or abs or angle or ufunc or numpy or complex or real or imag",
    "anchor_files": ["discretisedfield/field.py"],
    "assumptions": [
        "numpy's own ufuncs/einsum/cross are the reference arithmetic (rule R1/R6): the oracle "
        "re-applies them to the operand arrays",
        "dot/cross compared at 16 eps x sum|a_i b_i|; angle compared in the cosine and only "
        "where |cos| < 1 - 1e-9 (arccos is ill-conditioned at the ends, rule R3)",
        "label commutation only where well defined (rule R5): not for two vector fields "
        "with different labels",
    ],
}

import numpy as np  # noqa: E402

import discretisedfield as df  # noqa: E402
from dfmon import core  # noqa: E402
from workloads import gen  # noqa: E402

EPS = np.finfo(float).eps

BIN = {
    "add": (lambda a, b: a + b, np.add),
    "sub": (lambda a, b: a - b, np.subtract),
    "mul": (lambda a, b: a * b, np.multiply),
    "truediv": (lambda a, b: a / b, np.divide),
    "pow": (lambda a, b: a**b, np.power),
}
UFUNC2 = {
    "np.add": np.add, "np.subtract": np.subtract, "np.multiply": np.multiply,
    "np.divide": np.divide, "np.maximum": np.maximum, "np.hypot": np.hypot,
}
UFUNC1 = {"np.sin": np.sin, "np.exp": np.exp, "np.negative": np.negative, "np.square": np.square,
          "np.abs": np.abs}
UNARY = {
    "neg": (lambda f: -f, np.negative),
    "pos": (lambda f: +f, lambda a: a),
    "abs": (lambda f: abs(f), np.abs),
    "real": (lambda f: f.real, np.real),
    "imag": (lambda f: f.imag, np.imag),
    "conjugate": (lambda f: f.conjugate, np.conjugate),
    "phase": (lambda f: f.phase, np.angle),
    "cabs": (lambda f: f.abs, np.abs),
}


# ----------------------------------------------------------------- leaves / meshes
def make_mesh(ctx):
    spec = gen.rand_meshspec(ctx.rng, n_max=4, max_cells=200, scale_decades=(-9, 3))
    return spec, spec.mesh()


def make_field(rng, mesh, nvdim, dtype=None, custom=None):
    n = tuple(int(k) for k in mesh.n)
    dtype = dtype or gen.pick(rng, ["float", "float", "int", "complex"])
    mag = 10.0 ** rng.uniform(-2, 2)
    arr = gen.rand_values(rng, (*n, nvdim), dtype, mag=mag)
    if dtype != "int" and rng.random() < 0.2:
        arr[tuple(rng.integers(0, k) for k in arr.shape)] = 0.0  # an exact zero
    kw = {}
    custom = rng.random() < 0.5 if custom is None else custom
    if nvdim > 1 and custom:
        labels = gen.pick(rng, [v for v in gen.VDIM_POOLS[nvdim] if v is not None])
        kw["vdims"] = list(labels)
        if nvdim == mesh.region.ndim:
            perm = rng.permutation(nvdim)
            kw["vdim_mapping"] = gen.shuffle_keys(
                rng, {labels[j]: mesh.region.dims[int(perm[j])] for j in range(nvdim)})
    if rng.random() < 0.3:
        kw["unit"] = gen.pick(rng, ["A/m", "T"])
    # the declared dtype: left to the library, or stated explicitly (int fields keep
    # an integer array only when declared)
    if dtype == "complex":
        kw["dtype"] = np.complex128
    elif dtype == "int" and rng.random() < 0.6:
        kw["dtype"] = gen.pick(rng, [int, np.int64, np.int32])
        dtype = "int_declared"
    elif dtype == "float" and rng.random() < 0.3:
        kw["dtype"] = gen.pick(rng, [float, np.float64, np.float32])
        dtype = "float_declared"
    valid = gen.rand_valid(rng, n)
    f = gen.via_history(None, df.Field(mesh, nvdim=nvdim, value=arr, valid=valid, **kw))
    return f, dtype


# ------------------------------------------------------------- expression trees
class Node:
    def __init__(self, op, kids=(), nv=None, payload=None):
        self.op, self.kids, self.nv, self.payload = op, list(kids), nv, payload

    def ops(self):
        out = set() if self.op in ("field", "num", "vec", "arr") else {self.op}
        for k in self.kids:
            out |= k.ops()
        return out

    def count(self):
        return (0 if self.op in ("field", "num", "vec", "arr") else 1) + sum(k.count() for k in self.kids)

    def show(self):
        if self.op == "field":
            return f"F{self.payload}[{self.nv}]"
        if self.op == "num":
            return repr(self.payload)
        if self.op == "vec":
            return f"{type(self.payload).__name__}{tuple(np.round(np.asarray(self.payload), 3).tolist())}"
        if self.op == "arr":
            return f"ndarray{self.payload.shape}"
        return f"{self.op}({', '.join(k.show() for k in self.kids)})"


def rand_number(rng):
    r = rng.random()
    if r < 0.3:
        return int(rng.integers(-3, 4))
    if r < 0.7:
        return float(np.round(rng.normal() * 3, 3))
    if r < 0.8:
        return np.float64(rng.normal())
    if r < 0.9:
        return np.int64(rng.integers(1, 4))
    return complex(np.round(rng.normal(), 2), np.round(rng.normal(), 2))


def rand_vector(rng, nv):
    v = np.round(rng.normal(size=nv) * 2, 3)
    r = rng.random()
    if r < 0.4:
        return tuple(v.tolist())
    if r < 0.7:
        return v.tolist()
    return v


class Builder:
    def __init__(self, ctx, mesh, fields):
        self.rng, self.mesh, self.fields = ctx.rng, mesh, fields
        self.n = tuple(int(k) for k in mesh.n)

    def leaf(self, nv):
        idx = [j for j, (f, _) in enumerate(self.fields) if f.nvdim == nv]
        j = int(self.rng.choice(idx))
        return Node("field", nv=nv, payload=j)

    def raw(self, nv):
        """A non-field operand compatible with a field of nv components."""
        r = self.rng.random()
        if r < 0.5:
            return Node("num", nv=0, payload=rand_number(self.rng))
        if r < 0.85 and nv > 1:
            return Node("vec", nv=nv, payload=rand_vector(self.rng, nv))
        if r < 0.85:
            return Node("num", nv=0, payload=rand_number(self.rng))
        return Node("arr", nv=nv, payload=np.round(self.rng.normal(size=(*self.n, nv)) * 2, 3))

    def expr(self, nv, depth):
        rng = self.rng
        if depth == 0 or rng.random() < 0.15:
            return self.leaf(nv)
        choices = ["bin", "bin", "bin", "unary", "ufunc1", "ufunc2"]
        if nv == 1:
            choices += ["dot", "dot", "angle"]
        if nv == 3:
            choices += ["cross", "cross"]
        if nv >= 2:
            choices += ["stack", "stack"]
        kind = gen.pick(rng, choices)
        if kind == "unary":
            return Node(gen.pick(rng, list(UNARY)), [self.expr(nv, depth - 1)], nv)
        if kind == "ufunc1":
            return Node(gen.pick(rng, list(UFUNC1)), [self.expr(nv, depth - 1)], nv)
        if kind in ("bin", "ufunc2"):
            op = gen.pick(rng, list(BIN) if kind == "bin" else list(UFUNC2))
            r = rng.random()
            if r < 0.45:  # field (same nv) with field (same nv or scalar)
                a = self.expr(nv, depth - 1)
                b = self.expr(nv if (nv == 1 or rng.random() < 0.6) else 1, depth - 1)
            elif r < 0.6 and nv > 1:  # scalar field on the left
                a, b = self.expr(1, depth - 1), self.expr(nv, depth - 1)
                return Node(op, [a, b], nv)
            else:
                a, b = self.expr(nv, depth - 1), self.raw(nv)
                if kind == "ufunc2" and b.op == "vec" and not isinstance(b.payload, np.ndarray):
                    b = Node("vec", nv=nv, payload=np.asarray(b.payload))
            if rng.random() < 0.35 and not (a.nv != nv):
                a, b = b, a  # reflected form
            return Node(op, [a, b], nv)
        if kind == "dot":
            m = int(rng.integers(1, 5))
            a = self.expr(m, depth - 1)
            b = self.expr(m, depth - 1) if rng.random() < 0.7 else Node(
                "vec", nv=m, payload=rand_vector(rng, m))
            return Node("dot", [a, b], 1)
        if kind == "angle":
            m = int(rng.integers(1, 5))
            a = self.expr(m, depth - 1)
            b = self.expr(m, depth - 1) if rng.random() < 0.6 else Node(
                "vec", nv=m, payload=rand_vector(rng, m))
            return Node("angle", [a, b], 1)
        if kind == "cross":
            a = self.expr(3, depth - 1)
            b = self.expr(3, depth - 1) if rng.random() < 0.7 else Node(
                "vec", nv=3, payload=rand_vector(rng, 3))
            return Node("cross", [a, b], 3)
        # stack
        k = int(rng.integers(1, nv))
        a = self.expr(k, depth - 1)
        if rng.random() < 0.75:
            b = self.expr(nv - k, depth - 1)
        elif nv - k == 1:
            b = Node("num", nv=0, payload=rand_number(rng))
        else:
            b = Node("vec", nv=nv - k, payload=rand_vector(rng, nv - k))
        return Node("stack", [a, b], nv)


def as_np(x):
    return x.array if isinstance(x, df.Field) else x


def np_apply(op, vals):
    """The same operation with plain numpy on the operand arrays."""
    a = [as_np(v) for v in vals]
    if op in BIN:
        return BIN[op][1](a[0], a[1])
    if op in UFUNC2:
        return UFUNC2[op](a[0], a[1])
    if op in UFUNC1:
        return UFUNC1[op](a[0])
    if op in UNARY:
        return np.asarray(UNARY[op][1](a[0]))
    if op == "dot":
        return np.sum(np.asarray(a[0]) * np.asarray(a[1]), axis=-1, keepdims=True)
    if op == "cross":
        x, y = np.asarray(a[0]), np.broadcast_to(np.asarray(a[1]), np.shape(a[0]))
        return np.stack([x[..., 1] * y[..., 2] - x[..., 2] * y[..., 1],
                         x[..., 2] * y[..., 0] - x[..., 0] * y[..., 2],
                         x[..., 0] * y[..., 1] - x[..., 1] * y[..., 0]], axis=-1)
    if op == "stack":
        x = np.asarray(a[0])
        y = np.asarray(a[1])
        y = np.broadcast_to(y.reshape((1,) * (x.ndim - 1) + (-1,)) if y.ndim <= 1 else y,
                            x.shape[:-1] + (y.shape[-1] if y.ndim >= 1 and y.size > 1 else 1,))
        return np.concatenate([x, y.astype(np.result_type(x, y))], axis=-1) \
            if np.iscomplexobj(y) or np.iscomplexobj(x) else np.concatenate([x, y], axis=-1)
    raise KeyError(op)


def lib_apply(op, vals):
    if op in BIN:
        return BIN[op][0](vals[0], vals[1])
    if op in UFUNC2:
        return UFUNC2[op](vals[0], vals[1])
    if op in UFUNC1:
        return UFUNC1[op](vals[0])
    if op in UNARY:
        return UNARY[op][0](vals[0])
    if op == "dot":
        return vals[0].dot(vals[1])
    if op == "cross":
        return vals[0].cross(vals[1])
    if op == "angle":
        return vals[0].angle(vals[1])
    if op == "stack":
        return vals[0] << vals[1]
    raise KeyError(op)


def evaluate(ctx, node, fields, tree):
    """Evaluate on the real Fields; check every node against numpy. Returns value or None."""
    if node.op == "field":
        return fields[node.payload][0]
    if node.op in ("num", "vec", "arr"):
        return node.payload
    vals = []
    for k in node.kids:
        v = evaluate(ctx, k, fields, tree)
        if v is None:
            return None
        vals.append(v)
    fvals = [v for v in vals if isinstance(v, df.Field)]
    info = {"op": node.op, "node": node.show()[:300], "tree": tree[:400],
            "operand_types": [type(v).__name__ for v in vals],
            "operand_nvdim": [getattr(v, "nvdim", None) for v in vals],
            "operand_dtypes": [str(np.asarray(as_np(v)).dtype) for v in vals]}
    # numpy side first: does numpy accept the operation at all?
    np_exc = exp = None
    if node.op != "angle":
        try:
            with np.errstate(all="ignore"):
                exp = np.asarray(np_apply(node.op, vals))
        except Exception as e:  # noqa: BLE001
            np_exc = e
    try:
        with np.errstate(all="ignore"):
            res = lib_apply(node.op, vals)
        lib_exc = None
    except Exception as e:  # noqa: BLE001
        res, lib_exc = None, e
    ctx.event("node." + node.op)
    if node.op != "angle":
        ctx.check("C03.raise_parity", (np_exc is None) == (lib_exc is None), **info,
                  numpy_exc=np_exc, field_exc=lib_exc,
                  note="numpy and the Field expression disagree on whether the operation is defined")
    if lib_exc is not None or np_exc is not None:
        return None
    if not ctx.check("C03.node.is_field", isinstance(res, df.Field), **info, got=type(res).__name__):
        return None
    ctx.check("C03.node.mesh", all(res.mesh == f.mesh for f in fvals), **info)
    got = res.array
    if node.op == "angle":
        check_angle(ctx, vals, got, info)
    elif node.op in ("dot", "cross"):
        a0 = np.abs(np.asarray(as_np(vals[0])))
        a1 = np.abs(np.broadcast_to(np.asarray(as_np(vals[1])), a0.shape))
        with np.errstate(all="ignore"):
            if node.op == "dot":
                bound = np.sum(a0 * a1, axis=-1, keepdims=True)
            else:
                bound = np.sum(a0, axis=-1, keepdims=True) * np.sum(a1, axis=-1, keepdims=True)
            # cells with a non-finite operand are not judged (inf - inf depends on the
            # order of evaluation); precision is that of the result (float32 fields)
            judged = np.isfinite(bound) & np.all(np.isfinite(a0) & np.isfinite(a1), axis=-1,
                                                 keepdims=True)
            eps = np.finfo(got.dtype).eps if got.dtype.kind in "fc" else EPS
            eps = max(eps, np.finfo(exp.dtype).eps if exp.dtype.kind in "fc" else EPS)
            ok = got.shape == exp.shape and bool(np.all(
                np.where(np.broadcast_to(judged, got.shape), np.abs(got - exp) <= 16 * eps * bound,
                         True)))
        ctx.check("C03.node.values", ok, **info, maxdiff=core.maxdiff(got, exp),
                  judged=int(np.sum(judged)))
    else:
        ok = got.shape == exp.shape and np.array_equal(got, exp, equal_nan=True)
        if not ok and got.shape == exp.shape and np.iscomplexobj(exp):
            # complex multiplication/division are not bit-reproducible between operand
            # orders inside numpy itself (probed): allow 4 ulp
            ok = core.close(got, exp, rtol=4 * EPS)
        if not ok and got.shape == exp.shape and _single_precision(vals, exp):
            # a single-precision operand: numpy computes the node in float32/complex64,
            # the library may compute (part of) it in double precision (-f is stored as
            # float64, so number - f32_field is evaluated in double) - both are "the same
            # expression" to the precision of the operands (rule R2): 8 float32 ulp of the
            # operands' magnitudes
            with np.errstate(all="ignore"):
                bound = np.maximum(np.abs(exp.astype(complex)), np.abs(got.astype(complex)))
                for v in vals:
                    try:
                        bound = np.maximum(bound, np.broadcast_to(
                            np.abs(np.asarray(as_np(v)).astype(complex)), bound.shape))
                    except ValueError:
                        pass
                fin = np.isfinite(got) & np.isfinite(exp)
                ok = bool(np.array_equal(np.isfinite(got), np.isfinite(exp)) and np.all(
                    np.abs(got[fin] - exp[fin]) <= 8 * np.finfo(np.float32).eps * bound[fin]))
        ctx.check("C03.node.values", ok, **info, got_dtype=str(got.dtype), exp_dtype=str(exp.dtype),
                  got_shape=got.shape, exp_shape=exp.shape, maxdiff=core.maxdiff(got, exp))
        ctx.check("C03.node.kind_of_number",
                  np.iscomplexobj(got) == np.iscomplexobj(exp), **info,
                  got_dtype=str(got.dtype), exp_dtype=str(exp.dtype))
    return res


def _single_precision(vals, exp):
    kinds = [np.asarray(as_np(v)).dtype for v in vals] + [exp.dtype]
    return any(d in (np.float32, np.complex64) for d in kinds)


def check_angle(ctx, vals, got, info):
    a = np.asarray(as_np(vals[0]))
    b = np.broadcast_to(np.asarray(as_np(vals[1])), a.shape)
    if np.iscomplexobj(a) or np.iscomplexobj(b):
        return
    double = a.dtype == np.float64 and b.dtype == np.float64
    # reference in double precision (exact for the single-precision data); cells whose
    # cosine is within the rounding error of the operands' own precision of +-1 are not
    # judged: there arccos is ill-conditioned (NaN just beyond 1), rule R3
    a, b = a.astype(np.float64), b.astype(np.float64)
    with np.errstate(all="ignore"):
        na = np.sqrt(np.sum(a * a, axis=-1, keepdims=True))
        nb = np.sqrt(np.sum(b * b, axis=-1, keepdims=True))
        cos = np.sum(a * b, axis=-1, keepdims=True) / (na * nb)
        judged = np.isfinite(cos) & (np.abs(cos) < 1 - (1e-9 if double else 1e-5)) & (na > 0) & (nb > 0)
        tol = 1e-12 if double else 1e-5
        ok = got.shape == cos.shape and bool(np.all(np.abs(np.cos(got[judged]) - cos[judged]) <= tol))
        ok = ok and bool(np.all((got[judged] >= 0) & (got[judged] <= np.pi)))
    ctx.check("C03.node.values", ok, **info, judged=int(np.sum(judged)))


# ------------------------------------------------------------------- case kinds
def tree_case(ctx):
    rng = ctx.rng
    spec, mesh = make_mesh(ctx)
    fields = []
    for nv in (1, 1, 2, 3, 3, 4):
        fields.append(make_field(rng, mesh, nv))
    fields.append(make_field(rng, mesh, int(rng.integers(1, 5))))
    before = [core.field_digest(f) for f, _ in fields]
    b = Builder(ctx, mesh, fields)
    nv = int(rng.integers(1, 5))
    root = b.expr(nv, int(rng.integers(1, 4)))
    tree = root.show()
    evaluate(ctx, root, fields, tree)
    ctx.check("C03.operands_untouched",
              all(core.field_digest(f) == d for (f, _), d in zip(fields, before)), tree=tree[:400])
    if rng.random() < 0.5:
        # history: the same expression again after the operands' values and validity were
        # overwritten in place through the arrays the getters return (everything derived
        # from the old values - norms, orientations, ... - has been computed once by now)
        for f, _ in fields:
            a = f.array
            mag = 10.0 ** rng.uniform(-2, 2)
            if a.dtype.kind in "iu":
                a[...] = rng.integers(-50, 50, a.shape)
            elif a.dtype.kind == "c":
                a[...] = (rng.normal(size=a.shape) + 1j * rng.normal(size=a.shape)) * mag
            else:
                a[...] = rng.normal(size=a.shape) * mag
            f.valid[...] = gen.rand_valid(rng, f.valid.shape)
        ctx.event("tree.re-evaluated_after_inplace_writes")
        before = [core.field_digest(f) for f, _ in fields]
        evaluate(ctx, root, fields, tree + "  [again after in-place writes to the operands]")
        ctx.check("C03.operands_untouched",
                  all(core.field_digest(f) == d for (f, _), d in zip(fields, before)),
                  tree=tree[:400], after_inplace_writes=True)
    # reflected operators on an unsigned-integer field (a material index, a grey-scale
    # image) with a real number on the left: number (op) array in plain numpy
    u = df.Field(mesh, nvdim=1, value=rng.integers(0, 200, (*mesh.n, 1)), dtype=np.uint8,
                 valid=gen.rand_valid(rng, mesh.n))
    c = float(np.round(rng.uniform(-300, 300), 2))
    for name, fn in (("rsub", lambda a, b: a - b), ("radd", lambda a, b: a + b),
                     ("rmul", lambda a, b: a * b), ("rtruediv", lambda a, b: a / (b + 1))):
        okc, r = ctx.expect_ok("C03.reflected_unsigned.defined", fn, c, u, what={"op": name, "number": c})
        if okc:
            with np.errstate(all="ignore"):
                exp = fn(c, u.array)
            ctx.check("C03.node.values", isinstance(r, df.Field) and r.array.shape == exp.shape
                      and np.array_equal(r.array, exp) and np.array_equal(r.valid, u.valid),
                      op=name, node=f"{name}({c}, uint8 field)", tree="reflected operator on an unsigned-integer field",
                      operand_dtypes=["float", "uint8"], maxdiff=core.maxdiff(r.array, exp))
    ctx.sig(("tree", spec.nd, tuple(sorted(root.ops())), tuple(sorted({d for _, d in fields}))),
            nontrivial=root.count() >= 2)
    if ctx.i % 50 == 0:
        ctx.sample({"tree": tree[:500], "mesh": spec.describe()})


def meta_of(f):
    return (None if f.vdims is None else list(f.vdims), dict(f.vdim_mapping))


def commute_case(ctx):
    rng = ctx.rng
    spec, mesh = make_mesh(ctx)
    nv = int(rng.integers(2, 5))
    if rng.random() < 0.5 and 2 <= spec.nd <= 4:
        nv = spec.nd  # so that a component-to-axis mapping exists
    v, vdt = make_field(rng, mesh, nv, custom=bool(rng.random() < 0.7))
    # every unary operation / unary ufunc on the (possibly custom-labelled, mapped) vector
    fields = [(v, vdt)]
    for op in list(UNARY) + list(UFUNC1):
        evaluate(ctx, Node(op, [Node("field", nv=nv, payload=0)], nv), fields, f"{op}(F0[{nv}])")
    w = df.Field(mesh, nvdim=nv, value=gen.rand_values(rng, (*mesh.n, nv), "float"),
                 vdims=v.vdims, vdim_mapping=v.vdim_mapping, valid=gen.rand_valid(rng, mesh.n))
    u, _ = make_field(rng, mesh, nv)  # possibly other labels
    s, _ = make_field(rng, mesh, 1)
    num = rand_number(rng)
    vec = rand_vector(rng, nv)
    pairs = [("vector,scalar_field", v, s, True), ("field,number", v, num, True),
             ("field,constant_vector", v, vec, True), ("vectors_same_labels", v, w, True),
             ("scalar,scalar", s, make_field(rng, mesh, 1)[0], True),
             ("vectors_any_labels", v, u, meta_of(v) == meta_of(u))]
    for name, (fop, _) in (("add", BIN["add"]), ("mul", BIN["mul"])):
        for tag, x, y, labels_defined in pairs:
            info = {"op": name, "pair": tag, "x_meta": meta_of(x) if isinstance(x, df.Field) else None,
                    "y_meta": meta_of(y) if isinstance(y, df.Field) else None, "ndim": spec.nd, "nvdim": nv}
            ok1, r1 = ctx.expect_ok("C03.commute.defined", fop, x, y, what={**info, "order": "xy"})
            ok2, r2 = ctx.expect_ok("C03.commute.defined", fop, y, x, what={**info, "order": "yx"})
            if not (ok1 and ok2):
                continue
            ctx.check("C03.commute.values",
                      r1.array.shape == r2.array.shape and core.close(r1.array, r2.array, rtol=4 * EPS)
                      and (not (isinstance(x, df.Field) and isinstance(y, df.Field))
                           or np.array_equal(r1.valid, r2.valid))
                      and r1.mesh == r2.mesh, **info)
            if labels_defined:
                ctx.check("C03.commute.labels", meta_of(r1) == meta_of(r2), **info,
                          xy=meta_of(r1), yx=meta_of(r2))
    # stacking the components of a vector field reproduces it
    comps = [getattr(v, c) for c in v.vdims]
    st = comps[0]
    for c in comps[1:]:
        st = st << c
    default_meta = (v.vdims == gen.default_vdims(nv)
                    and v.vdim_mapping == (dict(zip(v.vdims, mesh.region.dims)) if nv == spec.nd else {}))
    ctx.check("C03.stack.reproduces",
              np.array_equal(st.array, v.array, equal_nan=True) and np.array_equal(st.valid, v.valid)
              and st.mesh == v.mesh and st.nvdim == v.nvdim
              and (not default_meta or meta_of(st) == meta_of(v)),
              vdims=v.vdims, stacked_meta=meta_of(st), source_meta=meta_of(v),
              default_meta=default_meta)
    # << with numbers / constant vectors on either side
    x = s << num if not isinstance(num, complex) else s << 2.5
    ctx.check("C03.stack.values", x.nvdim == 2 and np.array_equal(x.array[..., 0], s.array[..., 0])
              and np.all(x.array[..., 1] == (num if not isinstance(num, complex) else 2.5)), what="field<<number")
    lst = [float(t) for t in np.asarray(vec)[:2]]
    y = lst << s
    ctx.check("C03.stack.values", y.nvdim == 3 and np.array_equal(y.array[..., 2], s.array[..., 0])
              and np.all(y.array[..., 0] == lst[0]) and np.all(y.array[..., 1] == lst[1]),
              what="list<<field")
    ctx.sig(("commute", spec.nd, nv, v.vdims is not None and tuple(v.vdims)), True)


def reject_case(ctx):
    rng = ctx.rng
    spec, mesh = make_mesh(ctx)
    nv = int(rng.integers(1, 5))
    f, _ = make_field(rng, mesh, nv)
    # a different mesh: shifted by a cell, other n, or other cell size
    how = gen.pick(rng, ["shifted", "other_n", "other_cell", "coarser_same_region", "other_dims",
                         "became_different"])
    ax = int(rng.integers(0, spec.nd))
    pmin, cell, n = spec.pmin.copy(), spec.cell.copy(), spec.n.copy()
    dims2 = spec.dims
    if how == "coarser_same_region" and not np.any(n > 1):
        how = "shifted"
    if how == "shifted":
        pmin[ax] += cell[ax] * float(rng.choice([1, -1, 0.5, 3]))
    elif how == "other_n":
        n[ax] += 1
    elif how == "other_cell":
        cell[ax] *= float(rng.choice([2, 0.5, 1.1]))
    elif how == "coarser_same_region":
        # the same region cut into fewer cells: one cell along some (or all) of the axes
        # that had several - array shapes that numpy alone would happily broadcast
        multi = np.flatnonzero(n > 1)
        pickd = multi if rng.random() < 0.5 else rng.choice(multi, int(rng.integers(1, len(multi) + 1)),
                                                            replace=False)
        n2 = n.copy()
        n2[pickd] = 1
        cell = cell * n / n2
        n = n2
    elif how == "other_dims":
        # the same corners and cells, but other names for the directions
        names = spec.dim_names
        dims2 = [d + "2" for d in names] if (spec.nd == 1 or rng.random() < 0.5) \
            else names[1:] + names[:1]
    other_mesh = gen.MeshSpec(pmin, cell, n, dims2, spec.units, spec.flip).mesh()
    shape2 = (*[int(k) for k in n], nv)
    g = df.Field(other_mesh, nvdim=nv, value=gen.rand_values(rng, shape2, "float"))
    s2 = df.Field(other_mesh, nvdim=1, value=gen.rand_values(rng, shape2[:-1] + (1,), "float"))
    calls = {name: fn for name, (fn, _) in BIN.items()}
    calls.update({"dot": lambda a, b: a.dot(b), "angle": lambda a, b: a.angle(b),
                  "lshift": lambda a, b: a << b})
    if nv == 3:
        calls["cross"] = lambda a, b: a.cross(b)
    for name, uf in UFUNC2.items():
        calls[name] = uf
    if how == "became_different":
        # history: g lives on an equal but separate mesh object; every combination is
        # carried out once (legitimately), then g's mesh is moved / rescaled in place - from
        # then on the two fields live on different meshes
        for name, fn in calls.items():
            for x, y in ((f, g), (g, f), (f, s2)):
                try:
                    with np.errstate(all="ignore"):
                        fn(x, y)
                except Exception:  # noqa: BLE001 - not this monitor's subject
                    pass
        step = gen.pick(rng, ["translate", "scale"])
        for m2 in {id(g.mesh): g.mesh, id(s2.mesh): s2.mesh}.values():
            if step == "translate":
                v = np.zeros(spec.nd)
                v[ax] = spec.cell[ax] * float(rng.choice([1, -1, 0.5, 3]))
                m2.translate(v.tolist(), inplace=True)
            else:
                m2.scale(float(rng.choice([2, 0.5, 1.25])), inplace=True)
        ctx.event("reject.became_different." + step)
    same_shape = how in ("shifted", "other_dims", "became_different")  # numpy alone cannot notice
    for name, fn in calls.items():
        for tag, x, y in (("fg", f, g), ("gf", g, f), ("f,scalar_on_other_mesh", f, s2)):
            if tag.startswith("f,scalar") and name in ("dot", "angle", "cross"):
                continue
            ctx.expect_raises("C03.reject.different_mesh", fn, x, y, unchanged=[f, g, s2],
                              what={"op": name, "order": tag, "how": how, "same_shape": same_shape,
                                    "ndim": spec.nd, "nvdim": nv, "is_ufunc": name.startswith("np.")})
    # incompatible component counts on the same mesh
    for m in {2, 3, 4} - {nv}:
        if nv == 1:
            break
        h, _ = make_field(rng, mesh, m)
        for name, fn in calls.items():
            if name == "lshift" or (name == "cross" and 3 in (nv, m) and False):
                continue
            ctx.expect_raises("C03.reject.component_count", fn, f, h, unchanged=[f, h],
                              what={"op": name, "nvdims": (nv, m), "is_ufunc": name.startswith("np.")})
    # constant vectors of the wrong length, unsupported operand types
    bad_vec = tuple(rng.normal(size=nv + 1).tolist())
    if nv > 1:
        for name in ("add", "mul", "sub", "truediv"):
            ctx.expect_raises("C03.reject.component_count", calls[name], f, bad_vec, unchanged=[f],
                              what={"op": name, "operand": "vector of wrong length"})
    for bad in ("abc", None, {"a": 1}):
        ctx.expect_raises("C03.reject.operand_type", calls["add"], f, bad, unchanged=[f],
                          what={"operand": repr(bad)})
        ctx.expect_raises("C03.reject.operand_type", calls["mul"], bad, f, unchanged=[f],
                          what={"operand": repr(bad), "reflected": True})
    ctx.sig(("reject", spec.nd, nv, how), True)


def labels_case(ctx):
    """Labels and component-to-axis mapping of results whose operands agree on them."""
    rng = ctx.rng
    spec, mesh = make_mesh(ctx)
    n = tuple(int(k) for k in mesh.n)
    if spec.nd == 3:
        labels = gen.pick(rng, [["a", "b", "c"], ["mz", "mx", "my"]])
        perm = rng.permutation(3)
        mapping = gen.shuffle_keys(rng, {labels[j]: spec.dim_names[int(perm[j])] for j in range(3)})
        f = df.Field(mesh, nvdim=3, value=rng.normal(size=(*n, 3)), vdims=labels, vdim_mapping=mapping)
        g = df.Field(mesh, nvdim=3, value=rng.normal(size=(*n, 3)), vdims=labels, vdim_mapping=mapping)
        for name, call in (("f.cross(g)", lambda: f.cross(g)), ("f & g", lambda: f & g),
                           ("f.cross(vector)", lambda: f.cross((1.0, 2.0, 3.0))), ("f + g", lambda: f + g)):
            r = call()
            ctx.check("C03.commute.labels",
                      list(r.vdims) == labels and dict(r.vdim_mapping) == dict(f.vdim_mapping),
                      expr=name, got_vdims=r.vdims, got_mapping=r.vdim_mapping,
                      operands_vdims=labels, operands_mapping=dict(f.vdim_mapping))
    # a labelled scalar field that says which axis it belongs to (a component taken out of a
    # vector field and relabelled) broadcasts over constant vectors and per-cell arrays like
    # any scalar field
    d = spec.dim_names[int(rng.integers(0, spec.nd))]
    sa = rng.normal(size=(*n, 1))
    s = df.Field(mesh, nvdim=1, value=sa, vdims=["s"], vdim_mapping={"s": d})
    vec = tuple(rng.normal(size=3).tolist())
    for name, call, exp in (("s * vector", lambda: s * vec, sa * np.asarray(vec)),
                            ("vector * s", lambda: vec * s, sa * np.asarray(vec)),
                            ("s + array", lambda: s + np.ones(3), sa + np.ones(3))):
        okc, r = ctx.expect_ok("C03.raise_parity", call, what={"expr": name, "scalar_mapping": {"s": d}})
        if okc:
            ctx.check("C03.node.values", r.array.shape == exp.shape and bool(np.allclose(r.array, exp, rtol=1e-14, atol=0)),
                      expr=name, got_shape=r.array.shape)


def where_case(ctx):
    """ufuncs called with where= (and no out=): the selected cells hold the numpy result, the
    operands are untouched (what the unselected cells hold is numpy's business: not judged)."""
    import warnings
    rng = ctx.rng
    spec, mesh = make_mesh(ctx)
    nv = int(rng.integers(1, 4))
    f, fa = make_field(rng, mesh, nv, dtype=gen.pick(rng, ["float", "float", "complex", "int"]))
    g, ga = make_field(rng, mesh, nv, dtype="float")
    n = tuple(int(k) for k in mesh.n)
    mask = rng.random((*n, 1)) < 0.5
    if rng.random() < 0.5:
        mask = np.broadcast_to(mask, (*n, nv)).copy()
    f0, g0 = np.array(f.array), np.array(g.array)
    v0 = np.array(f.valid)
    for name, call, ref in (("np.multiply(f, g, where=)", lambda: np.multiply(f, g, where=mask), lambda: f0 * g0),
                            ("np.negative(f, where=)", lambda: np.negative(f, where=mask), lambda: -f0),
                            ("np.add(f, 2.5, where=)", lambda: np.add(f, 2.5, where=mask), lambda: f0 + 2.5)):
        info = {"expr": name, "ndim": spec.nd, "nvdim": nv, "dtype": str(f0.dtype)}
        try:
            with warnings.catch_warnings(), np.errstate(all="ignore"):
                warnings.simplefilter("ignore")
                r = call()
        except Exception:  # noqa: BLE001 - refusing the keyword is not judged
            ctx.event("where.refused")
            continue
        ctx.event("where.evaluated")
        sel = np.broadcast_to(mask, f0.shape)
        exp = ref()
        if isinstance(r, df.Field) and r.array.shape == exp.shape:
            ctx.check("C03.node.values",
                      bool(np.all(np.abs(r.array[sel] - exp[sel]) <= 4 * EPS * np.abs(exp[sel]))),
                      note="cells selected by where=", **info)
        ctx.check("C03.operands_untouched",
                  np.array_equal(f.array, f0) and np.array_equal(g.array, g0)
                  and np.array_equal(f.valid, v0), **info)


def large_case(ctx):
    """The same cell-by-cell claim on a mesh of 0.9e5 - 1.7e5 cells (odd cell counts): sizes at
    which a blocked or chunked implementation has several blocks and a partial last one."""
    rng = ctx.rng
    n = [int(rng.integers(90, 112)) | 1, int(rng.integers(36, 46)) | 1, int(rng.integers(28, 34)) | 1]
    n = [n[int(j)] for j in rng.permutation(3)]
    cell = 10.0 ** rng.uniform(-9, 0) * rng.uniform(0.5, 2, 3)
    pmin = rng.uniform(-1, 1, 3) * cell * n
    mesh = df.Mesh(p1=pmin.tolist(), p2=(pmin + cell * n).tolist(), n=n)
    mag = 10.0 ** rng.uniform(-2, 2)
    fa = rng.normal(size=(*n, 3)) * mag
    ga = rng.normal(size=(*n, 3)) / mag
    sa = rng.uniform(0.5, 2, size=(*n, 1)) * rng.choice([-1, 1], size=(*n, 1))
    vf = rng.random(tuple(n)) < 0.9
    vg = rng.random(tuple(n)) < 0.9
    f = df.Field(mesh, nvdim=3, value=fa, valid=vf)
    g = df.Field(mesh, nvdim=3, value=ga, valid=vg)
    sc = df.Field(mesh, nvdim=1, value=sa)
    c = rng.normal(size=3)
    info = {"part": "large", "n": n, "cells": int(np.prod(n))}
    ctx.sig(("large", tuple(k // 50 for k in n)), nontrivial=True)
    ctx.event("large_meshes")
    ab = np.abs(fa) * np.abs(ga)
    norm2 = np.linalg.norm(fa, axis=-1, keepdims=True) * np.linalg.norm(ga, axis=-1, keepdims=True)
    cases = [
        ("f + g", lambda: f + g, fa + ga, 0 * ab),
        ("f - g", lambda: f - g, fa - ga, 0 * ab),
        ("f * g", lambda: f * g, fa * ga, 2 * EPS * ab),
        ("f / s", lambda: f / sc, fa / sa, 2 * EPS * np.abs(fa / sa)),
        ("s * g", lambda: sc * g, sa * ga, 2 * EPS * np.abs(sa * ga)),
        ("np.multiply(f, g)", lambda: np.multiply(f, g), fa * ga, 2 * EPS * ab),
        ("f.dot(g)", lambda: f.dot(g), np.sum(fa * ga, axis=-1, keepdims=True), 8 * EPS * norm2),
        ("f @ g", lambda: f @ g, np.sum(fa * ga, axis=-1, keepdims=True), 8 * EPS * norm2),
        ("f.cross(g)", lambda: f.cross(g), np.cross(fa, ga), 8 * EPS * norm2),
        ("f & g", lambda: f & g, np.cross(fa, ga), 8 * EPS * norm2),
        ("f.cross(c)", lambda: f.cross(tuple(c.tolist())), np.cross(fa, c),
         8 * EPS * np.linalg.norm(fa, axis=-1, keepdims=True) * np.linalg.norm(c)),
        ("c & f", lambda: tuple(c.tolist()) & f, np.cross(c, fa),
         8 * EPS * np.linalg.norm(fa, axis=-1, keepdims=True) * np.linalg.norm(c)),
        ("f << s", lambda: f << sc, np.concatenate([fa, sa], axis=-1), 0.0),
        ("-f", lambda: -f, -fa, 0 * fa),
        ("abs(f)", lambda: abs(f), np.abs(fa), 0 * fa),
    ]
    for name, call, exp, tol in cases:
        okc, r = ctx.expect_ok("C03.raise_parity", call, what=dict(info, expr=name))
        if not okc:
            continue
        good = r.array.shape == exp.shape and bool(np.all(np.abs(r.array - exp) <= tol))
        w = {}
        if not good and r.array.shape == exp.shape:
            bad = np.argwhere(~(np.abs(r.array - exp) <= tol))
            w = {"wrong_cells": int(len(bad)), "first": bad[0], "last": bad[-1],
                 "got": r.array[tuple(bad[0])], "expected": exp[tuple(bad[0])]}
        ctx.check("C03.node.values", good, expr=name, got_shape=r.array.shape, **w, **info)
    ctx.check("C03.operands_untouched",
              np.array_equal(f.array, fa) and np.array_equal(g.array, ga)
              and np.array_equal(f.valid, vf) and np.array_equal(g.valid, vg), **info)


def run_case(ctx, i):
    if i % 1600 == 801:
        return large_case(ctx)
    kind = i % 4
    if kind in (0, 1):
        tree_case(ctx)
    elif kind == 2:
        commute_case(ctx)
        if ctx.rng.random() < 0.3:
            where_case(ctx)
        if ctx.rng.random() < 0.3:
            labels_case(ctx)
    else:
        reject_case(ctx)
