"""C02 - a field holds exactly the value its specification assigns to every cell."""

META = {
    "property": "C02",
    "level": "exploration",
    "rule": (
        "case i of seed s is generated from default_rng([s, i]); i%5 selects the kind "
        "(0: constant / per-cell array / function of position, then sampling, component "
        "access and iteration; 1: per-subregion dictionary on a mesh with 0-3 overlapping or "
        "touching lattice subregions, constant or callable items and default; 2: source "
        "field on another mesh covering the region; 3: sampling along a line; 4: rejected "
        "specifications (wrong shape / component count / type) on the constructor, "
        "update_field_values and the array setter with the existing field unchanged). "
        "Meshes are 1-4-d with random dimension names, 1-4 components with default or "
        "custom labels, dtypes int / float / complex / bool. Signature = (kind, "
        "specification kind, ndim, nvdim, dtype, how the value was handed over, number of "
        "subregions, overlapping, named dims); non-trivial = at least 2 cells."
    ),
    "cases": {"quick": 1500, "thorough": 120000},
    "workers": {"quick": 8, "thorough": 16},
    "timeout": {"quick": 600, "thorough": 5400},
    "deciding": [
        "C02.shape",
        "C02.value.const",
        "C02.value.array", "C02.value.own_copy", "C02.component.own_copy",
        "C02.value.callable",
        "C02.dict.value",
        "C02.source.value",
        "C02.sample.interior",
        "C02.sample.face",
        "C02.component.column",
        "C02.iteration",
        "C02.line.points",
        "C02.line.values",
        "C02.line.distance",
        "C02.reject.shape",
        "C02.reject.count",
        "C02.reject.type",
    ],
    "ambient": {"quick": [], "thorough": []},
    "owns": ["inv.field.array"],   # ambient invariant array.shape == (*n, nvdim)
    "anchor_files": ["discretisedfield/field.py", "discretisedfield/mesh.py",
                     "discretisedfield/line.py"],
    "assumptions": [
        "callables are pure functions of position: either affine in the position "
        "(float / complex; expected value from my own index arithmetic A@(i+1/2)+b, "
        "tolerance = 1e-12 of the value scale + |A| times the floating-point resolution "
        "of the cell-centre coordinate) or a table look-up of the containing cell "
        "(int / bool; exact)",
        "dictionary items are listed in the mesh's subregion order, so 'first listed' is "
        "the same under both readings; items are constants or callables",
        "source-field meshes cover the target region exactly (same corners) or by at "
        "least one source cell per side; a target centre exactly on a source-cell face "
        "(decided in integer arithmetic) accepts either neighbour (rule R3)",
        "sample / line points exactly on lattice planes accept either neighbouring cell; "
        "other points lie >= 1e-6 cell inside their cell",
        "complex values handed over through callables / dictionaries are given with "
        "dtype=complex (documented requirement)",
        "wrong-shape arrays have one axis longer by one cell (never broadcastable); "
        "a scalar 0 for a vector field is the documented 'all zero' constant and is not "
        "treated as a wrong component count",
    ],
}

import itertools  # noqa: E402

import numpy as np  # noqa: E402

import discretisedfield as df  # noqa: E402
from workloads import _a_helpers as H  # noqa: E402
from workloads import gen  # noqa: E402

NP_DTYPE = {"float": np.float64, "int": np.int64, "complex": np.complex128, "bool": np.bool_}


# ------------------------------------------------------------------ specification pieces
class Piece:
    """One elementary specification with my own evaluation on the whole mesh."""

    def __init__(self, kind, value, exp, tol):
        self.kind = kind      # "const" | "affine" | "lookup" | "array"
        self.value = value    # what is handed to the library
        self.exp = exp        # (*n, nvdim) expected values at every cell of the mesh
        self.tol = tol        # (*n, 1) absolute tolerance (0 = exact)

    @property
    def callable(self):
        return self.kind in ("affine", "lookup")


def _rand_vec(rng, nvdim, dtype):
    if dtype == "int":
        return rng.integers(-9, 10, nvdim)
    if dtype == "bool":
        return rng.random(nvdim) < 0.5
    if dtype == "complex":
        return np.round(rng.normal(size=nvdim), 3) + 1j * np.round(rng.normal(size=nvdim), 3)
    return rng.normal(size=nvdim) * 10.0 ** rng.integers(-3, 4)


def const_piece(rng, spec, nvdim, dtype):
    v = _rand_vec(rng, nvdim, dtype)
    n = tuple(int(k) for k in spec.n)
    exp = np.broadcast_to(v, (*n, nvdim)).copy()
    r = rng.random()
    if nvdim == 1 and r < 0.6:
        value = v[0].item()
    elif r < 0.5:
        value = tuple(v.tolist())
    elif r < 0.75:
        value = v.tolist()
    else:
        value = v.copy()
    return Piece("const", value, exp, np.zeros((*n, 1)))


def affine_piece(rng, spec, nvdim, dtype):
    """p -> A @ ((p - pmin)/cell) + b, different per component, float or complex."""
    nd = spec.nd
    A = rng.normal(size=(nvdim, nd))
    b = rng.normal(size=nvdim) * 3
    if dtype == "complex":
        A = A + 1j * rng.normal(size=(nvdim, nd))
        b = b + 1j * rng.normal(size=nvdim)
    pmin, cell = spec.pmin.copy(), spec.cell.copy()
    ret = gen.pick(rng, ["array", "tuple", "list", "scalar", "reused_buffer"])
    buf = np.zeros(nvdim, dtype=complex if dtype == "complex" else float)

    def fun(p):
        q = (np.atleast_1d(np.asarray(p, dtype=float)) - pmin) / cell
        out = A @ q + b
        if ret == "reused_buffer":
            # a function object with a preallocated result array that it fills and returns
            # on every call: what is stored is the value at the time of the call
            buf[...] = out
            return buf
        if nvdim == 1 and ret == "scalar":
            return out[0]
        if ret == "tuple":
            return tuple(out.tolist())
        if ret == "list":
            return out.tolist()
        return out

    centres = H.index_grid(spec.n) + 0.5                    # (*n, nd), exact
    exp = centres @ A.T + b
    tol = 1e-12 * max(1.0, float(np.max(np.abs(exp)))) + float(np.abs(A).max(axis=0) @ H.index_res(spec))
    return Piece("affine", fun, exp, np.full((*exp.shape[:-1], 1), tol))


def lookup_piece(rng, spec, nvdim, dtype):
    """p -> table[cell containing p] (exact; used for int / bool and sometimes float)."""
    n = tuple(int(k) for k in spec.n)
    table = gen.rand_values(rng, (*n, nvdim), dtype, mag=1.0)
    pmin, cell, nn = spec.pmin.copy(), spec.cell.copy(), spec.n.copy()
    as_scalar = nvdim == 1 and rng.random() < 0.5

    reuse = (not as_scalar) and rng.random() < 0.25
    buf = np.zeros(nvdim, dtype=table.dtype)

    def fun(p):
        q = (np.atleast_1d(np.asarray(p, dtype=float)) - pmin) / cell
        idx = tuple(int(v) for v in np.clip(np.floor(q), 0, nn - 1))
        if reuse:
            buf[...] = table[idx]
            return buf
        return table[idx][0].item() if as_scalar else table[idx].copy()

    return Piece("lookup", fun, table.copy(), np.zeros((*n, 1)))


def callable_piece(rng, spec, nvdim, dtype):
    if dtype in ("int", "bool") or rng.random() < 0.25:
        return lookup_piece(rng, spec, nvdim, dtype)
    return affine_piece(rng, spec, nvdim, dtype)


def array_piece(rng, spec, nvdim, dtype):
    n = tuple(int(k) for k in spec.n)
    arr = gen.rand_values(rng, (*n, nvdim), dtype)
    r = rng.random()
    if nvdim == 1 and r < 0.3:
        value = arr[..., 0].copy()      # shape n is accepted for scalar fields
    elif r < 0.45 and arr.size <= 200:
        value = arr.tolist()
    else:
        value = arr.copy()
    return Piece("array", value, arr.copy(), np.zeros((*n, 1)))


def _matches(got, exp, tol):
    """Per-cell agreement: exact where tol == 0, |got-exp| <= tol elsewhere."""
    got = np.asarray(got)
    if got.shape != exp.shape:
        return np.zeros((), dtype=bool)
    eq = got == exp
    if not np.any(tol > 0):
        return eq.all(axis=-1)
    with np.errstate(all="ignore"):
        near = np.abs(got.astype(complex) - exp.astype(complex)) <= tol
    return np.where(tol > 0, near, eq).all(axis=-1)


def _first_bad(okcells, got, exp):
    if okcells.ndim == 0:
        return {"shape_got": np.shape(got), "shape_expected": np.shape(exp)}
    bad = np.argwhere(~okcells)
    idx = tuple(int(v) for v in bad[0])
    return {"n_bad_cells": int(len(bad)), "n_cells": int(okcells.size), "first_bad_index": idx,
            "got": np.asarray(got)[idx], "expected": np.asarray(exp)[idx]}


# --------------------------------------------------------------------------- generators
def _spec(ctx, **kw):
    return gen.rand_meshspec(ctx.rng, n_max=6 if ctx.thorough else 5,
                             max_cells=600 if ctx.thorough else 300, **kw)


def _field_kw(rng, nvdim, dtype, need_dtype=False):
    kw = {"vdims": gen.rand_vdims(rng, nvdim)}
    if need_dtype or rng.random() < 0.5:
        kw["dtype"] = NP_DTYPE[dtype]
    if rng.random() < 0.3:
        kw["unit"] = "A/m"
    return kw


def _hand_over(ctx, monitor, mesh, nvdim, value, kw, info):
    """Constructor, update_field_values or the array setter; returns the field or None."""
    how = gen.pick(ctx.rng, ["ctor", "ctor", "update", "array="])
    info["how"] = how
    if how == "ctor":
        ok, f = ctx.expect_ok(monitor, lambda: df.Field(mesh, nvdim=nvdim, value=value, **kw),
                              what=info)
        return f if ok else None
    f = df.Field(mesh, nvdim=nvdim, **kw)
    if how == "update":
        ok, _ = ctx.expect_ok(monitor, lambda: f.update_field_values(value), what=info)
    else:
        ok, _ = ctx.expect_ok(monitor, lambda: setattr(f, "array", value), what=info)
    return f if ok else None


def _labels(f, nvdim):
    return list(f.vdims) if f.vdims is not None else []


# ------------------------------------------------------------------- common observations
def observe(ctx, f, spec, info, n_points=10):
    """Sampling, component access and iteration against the *stored* array."""
    rng = ctx.rng
    nd, n = spec.nd, spec.n
    A = np.array(f.array, copy=True)
    nvdim = A.shape[-1]
    # ---- sampling inside cells
    for _ in range(n_points):
        idx, p = H.interior_point(rng, spec)
        arg = H.point_arg(rng, p, nd)
        okc, got = ctx.expect_ok("C02.sample.accepted", f, arg,
                                 what=dict(info, op="__call__", point=p))
        if okc:
            ctx.check("C02.sample.interior",
                      np.shape(got) == (nvdim,) and np.array_equal(got, A[idx]),
                      op="__call__", point=p, index=idx, got=got, expected=A[idx], **info)
    # ---- sampling on lattice planes / corners: either neighbour
    vs = [tuple(int(rng.integers(0, k + 1)) for k in n) for _ in range(4)]
    vs += [tuple([0] * nd), tuple(int(k) for k in n)]
    for v in vs:
        frac = np.where(rng.random(nd) < 0.6, 0.0, rng.uniform(0.05, 0.95, nd))
        v = np.minimum(np.asarray(v), np.where(frac > 0, n - 1, n))
        p = spec.pmin + (v + frac) * spec.cell
        cands = H.point_candidates(spec, p)
        okc, got = ctx.expect_ok("C02.sample.accepted", f, H.point_arg(rng, p, nd),
                                 what=dict(info, op="__call__ (on lattice plane)", point=p))
        if okc:
            ctx.check("C02.sample.face", H.any_candidate_equal(got, A, cands),
                      op="__call__", point=p, candidates=cands, got=got, **info)
    # ---- component access by label
    labels = _labels(f, nvdim)
    for k, lab in enumerate(labels):
        okc, comp = ctx.expect_ok("C02.component.accepted", getattr, f, lab,
                                  what=dict(info, op="__getattr__", label=lab))
        if okc:
            ctx.check("C02.component.column",
                      isinstance(comp, df.Field) and comp.nvdim == 1
                      and comp.array.shape == (*A.shape[:-1], 1)
                      and np.array_equal(comp.array[..., 0], A[..., k])
                      and comp.mesh == f.mesh,
                      op="__getattr__", label=lab, column=k, labels=labels, **info)
    if labels and nvdim > 1:
        # history: a component that is modified afterwards is a field of its own
        k = int(rng.integers(0, nvdim))
        comp = getattr(f, labels[k])
        with np.errstate(all="ignore"):
            if comp.array.dtype == bool:
                np.logical_not(comp.array, out=comp.array)
            else:
                comp.array[...] = comp.array * 2 + 1
        ctx.check("C02.component.own_copy", np.array_equal(f.array, A, equal_nan=True),
                  note="writing into an extracted component changed the parent field",
                  label=labels[k], shares_memory=bool(np.shares_memory(f.array, comp.array)), **info)
    if labels:
        bogus = "no_such_component"
        ctx.expect_raises("C02.component.unknown_label_rejected", getattr, f, bogus)
    elif nvdim == 1:
        ctx.event("scalar_field_without_labels")
    # ---- iteration in mesh order (first dimension fastest)
    vals = list(f)
    order = list(spec.indices())
    ctx.check("C02.iteration",
              len(vals) == len(order)
              and all(np.array_equal(v, A[i]) for v, i in zip(vals, order)),
              op="__iter__", length=len(vals), **info)
    ctx.check("C02.stored_untouched_by_reads", np.array_equal(f.array, A), **info)


def _check_shape(ctx, f, spec, nvdim, info):
    ok = isinstance(f.array, np.ndarray) and f.array.shape == (*[int(k) for k in spec.n], nvdim)
    ctx.check("C02.shape", ok, got=np.shape(f.array), **info)
    return ok


# ----------------------------------------------------------------------------- kind 0
def basic(ctx):
    rng = ctx.rng
    spec = _spec(ctx)
    mesh = spec.mesh()
    nvdim = int(rng.integers(1, 5))
    dtype = gen.pick(rng, ["float", "float", "int", "complex", "bool"])
    skind = gen.pick(rng, ["const", "array", "callable"])
    piece = {"const": const_piece, "array": array_piece, "callable": callable_piece}[skind](
        rng, spec, nvdim, dtype)
    kw = _field_kw(rng, nvdim, dtype, need_dtype=piece.callable)
    info = {"spec": skind, "piece": piece.kind, "ndim": spec.nd, "nvdim": nvdim,
            "dtype": dtype, "dtype_given": "dtype" in kw, "n": spec.n}
    f = _hand_over(ctx, "C02.accepted." + skind, mesh, nvdim, piece.value, kw, info)
    ctx.sig(("basic", piece.kind, spec.nd, nvdim, dtype, info["how"],
             "default" if spec.dims is None else "named"), nontrivial=int(np.prod(spec.n)) >= 2)
    ctx.sample({"kind": "basic", **{k: v for k, v in info.items()}, **spec.describe()})
    if f is None or not _check_shape(ctx, f, spec, nvdim, info):
        return
    okc = _matches(f.array, piece.exp, piece.tol)
    ctx.check("C02.value." + skind, bool(np.all(okc)),
              **({} if np.all(okc) else _first_bad(okc, f.array, piece.exp)), **info)
    if isinstance(piece.value, np.ndarray):
        # history: the caller goes on using (overwriting) the array it handed over; the
        # field holds what was specified at the time, not a window onto the caller's memory
        before = np.array(f.array)
        with np.errstate(all="ignore"):
            if piece.value.dtype == bool:
                np.logical_not(piece.value, out=piece.value)
            else:
                piece.value[...] = piece.value * 2 + 1
        ctx.check("C02.value.own_copy", np.array_equal(f.array, before, equal_nan=True),
                  note="overwriting the caller's array afterwards changed the field",
                  shares_memory=bool(np.shares_memory(f.array, piece.value)), **info)
    observe(ctx, f, spec, info)
    if "dtype" not in kw and rng.random() < 0.4:
        # history: a field that declares no dtype is given a specification of another kind
        # of number afterwards (real -> complex, float -> int, ...): what is stored is the
        # new specification, not the new specification squeezed into the old kind
        dtype2 = gen.pick(rng, [d for d in ("float", "int", "complex", "bool") if d != dtype])
        skind2 = gen.pick(rng, ["const", "array"])
        piece2 = {"const": const_piece, "array": array_piece}[skind2](rng, spec, nvdim, dtype2)
        how2 = gen.pick(rng, ["update", "array="])
        info2 = dict(info, respecified_with=dtype2, spec2=skind2, how2=how2)
        if how2 == "update":
            ok, _ = ctx.expect_ok("C02.accepted." + skind2,
                                  lambda: f.update_field_values(piece2.value), what=info2)
        else:
            ok, _ = ctx.expect_ok("C02.accepted." + skind2,
                                  lambda: setattr(f, "array", piece2.value), what=info2)
        if ok and _check_shape(ctx, f, spec, nvdim, info2):
            okc = _matches(f.array, piece2.exp, piece2.tol)
            ctx.check("C02.value." + skind2, bool(np.all(okc)),
                      **({} if np.all(okc) else _first_bad(okc, f.array, piece2.exp)), **info2)


# ----------------------------------------------------------------------------- kind 1
def dictionary(ctx):
    rng = ctx.rng
    spec = _spec(ctx, min_n=1)
    nvdim = int(rng.integers(1, 4))
    dtype = gen.pick(rng, ["float", "float", "float", "int", "complex", "bool"])
    boxes, regions = H.listed_subregions(rng, spec, kmax=3)
    mesh = H.mesh_with_subregions(ctx, "C02", spec, regions)
    if mesh is None:
        boxes, regions, mesh = {}, {}, spec.mesh()
    n = tuple(int(k) for k in spec.n)

    # ---- the dictionary: items for a subset of the subregions (mesh order) + default
    items = {}
    for name in boxes:
        if rng.random() < 0.8:
            items[name] = (const_piece if rng.random() < 0.6 else callable_piece)(
                rng, spec, nvdim, dtype)
    dkind = gen.pick(rng, ["const", "const", "callable", "none"])
    if dkind != "none":
        items["default"] = (const_piece if dkind == "const" else callable_piece)(
            rng, spec, nvdim, dtype)
        if rng.random() < 0.3:  # 'default' listed first
            items = {"default": items.pop("default"), **items}
    value = {k: p.value for k, p in items.items()}
    any_callable = any(p.callable for p in items.values())

    # ---- my evaluation: first listed subregion containing the cell, then the default
    exp = np.zeros((*n, nvdim), dtype=NP_DTYPE[dtype] if dtype != "bool" else bool)
    tol = np.zeros((*n, 1))
    assigned = np.zeros(n, dtype=bool)
    who = np.full(n, "", dtype=object)
    for name in boxes:                      # mesh listing order
        if name not in items:
            continue
        m = H.box_mask(n, *boxes[name]) & ~assigned
        exp[m] = items[name].exp[m]
        tol[m] = items[name].tol[m]
        who[m] = name
        assigned |= m
    if "default" in items:
        m = ~assigned
        exp[m] = items["default"].exp[m]
        tol[m] = items["default"].tol[m]
        who[m] = "default"
        assigned |= m
    overlap = False
    bl = list(boxes.values())
    for (lo1, hi1), (lo2, hi2) in itertools.combinations(bl, 2):
        overlap |= bool(np.all(np.maximum(lo1, lo2) < np.minimum(hi1, hi2)))

    kw = _field_kw(rng, nvdim, dtype, need_dtype=True)
    if dtype == "float" and rng.random() < 0.5:
        kw.pop("dtype", None)
    info = {"spec": "dict", "ndim": spec.nd, "nvdim": nvdim, "dtype": dtype, "n": spec.n,
            "subregions": {k: [lo, hi] for k, (lo, hi) in boxes.items()},
            "items": {k: p.kind for k, p in items.items()}, "default": dkind,
            "overlapping": overlap}
    ctx.sig(("dict", dkind, spec.nd, nvdim, dtype, len(boxes), overlap, any_callable),
            nontrivial=int(np.prod(n)) >= 2 and len(boxes) >= 1)
    ctx.sample({"kind": "dict", **info, **spec.describe()})

    # monitors are named after the input class (dictionary with a constant default /
    # callable default / integer or boolean dtype without a constant default)
    if dtype in ("int", "bool") and dkind != "const":
        cls = "C02.dict.intbool_nonconst_default"
    elif dkind == "callable":
        cls = "C02.dict.callable_default"
    else:
        cls = "C02.dict"
    if not assigned.all():
        # no default and cells left without any value: refused, existing field unchanged
        f0 = df.Field(mesh, nvdim=nvdim, value=array_piece(rng, spec, nvdim, dtype).value,
                      dtype=NP_DTYPE[dtype])
        ctx.expect_raises(cls + ".uncovered_rejected",
                          lambda: df.Field(mesh, nvdim=nvdim, value=value, **kw), what=info)
        ctx.expect_raises(cls + ".uncovered_rejected", f0.update_field_values, value,
                          unchanged=[f0], what=info)
        return
    f = _hand_over(ctx, cls + ".accepted", mesh, nvdim, value, kw, info)
    if f is None or not _check_shape(ctx, f, spec, nvdim, info):
        return
    okc = _matches(f.array, exp, tol)
    extra = {}
    if not np.all(okc):
        extra = _first_bad(okc, f.array, exp)
        if okc.ndim:
            extra["assigned_by"] = who[extra["first_bad_index"]]
            extra["bad_cells_by_item"] = {k: int(np.sum((who == k) & ~okc)) for k in set(who.ravel())}
    ctx.check(cls + ".value", bool(np.all(okc)), **extra, **info)
    observe(ctx, f, spec, info, n_points=5)


# ----------------------------------------------------------------------------- kind 2
def source_field(ctx):
    rng = ctx.rng
    spec = _spec(ctx)
    nd, nt = spec.nd, spec.n
    mesh = spec.mesh()
    nvdim = int(rng.integers(1, 4))
    dtype = gen.pick(rng, ["float", "float", "int", "complex"])
    # source mesh: m cells across the target region, extended by a/b source cells per side
    same = rng.random() < 0.15
    m = nt.copy() if same else rng.integers(1, 7, nd)
    ext = rng.random(nd) < (0.0 if same else 0.5)
    a = np.where(ext, rng.integers(1, 3, nd), 0)
    b = np.where(ext, rng.integers(1, 3, nd), 0)
    cs = spec.edges / m
    p_lo = np.where(ext, spec.pmin - a * cs, spec.pmin)
    p_hi = np.where(ext, spec.pmax + b * cs, spec.pmax)
    ns = m + a + b
    sdims = spec.dims
    renamed = None
    if rng.random() < 0.25:
        # the source lives on a mesh whose directions carry other names - the target's names
        # in another order, or names of its own: "a source cell containing that centre" is a
        # statement about points, which are tuples of numbers
        names = spec.dim_names
        renamed = "permuted" if (nd > 1 and rng.random() < 0.6) else "foreign"
        sdims = names[1:] + names[:1] if renamed == "permuted" else [f"s{j}" for j in range(nd)]
    sreg = df.Region(p1=p_lo.tolist(), p2=p_hi.tolist(), dims=sdims, units=spec.units)
    smesh = df.Mesh(region=sreg, n=[int(k) for k in ns])
    sarr = gen.rand_values(rng, (*[int(k) for k in ns], nvdim), dtype)
    skw = {"dtype": NP_DTYPE[dtype]} if dtype == "complex" else {}
    vd = gen.rand_vdims(rng, nvdim)
    src = df.Field(smesh, nvdim=nvdim, value=sarr.copy(), vdims=vd, **skw)
    info = {"spec": "field", "ndim": nd, "nvdim": nvdim, "dtype": dtype, "n": nt,
            "source_n": ns, "source_cells_across_region": m, "extended_by": [a, b]}
    kw = {"vdims": vd}
    if dtype == "complex":
        kw["dtype"] = NP_DTYPE[dtype]
    if renamed:
        info["source_dimension_names"] = renamed
        try:
            g = df.Field(mesh, nvdim=nvdim, value=src, **kw)
            info["how"] = "ctor"
            ctx.event("source.renamed_dims.accepted")
        except Exception:  # noqa: BLE001 - refusing a source with other names is not judged
            ctx.event("source.renamed_dims.refused")
            return
    else:
        g = _hand_over(ctx, "C02.accepted.field", mesh, nvdim, src, kw, info)
    ctx.sig(("source", nd, nvdim, dtype, info["how"], bool(ext.any()), same,
             tuple(int(np.sign(x - y)) for x, y in zip(m, nt))),
            nontrivial=int(np.prod(nt)) >= 2 and int(np.prod(ns)) >= 2)
    ctx.sample({"kind": "source", **info, **spec.describe()})
    if g is None or not _check_shape(ctx, g, spec, nvdim, info):
        return
    # value of a source cell containing the centre (integer arithmetic; ties: either)
    cands_axis = []
    for k in range(nd):
        per = []
        for i in range(int(nt[k])):
            num, den = (2 * i + 1) * int(m[k]), 2 * int(nt[k])
            q = int(a[k]) + num // den
            per.append([q - 1, q] if num % den == 0 else [q])
        cands_axis.append(per)
    bad = None
    for idx in spec.indices():
        cands = [cands_axis[k][idx[k]] for k in range(nd)]
        if not H.any_candidate_equal(g.array[idx], sarr, cands):
            bad = {"index": idx, "got": g.array[idx], "source_cell_candidates": cands,
                   "expected_one_of": [sarr[c] for c in itertools.product(*cands)][:4]}
            break
    ctx.check("C02.source.value", bad is None, **(bad or {}), **info)
    ctx.check("C02.source.untouched", np.array_equal(src.array, sarr), **info)
    observe(ctx, g, spec, info, n_points=4)


# ----------------------------------------------------------------------------- kind 3
def line(ctx):
    rng = ctx.rng
    spec = H.safe_dims_spec(rng, n_max=6 if ctx.thorough else 5, max_cells=400)
    nd, n = spec.nd, spec.n
    mesh = spec.mesh()
    nvdim = int(rng.integers(1, 5))
    dtype = gen.pick(rng, ["float", "float", "int", "complex"])
    arr = gen.rand_values(rng, (*[int(k) for k in n], nvdim), dtype)
    kw = {"vdims": gen.rand_vdims(rng, nvdim)}
    if dtype == "complex":
        kw["dtype"] = complex
    f = df.Field(mesh, nvdim=nvdim, value=arr.copy(), **kw)
    A = np.array(f.array, copy=True)

    def endpoint():
        r = rng.random()
        if r < 0.5:
            return H.interior_point(rng, spec)[1]
        if r < 0.7:  # a corner of the region, as the mesh reports it
            pick_hi = rng.random(nd) < 0.5
            return np.where(pick_hi, np.asarray(mesh.region.pmax, dtype=float),
                            np.asarray(mesh.region.pmin, dtype=float))
        # on a lattice plane in some directions
        v = np.array([int(rng.integers(0, k + 1)) for k in n])
        frac = np.where(rng.random(nd) < 0.5, 0.0, rng.uniform(0.05, 0.95, nd))
        v = np.minimum(v, np.where(frac > 0, n - 1, n))
        return spec.pmin + (v + frac) * spec.cell

    for _ in range(20):
        pa, pb = endpoint(), endpoint()
        if np.linalg.norm((pa - pb) / spec.cell) > 0.3:
            break
    else:
        pa, pb = spec.pmin.copy(), spec.pmax.copy()
    if rng.random() < 0.25 and nd > 1:   # axis-parallel line
        ax = int(rng.integers(0, nd))
        keep = pb[ax]
        pb = pa.copy()
        pb[ax] = keep if abs(keep - pa[ax]) > 0.3 * spec.cell[ax] else (
            spec.pmax[ax] if pa[ax] < spec.pmin[ax] + spec.edges[ax] / 2 else spec.pmin[ax])
    k = int(gen.pick(rng, [2, 2, 3, 4, 5, 7, 10, 13]))
    info = {"op": "line", "ndim": nd, "nvdim": nvdim, "dtype": dtype, "n": n,
            "p1": pa, "p2": pb, "points": k, "dims": spec.dim_names}
    ctx.sig(("line", nd, nvdim, dtype, min(k, 4), "default" if spec.dims is None else "named"),
            nontrivial=int(np.prod(n)) >= 2)
    ctx.sample({"kind": "line", **info, **spec.describe()})
    a1, a2 = H.point_arg(rng, pa, nd), H.point_arg(rng, pb, nd)
    mon = "C02.line.accepted" if nd > 1 else "C02.line.1d.accepted"
    okc, ln = ctx.expect_ok(mon, lambda: f.line(p1=a1, p2=a2, n=k), what=info)
    if not okc:
        return
    data = ln.data
    dims = spec.dim_names
    ok_n = getattr(ln, "n", None) == k and len(data) == k
    ctx.check("C02.line.count", ok_n, got_n=getattr(ln, "n", None), rows=len(data), **info)
    cols = list(data.columns)
    vcols = [c for c in cols if c != "r" and c not in dims]
    ok_cols = all(d in cols for d in dims) and "r" in cols and len(vcols) == nvdim
    ctx.check("C02.line.columns", ok_cols, columns=cols, **info)
    if not (ok_n and ok_cols):
        return
    pts = data[dims].to_numpy(dtype=float)
    exp_pts = pa + np.arange(k)[:, None] * (pb - pa) / (k - 1)
    tol = H.coord_tol(spec) + 1e-12 * np.abs(pb - pa)
    ctx.check("C02.line.points", bool(np.all(np.abs(pts - exp_pts) <= tol)),
              got_first=pts[0], got_last=pts[-1], expected_first=exp_pts[0],
              expected_last=exp_pts[-1], **info)
    ctx.check("C02.line.endpoints_inclusive",
              bool(np.all(np.abs(pts[0] - pa) <= tol) and np.all(np.abs(pts[-1] - pb) <= tol)),
              got_first=pts[0], got_last=pts[-1], **info)
    r = data["r"].to_numpy(dtype=float)
    exp_r = np.linalg.norm(exp_pts - pa, axis=1)
    rtol = np.linalg.norm(tol) * 2 + 1e-12 * np.linalg.norm(pb - pa)
    ctx.check("C02.line.distance", bool(np.all(np.abs(r - exp_r) <= rtol)),
              got=r, expected=exp_r, **info)
    vals = data[vcols].to_numpy()
    bad = None
    for j in range(k):
        cands = H.point_candidates(spec, exp_pts[j])
        if not H.any_candidate_equal(vals[j], A, cands):
            bad = {"row": j, "point": exp_pts[j], "got": vals[j], "candidates": cands}
            break
    ctx.check("C02.line.values", bad is None, **(bad or {}), **info)


# ----------------------------------------------------------------------------- kind 4
def rejections(ctx):
    rng = ctx.rng
    spec = _spec(ctx)
    nd, n = spec.nd, tuple(int(k) for k in spec.n)
    boxes, regions = H.listed_subregions(rng, spec, kmax=2) if rng.random() < 0.4 else ({}, {})
    mesh = H.mesh_with_subregions(ctx, "C02", spec, regions)
    if mesh is None:
        boxes, mesh = {}, spec.mesh()
    nvdim = int(rng.integers(1, 5))
    dtype = gen.pick(rng, ["float", "float", "int", "complex", "bool"])
    good = array_piece(rng, spec, nvdim, dtype)
    f = df.Field(mesh, nvdim=nvdim, value=good.exp.copy(), dtype=NP_DTYPE[dtype],
                 vdims=gen.rand_vdims(rng, nvdim), valid=gen.rand_valid(rng, n))
    ctx.sig(("reject", nd, nvdim, dtype, len(boxes)), nontrivial=int(np.prod(n)) >= 2)
    base = {"ndim": nd, "nvdim": nvdim, "dtype": dtype, "n": spec.n}

    def attempt(monitor, bad, label):
        info = dict(base, bad=label)
        how = gen.pick(rng, ["ctor", "update", "array=", "all"])
        if how in ("ctor", "all"):
            ctx.expect_raises(monitor, lambda: df.Field(mesh, nvdim=nvdim, value=bad),
                              what=dict(info, how="ctor"))
        if how in ("update", "all"):
            ctx.expect_raises(monitor, f.update_field_values, bad, unchanged=[f],
                              what=dict(info, how="update_field_values"))
        if how in ("array=", "all"):
            ctx.expect_raises(monitor, lambda: setattr(f, "array", bad), unchanged=[f],
                              what=dict(info, how="array setter"))

    def vals(shape):
        return gen.rand_values(rng, shape, dtype if dtype != "bool" else "float")

    # ---- wrong shape: one axis longer by one cell / an extra axis / flattened
    ax = int(rng.integers(0, nd))
    shp = list(n)
    shp[ax] += 1
    attempt("C02.reject.shape", vals((*shp, nvdim)), f"array shape {(*shp, nvdim)}")
    attempt("C02.reject.shape", vals((2, *n, nvdim)), "array with an extra leading axis (2)")
    if sum(1 for k in n if k >= 2) >= 2:
        # all cells in one flat axis: longer than every mesh axis, cannot be meant per cell
        attempt("C02.reject.shape", vals((int(np.prod(n)), nvdim)), "flattened cells")
    if nvdim == 1:
        attempt("C02.reject.shape", vals(tuple(shp)), f"scalar-field array shape {tuple(shp)}")
    # wrong shapes that numpy would broadcast: the right last axis, leading axes that fit
    # the *trailing* mesh axes (or have length one) - neither one vector for all cells nor
    # one vector per cell
    def legit(shape):
        return tuple(shape) in {(nvdim,), (*n, nvdim)} or (nvdim == 1 and tuple(shape) == tuple(n))

    if nd >= 2:
        for shape, why in (((n[-1], nvdim), "last mesh axis only"), ((*n[1:], nvdim), "first mesh axis missing")):
            if not legit(shape):
                attempt("C02.reject.shape", vals(shape), f"array shape {shape}: {why}")
    if int(np.prod(n)) > 1:
        attempt("C02.reject.shape", vals((*[1] * nd, nvdim)), f"array shape {(*[1] * nd, nvdim)}: one cell")
        k = int(rng.integers(0, nd))
        if n[k] > 1:
            one = list(n)
            one[k] = 1
            attempt("C02.reject.shape", vals((*one, nvdim)), f"array shape {(*one, nvdim)}: axis {k} collapsed")

    # ---- wrong component count
    for cnt in {nvdim + 1, max(1, nvdim - 1), nvdim + 3} - {nvdim}:
        if nvdim == 1 and nd == 1 and cnt == n[0]:
            continue  # a length-n sequence on a 1-d scalar field *is* a per-cell array
        c = vals((cnt,))
        attempt("C02.reject.count", tuple(c.tolist()) if rng.random() < 0.5 else c,
                f"constant with {cnt} components")
        attempt("C02.reject.count", vals((*n, cnt)), f"array with {cnt} components")
    if nvdim > 1:
        attempt("C02.reject.count", float(rng.uniform(0.5, 2)), "non-zero scalar for a vector field")
    wrong = nvdim + 1
    attempt("C02.reject.count", lambda p: np.ones(wrong), f"callable returning {wrong} components")
    # a source field with another component count (on a throw-away target, so that the
    # remaining checks of this case keep their meaning whatever happens)
    other = df.Field(mesh, nvdim=wrong, value=vals((*n, wrong)))
    keep = f
    f = df.Field(mesh, nvdim=nvdim, value=good.exp.copy(), dtype=NP_DTYPE[dtype])
    attempt("C02.reject.count.source_field", other, f"source field with {wrong} components")
    f = keep
    if boxes and not (nvdim == 1 and nd == 1):
        # (on a 1-d scalar field a sequence can be a per-cell array of a subregion or of
        # the whole mesh)
        items = {k: tuple(vals((wrong,)).tolist()) for k in boxes}
        items["default"] = tuple(vals((wrong,)).tolist())
        attempt("C02.reject.count", items, f"dict items with {wrong} components")
        # only the default is wrong (the subregion values are fine)
        fine = {k: tuple(vals((nvdim,)).tolist()) for k in boxes}
        if not (nvdim == 1 and nd == 1 and wrong == n[0]):
            # (a length-n sequence on a 1-d scalar field *is* a per-cell array)
            attempt("C02.reject.count", dict(fine, default=tuple(vals((wrong,)).tolist())),
                    f"dict whose constant default has {wrong} components")
        if nvdim > 1:
            attempt("C02.reject.count", dict(fine, default=float(rng.uniform(0.5, 2))),
                    "dict whose default is a non-zero scalar for a vector field")
        attempt("C02.reject.type", dict(fine, default=None), "dict whose default is None")

    # ---- wrong type
    for bad, label in [("abc"[:max(nvdim, 1)], "str"), (None, "None"), (object(), "object()"),
                       (b"\x00" * nvdim, "bytes")]:
        attempt("C02.reject.type", bad, label)
    if dtype != "bool":
        # (for dtype=bool numpy itself converts any str to True: not judged)
        attempt("C02.reject.type", {"default": "a"}, "dict with a str default")
    # sequences whose elements are not numbers (no dtype given: nothing converts them)
    for bad, label in [(["a"] * nvdim, "list of str"), (tuple(str(k) for k in range(nvdim)), "tuple of numeric str"),
                       ([None] * nvdim, "list of None"), (np.array(["a"] * nvdim), "ndarray of str"),
                       (np.full((*n, nvdim), "a"), "per-cell ndarray of str")]:
        g = df.Field(mesh, nvdim=nvdim, value=np.array(good.exp, dtype=complex if dtype == "complex" else float))
        ctx.expect_raises("C02.reject.type", lambda: df.Field(mesh, nvdim=nvdim, value=bad),
                          what=dict(base, bad=label, how="ctor, no dtype"))
        ctx.expect_raises("C02.reject.type", g.update_field_values, bad, unchanged=[g],
                          what=dict(base, bad=label, how="update_field_values, no dtype"))
    # the field still holds its values and still accepts a good specification afterwards
    ctx.check("C02.reject.field_still_good", np.array_equal(f.array, good.exp), **base)
    new = array_piece(rng, spec, nvdim, dtype)
    f.array = new.value
    ctx.check("C02.value.array", np.array_equal(f.array, new.exp), how="array= after rejections",
              **base)


def label_forms(ctx):
    """Label forms at the edge of "all component counts and labels": the explicit "no labels"
    form vdims=[] (whatever the number of components), and labels that are the names of
    attributes Field has removed (value, average, ...): either such a label is refused when
    the field is made, or the component is reachable under it like any other."""
    rng = ctx.rng
    spec = _spec(ctx)
    mesh = spec.mesh()
    n = tuple(int(k) for k in spec.n)
    nvdim = int(rng.integers(2, 5)) if rng.random() < 0.5 else spec.nd
    arr = gen.rand_values(rng, (*n, nvdim), "float")
    info = {"ndim": spec.nd, "nvdim": nvdim, "n": spec.n}
    if nvdim > 1:
        ok, f = ctx.expect_ok("C02.accepted.array",
                              lambda: df.Field(mesh, nvdim=nvdim, value=arr, vdims=[]),
                              what=dict(info, vdims=[]))
        if ok:
            ctx.check("C02.value.array", np.array_equal(f.array, arr) and f.vdims is None,
                      vdims_given=[], got_vdims=f.vdims, **info)
    removed = gen.pick(rng, ["value", "average", "integral", "project", "write"])
    labels = [removed] + ["b", "c", "d", "e"][: nvdim - 1]
    try:
        g = df.Field(mesh, nvdim=nvdim, value=arr, vdims=labels)
    except Exception:  # noqa: BLE001 - refusing the label is fine
        ctx.event("label_of_removed_attribute.refused")
        return
    ctx.event("label_of_removed_attribute.accepted")
    okc, comp = ctx.expect_ok("C02.component.accepted", lambda: getattr(g, removed),
                              what=dict(info, labels=labels))
    if okc:
        ctx.check("C02.component.column", isinstance(comp, df.Field) and np.array_equal(comp.array[..., 0], arr[..., 0]),
                  labels=labels, **info)


def run_case(ctx, i):
    kind = i % 5
    if kind == 0:
        basic(ctx)
        if ctx.rng.random() < 0.15:
            label_forms(ctx)
    elif kind == 1:
        dictionary(ctx)
    elif kind == 2:
        source_field(ctx)
    elif kind == 3:
        line(ctx)
    else:
        rejections(ctx)
