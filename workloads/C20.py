"""C20 - matplotlib plots draw the field's own numbers at their physical coordinates."""

META = {
    "property": "C20",
    "level": "exploration",
    "rule": (
        "case i of seed s is generated from default_rng([s, i]); i%7 selects the plot kind "
        "(0: scalar image, 1: vector arrows, 2: contour, 3: lightness image, 4: the combined "
        "field.mpl() call, 5: refusals, 6: vector again). Axes.imshow / quiver / contour are "
        "wrapped by a passive spy that records what the library hands to matplotlib for the "
        "axes given by the check. Every case draws a random 2-d mesh (1-7 cells per axis, "
        "anisotropic cells, scale nm..km, random names/units), a random validity mask, "
        "default or explicit multiplier, no / same-mesh / other-resolution filter or colour "
        "field, custom labels and permuted component-to-axis mapping. Signature = (kind, "
        "nvdim, mask, filter class, multiplier class, mapping class, decade of cell); a case "
        "is non-trivial when the mesh has >= 2 cells along both axes and some cell is drawn."
    ),
    "cases": {"quick": 560, "thorough": 12600},
    "workers": {"quick": 8, "thorough": 16},
    "timeout": {"quick": 600, "thorough": 5400},
    "deciding": [
        "C20.scalar.image",
        "C20.scalar.origin",
        "C20.scalar.extent",
        "C20.vector.positions",
        "C20.vector.components",
        "C20.vector.colour",
        "C20.contour.values",
        "C20.contour.positions",
        "C20.lightness.alpha",
        "C20.lightness.hue",
        "C20.axis_labels",
        "C20.field_unchanged",
        "C20.refused",
    ],
    "ambient": {"quick": [], "thorough": []},
    "anchor_files": ["discretisedfield/plotting/mpl_field.py", "discretisedfield/plotting/util.py",
                     "discretisedfield/plotting/mpl.py"],
    "assumptions": [
        "observation point is the argument list of Axes.imshow/quiver/contour on the axes "
        "handed to the plot method (what matplotlib then rasterises is matplotlib's business)",
        "default multiplier: the SI prefix is read back from the x-axis label and the numbers "
        "are required to be consistent with it (the statement does not say which multiplier "
        "is chosen)",
        "filter / colour / lightness fields of another resolution use an odd number of cells "
        "on the same region, so no cell centre of the plotted field lies on a face of theirs "
        "(rule R3); their value at a cell is that of the cell containing the centre",
        "an invalid cell under an explicitly passed, non-zero filter field is judged by its "
        "own monitor (C20.invalid_hidden_under_filter), not by the image monitors",
        "colour handed to quiver is compared on valid cells only; lightness: hue, transparency "
        "and monotone-affine lightness are judged, not the normalisation constants",
    ],
}

import colorsys  # noqa: E402

import matplotlib  # noqa: E402

matplotlib.use("Agg")
import matplotlib.axes  # noqa: E402
import matplotlib.pyplot as plt  # noqa: E402
import numpy as np  # noqa: E402

import discretisedfield as df  # noqa: E402
from dfmon.core import close, digest, maxdiff  # noqa: E402
from workloads import gen  # noqa: E402

EPS = np.finfo(float).eps

# ----------------------------------------------------------------------- the spy
CALLS = []


def _snap(x):
    if isinstance(x, np.ndarray):
        return x.copy()
    if isinstance(x, (list, tuple)):
        return type(x)(_snap(v) for v in x)
    return x


def _install_spy():
    for name in ("imshow", "quiver", "contour"):
        orig = getattr(matplotlib.axes.Axes, name)
        if getattr(orig, "_dfmon_spy", False):
            continue

        def wrapper(self, *args, __orig=orig, __name=name, **kwargs):
            try:
                CALLS.append((__name, self, tuple(_snap(a) for a in args),
                              {k: _snap(v) for k, v in kwargs.items()}))
            except Exception:  # noqa: BLE001 - passive
                pass
            return __orig(self, *args, **kwargs)

        wrapper._dfmon_spy = True
        wrapper.__name__ = name
        setattr(matplotlib.axes.Axes, name, wrapper)


_install_spy()


def calls_on(ax, name):
    return [c for c in CALLS if c[0] == name and c[1] is ax]


# --------------------------------------------------------------------- generators
SI = {"y": 1e-24, "z": 1e-21, "a": 1e-18, "f": 1e-15, "p": 1e-12, "n": 1e-9, "u": 1e-6,
      "µ": 1e-6, "μ": 1e-6, "m": 1e-3, "": 1.0, "k": 1e3, "M": 1e6, "G": 1e9,
      "T": 1e12, "P": 1e15, "E": 1e18, "Z": 1e21, "Y": 1e24}
PREFIX = {1e-12: ["p"], 1e-9: ["n"], 1e-6: ["u", "µ", "μ"], 1e-3: ["m"], 1.0: [""],
          1e3: ["k"], 1e6: ["M"]}


class Case:
    """A random 2-d mesh with generator-side data."""

    def __init__(self, rng, n_min=1, n_max=7):
        self.rng = rng
        self.n = rng.integers(n_min, n_max + 1, 2)
        self.decade = int(rng.integers(-9, 4))
        self.cell = 10.0 ** self.decade * rng.uniform(0.5, 5.0, 2)
        r = rng.random()
        if r < 0.25:
            self.pmin = np.zeros(2)
        elif r < 0.5:
            self.pmin = -rng.uniform(0.1, 0.9, 2) * self.cell * self.n
        else:
            self.pmin = rng.uniform(-3, 3, 2) * self.cell * self.n
        self.pmax = self.pmin + self.cell * self.n
        self.dims = gen.pick(rng, [None, None, ["a", "b"], ["y", "x"], ["rho", "phi_2"], ["p", "q"]])
        self.units = gen.pick(rng, [None, None, ["m", "m"], ["m", "s"], ["K", "T"]])
        self.dnames = self.dims or ["x", "y"]
        self.unames = self.units or ["m", "m"]
        self.region = df.Region(p1=self.pmin.tolist(), p2=self.pmax.tolist(), dims=self.dims,
                                units=self.units)
        self.mesh = df.Mesh(region=self.region, n=[int(k) for k in self.n])
        self.masked = rng.random() < 0.6
        self.valid = (rng.random(tuple(self.n)) > rng.uniform(0.1, 0.5)) if self.masked \
            else np.ones(tuple(self.n), bool)
        self.centres = [self.pmin[k] + (np.arange(self.n[k]) + 0.5) * self.cell[k] for k in range(2)]
        # multiplier: default or explicit
        if rng.random() < 0.5:
            self.multiplier = None
        else:
            self.multiplier = float(gen.pick(rng, [1e-9, 1e-6, 1e-3, 1.0, 1e3, 1e6]))

    def describe(self):
        return {"n": self.n, "cell": self.cell, "pmin": self.pmin, "dims": self.dnames,
                "units": self.unames, "masked": self.masked, "multiplier": self.multiplier}

    def aux_field(self, values_fn, kind):
        """Scalar helper field (filter / colour / lightness) on the same region.

        kind 'same': the plotted mesh; 'other': odd cell counts of its own.
        Returns (field, values seen by each cell of the plotted mesh)."""
        rng = self.rng
        if kind == "same":
            m = self.mesh
            nn = self.n
        else:
            nn = np.array([int(rng.choice([1, 3, 5, 7, 9])) for _ in range(2)])
            m = df.Mesh(region=self.region, n=[int(k) for k in nn])
        vals = values_fn(tuple(nn))
        f = df.Field(m, nvdim=1, value=vals[..., None])
        # value at the plotted cells: the helper cell that contains each centre
        ix = [np.floor((np.arange(self.n[k]) + 0.5) / self.n[k] * nn[k]).astype(int) for k in range(2)]
        seen = vals[np.ix_(ix[0], ix[1])]
        return f, seen

    def filter(self, rng):
        """(kind, filter field or None, hidden-by-filter mask)."""
        kind = gen.pick(rng, ["none", "none", "same", "other"])
        if kind == "none":
            return kind, None, np.zeros(tuple(self.n), bool)

        def vals(shape):
            v = rng.normal(size=shape) * 10.0 ** rng.uniform(-15, 6)  # SI-scale filters (nm thickness ...)
            v[rng.random(shape) < 0.35] = 0.0
            return v

        f, seen = self.aux_field(vals, kind)
        return kind, f, seen == 0


def mult_and_labels(ctx, case, ax, info):
    """Check the axis labels; return the multiplier the numbers must be consistent with."""
    xl, yl = ax.get_xlabel(), ax.get_ylabel()
    d, u = case.dnames, case.unames
    m = case.multiplier
    if m is not None:
        ok = any(xl == f"{d[0]} ({p}{u[0]})" and yl == f"{d[1]} ({p}{u[1]})" for p in PREFIX[m])
        ctx.check("C20.axis_labels", ok, xlabel=xl, ylabel=yl, expected=f"{d[0]} ({PREFIX[m][0]}{u[0]})",
                  **info)
        return m
    # default multiplier: read the prefix back from the label
    pre, suf = f"{d[0]} (", f"{u[0]})"
    prefix = xl[len(pre):len(xl) - len(suf)] if xl.startswith(pre) and xl.endswith(suf) else None
    ok = prefix in SI and yl == f"{d[1]} ({prefix}{u[1]})"
    ctx.check("C20.axis_labels", ok, xlabel=xl, ylabel=yl, note="default multiplier", **info)
    return SI[prefix] if ok else None


def coords_close(got, expected, scale):
    got = np.asarray(got, dtype=float)
    expected = np.asarray(expected, dtype=float)
    return got.shape == expected.shape and bool(np.all(np.abs(got - expected) <= 1e-12 * scale))


def same_where(got, expected, where):
    """Exact equality on ``where``; NaN == NaN."""
    got = np.asarray(got)
    if got.shape != expected.shape:
        return False
    g, e = got[where], expected[where]
    return bool(np.all((g == e) | (np.isnan(g) & np.isnan(e))))


def check_hidden(ctx, case, got, hidden_sure, contested, drawn_vals, info, mon):
    """got: array as handed to matplotlib (already transposed back to (n0, n1))."""
    expected = np.where(hidden_sure, np.nan, drawn_vals)
    ok = same_where(got, expected, ~contested)
    ctx.check(mon, ok, got=got, expected=expected, **info)
    if contested.any():
        g = np.asarray(got)
        ctx.check("C20.invalid_hidden_under_filter",
                  g.shape == expected.shape and bool(np.all(np.isnan(g[contested].astype(float)))),
                  note="invalid cell drawn because an explicit filter field is non-zero there",
                  cells=int(contested.sum()), **info)


def extent_check(ctx, case, kw, m, info, mon):
    scale = max(np.max(np.abs(case.pmin)), np.max(np.abs(case.pmax))) / m
    exp = [case.pmin[0] / m, case.pmax[0] / m, case.pmin[1] / m, case.pmax[1] / m]
    ext = kw.get("extent")
    ctx.check(mon, ext is not None and coords_close(list(ext), exp, scale), got=ext, expected=exp,
              **info)


def origin_ok(kw):
    return kw.get("origin", matplotlib.rcParams["image.origin"]) == "lower"


class Unchanged:
    def __init__(self, ctx, field, aux=(), info=None):
        self.ctx, self.field, self.aux, self.info = ctx, field, list(aux), info or {}
        self.d = digest(field)
        self.dm = digest(field.mesh)
        self.da = [digest(a) for a in self.aux]

    def verify(self):
        self.ctx.check("C20.field_unchanged",
                       digest(self.field) == self.d and digest(self.field.mesh) == self.dm,
                       note="plotting modified the field / mesh / validity", **self.info)
        for a, d, in zip(self.aux, self.da):
            self.ctx.check("C20.aux_field_unchanged", digest(a) == d,
                           note="plotting modified a filter / colour / lightness field passed to it",
                           **self.info)


def finish(ctx, case, kind, extra, drawn):
    plt.close("all")
    CALLS.clear()
    if ctx.i < 16:
        ctx.sample({"case": ctx.i, "plot": kind, "class": [str(e) for e in extra], **case.describe()})
    ctx.sig((kind, *extra, case.masked, case.multiplier is None, case.decade),
            nontrivial=bool(np.all(case.n >= 2) and drawn))


# ------------------------------------------------------------------------ kinds
def scalar_large(ctx):
    """A plane of more than 2**20 cells: matplotlib is still handed exactly the field's
    numbers (all 15-17 significant digits of them), at the cell centres."""
    rng = ctx.rng
    n = (int(rng.choice([1031, 1033, 1039])), int(rng.choice([1021, 1019, 1024])))
    cell = 10.0 ** rng.uniform(-9, -3) * rng.uniform(0.5, 2, 2)
    pmin = rng.uniform(-1, 1, 2) * cell * n
    mesh = df.Mesh(p1=pmin.tolist(), p2=(pmin + cell * n).tolist(), n=n)
    vals = rng.normal(size=n) * 10.0 ** rng.uniform(-3, 9) + 10.0 ** rng.uniform(3, 7)
    valid = rng.random(n) < 0.97
    f = df.Field(mesh, nvdim=1, value=vals[..., None], valid=valid)
    info = {"plot": "scalar", "part": "large", "n": n, "cells": int(np.prod(n))}
    ctx.sig(("scalar", "large"), nontrivial=True)
    ctx.event("large_meshes")
    fig, ax = plt.subplots()
    CALLS.clear()
    okc, _ = ctx.expect_ok("C20.accepted", lambda: f.mpl.scalar(ax=ax, colorbar=False), what=info)
    if not okc:
        return
    cs = calls_on(ax, "imshow")
    ctx.check("C20.scalar.one_image", len(cs) == 1, calls=len(cs), **info)
    if cs:
        _, _, args, ckw = cs[0]
        img = np.asarray(args[0] if args else ckw.get("X"))
        got = np.asarray(img, dtype=float).T
        same = got.shape == vals.shape and bool(np.array_equal(got[valid], vals[valid]))
        w = {}
        if got.shape == vals.shape and not same:
            bad = np.argwhere(valid & (got != vals))
            w = {"wrong_cells": int(len(bad)), "got": got[tuple(bad[0])], "field_value": vals[tuple(bad[0])],
                 "image_dtype": str(img.dtype)}
        ctx.check("C20.scalar.image", same, got_shape=got.shape, **w, **info)
        ctx.check("C20.scalar.image", got.shape == vals.shape and bool(np.all(np.isnan(got[~valid]))),
                  note="invalid cells of a large plane are hidden", **info)


def used_axes(rng):
    """New axes - or, in a third of the cases, axes that already carry an earlier plot of
    another field (other dimension names, units, length scale, multiplier): what a plot
    call shows is decided by the field it is called on, not by what the axes showed before."""
    fig, ax = plt.subplots()
    if rng.random() < 0.33:
        try:
            other = Case(rng)
            g = df.Field(other.mesh, nvdim=1, value=rng.normal(size=(*other.n, 1)))
            kw = {} if other.multiplier is None else {"multiplier": other.multiplier}
            g.mpl.scalar(ax=ax, colorbar=False, **kw)
        except Exception:  # noqa: BLE001 - the earlier plot is not under test
            pass
    return fig, ax


def scalar(ctx):
    rng = ctx.rng
    case = Case(rng)
    vals = rng.normal(size=tuple(case.n)) * 10.0 ** rng.uniform(-15, 9)
    kwd = {}
    dt = gen.pick(rng, ["float"] * 5 + ["int", "int32", "bool"])
    if dt != "float":
        # whole numbers / flags in an integer- or Boolean-typed field (a material index, a mask)
        vals = rng.integers(-5, 6, tuple(case.n)).astype(float) if dt != "bool" \
            else (rng.random(tuple(case.n)) < 0.5).astype(float)
        kwd["dtype"] = {"int": int, "int32": np.int32, "bool": bool}[dt]
    f = gen.via_history(None, df.Field(case.mesh, nvdim=1, value=vals[..., None], valid=case.valid.copy(),
                 unit=gen.pick(rng, [None, "A/m"]), **kwd))
    fkind, ff, fhid = case.filter(rng)
    info = {"plot": "scalar", "filter": fkind, "dtype": dt, **case.describe()}
    guard = Unchanged(ctx, f, [ff] if ff is not None else [], info)
    fig, ax = used_axes(rng)
    CALLS.clear()
    kw = {}
    if ff is not None:
        kw["filter_field"] = ff
    if case.multiplier is not None:
        kw["multiplier"] = case.multiplier
    if rng.random() < 0.3:
        kw["colorbar"] = False
    if rng.random() < 0.2:
        kw["cmap"] = "plasma"
    f.mpl.scalar(ax=ax, **kw)
    guard.verify()
    m = mult_and_labels(ctx, case, ax, info)
    cs = calls_on(ax, "imshow")
    ctx.check("C20.scalar.one_image", len(cs) == 1, calls=len(cs), **info)
    drawn = False
    if cs:
        _, _, args, ckw = cs[0]
        img = np.asarray(args[0], dtype=float) if args else np.asarray(ckw.get("X"), dtype=float)
        if ff is None:
            hidden_sure, contested = ~case.valid, np.zeros_like(case.valid)
        else:
            hidden_sure, contested = fhid, (~case.valid) & (~fhid)
        got = img.T if img.ndim == 2 else img
        check_hidden(ctx, case, got, hidden_sure, contested, vals, info, "C20.scalar.image")
        ctx.check("C20.scalar.origin", origin_ok(ckw), origin=ckw.get("origin"), **info)
        if m is not None:
            extent_check(ctx, case, ckw, m, info, "C20.scalar.extent")
        if "cmap" in kw:
            ctx.check("C20.scalar.kwargs_passed", ckw.get("cmap") == "plasma", got=ckw.get("cmap"))
        drawn = bool((~hidden_sure).any())
    finish(ctx, case, "scalar", (fkind,), drawn)


def make_vector(rng, case, nvdim):
    """Vector field with custom labels and permuted mapping.

    Returns (field, array, labels, ix, iy, iother): component indices along axis 0 / 1."""
    n = tuple(case.n)
    arr = rng.normal(size=(*n, nvdim)) * 10.0 ** rng.uniform(-15, 9)
    kwd = {}
    if rng.random() < 0.2:  # whole numbers in an integer-typed vector field
        arr = rng.integers(-5, 6, (*n, nvdim)).astype(float)
        kwd["dtype"] = gen.pick(rng, [int, np.int32])
    pools = {2: [None, ["a", "b"], ["mx", "my"], ["y", "x"]],
             3: [None, ["a", "b", "c"], ["mx", "my", "mz"], ["z", "x", "y"]]}
    vdims = gen.pick(rng, pools[nvdim])
    labels = vdims or ["x", "y", "z"][:nvdim]
    perm = rng.permutation(nvdim)
    ix, iy = int(perm[0]), int(perm[1])
    mapping = {labels[ix]: case.dnames[0], labels[iy]: case.dnames[1]}
    iother = None
    if nvdim == 3:
        iother = int(perm[2])
        mapping[labels[iother]] = gen.pick(rng, [None, "w_out"])
    mapping = gen.shuffle_keys(rng, {lab: mapping[lab] for lab in labels})
    f = gen.via_history(None, df.Field(case.mesh, nvdim=nvdim, value=arr, valid=case.valid.copy(), vdims=vdims,
                 vdim_mapping=mapping, **kwd))
    mclass = "identity" if (ix, iy) == (0, 1) else "permuted"
    return f, arr, labels, ix, iy, iother, mclass


def vector(ctx):
    rng = ctx.rng
    case = Case(rng)
    nvdim = int(rng.choice([2, 3, 3]))
    f, arr, labels, ix, iy, iother, mclass = make_vector(rng, case, nvdim)
    info = {"plot": "vector", "nvdim": nvdim, "vdims": labels, "mapping": dict(f.vdim_mapping),
            **case.describe()}
    mode = gen.pick(rng, ["default", "default", "labels", "labels_none", "colour_field", "no_colour"])
    kw = {}
    exp_x, exp_y = ix, iy
    colour = None          # expected colour per plotted cell (n0, n1) or None
    aux = []
    if mode == "labels":
        # explicit labels override the mapping: any two different components
        p = rng.permutation(nvdim)[:2]
        exp_x, exp_y = int(p[0]), int(p[1])
        kw["vdims"] = [labels[exp_x], labels[exp_y]]
    elif mode == "labels_none":
        which = int(rng.integers(0, 2))
        j = int(rng.integers(0, nvdim))
        kw["vdims"] = [None, labels[j]] if which == 0 else [labels[j], None]
        exp_x, exp_y = (None, j) if which == 0 else (j, None)
        kw["use_color"] = False
    if mode == "colour_field":
        ckind = gen.pick(rng, ["same", "other"])
        cf, colour = case.aux_field(lambda shape: rng.normal(size=shape) * 10.0 ** rng.uniform(-12, 6),
                                    ckind)
        kw["color_field"] = cf
        aux.append(cf)
        info["colour_field"] = ckind
    elif mode == "no_colour":
        kw["use_color"] = False
    elif nvdim == 3 and kw.get("use_color", True):
        rest = [k for k in range(3) if k not in (exp_x, exp_y)]
        colour = arr[..., rest[0]]
    if case.multiplier is not None:
        kw["multiplier"] = case.multiplier
    if rng.random() < 0.3:
        kw["colorbar"] = False
    info["mode"] = mode
    plot = None
    if rng.random() < 0.25:
        # history: one plotting accessor (p = field.mpl) is kept while the field's
        # component-to-axis mapping is changed: it was used once with the two in-plane axes
        # exchanged, then the mapping under test is assigned and the same accessor plots again
        final = dict(f.vdim_mapping)
        swapped = dict(final)
        swapped[labels[ix]], swapped[labels[iy]] = final[labels[iy]], final[labels[ix]]
        acc = f.mpl
        try:
            f.vdim_mapping = swapped
            _, ax0 = plt.subplots()
            acc.vector(ax=ax0, use_color=False, colorbar=False)
            f.vdim_mapping = final
            plot = acc.vector
            info["accessor_kept_across_mapping_change"] = True
        except Exception:  # noqa: BLE001 - the earlier plot is not under test
            f.vdim_mapping = final
    guard = Unchanged(ctx, f, aux, info)
    fig, ax = used_axes(rng)
    CALLS.clear()
    (plot or f.mpl.vector)(ax=ax, **kw)
    guard.verify()
    m = mult_and_labels(ctx, case, ax, info)
    cs = calls_on(ax, "quiver")
    ctx.check("C20.vector.one_quiver", len(cs) == 1, calls=len(cs), **info)
    if cs:
        _, _, args, ckw = cs[0]
        ok_len = len(args) in (4, 5)
        ctx.check("C20.vector.arguments", ok_len, nargs=len(args), **info)
        if ok_len:
            X, Y, U, V = args[:4]
            if m is not None:
                scale = max(np.max(np.abs(case.pmin)), np.max(np.abs(case.pmax))) / m
                okp = True
                for got, k in ((X, 0), (Y, 1)):
                    got = np.asarray(got, dtype=float)
                    exp = case.centres[k] / m
                    if got.ndim == 2:   # a full grid is as good as the two axes
                        exp = np.meshgrid(case.centres[0] / m, case.centres[1] / m)[k]
                    okp = okp and coords_close(got, exp, scale)
                ctx.check("C20.vector.positions", okp, X=X, Y=Y,
                          expected_x=case.centres[0] / m, expected_y=case.centres[1] / m, **info)
            zeros = np.zeros(tuple(case.n))
            eu = zeros if exp_x is None else np.where(case.valid, arr[..., exp_x], np.nan)
            ev = zeros if exp_y is None else np.where(case.valid, arr[..., exp_y], np.nan)
            everywhere = np.ones(tuple(case.n), bool)
            ok = (np.asarray(U).ndim == 2 and np.asarray(V).ndim == 2
                  and same_where(np.asarray(U, dtype=float).T, eu, everywhere)
                  and same_where(np.asarray(V, dtype=float).T, ev, everywhere))
            ctx.check("C20.vector.components", ok, U=U, V=V, expected_U=eu.T, expected_V=ev.T,
                      x_component=None if exp_x is None else labels[exp_x],
                      y_component=None if exp_y is None else labels[exp_y], **info)
            if colour is not None:
                okc = len(args) == 5 and np.asarray(args[4]).ndim == 2 and same_where(
                    np.asarray(args[4], dtype=float).T, colour, case.valid)
                ctx.check("C20.vector.colour", okc, got=args[4] if len(args) == 5 else None,
                          expected=colour.T, **info)
            else:
                ctx.check("C20.vector.no_colour", len(args) == 4, nargs=len(args), **info)
    finish(ctx, case, "vector", (nvdim, mode, mclass), bool(case.valid.any()))


def contour(ctx):
    rng = ctx.rng
    case = Case(rng, n_min=2)
    # smooth-ish values so that contouring has something to do
    g = np.meshgrid(np.linspace(0, 1, case.n[0]), np.linspace(0, 1, case.n[1]), indexing="ij")
    vals = (np.sin(3 * g[0] + rng.uniform(0, 6)) + np.cos(2 * g[1] + rng.uniform(0, 6))
            + 0.3 * rng.normal(size=tuple(case.n))) * 10.0 ** rng.uniform(-15, 9)
    if not case.valid.any():
        case.valid[0, 0] = True
    f = gen.via_history(None, df.Field(case.mesh, nvdim=1, value=vals[..., None], valid=case.valid.copy()))
    fkind, ff, fhid = case.filter(rng)
    info = {"plot": "contour", "filter": fkind, **case.describe()}
    guard = Unchanged(ctx, f, [ff] if ff is not None else [], info)
    fig, ax = used_axes(rng)
    CALLS.clear()
    kw = {}
    if ff is not None:
        kw["filter_field"] = ff
    if case.multiplier is not None:
        kw["multiplier"] = case.multiplier
    if rng.random() < 0.3:
        kw["colorbar"] = False
    okc, _ = ctx.expect_ok("C20.contour.accepted", lambda: f.mpl.contour(ax=ax, **kw), what=info)
    guard.verify()
    drawn = False
    if okc:
        m = mult_and_labels(ctx, case, ax, info)
        cs = calls_on(ax, "contour")
        ctx.check("C20.contour.one_call", len(cs) == 1, calls=len(cs), **info)
        if cs and len(cs[0][2]) >= 3:
            X, Y, Z = cs[0][2][:3]
            if ff is None:
                hidden_sure, contested = ~case.valid, np.zeros_like(case.valid)
            else:
                hidden_sure, contested = fhid, (~case.valid) & (~fhid)
            Z = np.asarray(Z, dtype=float)
            check_hidden(ctx, case, Z.T if Z.ndim == 2 else Z, hidden_sure, contested, vals, info,
                         "C20.contour.values")
            if m is not None:
                scale = max(np.max(np.abs(case.pmin)), np.max(np.abs(case.pmax))) / m
                okp = True
                for got, k in ((X, 0), (Y, 1)):
                    got = np.asarray(got, dtype=float)
                    exp = case.centres[k] / m
                    if got.ndim == 2:
                        exp = np.meshgrid(case.centres[0] / m, case.centres[1] / m)[k]
                    okp = okp and coords_close(got, exp, scale)
                ctx.check("C20.contour.positions", okp, X=X, Y=Y, **info)
            drawn = bool((~hidden_sure).any())
    finish(ctx, case, "contour", (fkind,), drawn)


def lightness(ctx):
    rng = ctx.rng
    case = Case(rng)
    nvdim = int(rng.choice([1, 2, 3, 3]))
    n = tuple(case.n)
    info = {"plot": "lightness", "nvdim": nvdim, **case.describe()}
    if nvdim == 1:
        arr = rng.uniform(0.05, 2 * np.pi - 0.05, size=(*n, 1))
        f = gen.via_history(None, df.Field(case.mesh, nvdim=1, value=arr, valid=case.valid.copy()))
        angle = arr[..., 0]
        light = np.abs(arr[..., 0])
        mclass = None
    else:
        f, arr, labels, ix, iy, iother, mclass = make_vector(rng, case, nvdim)
        angle = np.mod(np.arctan2(arr[..., iy], arr[..., ix]), 2 * np.pi)
        if nvdim == 2 and rng.random() < 0.25:
            # a partial mapping: only one of the two components points along a plane axis
            # (the other one out of the plane); the in-plane angle is that of (u, 0) or (0, v)
            mp = dict(f.vdim_mapping)
            if rng.random() < 0.5:
                mp[labels[iy]] = None
                angle = np.mod(np.arctan2(0 * arr[..., ix], arr[..., ix]), 2 * np.pi)
            else:
                mp[labels[ix]] = None
                angle = np.mod(np.arctan2(arr[..., iy], 0 * arr[..., iy]), 2 * np.pi)
            f.vdim_mapping = mp
            info["partial_mapping"] = True
        light = arr[..., iother] if nvdim == 3 else np.linalg.norm(arr, axis=-1)
        info.update(vdims=labels, mapping=dict(f.vdim_mapping))
    fkind, ff, fhid = case.filter(rng)
    aux = [ff] if ff is not None else []
    kw = {"colorwheel": bool(rng.random() < 0.15)}
    lkind = gen.pick(rng, ["default", "default", "same", "other"])
    if lkind != "default":
        lf, light = case.aux_field(lambda shape: rng.normal(size=shape) * 10.0 ** rng.uniform(-12, 6),
                                   lkind)
        kw["lightness_field"] = lf
        aux.append(lf)
    if ff is not None:
        kw["filter_field"] = ff
    if case.multiplier is not None:
        kw["multiplier"] = case.multiplier
    if rng.random() < 0.25:
        lo = rng.uniform(0.0, 0.4)
        kw["clim"] = (lo, lo + rng.uniform(0.3, 0.6))
    info.update(filter=fkind, lightness_field=lkind, clim=kw.get("clim"))
    guard = Unchanged(ctx, f, aux, info)
    fig, ax = plt.subplots()
    CALLS.clear()
    info["single_cell_axis"] = bool(np.any(case.n == 1))
    okc, _ = ctx.expect_ok("C20.lightness.accepted", lambda: f.mpl.lightness(ax=ax, **kw), what=info)
    guard.verify()
    drawn = False
    cs = []
    if okc:
        m = mult_and_labels(ctx, case, ax, info)
        cs = calls_on(ax, "imshow")
        ctx.check("C20.lightness.one_image", len(cs) == 1, calls=len(cs), **info)
    if cs:
        _, _, args, ckw = cs[0]
        img = np.asarray(args[0], dtype=float)
        ok_shape = img.shape == (n[1], n[0], 4)
        ctx.check("C20.lightness.image_shape", ok_shape, got=img.shape, expected=(n[1], n[0], 4), **info)
        ctx.check("C20.scalar.origin", origin_ok(ckw), origin=ckw.get("origin"), plot_kind="lightness",
                  **info)
        if m is not None:
            extent_check(ctx, case, ckw, m, info, "C20.scalar.extent")
        if ok_shape:
            rgba = np.transpose(img, (1, 0, 2))
            if ff is None:
                hidden_sure, contested = ~case.valid, np.zeros_like(case.valid)
            else:
                hidden_sure, contested = fhid, (~case.valid) & (~fhid)
            shown = ~hidden_sure & ~contested
            alpha = rgba[..., 3]
            ctx.check("C20.lightness.alpha",
                      bool(np.all(alpha[hidden_sure] == 0) and np.all(alpha[shown] == 1)),
                      alpha=alpha, hidden=hidden_sure, **info)
            if contested.any():
                ctx.check("C20.invalid_hidden_under_filter", bool(np.all(alpha[contested] == 0)),
                          note="invalid cell drawn because an explicit filter field is non-zero there",
                          cells=int(contested.sum()), **info)
            # hue of every drawn pixel == in-plane angle / 2 pi at the pixel's own lightness
            okh, worst, lobs = True, 0.0, np.full(n, np.nan)
            for i, j in zip(*np.nonzero(shown)):
                r, g, b = rgba[i, j, :3]
                li = (max(r, g, b) + min(r, g, b)) / 2
                lobs[i, j] = li
                exp = colorsys.hls_to_rgb(angle[i, j] / (2 * np.pi), li, 1.0)
                dev = max(abs(r - exp[0]), abs(g - exp[1]), abs(b - exp[2]))
                worst = max(worst, dev)
                okh = okh and dev <= 1e-9
            ctx.check("C20.lightness.hue", okh, worst_rgb_deviation=worst, **info)
            # lightness of the pixels is an increasing affine function of the lightness values
            idx = np.nonzero(shown)
            if len(idx[0]) >= 3:
                L, l = light[idx], lobs[idx]
                a, b = int(np.argmin(L)), int(np.argmax(L))
                if L[b] - L[a] > 1e-6 * max(abs(L[a]), abs(L[b])):
                    slope = (l[b] - l[a]) / (L[b] - L[a])
                    fit = l[a] + slope * (L - L[a])
                    ctx.check("C20.lightness.monotone_affine",
                              slope > 0 and bool(np.all(np.abs(fit - l) <= 1e-9)),
                              slope=slope, maxdev=float(np.max(np.abs(fit - l))), **info)
            drawn = bool(shown.any())
    finish(ctx, case, "lightness", (nvdim, fkind, lkind, mclass), drawn)


def combined(ctx):
    """field.mpl(): image of the out-of-plane component (or the scalar) + uncoloured arrows."""
    rng = ctx.rng
    case = Case(rng)
    nvdim = int(rng.choice([1, 2, 3, 3]))
    info = {"plot": "mpl()", "nvdim": nvdim, **case.describe()}
    if nvdim == 1:
        vals = rng.normal(size=tuple(case.n))
        f = gen.via_history(None, df.Field(case.mesh, nvdim=1, value=vals[..., None], valid=case.valid.copy()))
        mclass = None
    else:
        f, arr, labels, ix, iy, iother, mclass = make_vector(rng, case, nvdim)
        vals = arr[..., iother] if nvdim == 3 else None
        info.update(vdims=labels, mapping=dict(f.vdim_mapping))
    guard = Unchanged(ctx, f, [], info)
    fig, ax = plt.subplots()
    CALLS.clear()
    kw = {} if case.multiplier is None else {"multiplier": case.multiplier}
    # keyword dictionaries for the two sub-plots, as a user who plots several fields in the
    # same style keeps them (they are handed over again further down)
    skw = gen.pick(rng, [None, {"colorbar": False}, {"colorbar": False, "cmap": "viridis"}])
    vkw = gen.pick(rng, [None, {"colorbar": False}])
    skw0, vkw0 = (None if skw is None else dict(skw)), (None if vkw is None else dict(vkw))
    if skw is not None:
        kw["scalar_kw"] = skw
    if vkw is not None:
        kw["vector_kw"] = vkw
    f.mpl(ax=ax, **kw)
    guard.verify()
    if not (skw == skw0 and vkw == vkw0):
        # not a claim of the statement by itself (observed, not judged); what matters is
        # whether the next plot with these dictionaries still draws the right cells
        ctx.event("combined.caller_kw_modified_by_plot_call")
    m = mult_and_labels(ctx, case, ax, info)
    ims, qs = calls_on(ax, "imshow"), calls_on(ax, "quiver")
    ctx.check("C20.combined.calls", len(ims) == (0 if nvdim == 2 else 1)
              and len(qs) == (0 if nvdim == 1 else 1), images=len(ims), quivers=len(qs), **info)
    none = np.zeros_like(case.valid)
    if ims and vals is not None:
        img = np.asarray(ims[0][2][0], dtype=float)
        check_hidden(ctx, case, img.T if img.ndim == 2 else img, ~case.valid, none, vals, info,
                     "C20.scalar.image")
        ctx.check("C20.scalar.origin", origin_ok(ims[0][3]), origin=ims[0][3].get("origin"), **info)
        if m is not None:
            extent_check(ctx, case, ims[0][3], m, info, "C20.scalar.extent")
    if qs and len(qs[0][2]) >= 4:
        X, Y, U, V = qs[0][2][:4]
        eu = np.where(case.valid, arr[..., ix], np.nan)
        ev = np.where(case.valid, arr[..., iy], np.nan)
        everywhere = np.ones(tuple(case.n), bool)
        ok = (np.asarray(U).ndim == 2 and same_where(np.asarray(U, dtype=float).T, eu, everywhere)
              and same_where(np.asarray(V, dtype=float).T, ev, everywhere))
        ctx.check("C20.vector.components", ok, U=U, V=V, expected_U=eu.T, expected_V=ev.T, **info)
        if m is not None:
            scale = max(np.max(np.abs(case.pmin)), np.max(np.abs(case.pmax))) / m
            ctx.check("C20.vector.positions",
                      coords_close(X, case.centres[0] / m, scale)
                      and coords_close(Y, case.centres[1] / m, scale), X=X, Y=Y, **info)
    if vals is not None and ims and rng.random() < 0.6:
        # history: the validity changes (setter or in place) and the field is drawn again on
        # fresh axes with the very same keyword dictionaries: the cells hidden now are the
        # ones that are invalid now
        new_valid = rng.random(tuple(case.n)) > rng.uniform(0.2, 0.6)
        if rng.random() < 0.5:
            f.valid = new_valid
        else:
            f.valid[...] = new_valid
        fig2, ax2 = plt.subplots()
        CALLS.clear()
        f.mpl(ax=ax2, **kw)
        ims2 = calls_on(ax2, "imshow")
        if ims2:
            img2 = np.asarray(ims2[0][2][0], dtype=float)
            old_valid, case.valid = case.valid, new_valid
            check_hidden(ctx, case, img2.T if img2.ndim == 2 else img2, ~new_valid, none, vals,
                         dict(info, second_plot_after_validity_change=True), "C20.scalar.image")
            case.valid = old_valid
        ctx.event("combined.replotted_after_validity_change")
    finish(ctx, case, "combined", (nvdim, mclass), bool(case.valid.any()))


def refusals(ctx):
    rng = ctx.rng
    case = Case(rng, n_min=2)
    n = tuple(case.n)

    def fld(nv, mesh=None, **kw):
        mesh = case.mesh if mesh is None else mesh
        return df.Field(mesh, nvdim=nv, value=rng.normal(size=(*mesh.n, nv)), **kw)

    def refuse(why, field, fn):
        fig, ax = plt.subplots()
        ctx.expect_raises("C20.refused", lambda: fn(field, ax), unchanged=[field],
                          what={"why": why, "nvdim": field.nvdim, "ndim": field.mesh.region.ndim})
        plt.close(fig)

    m1 = df.Mesh(p1=0.0, p2=float(case.cell[0] * 3), n=3)
    m3 = df.Mesh(p1=(0.0, 0.0, 0.0), p2=tuple((case.cell[0] * np.array([2, 3, 2])).tolist()), n=(2, 3, 2))
    m4 = df.Mesh(p1=(0.0,) * 4, p2=(1.0, 1.0, 1.0, 1.0), n=(2, 2, 2, 2))
    # wrong spatial dimension: every plot kind
    for mesh in (m1, m3, m4):
        for nv in (1, 3):
            f = fld(nv, mesh)
            nd = mesh.region.ndim
            refuse(f"ndim={nd} mpl()", f, lambda f, ax: f.mpl(ax=ax))
            if nv == 1:
                refuse(f"ndim={nd} scalar", f, lambda f, ax: f.mpl.scalar(ax=ax))
                refuse(f"ndim={nd} contour", f, lambda f, ax: f.mpl.contour(ax=ax))
            else:
                refuse(f"ndim={nd} vector", f, lambda f, ax: f.mpl.vector(ax=ax))
            refuse(f"ndim={nd} lightness", f, lambda f, ax: f.mpl.lightness(ax=ax, colorwheel=False))
    # wrong component dimension on a 2-d mesh
    for nv in (2, 3, 4):
        refuse(f"scalar nvdim={nv}", fld(nv), lambda f, ax: f.mpl.scalar(ax=ax))
        refuse(f"contour nvdim={nv}", fld(nv), lambda f, ax: f.mpl.contour(ax=ax))
    refuse("vector nvdim=1", fld(1), lambda f, ax: f.mpl.vector(ax=ax))
    refuse("lightness nvdim=4", fld(4), lambda f, ax: f.mpl.lightness(ax=ax, colorwheel=False))
    refuse("mpl() nvdim=4", fld(4), lambda f, ax: f.mpl(ax=ax))
    # helper fields of the wrong component / spatial dimension
    bad_aux = [fld(2), fld(3), fld(1, m3), fld(1, m1)]
    b = bad_aux[int(rng.integers(0, len(bad_aux)))]
    why = f"aux nvdim={b.nvdim} ndim={b.mesh.region.ndim}"
    refuse("scalar filter " + why, fld(1), lambda f, ax: f.mpl.scalar(ax=ax, filter_field=b))
    refuse("contour filter " + why, fld(1), lambda f, ax: f.mpl.contour(ax=ax, filter_field=b))
    v3 = df.Field(case.mesh, nvdim=3, value=rng.normal(size=(*n, 3)),
                  vdim_mapping={"x": case.dnames[0], "y": case.dnames[1], "z": None})
    refuse("vector colour " + why, v3, lambda f, ax: f.mpl.vector(ax=ax, color_field=b))
    # positive controls
    fig, ax = plt.subplots()
    ctx.expect_ok("C20.accepted", lambda: fld(1).mpl.scalar(ax=ax))
    ctx.expect_ok("C20.accepted", lambda: v3.mpl.vector(ax=ax))
    plt.close("all")
    CALLS.clear()
    ctx.sig(("refusals", n), nontrivial=True)


KINDS = (scalar, vector, contour, lightness, combined, refusals, vector)


def run_case(ctx, i):
    try:
        if i % 560 == 283:
            scalar_large(ctx)
        else:
            KINDS[i % 7](ctx)
    finally:
        plt.close("all")
        CALLS.clear()
