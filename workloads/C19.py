"""C19 - topological and demagnetisation tools obey their physical invariances."""

META = {
    "property": "C19",
    "level": "exploration",
    "rule": (
        "case i of seed s is generated from default_rng([s, i]); i%7 selects the kind (4 twice) "
        "(0: both topological-charge methods on a random 2-d texture - smooth modes, "
        "skyrmion-like or rough, random validity mask, anisotropic cells, custom names - "
        "under vector rotation / per-cell rescaling / mesh translation / isotropic and "
        "anisotropic mesh scaling / quarter turns / reversal, and on uniform fields; "
        "1: Berg-Luescher charge of compact textures of winding Q in {+-1,+-2,3} == -Q*polarity; "
        "2: one hedgehog at a random interior point counted along x, y, z, and reversed; "
        "3: neighbouring-cell angles against atan2(|u x v|, u.v) incl. parallel and "
        "antiparallel neighbours, rad and deg, and their maximum; 4: demag tensor trace, "
        "agreement of the two implementations, uniformly magnetised cuboid (whole mesh or "
        "an index box of it) against the sum rule and Aharoni's prism factors, cubic and "
        "non-cubic cells; 5: refusals). Signature = (kind, class parameters such as "
        "texture / mask / winding / cubic cells / cuboid class, decade of cell); a case is "
        "non-trivial when the texture is not uniform (0-3), the mesh has > 1 cell (4) or a "
        "refusal was exercised (5)."
    ),
    "cases": {"quick": 336, "thorough": 2800},
    "workers": {"quick": 8, "thorough": 16},
    "timeout": {"quick": 600, "thorough": 5400},
    "deciding": [
        "C19.charge.vector_rotation",
        "C19.charge.length_rescaling",
        "C19.charge.mesh_translation",
        "C19.charge.mesh_scaling",
        "C19.charge.mesh_scaling_anisotropic",
        "C19.charge.quarter_turn",
        "C19.charge.reversal",
        "C19.charge.uniform_zero",
        "C19.bergluescher.integer", "C19.bergluescher.twice_integer_rough",
        "C19.bloch_point.hedgehog",
        "C19.bloch_point.reversed",
        "C19.angle.value",
        "C19.angle.range",
        "C19.angle.mesh",
        "C19.demag.trace",
        "C19.demag.implementations_agree",
        "C19.demag.sum_rule",
        "C19.demag.aharoni",
        "C19.demag.cube",
        "C19.refused",
    ],
    "ambient": {"quick": [], "thorough": []},
    "anchor_files": ["discretisedfield/tools/tools.py", "discretisedfield/util/util.py"],
    "assumptions": [
        "vector lengths are kept in 1e-3..1e6 (the orientation of vectors shorter than "
        "1e-8 is zero by the library's closeness test: band of C15, rule R3)",
        "trace of the Fourier-space demag tensor: |trace| = 1 and trace = -exp(-2 pi i m.(n-1)/(2n-1)) "
        "for the integer frequency m, i.e. the transform of -delta at the centre cell of the "
        "(2n-1)^3 kernel under the library's first-cell FFT origin (C11); a literal -1 is "
        "not required (rule R5)",
        "Bloch-point counting is judged only where the discrete flux is far from the "
        "rounding threshold: meshes of 8-12 cells per direction, hedgehog centre >= 3.5 "
        "cells from every face and >= 0.05 cell from every cell centre (measured total "
        "flux 0.83-0.99 of 4 pi there; with the centre 2 cells from a face it drops below 0.5)",
        "Berg-Luescher integer: texture radius >= 3.5 + 1.2|Q| of the larger cell edge so "
        "that every lattice triangle maps to less than a hemisphere",
        "neighbour angles are compared at 1e-7 rad absolute (conditioning of arccos at 0 and pi)",
        "max_neighbouring_cell_angle is judged (its value is the maximum over the existing "
        "neighbours) although the statement names only the per-direction angles",
        "demag: default dimension names x, y, z, meshes up to 6 cells per direction, "
        "cuboid aspect ratios up to ~20; Aharoni's formula is the trusted reference (1e-9 |M|)",
        "continuous-method charge of resolved compact textures is only required to lie within "
        "0.4|Q| of the winding number (sanity anchor for scale and sign; measured <= 0.2|Q|)",
        "supplementary demag monitors beyond the statement's wording: covariance under "
        "relabelling of the axes (exact physics) and the point-dipole far field of one cubic "
        "cell at >= 2 cells distance within 10 % (measured <= 2.3 %)",
    ],
}

import numpy as np  # noqa: E402

import discretisedfield as df  # noqa: E402
import discretisedfield.tools as dft  # noqa: E402
from dfmon.core import close, maxdiff  # noqa: E402
from workloads import gen  # noqa: E402

EPS = np.finfo(float).eps


# --------------------------------------------------------------------- helpers
def rodrigues(axis, angle):
    a = np.asarray(axis, dtype=float)
    a = a / np.linalg.norm(a)
    K = np.array([[0, -a[2], a[1]], [a[2], 0, -a[0]], [-a[1], a[0], 0]])
    return np.eye(3) + np.sin(angle) * K + (1 - np.cos(angle)) * (K @ K)


def rand_rotation_matrix(rng):
    v = rng.normal(size=3)
    return rodrigues(v, rng.uniform(0.3, np.pi))


def mesh2d(pmin, cell, n, dims=None):
    pmin, cell = np.asarray(pmin, float), np.asarray(cell, float)
    region = df.Region(p1=pmin.tolist(), p2=(pmin + cell * np.asarray(n)).tolist(), dims=dims)
    return df.Mesh(region=region, n=[int(k) for k in n])


def centres(pmin, cell, n):
    axes = [pmin[k] + (np.arange(n[k]) + 0.5) * cell[k] for k in range(len(n))]
    return np.stack(np.meshgrid(*axes, indexing="ij"), axis=-1)


def unit(a):
    return a / np.linalg.norm(a, axis=-1, keepdims=True)


def texture(rng, kind, pmin, cell, n):
    """Unit-vector texture on the 2-d lattice (array (*n, 3))."""
    X = centres(pmin, cell, n)
    edges = cell * n
    u = (X - pmin) / edges                       # 0..1 coordinates
    if kind == "rough":
        return unit(rng.normal(size=(*n, 3)))
    if kind == "modes":
        out = rng.normal(size=3) * 0.3 * np.ones((*n, 3))
        for _ in range(int(rng.integers(2, 5))):
            k = rng.integers(-2, 3, 2)
            ph = rng.uniform(0, 2 * np.pi)
            amp = rng.normal(size=3)
            out = out + amp * np.cos(2 * np.pi * (u @ k) + ph)[..., None]
        out = out + 0.05 * rng.normal(size=(*n, 3))
        return unit(out)
    # skyrmion-like, not compact: theta = 2 atan2(R, r)
    c = pmin + edges * rng.uniform(0.3, 0.7, 2)
    R = rng.uniform(0.15, 0.35) * edges.min()
    Q = int(rng.choice([1, -1, 2]))
    d = X - c
    r = np.hypot(d[..., 0], d[..., 1])
    phi = np.arctan2(d[..., 1], d[..., 0])
    th = 2 * np.arctan2(R, r)
    hel = rng.uniform(0, 2 * np.pi)
    out = np.stack([np.sin(th) * np.cos(Q * phi + hel), np.sin(th) * np.sin(Q * phi + hel),
                    np.cos(th)], axis=-1)
    return unit(out + 0.02 * rng.normal(size=(*n, 3)))


METHODS = ("continuous", "berg-luescher")


# ------------------------------------------------------------ kind 0: invariances
def charge_invariances(ctx):
    rng = ctx.rng
    hi = 16 if ctx.thorough else 12
    n = rng.integers(5, hi + 1, 2)
    scale = 10.0 ** rng.uniform(-9, 3)
    cell = scale * rng.uniform(0.4, 2.5, 2)
    pmin = rng.uniform(-3, 3, 2) * cell * n if rng.random() < 0.8 else np.zeros(2)
    dims = gen.pick(rng, [None, None, ["a", "b"], ["y", "x"], ["p", "q"]])
    dnames = dims or ["x", "y"]
    kind = gen.pick(rng, ["modes", "modes", "skyrmion", "rough"])
    tex = texture(rng, kind, pmin, cell, n)
    lengths = 10.0 ** rng.uniform(-3, 3, size=(*n, 1)) if rng.random() < 0.7 else np.ones((*n, 1))
    arr = tex * lengths * 10.0 ** rng.uniform(0, 3)
    masked = rng.random() < 0.5
    valid = (rng.random(tuple(n)) > rng.uniform(0.05, 0.3)) if masked else np.ones(tuple(n), bool)
    labels = gen.pick(rng, [None, ["a", "b", "c"], ["mx", "my", "mz"]])
    lab = labels or ["x", "y", "z"]
    perm = rng.permutation(3)
    mapping = {lab[int(perm[0])]: dnames[0], lab[int(perm[1])]: dnames[1], lab[int(perm[2])]: None}
    mapping = gen.shuffle_keys(rng, {k: mapping[k] for k in lab})
    via_sel = rng.random() < 0.2 and dims is None
    info = {"texture": kind, "masked": masked, "n": n, "cell": cell, "pmin": pmin, "dims": dnames,
            "mapping": mapping, "via_sel": via_sel}

    def field(a, mesh=None, v=valid):
        mesh = mesh2d(pmin, cell, n, dims) if mesh is None else mesh
        return gen.via_history(None, df.Field(mesh, nvdim=3, value=a, valid=v.copy(), vdims=labels, vdim_mapping=mapping))

    if via_sel:
        # a slice of a 3-d field (the documented way to obtain a 2-d field)
        nz = int(rng.integers(1, 4))
        cz = scale * rng.uniform(0.4, 2.5)
        reg3 = df.Region(p1=[*pmin.tolist(), 0.0], p2=[*(pmin + cell * n).tolist(), cz * nz])
        m3 = df.Mesh(region=reg3, n=[int(n[0]), int(n[1]), nz])
        f3 = df.Field(m3, nvdim=3, value=np.repeat(arr[:, :, None, :], nz, axis=2),
                      valid=np.repeat(valid[:, :, None], nz, axis=2))
        f = f3.sel("z")
    else:
        f = field(arr)

    nontrivial = False
    for method in METHODS:
        q0 = dft.topological_charge(f, method=method)
        tol = 1e-8 * max(1.0, abs(q0))
        nontrivial = nontrivial or abs(q0) > 1e-6
        mi = dict(info, tool="topological_charge", method=method, q0=q0)

        def same(monitor, q, **w):
            ctx.check(monitor, np.isfinite(q) and abs(q - q0) <= tol, got=q, **w, **mi)

        # global proper rotation of all vectors
        Rm = rand_rotation_matrix(rng)
        same("C19.charge.vector_rotation", dft.topological_charge(field(arr @ Rm.T), method=method),
             R=Rm)
        # positive per-cell rescaling of the lengths
        fac = 10.0 ** rng.uniform(-2, 2, size=(*n, 1))
        same("C19.charge.length_rescaling", dft.topological_charge(field(arr * fac), method=method))
        # translation, isotropic and anisotropic scaling of the mesh
        shift = rng.uniform(-10, 10, 2) * cell * n
        same("C19.charge.mesh_translation",
             dft.topological_charge(field(arr, mesh2d(pmin + shift, cell, n, dims)), method=method),
             shift=shift)
        s = 10.0 ** rng.uniform(-3, 3)
        same("C19.charge.mesh_scaling",
             dft.topological_charge(field(arr, mesh2d(pmin * s, cell * s, n, dims)), method=method),
             factor=s)
        s2 = 10.0 ** rng.uniform(-1.5, 1.5, 2)
        same("C19.charge.mesh_scaling_anisotropic",
             dft.topological_charge(field(arr, mesh2d(pmin * s2, cell * s2, n, dims)), method=method),
             factors=s2)
        # library's own scale/translate as well (C13 objects)
        if rng.random() < 0.3:
            m2 = mesh2d(pmin, cell, n, dims).scale((float(s2[0]), float(s2[1])))
            same("C19.charge.mesh_scaling_anisotropic",
                 dft.topological_charge(field(arr, m2), method=method), factors=s2, via="Mesh.scale")
        # quarter turn(s) of the sample (positions and mapped components together)
        k = int(rng.choice([1, 2, 3]))
        g = f.rotate90(dnames[0], dnames[1], k=k) if rng.random() < 0.5 else \
            f.rotate90(dnames[1], dnames[0], k=k)
        same("C19.charge.quarter_turn", dft.topological_charge(g, method=method), k=k)
        # what is stored in invalid cells does not matter
        if masked:
            other = arr.copy()
            other[~valid] = unit(rng.normal(size=(int((~valid).sum()), 3))) * 10.0 ** rng.uniform(-2, 3)
            same("C19.charge.invalid_cells_ignored",
                 dft.topological_charge(field(other), method=method))
        # reversal of all vectors
        q = dft.topological_charge(field(-arr), method=method)
        ctx.check("C19.charge.reversal", np.isfinite(q) and abs(q + q0) <= tol, got=q, **mi)
        # uniform field
        uv = rng.normal(size=3) * 10.0 ** rng.uniform(-2, 4)
        q = dft.topological_charge(field(np.broadcast_to(uv, (*n, 3)).copy()), method=method)
        ctx.check("C19.charge.uniform_zero", abs(q) <= 1e-12, got=q, vector=uv, **mi)
    ctx.sig(("charge", kind, masked, dims is None, labels is None, via_sel,
             int(np.floor(np.log10(np.max(cell)))), tuple(int(p) for p in perm)),
            nontrivial=nontrivial)
    ctx.sample({"kind": "charge", **info})


# ------------------------------------------------- kind 1: Berg-Luescher integer
def bergluescher_integer(ctx):
    rng = ctx.rng
    Q = int(rng.choice([1, -1, 2, -2, 3]))
    pol = int(rng.choice([1, -1]))
    hel = rng.uniform(0, 2 * np.pi)
    scale = 10.0 ** rng.uniform(-9, 3)
    cell = scale * rng.uniform(0.7, 1.4, 2)
    Rc = 3.5 + 1.2 * abs(Q) + rng.uniform(0, 2.0)       # radius in units of the larger edge
    R = Rc * cell.max()
    margin = rng.uniform(1.0, 4.0, 2)                   # free cells around the disc, per side
    n = np.ceil(2 * R / cell + 2 * margin).astype(int)
    pmin = rng.uniform(-3, 3, 2) * cell * n
    edges = cell * n
    slack = (edges - 2 * R) / 2 - 0.75 * cell           # keep the whole disc inside
    c = pmin + edges / 2 + rng.uniform(-1, 1, 2) * np.maximum(slack, 0)
    X = centres(pmin, cell, n)
    d = X - c
    r = np.hypot(d[..., 0], d[..., 1])
    phi = np.arctan2(d[..., 1], d[..., 0])
    th = np.where(r < R, np.pi * (1 - r / R), 0.0)
    arr = np.stack([np.sin(th) * np.cos(Q * phi + hel), np.sin(th) * np.sin(Q * phi + hel),
                    pol * np.cos(th)], axis=-1)
    arr = arr * 10.0 ** rng.uniform(-3, 3, size=(*n, 1))
    dims = gen.pick(rng, [None, ["a", "b"]])
    mesh = mesh2d(pmin, cell, n, dims)
    masked = rng.random() < 0.5
    valid = np.ones(tuple(n), bool)
    if masked:  # hide cells of the uniform background only
        valid = ~((r > R + 1.5 * cell.max()) & (rng.random(tuple(n)) < 0.5))
    f = gen.via_history(None, df.Field(mesh, nvdim=3, value=arr, valid=valid))
    info = {"tool": "topological_charge", "method": "berg-luescher", "Q": Q, "polarity": pol,
            "helicity": hel, "n": n, "cell": cell, "radius_cells": Rc, "masked": masked}
    q = dft.topological_charge(f, method="berg-luescher")
    ctx.check("C19.bergluescher.integer", abs(q - (-Q * pol)) <= 1e-9, got=q,
              expected=-Q * pol, **info)
    qr = dft.topological_charge(df.Field(mesh, nvdim=3, value=-arr, valid=valid),
                                method="berg-luescher")
    ctx.check("C19.bergluescher.integer", abs(qr - (Q * pol)) <= 1e-9, got=qr,
              expected=Q * pol, reversed=True, **info)
    # finite-difference method: no exact claim, but on a resolved compact texture it
    # approximates the winding number (measured deviation <= 0.2 |Q| on this domain)
    qc = dft.topological_charge(f, method="continuous")
    ctx.check("C19.continuous.approximates_winding", abs(qc - (-Q * pol)) <= 0.4 * abs(Q),
              got=qc, expected=-Q * pol, **dict(info, method="continuous"))
    qa = dft.topological_charge(f, method="berg-luescher", absolute=True)
    ctx.check("C19.bergluescher.absolute_ge", qa >= abs(q) - 1e-9, absolute=qa, charge=q, **info)
    # rough textures: random directions inside a uniform rim two cells wide, every cell
    # valid.  The lattice charge of this implementation is the mean of the degrees of the
    # two triangulations of the lattice (each square is covered by its four corner
    # triangles), and each triangulation of a configuration with a uniform rim is a closed
    # triangulated surface whose signed solid angles add up to a whole multiple of 4 pi:
    # twice the charge is a whole number however sharp the texture is (triangles larger
    # than a hemisphere included).  Random real vectors are never exactly antiparallel.
    for _ in range(2):
        n2 = rng.integers(6, 11, 2)
        cell2 = 10.0 ** rng.uniform(-9, 3) * rng.uniform(0.5, 2.0, 2)
        pmin2 = rng.uniform(-3, 3, 2) * cell2 * n2
        a2 = np.zeros((*n2, 3))
        a2[...] = unit(rng.normal(size=3))
        a2[2:-2, 2:-2] = unit(rng.normal(size=(n2[0] - 4, n2[1] - 4, 3)))
        kind2 = "noise"
        if rng.random() < 0.5:  # a sharp skyrmion-like core instead of noise
            dd = (centres(pmin2, cell2, n2)
                  - (pmin2 + cell2 * n2 / 2 + rng.uniform(-0.4, 0.4, 2) * cell2)) / cell2
            rr = np.hypot(dd[..., 0], dd[..., 1])
            R2 = rng.uniform(0.8, 2.5)
            rim = np.ones(tuple(n2), bool)
            rim[2:-2, 2:-2] = False
            if np.all(rr[rim] >= R2):  # the disc lies inside the core area
                th2 = np.where(rr < R2, np.pi * (1 - rr / R2), 0.0)
                ph2 = np.arctan2(dd[..., 1], dd[..., 0]) * int(rng.choice([1, -1, 2])) \
                    + rng.uniform(0, 6)
                a2 = np.stack([np.sin(th2) * np.cos(ph2), np.sin(th2) * np.sin(ph2),
                               np.cos(th2)], -1) @ rand_rotation_matrix(rng).T
                kind2 = "sharp"
        a2 = a2 * 10.0 ** rng.uniform(-3, 3, size=(*n2, 1))
        f2 = df.Field(mesh2d(pmin2, cell2, n2, gen.pick(rng, [None, ["a", "b"]])), nvdim=3, value=a2)
        q2 = dft.topological_charge(f2, method="berg-luescher")
        ctx.check("C19.bergluescher.twice_integer_rough", abs(2 * q2 - round(2 * q2)) <= 1e-9,
                  got=q2, n=n2, cell=cell2, tool="topological_charge", method="berg-luescher",
                  texture=kind2, note="twice the lattice charge of a texture with a uniform rim is not a whole number")
        ctx.event("bl.%s.charge_%s" % (kind2, round(2 * q2) / 2))
        if kind2 == "noise":
            # sharp domain walls: some neighbours exactly antiparallel (the spherical
            # triangle is degenerate there, so no particular number is demanded - but the
            # charge is a number, before and after a global rotation of all vectors)
            a3 = a2.copy()
            for _ in range(int(rng.integers(1, 4))):
                i3, j3 = int(rng.integers(2, n2[0] - 3)), int(rng.integers(2, n2[1] - 2))
                a3[i3 + 1, j3] = -a3[i3, j3] * rng.uniform(0.5, 2)
            Rm = rand_rotation_matrix(rng)
            for arr3, tag in ((a3, "as generated"), (a3 @ Rm.T, "globally rotated")):
                q3 = dft.topological_charge(
                    df.Field(f2.mesh, nvdim=3, value=arr3), method="berg-luescher")
                ctx.check("C19.bergluescher.finite", bool(np.isfinite(q3)), got=q3, n=n2,
                          vectors=tag, tool="topological_charge", method="berg-luescher",
                          note="antiparallel neighbouring vectors")
    ctx.sig(("bl", Q, pol, masked, dims is None, int(np.floor(np.log10(np.max(cell))))),
            nontrivial=True)


# ------------------------------------------------------------ kind 2: Bloch point
def bloch_point(ctx):
    rng = ctx.rng
    n = rng.integers(8, 13, 3)
    scale = 10.0 ** rng.uniform(-9, 3)
    cell = scale * rng.uniform(0.4, 2.5, 3)
    pmin = rng.uniform(-3, 3, 3) * cell * n if rng.random() < 0.8 else np.zeros(3)
    dims = gen.pick(rng, [None, None, ["a", "b", "c"], ["z", "x", "y"]])
    dnames = dims or ["x", "y", "z"]
    region = df.Region(p1=pmin.tolist(), p2=(pmin + cell * n).tolist(), dims=dims)
    mesh = df.Mesh(region=region, n=[int(k) for k in n])
    X = centres(pmin, cell, n)
    for _ in range(50):
        idx = np.array([rng.uniform(3.5, k - 3.5) for k in n])
        d = (X - (pmin + idx * cell)) / cell.max()
        if np.min(np.linalg.norm(d * cell.max() / cell, axis=-1)) >= 0.05:
            break
    arr = unit(d) * 10.0 ** rng.uniform(-3, 3, size=(*n, 1))
    shift = int(rng.integers(0, 3))
    kwm = {}
    if shift:
        # the same physical hedgehog stored with cyclically shifted components: component j
        # points along axis (j + shift) % 3 and says so in its mapping (a cyclic shift is an
        # even permutation, so even a purely positional triple product is unchanged)
        labs = ["a", "b", "c"]
        kwm = {"vdims": labs,
               "vdim_mapping": gen.shuffle_keys(rng, {labs[j]: dnames[(j + shift) % 3] for j in range(3)})}
        arr = np.stack([arr[..., (j + shift) % 3] for j in range(3)], axis=-1)
    masked = bool(rng.random() < 0.4)
    if masked:
        # "all validity masks", in the only form for which "exactly one" is well defined
        # for a finite-difference method: the sample is a block of cells that keeps the
        # hedgehog >= 3.5 cells away from its faces (the same margin as for the mesh
        # boundary); the cells outside are not part of the sample and hold anything.
        # (Staircase-shaped samples such as spheres are not judged: the unchanged library
        # counts 0 or 2 there in about 3 % of the cases - discretisation error.)
        lo = np.maximum(np.floor(idx - rng.uniform(3.5, 4.5, 3)).astype(int), 0)
        hi = np.minimum(np.ceil(idx + rng.uniform(3.5, 4.5, 3)).astype(int), n)
        valid = np.zeros(tuple(int(k) for k in n), dtype=bool)
        valid[lo[0]:hi[0], lo[1]:hi[1], lo[2]:hi[2]] = True
        arr = arr.copy()
        arr[~valid] = rng.normal(size=(int((~valid).sum()), 3)) * 10.0 ** rng.uniform(-3, 3)
        kwm["valid"] = valid
        ctx.event("bloch_point.masked_sample")
    f = gen.via_history(None, df.Field(mesh, nvdim=3, value=arr, **kwm))
    fr = df.Field(mesh, nvdim=3, value=-arr, **kwm)
    info = {"tool": "count_bps", "n": n, "cell": cell, "centre_index": idx, "dims": dnames,
            "component_shift": shift, "masked_sample": masked}
    # quick tier: every direction for the hedgehog, one (rotating) direction reversed
    rev_dirs = dnames if ctx.thorough else [dnames[(ctx.i // 7) % 3]]
    for direction in dnames:
        r = dft.count_bps(f, direction)
        ctx.check("C19.bloch_point.hedgehog",
                  r["bp_number"] == 1 and r["bp_number_tt"] == 1 and r["bp_number_hh"] == 0,
                  direction=direction, result=r, **info)
        if direction in rev_dirs:
            r = dft.count_bps(fr, direction)
            ctx.check("C19.bloch_point.reversed",
                      r["bp_number"] == 1 and r["bp_number_hh"] == 1 and r["bp_number_tt"] == 0,
                      direction=direction, result=r, **info)
    # no Bloch point in a uniform field
    if ctx.thorough or rng.random() < 0.3:
        u = df.Field(mesh, nvdim=3, value=tuple(rng.normal(size=3).tolist()))
        r = dft.count_bps(u, dnames[int(rng.integers(0, 3))])
        ctx.check("C19.bloch_point.uniform_none", r["bp_number"] == 0, result=r, **info)
    ctx.sig(("bp", tuple(int(min(k, 10)) for k in n), dims is None,
             int(np.floor(np.log10(np.max(cell))))), nontrivial=True)


# ------------------------------------------------------------ kind 3: angles
def ref_angle(u, v):
    return np.arctan2(np.linalg.norm(np.cross(u, v), axis=-1), np.sum(u * v, axis=-1))


def neighbour_angles(ctx):
    rng = ctx.rng
    n = rng.integers(2, 7, 3)
    if rng.random() < 0.25:
        n[int(rng.integers(0, 3))] = 1  # a film one cell thick: no neighbours along that axis
    scale = 10.0 ** rng.uniform(-9, 3)
    cell = scale * rng.uniform(0.4, 2.5, 3)
    pmin = rng.uniform(-3, 3, 3) * cell * n
    dims = gen.pick(rng, [None, None, ["a", "b", "c"], ["z", "x", "y"], ["x", "y", "V"]])
    dnames = dims or ["x", "y", "z"]
    aunits = gen.pick(rng, [None, None, ["nm", "nm", "nm"], ["nm", "um", "s"]])
    int_corners = rng.random() < 0.25
    if int_corners:
        # corners given as Python integers (Mesh(p1=(0, 0, 0), p2=(10, 10, 10), ...)), odd and
        # even cell edges, regions straddling the origin
        cell = rng.integers(1, 4, 3).astype(float)
        pmin = rng.integers(-6, 4, 3).astype(float)
        region = df.Region(p1=[int(x) for x in pmin], p2=[int(x) for x in pmin + cell * n], dims=dims,
                           units=aunits)
    else:
        region = df.Region(p1=pmin.tolist(), p2=(pmin + cell * n).tolist(), dims=dims, units=aunits)
    mesh = df.Mesh(region=region, n=[int(k) for k in n])
    arr = rng.normal(size=(*n, 3))
    # parallel / antiparallel / nearly parallel neighbours
    for _ in range(int(rng.integers(1, 6))):
        ax = int(rng.integers(0, 3))
        i = [int(rng.integers(0, k)) for k in n]
        j = list(i)
        j[ax] = i[ax] + 1
        if j[ax] < n[ax]:
            how = gen.pick(rng, ["same", "opposite", "scaled", "near"])
            src = arr[tuple(i)]
            arr[tuple(j)] = {"same": src, "opposite": -src, "scaled": 3.7 * src,
                             "near": src + 1e-9 * rng.normal(size=3)}[how]
    lengths = gen.pick(rng, ["any", "any", "unit", "nearly_unit", "single_precision_unit",
                             "narrow_integers"])
    kwdt = {}
    if lengths == "narrow_integers":
        # whole numbers stored in a narrow integer type, up to that type's range: the angle
        # is between the unit vectors, which are real
        dt = gen.pick(rng, [np.int8, np.int16, np.int32, np.int32])
        top = np.iinfo(dt).max
        arr = np.round(unit(arr) * rng.uniform(0.3, 1.0, size=(*n, 1)) * top).astype(dt)
        arr[np.all(arr == 0, axis=-1)] = 1
        kwdt["dtype"] = dt
        arr = arr.astype(float)
    elif lengths == "any":
        arr = arr * 10.0 ** rng.uniform(-3, 3, size=(*n, 1))
    elif lengths == "unit":
        arr = unit(arr)
    elif lengths == "nearly_unit":
        # reduced magnetisation as it comes out of a solver: |m| = 1 to 1e-5 .. 1e-7
        arr = unit(arr) * (1 + 10.0 ** rng.uniform(-7, -5) * rng.uniform(-1, 1, size=(*n, 1)))
    else:
        arr = unit(arr).astype(np.float32).astype(float)
    f = df.Field(mesh, nvdim=3, value=arr, vdims=gen.pick(rng, [None, ["a", "b", "c"]]), **kwdt)
    u = unit(arr)
    info = {"tool": "neighbouring_cell_angle", "n": n, "cell": cell, "pmin": pmin, "dims": dnames,
            "vector_lengths": lengths, "dtype": str(f.array.dtype)}
    per_axis = []
    for ax, direction in enumerate(dnames):
        sl1 = [slice(None)] * 3
        sl2 = [slice(None)] * 3
        sl1[ax], sl2[ax] = slice(0, n[ax] - 1), slice(1, n[ax])
        ref = ref_angle(u[tuple(sl1)], u[tuple(sl2)])
        per_axis.append(ref)
        if n[ax] == 1:
            continue  # "a mesh one cell shorter" does not exist: the per-direction tool is not asked
        for units in ("rad", "deg"):
            okc, g = ctx.expect_ok("C19.angle.accepted", dft.neighbouring_cell_angle, f,
                                   direction=direction, units=units,
                                   what=dict(info, direction=direction, units=units))
            if not okc:
                continue
            exp_n = n.copy()
            exp_n[ax] -= 1
            e = np.zeros(3)
            e[ax] = cell[ax] / 2
            tol = 1e-12 * (cell * n) + 16 * EPS * np.abs(pmin)
            ctx.check("C19.angle.mesh",
                      np.array_equal(g.mesh.n, exp_n) and g.nvdim == 1
                      # "one cell shorter in that direction": the directions keep their names
                      # (and units), or "that direction" means nothing on the result
                      and list(g.mesh.region.dims) == dnames
                      and list(g.mesh.region.units) == list(mesh.region.units)
                      and np.all(np.abs(np.asarray(g.mesh.region.pmin) - (pmin + e)) <= tol)
                      and np.all(np.abs(np.asarray(g.mesh.region.pmax) - (pmin + cell * n - e)) <= tol),
                      direction=direction, got_n=g.mesh.n, expected_n=exp_n,
                      got_pmin=g.mesh.region.pmin, expected_pmin=pmin + e, **info)
            if not np.array_equal(g.mesh.n, exp_n):
                continue
            got = g.array[..., 0]
            top = np.pi if units == "rad" else 180.0
            ctx.check("C19.angle.range", np.all(np.isfinite(got)) and np.all((got >= 0) & (got <= top * (1 + 4 * EPS))),
                      direction=direction, units=units, min=np.nanmin(got), max=np.nanmax(got), **info)
            expv = ref if units == "rad" else np.degrees(ref)
            ctx.check("C19.angle.value", close(got, expv, rtol=1e-7 / np.pi, scale=top),
                      direction=direction, units=units, maxdiff=maxdiff(got, expv), **info)
    # maximum over the (up to six) neighbours, on the field's own mesh
    mx = np.zeros(tuple(n))
    for ax in range(3):
        a = per_axis[ax]
        lo = [slice(None)] * 3
        hi = [slice(None)] * 3
        lo[ax], hi[ax] = slice(0, n[ax] - 1), slice(1, n[ax])
        mx[tuple(lo)] = np.maximum(mx[tuple(lo)], a)
        mx[tuple(hi)] = np.maximum(mx[tuple(hi)], a)
    units = gen.pick(rng, ["rad", "deg"])
    minfo = dict(info, tool="max_neighbouring_cell_angle", units=units,
                 axes_with_two_cells=[dnames[k] for k in range(3) if n[k] == 2])
    okc, g = ctx.expect_ok("C19.angle.max.accepted", dft.max_neighbouring_cell_angle, f,
                           units=units, what=minfo)
    if okc:
        expv = mx if units == "rad" else np.degrees(mx)
        ctx.check("C19.angle.max", np.array_equal(g.mesh.n, n) and g.nvdim == 1
                  and close(g.array[..., 0], expv, rtol=1e-7 / np.pi,
                            scale=np.pi if units == "rad" else 180.0),
                  maxdiff=maxdiff(g.array[..., 0], expv), **minfo)
    ctx.sig(("angles", tuple(int(min(k, 3)) for k in n), dims is None,
             int(np.floor(np.log10(np.max(cell))))), nontrivial=True)


# ------------------------------------------------------------ kind 4: demag
def aharoni_Dz(La, Lb, Lc):
    """Aharoni, J. Appl. Phys. 83, 3432 (1998): prism La x Lb x Lc magnetised along c."""
    a, b, c = La / 2, Lb / 2, Lc / 2
    r = np.sqrt(a * a + b * b + c * c)
    rab, rac, rbc = np.sqrt(a * a + b * b), np.sqrt(a * a + c * c), np.sqrt(b * b + c * c)
    t = (((b * b - c * c) / (2 * b * c)) * np.log((r - a) / (r + a))
         + ((a * a - c * c) / (2 * a * c)) * np.log((r - b) / (r + b))
         + (b / (2 * c)) * np.log((rab + a) / (rab - a))
         + (a / (2 * c)) * np.log((rab + b) / (rab - b))
         + (c / (2 * a)) * np.log((rbc - b) / (rbc + b))
         + (c / (2 * b)) * np.log((rac - a) / (rac + a))
         + 2 * np.arctan(a * b / (c * r))
         + (a ** 3 + b ** 3 - 2 * c ** 3) / (3 * a * b * c)
         + ((a * a + b * b - 2 * c * c) / (3 * a * b * c)) * r
         + (c / (a * b)) * (rac + rbc)
         - ((rab ** 3 + rbc ** 3 + rac ** 3) / (3 * a * b * c)))
    return t / np.pi


def demag_factors(L):
    return np.array([aharoni_Dz(L[1], L[2], L[0]), aharoni_Dz(L[2], L[0], L[1]),
                     aharoni_Dz(L[0], L[1], L[2])])


def demag(ctx):
    rng = ctx.rng
    cubic = rng.random() >= 0.5
    shape = gen.pick(rng, ["any", "any", "cube", "film", "rod"])
    scale = 10.0 ** rng.uniform(-9, 0)
    if cubic:
        cell = scale * np.ones(3)
        n = rng.integers(1, 7, 3)
        if shape == "cube":
            n = np.full(3, int(rng.integers(1, 7)))
        elif shape == "film":
            n[int(rng.integers(0, 3))] = 1
        elif shape == "rod":
            k = int(rng.integers(0, 3))
            n = np.array([1 if j != k else int(rng.integers(3, 7)) for j in range(3)])
    else:
        if shape == "cube":   # a cube built from non-cubic cells
            n = np.array(gen.pick(rng, [(6, 3, 2), (2, 6, 3), (4, 2, 1), (1, 2, 4), (6, 6, 3), (2, 4, 4)]))
            cell = scale * 12.0 / n
        else:
            n = rng.integers(1, 7, 3)
            ratios = gen.pick(rng, [(1, 2, 3), (1, 1, 2), (2, 1, 1), (1, 3, 1)])
            cell = scale * (np.array(ratios, float) if rng.random() < 0.5 else rng.uniform(0.5, 3.0, 3))
    pmin = rng.uniform(-3, 3, 3) * cell * n if rng.random() < 0.7 else np.zeros(3)
    mesh = df.Mesh(p1=pmin.tolist(), p2=(pmin + cell * n).tolist(), n=[int(k) for k in n])
    base = {"cubic_cells": bool(cubic), "cell": cell, "n": n, "pmin": pmin}
    if rng.random() < 0.35:
        # history: the mesh object had another cell shape when the tensor was asked for the
        # first time and was then rescaled in place (about the origin) to the shape under test
        fac = rng.uniform(0.3, 3.0, 3) * rng.choice([1.0, 2.0, 0.5])
        mesh = df.Mesh(p1=(pmin / fac).tolist(), p2=((pmin + cell * n) / fac).tolist(),
                       n=[int(k) for k in n])
        try:
            dft.demag_tensor(mesh)
            if int(np.prod(2 * n - 1)) <= 100:
                from discretisedfield.tools.tools import _demag_tensor_field_based as _fb
                _fb(mesh)
        except Exception:  # noqa: BLE001 - judged below, on the mesh under test
            pass
        mesh.scale(fac.tolist(), reference_point=[0.0, 0.0, 0.0], inplace=True)
        base["history"] = "tensor computed once before the mesh was rescaled in place"
        ctx.event("demag.mesh_rescaled_in_place_after_first_use")

    tensor = dft.demag_tensor(mesh)
    N = 2 * n - 1
    # ---- trace: -delta at the centre cell of the kernel  <=>  |trace| = 1 with the phase
    arr = tensor.array
    ok_shape = arr.shape == (*N, 6)
    ctx.check("C19.demag.tensor_shape", ok_shape, got=arr.shape, expected=(*N, 6),
              **dict(base, tool="demag_tensor"))
    if ok_shape:
        tr = arr[..., 0] + arr[..., 1] + arr[..., 2]
        phase = 1.0
        for k in range(3):
            m = np.arange(N[k]) - (n[k] - 1)
            shp = [1, 1, 1]
            shp[k] = N[k]
            phase = phase * np.exp(-2j * np.pi * m * (n[k] - 1) / N[k]).reshape(shp)
        real = np.fft.ifftn(np.fft.ifftshift(tr))
        delta = np.zeros(tuple(N))
        delta[tuple(n - 1)] = -1.0
        dev_abs = float(np.max(np.abs(np.abs(tr) - 1)))
        dev_phase = float(np.max(np.abs(tr + phase)))
        dev_real = float(np.max(np.abs(real - delta)))
        ctx.check("C19.demag.trace", max(dev_abs, dev_phase, dev_real) <= 1e-9,
                  max_dev_of_abs_trace_from_1=dev_abs, max_dev_from_minus_phase=dev_phase,
                  max_dev_of_real_space_trace_from_minus_delta=dev_real,
                  **dict(base, tool="demag_tensor"))
    # ---- the two implementations
    if int(np.prod(N)) <= (150 if ctx.thorough else 100):
        from discretisedfield.tools.tools import _demag_tensor_field_based

        t2 = _demag_tensor_field_based(mesh)
        ctx.check("C19.demag.implementations_agree",
                  t2.array.shape == arr.shape
                  and close(arr, t2.array, rtol=1e-10, scale=float(np.max(np.abs(arr)))),
                  maxdiff=maxdiff(arr, t2.array), **dict(base, tool="demag_tensor"))
        ctx.event("field_based_tensor")
    # ---- uniformly magnetised cuboid: the whole mesh or an index box of it
    whole = rng.random() < 0.5 or np.all(n == 1)
    lo, hi = (np.zeros(3, int), n.copy()) if whole else gen.rand_box(rng, n)
    L = (hi - lo) * cell
    if L.max() / L.min() <= 20:
        M = 10.0 ** rng.uniform(0, 6)
        box = (slice(lo[0], hi[0]), slice(lo[1], hi[1]), slice(lo[2], hi[2]))
        Hm = np.zeros((3, 3))
        for a in range(3):
            val = np.zeros((*n, 3))
            sign = float(rng.choice([-1, 1]))
            val[box + (a,)] = sign * M
            H = dft.demag_field(df.Field(mesh, nvdim=3, value=val), tensor)
            Hm[a] = sign * H.array[box].reshape(-1, 3).mean(axis=0)   # per +M along a
        diag = np.diag(Hm)
        D = demag_factors(L)
        is_cube = bool(np.all(np.abs(L - L[0]) <= 1e-12 * L[0]))
        info = dict(base, tool="demag_field", cuboid_lo=lo, cuboid_hi=hi, cuboid_edges=L,
                    whole_mesh=bool(whole), M=M, mean_field_along_M=diag)
        ctx.check("C19.demag.sum_rule", abs(diag.sum() + M) <= 1e-9 * M,
                  sum_over_axes=diag.sum(), expected=-M, **info)
        ctx.check("C19.demag.aharoni", np.all(np.abs(diag + D * M) <= 1e-9 * M),
                  expected=-D * M, **info)
        off = Hm - np.diag(diag)
        ctx.check("C19.demag.transverse_zero", np.all(np.abs(off) <= 1e-9 * M),
                  max_transverse=float(np.max(np.abs(off))), **info)
        if is_cube:
            ctx.check("C19.demag.cube", np.all(np.abs(diag + M / 3) <= 1e-9 * M),
                      expected=-M / 3, **info)
        # the field is real and lives on m's mesh
        ctx.check("C19.demag.field_mesh", H.array.shape == (*n, 3) and H.array.dtype.kind == "f"
                  and np.array_equal(H.mesh.n, n), shape=H.array.shape, dtype=str(H.array.dtype),
                  **info)
    else:
        is_cube = False
    # ---- supplementary (physics, not spelled out in the statement): relabelling the axes
    # of a non-uniformly magnetised sample relabels the demag field the same way
    Mr = rng.normal(size=(*n, 3)) * 10.0 ** rng.uniform(0, 6)
    if rng.random() < 0.5:
        Mr[rng.random(tuple(n)) < 0.4] = 0.0
    perm = list(gen.pick(rng, [(1, 2, 0), (2, 0, 1), (1, 0, 2), (0, 2, 1), (2, 1, 0)]))
    H0 = dft.demag_field(df.Field(mesh, nvdim=3, value=Mr), tensor).array
    mesh_p = df.Mesh(p1=pmin[perm].tolist(), p2=(pmin + cell * n)[perm].tolist(),
                     n=[int(k) for k in n[perm]])
    Mp = np.transpose(Mr, (*perm, 3))[..., perm]
    Hp = dft.demag_field(df.Field(mesh_p, nvdim=3, value=Mp), dft.demag_tensor(mesh_p)).array
    expHp = np.transpose(H0, (*perm, 3))[..., perm]
    ctx.check("C19.demag.axis_relabelling", close(Hp, expHp, rtol=1e-9, scale=float(np.max(np.abs(Mr)))),
              permutation=perm, maxdiff=maxdiff(Hp, expHp), scale=float(np.max(np.abs(Mr))),
              **dict(base, tool="demag_field"))
    # ---- supplementary: far field of one magnetised cubic cell ~ point dipole
    # (measured deviation <= 2.3 % of the dipole scale at >= 2 cells; tolerance 10 %)
    if cubic and np.max(n) >= 3:
        j = np.array([int(rng.integers(0, k)) for k in n])
        Mv = rng.normal(size=3) * 10.0 ** rng.uniform(0, 6)
        one = np.zeros((*n, 3))
        one[tuple(j)] = Mv
        H1 = dft.demag_field(df.Field(mesh, nvdim=3, value=one), tensor).array
        idx = np.stack(np.meshgrid(*[np.arange(k) for k in n], indexing="ij"), axis=-1)
        rvec = (idx - j) * cell
        dist = np.linalg.norm(rvec, axis=-1)
        sel = dist >= 2 * cell[0] * (1 - 1e-9)
        if sel.any():
            rr, dd = rvec[sel], dist[sel][:, None]
            rh = rr / dd
            V = float(np.prod(cell))
            Hd = V / (4 * np.pi) * (3 * rh * (rh @ Mv)[:, None] - Mv) / dd ** 3
            sc = 2 * np.linalg.norm(Mv) * V / (4 * np.pi * dd[:, 0] ** 3)
            err = np.linalg.norm(H1[sel] - Hd, axis=-1) / sc
            ctx.check("C19.demag.far_field_dipole", np.all(err <= 0.1), worst=float(err.max()),
                      source_cell=j, M=Mv, **dict(base, tool="demag_field"))
            # the magnetised cell itself: -M/3 (cube)
            ctx.check("C19.demag.self_field_cube", np.all(np.abs(H1[tuple(j)] + Mv / 3)
                                                          <= 1e-9 * np.linalg.norm(Mv)),
                      got=H1[tuple(j)], expected=-Mv / 3, source_cell=j, **dict(base, tool="demag_field"))
    ctx.sig(("demag", bool(cubic), shape, bool(whole), is_cube, tuple(int(min(k, 2)) for k in n)),
            nontrivial=bool(np.prod(n) > 1))
    ctx.sample({"kind": "demag", **base, "cuboid": [lo, hi]})


# ------------------------------------------------------------ kind 5: refusals
def refusals(ctx):
    rng = ctx.rng
    n3 = [int(k) for k in rng.integers(2, 5, 3)]
    m1 = df.Mesh(p1=0.0, p2=float(n3[0]), n=n3[0])
    m2 = df.Mesh(p1=(0.0, 0.0), p2=(float(n3[0]), float(n3[1])), n=n3[:2])
    m3 = df.Mesh(p1=(0.0, 0.0, 0.0), p2=tuple(float(k) for k in n3), n=n3)
    m4 = df.Mesh(p1=(0.0,) * 4, p2=tuple(float(k) for k in n3) + (2.0,), n=n3 + [2])

    def fld(mesh, nv):
        return df.Field(mesh, nvdim=nv, value=rng.normal(size=(*mesh.n, nv)))

    def refuse(tool, fn, field, why):
        ctx.expect_raises("C19.refused", fn, field, unchanged=[field],
                          what={"tool": tool, "why": why, "nvdim": field.nvdim,
                                "ndim": field.mesh.region.ndim})

    for method in METHODS:
        for name, fn in (("topological_charge", dft.topological_charge),
                         ("topological_charge_density", dft.topological_charge_density)):
            call = (lambda f, fn=fn, method=method: fn(f, method=method))
            for nv in (1, 2, 4):
                refuse(name, call, fld(m2, nv), f"{method}: nvdim={nv}")
            for m in (m1, m3, m4):
                refuse(name, call, fld(m, 3), f"{method}: ndim={m.region.ndim}")
    for nv in (1, 2, 4):
        refuse("emergent_magnetic_field", dft.emergent_magnetic_field, fld(m3, nv), f"nvdim={nv}")
        refuse("count_bps", lambda f: dft.count_bps(f, "x"), fld(m3, nv), f"nvdim={nv}")
        refuse("neighbouring_cell_angle", lambda f: dft.neighbouring_cell_angle(f, "x"),
               fld(m3, nv), f"nvdim={nv}")
        refuse("max_neighbouring_cell_angle", dft.max_neighbouring_cell_angle, fld(m3, nv),
               f"nvdim={nv}")
    for m in (m1, m2, m4):
        refuse("emergent_magnetic_field", dft.emergent_magnetic_field, fld(m, 3),
               f"ndim={m.region.ndim}")
        refuse("count_bps", lambda f, m=m: dft.count_bps(f, m.region.dims[0]), fld(m, 3),
               f"ndim={m.region.ndim}")
    refuse("count_bps", lambda f: dft.count_bps(f, "w"), fld(m3, 3), "direction not a dimension")
    refuse("neighbouring_cell_angle", lambda f: dft.neighbouring_cell_angle(f, "w"), fld(m3, 3),
           "direction not a dimension")
    # demagnetisation
    tensor = dft.demag_tensor(m3)
    for nv in (1, 2, 4):
        refuse("demag_field", lambda f: dft.demag_field(f, tensor), fld(m3, nv), f"nvdim={nv}")
    for m in (m1, m2, m4):
        refuse("demag_field", lambda f: dft.demag_field(f, tensor), fld(m, 3),
               f"ndim={m.region.ndim}")
        ctx.expect_raises("C19.refused", dft.demag_tensor, m, unchanged=[m],
                          what={"tool": "demag_tensor", "why": f"ndim={m.region.ndim}"})
    # a four-component field whose first three labels happen to be x, y, z
    # (every case in the quick tier, a third of the cases in the thorough tier)
    f4 = df.Field(m3, nvdim=4, value=rng.normal(size=(*n3, 4)), vdims=["x", "y", "z", "w"])
    if not ctx.thorough or rng.random() < 0.33:
        ctx.expect_raises("C19.refused.extra_component", lambda f: dft.demag_field(f, tensor), f4,
                          unchanged=[f4],
                          what={"tool": "demag_field", "why": "nvdim=4 with labels x,y,z,w",
                                "nvdim": 4, "ndim": 3, "vdims": ["x", "y", "z", "w"]})
    # positive control
    ctx.expect_ok("C19.accepted", lambda: dft.demag_field(fld(m3, 3), tensor))
    ctx.expect_ok("C19.accepted", lambda: dft.topological_charge(fld(m2, 3)))
    ctx.sig(("refusals", tuple(n3)), nontrivial=True)


KINDS = (charge_invariances, bergluescher_integer, bloch_point, neighbour_angles, demag,
         refusals, demag)   # 7 entries: coprime with the 8/16 worker shards


def run_case(ctx, i):
    KINDS[i % 7](ctx)
