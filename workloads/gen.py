"""Shared seeded generators for the directed workloads (DESIGN.md rules R3/R7).

Everything is built from *integers first*: cell counts and index boxes are drawn
as integers and coordinates derived from them, so expected lattice answers are
known without any floating-point comparison.
"""

import itertools

import numpy as np

import discretisedfield as df

DIM_POOLS = [
    None,  # library default names
    ["a", "b", "c", "d"],
    ["xx", "rho", "phi_2", "t0"],
    ["z", "x", "y", "w"],
    ["y", "z", "x", "t"],
    ["p", "q", "r", "s"],
]
UNIT_POOLS = [None, ["m", "m", "m", "m"], ["nm", "s", "K", "T"], ["u0", "u1", "u2", "u3"]]


def pick(rng, seq):
    return seq[int(rng.integers(0, len(seq)))]


def rand_dims(rng, nd, allow_default=True):
    pool = pick(rng, DIM_POOLS if allow_default else DIM_POOLS[1:])
    if pool is None:
        return None
    idx = rng.permutation(4)[:nd]
    return [pool[i] for i in idx]


def rand_units(rng, nd):
    pool = pick(rng, UNIT_POOLS)
    return None if pool is None else list(pool[:nd])


def default_dims(nd):
    return ["x", "y", "z"][:nd] if nd <= 3 else [f"x{i}" for i in range(nd)]


class MeshSpec:
    """A mesh described by exact generator-side data."""

    def __init__(self, pmin, cell, n, dims, units, flip, int_corners=False):
        self.pmin = np.asarray(pmin, dtype=float)
        self.cell = np.asarray(cell, dtype=float)
        self.n = np.asarray(n, dtype=int)
        self.nd = len(self.n)
        self.pmax = self.pmin + self.cell * self.n
        self.dims = dims
        self.units = units
        self.flip = flip
        self.int_corners = int_corners

    @property
    def edges(self):
        return self.pmax - self.pmin

    @property
    def dim_names(self):
        return list(self.dims) if self.dims is not None else default_dims(self.nd)

    def corners(self):
        p1 = self.pmin.copy()
        p2 = self.pmax.copy()
        for k, f in enumerate(self.flip):
            if f:
                p1[k], p2[k] = p2[k], p1[k]
        if self.int_corners:
            return [int(x) for x in p1], [int(x) for x in p2]
        return p1.tolist(), p2.tolist()

    def region(self, **kw):
        p1, p2 = self.corners()
        return df.Region(p1=p1, p2=p2, dims=self.dims, units=self.units, **kw)

    def mesh(self, subregions=None, bc="", by_cell=False):
        kw = {"cell": self.cell.tolist()} if by_cell else {"n": [int(k) for k in self.n]}
        return df.Mesh(region=self.region(), bc=bc, subregions=subregions, **kw)

    def centre(self, idx):
        return self.pmin + (np.asarray(idx) + 0.5) * self.cell

    def vertex(self, idx):
        return self.pmin + np.asarray(idx) * self.cell

    def indices(self):
        """All cell indices, first dimension fastest (my own enumeration)."""
        for rev in itertools.product(*[range(int(k)) for k in self.n[::-1]]):
            yield tuple(rev[::-1])

    def box_region(self, lo, hi):
        """Region spanning the index box [lo, hi) on lattice vertices."""
        return df.Region(p1=self.vertex(lo).tolist(), p2=self.vertex(hi).tolist())

    def describe(self):
        return {
            "pmin": self.pmin.tolist(),
            "cell": self.cell.tolist(),
            "n": self.n.tolist(),
            "dims": self.dims,
            "units": self.units,
            "flip": [bool(f) for f in self.flip],
            "int_corners": self.int_corners,
        }

    def signature(self):
        with np.errstate(all="ignore"):
            off = np.max(np.abs(self.pmin) / self.edges)
        return (
            self.nd,
            tuple(int(min(k, 3)) for k in self.n),
            int(np.floor(np.log10(np.max(self.cell)))),
            0 if off == 0 else int(np.clip(np.floor(np.log10(off + 1e-300)), -3, 9)),
            bool(any(self.flip)),
            self.int_corners,
            "default" if self.dims is None else "named",
        )


def rand_meshspec(
    rng,
    nd=None,
    nd_range=(1, 4),
    n_max=6,
    max_cells=4096,
    scale_decades=(-9, 3),
    offsets=True,
    int_corners=None,
    dims="random",
    anisotropic=True,
    min_n=1,
):
    if nd is None:
        nd = int(rng.integers(nd_range[0], nd_range[1] + 1))
    for _ in range(100):
        n = rng.integers(min_n, n_max + 1, nd)
        if np.prod(n) <= max_cells:
            break
    else:
        n = np.full(nd, min_n)
    if int_corners is None:
        int_corners = rng.random() < 0.15
    if int_corners:
        cell = rng.integers(1, 5, nd).astype(float)
        pmin = rng.integers(-20, 20, nd).astype(float) if offsets else np.zeros(nd)
    else:
        scale = 10.0 ** rng.uniform(*scale_decades)
        ratio = rng.uniform(0.2, 5.0, nd) if anisotropic else np.ones(nd)
        cell = scale * ratio
        if not offsets or rng.random() < 0.25:
            pmin = np.zeros(nd)
        else:
            mag = 10.0 ** rng.uniform(-1, 3)  # up to 1e3 edge lengths (rule R7)
            pmin = rng.uniform(-1, 1, nd) * mag * cell * n
            if rng.random() < 0.3:
                pmin = -rng.uniform(0, 1, nd) * cell * n  # straddling the origin
    if dims == "random":
        dims = rand_dims(rng, nd)
    elif dims == "default":
        dims = None
    units = rand_units(rng, nd)
    flip = rng.random(nd) < 0.3
    return MeshSpec(pmin, cell, n, dims, units, flip, int_corners)


def rand_box(rng, n, min_size=1):
    """Random index box lo <= i < hi (at least ``min_size`` cells per axis)."""
    n = np.asarray(n)
    lo = np.array([int(rng.integers(0, max(1, k - min_size + 1))) for k in n])
    hi = np.array([int(rng.integers(l + min_size, k + 1)) if k >= l + min_size else k
                   for l, k in zip(lo, n)])
    return lo, hi


def rand_subregions(rng, spec, kmax=3, names=None):
    """{name: (lo, hi)} index boxes plus the matching {name: Region} dict."""
    k = int(rng.integers(0, kmax + 1))
    names = names or ["s0", "r1", "sub_2", "Z"]
    boxes, regions = {}, {}
    for j in range(k):
        lo, hi = rand_box(rng, spec.n)
        boxes[names[j]] = (lo, hi)
        regions[names[j]] = spec.box_region(lo, hi)
    return boxes, regions


def shuffle_keys(rng, d, p=0.5):
    """The same dict with its keys inserted in a random order (probability p): a
    component-to-axis mapping is a mapping - nothing may depend on the order in which the
    user happened to write its entries."""
    if not d or rng.random() >= p:
        return d
    keys = list(d)
    return {keys[int(k)]: d[keys[int(k)]] for k in rng.permutation(len(keys))}


def rand_valid(rng, n, kind=None):
    n = tuple(int(k) for k in n)
    kind = kind or pick(rng, ["all", "random", "random", "sparse", "dense"])
    if kind == "all":
        return np.ones(n, dtype=bool)
    p = {"random": 0.5, "sparse": 0.15, "dense": 0.85}[kind]
    return rng.random(n) < p


def rand_values(rng, shape, dtype="float", mag=None):
    if mag is None:
        # SI-scale magnitudes: 30 % tiny (1e-12..1e-6: nm lengths, pJ energies - below numpy's
        # default absolute tolerance 1e-8, a recurring hazard in this code base), 50 %
        # moderate, 20 % large (1e4..1e9: A/m magnetisations)
        r = rng.random()
        lo, hi = (-12, -6) if r < 0.3 else ((-3, 3) if r < 0.8 else (4, 9))
        mag = 10.0 ** rng.uniform(lo, hi)
    if dtype == "int":
        return rng.integers(-50, 50, shape)
    if dtype == "complex":
        return (rng.normal(size=shape) + 1j * rng.normal(size=shape)) * mag
    if dtype == "bool":
        return rng.random(shape) < 0.5
    return rng.normal(size=shape) * mag


VDIM_POOLS = {
    1: [None],
    2: [None, ["a", "b"], ["mx", "my"], ["v_1", "v_2"], ["q", "p"]],
    3: [None, ["a", "b", "c"], ["mx", "my", "mz"], ["v_1", "v_2", "v_3"], ["z", "x", "y"],
        ["c", "a", "b"]],
    4: [None, ["a", "b", "c", "d"], ["m_x", "m_y", "m_z", "m_t"], ["w", "u", "t", "v"]],
}


def rand_vdims(rng, nvdim):
    return pick(rng, VDIM_POOLS.get(nvdim, [None]))


def default_vdims(nvdim):
    if nvdim == 1:
        return None
    if nvdim <= 3:
        return ["x", "y", "z"][:nvdim]
    return [f"v{i}" for i in range(nvdim)]


def rand_field(rng, mesh, nvdim=None, dtype=None, vdims="random", valid="random",
               mapping="default", unit="random"):
    """A Field with known generator-side array/valid; returns (field, array, valid)."""
    n = tuple(int(k) for k in mesh.n)
    if nvdim is None:
        nvdim = int(rng.integers(1, 5))
    if dtype is None:
        dtype = pick(rng, ["float", "float", "int", "complex"])
    arr = rand_values(rng, (*n, nvdim), dtype)
    kw = {}
    if vdims == "random":
        kw["vdims"] = rand_vdims(rng, nvdim)
    elif vdims is not None:
        kw["vdims"] = vdims
    val = rand_valid(rng, n) if valid == "random" else np.ones(n, dtype=bool)
    if unit == "random":
        kw["unit"] = pick(rng, [None, "A/m", "T", "J/m3"])
    labels = kw.get("vdims") or default_vdims(nvdim)
    if mapping == "perm" and nvdim > 1 and nvdim == mesh.region.ndim:
        perm = rng.permutation(nvdim)
        kw["vdim_mapping"] = shuffle_keys(
            rng, {labels[i]: mesh.region.dims[int(perm[i])] for i in range(nvdim)})
    elif isinstance(mapping, dict):
        kw["vdim_mapping"] = mapping
    f = df.Field(mesh, nvdim=nvdim, value=arr, valid=val.copy(), **kw)
    return f, arr, val


def rand_bc(rng, dim_names, p_none=0.5):
    """A valid boundary-condition string: '', 'neumann', 'dirichlet' or a set of
    single-character dimension names (only those can be periodic)."""
    if rng.random() < p_none:
        return ""
    single = [d for d in dim_names if len(d) == 1]
    opts = ["neumann", "dirichlet"]
    if single:
        k = int(rng.integers(1, len(single) + 1))
        opts += ["".join(rng.permutation(single)[:k])] * 3
    return pick(rng, opts)
