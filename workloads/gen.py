"""Shared seeded generators for the directed workloads (DESIGN.md rules R3/R7).

Everything is built from *integers first*: cell counts and index boxes are drawn
as integers and coordinates derived from them, so expected lattice answers are
known without any floating-point comparison.
"""

import itertools

import numpy as np

import discretisedfield as df

DIM_POOLS = [
    None,  # library default names
    ["a", "b", "c", "d"],
    ["xx", "rho", "phi_2", "t0"],
    ["z", "x", "y", "w"],
    ["y", "z", "x", "t"],
    ["p", "q", "r", "s"],
    ["V", "T", "f", "E"],  # axes that are not lengths (a voltage sweep, a temperature ...)
    ["k_x", "k_y", "k_z", "k_t"],  # a mesh that already lives in Fourier space
]
UNIT_POOLS = [None, ["m", "m", "m", "m"], ["nm", "s", "K", "T"], ["u0", "u1", "u2", "u3"]]


def pick(rng, seq):
    return seq[int(rng.integers(0, len(seq)))]


def rand_dims(rng, nd, allow_default=True):
    pool = pick(rng, DIM_POOLS if allow_default else DIM_POOLS[1:])
    if pool is None:
        return None
    idx = rng.permutation(4)[:nd]
    return [pool[i] for i in idx]


def rand_units(rng, nd):
    pool = pick(rng, UNIT_POOLS)
    return None if pool is None else list(pool[:nd])


def default_dims(nd):
    return ["x", "y", "z"][:nd] if nd <= 3 else [f"x{i}" for i in range(nd)]


class MeshSpec:
    """A mesh described by exact generator-side data."""

    def __init__(self, pmin, cell, n, dims, units, flip, int_corners=False, dyadic=False):
        self.dyadic = dyadic  # all coordinates are small integers times a power of two
        self.pmin = np.asarray(pmin, dtype=float)
        self.cell = np.asarray(cell, dtype=float)
        self.n = np.asarray(n, dtype=int)
        self.nd = len(self.n)
        self.pmax = self.pmin + self.cell * self.n
        self.dims = dims
        self.units = units
        self.flip = flip
        self.int_corners = int_corners

    @property
    def edges(self):
        return self.pmax - self.pmin

    @property
    def dim_names(self):
        return list(self.dims) if self.dims is not None else default_dims(self.nd)

    def corners(self):
        p1 = self.pmin.copy()
        p2 = self.pmax.copy()
        for k, f in enumerate(self.flip):
            if f:
                p1[k], p2[k] = p2[k], p1[k]
        if self.int_corners:
            return [int(x) for x in p1], [int(x) for x in p2]
        return p1.tolist(), p2.tolist()

    def region(self, **kw):
        p1, p2 = self.corners()
        return df.Region(p1=p1, p2=p2, dims=self.dims, units=self.units, **kw)

    def mesh(self, subregions=None, bc=None, by_cell=False):
        # boundary conditions the caller does not care about are drawn by the generator:
        # hardly any property mentions them, so hardly any result may depend on them
        if bc is None:
            bc = getattr(self, "bc", "")
            if bc not in ("", "neumann", "dirichlet") and not set(bc) <= set(self.dim_names):
                bc = ""  # the workload renamed the directions after the draw
        kw = {"cell": self.cell.tolist()} if by_cell else {"n": [int(k) for k in self.n]}
        if self.dyadic and not by_cell and _HIST_RNG is not None and _HIST_RNG.random() < 0.6:
            m = None
            if not subregions and (self.nd < 2 or _HIST_RNG.random() < 0.4):
                m = self._mesh_via_region_owner(_HIST_RNG, bc)
            elif self.nd >= 2:
                m = self._mesh_via_history(_HIST_RNG, subregions, bc)
            if m is not None:
                return m
        return df.Mesh(region=self.region(), bc=bc, subregions=subregions, **kw)

    def _mesh_via_region_owner(self, rng, bc):
        """The same mesh reached by changing its *region* in place after the mesh exists:
        the mesh is built on the region scaled by 1/2 about the origin (exact on the dyadic
        lattice), its derived quantities are read once, then the Region object - the one the
        caller handed in, or the one ``mesh.region`` returns - is scaled back in place.  The
        cell size of a mesh is derived from its region, never stored."""
        n = [int(x) for x in self.n]
        zero = [0.0] * self.nd
        try:
            r = df.Region(p1=(self.pmin / 2).tolist(), p2=(self.pmax / 2).tolist(), dims=self.dims,
                          units=self.units)
            pre = df.Mesh(region=r, n=n, bc=bc)
            warm(pre)
            owner = r if rng.random() < 0.5 else pre.region
            if pre.region is not r and owner is r:
                return None  # the mesh keeps a copy: the caller's object is not the mesh's
            owner.scale(2, reference_point=zero, inplace=True)
        except Exception:  # noqa: BLE001 - route not available: plain construction
            return None
        ok = (np.array_equal(pre.region.pmin, self.pmin) and np.array_equal(pre.region.pmax, self.pmax)
              and list(pre.n) == n)
        _hist_event("history.mesh.region_scaled_by_owner" if ok else "history.mesh.not_arrived")
        return pre if ok else None

    def _mesh_via_history(self, rng, subregions, bc):
        """The same mesh reached through a public history: the pre-image of the mesh under
        a quarter turn (odd k) about its centre is built, its derived quantities are read
        once (``warm``), it is rotated *in place* and the subregions are attached through the
        setter.  With dyadic coordinates every step is exact, so the result is
        value-identical to the directly constructed mesh; an implementation that caches
        derived geometry and forgets to refresh it on an in-place step is not."""
        a, b = (int(x) for x in rng.permutation(self.nd)[:2])
        k = int(rng.choice([1, 3, -1, 5]))
        c = (self.pmin + self.pmax) / 2
        e = self.edges
        lo, hi = self.pmin.copy(), self.pmax.copy()
        lo[a], hi[a] = c[a] - e[b] / 2, c[a] + e[b] / 2
        lo[b], hi[b] = c[b] - e[a] / 2, c[b] + e[a] / 2
        n = [int(x) for x in self.n]
        n[a], n[b] = n[b], n[a]
        units = None if self.units is None else list(self.units)
        if units is not None:
            units[a], units[b] = units[b], units[a]
        names = self.dim_names
        try:
            pre = df.Mesh(region=df.Region(p1=lo.tolist(), p2=hi.tolist(), dims=self.dims,
                                           units=units), n=n, bc=bc)
            warm(pre)
            pre.rotate90(names[a], names[b], k=k, inplace=True)
            if subregions:
                pre.subregions = subregions
        except Exception:  # noqa: BLE001 - route not available: plain construction
            return None
        ok = (np.array_equal(pre.region.pmin, self.pmin) and np.array_equal(pre.region.pmax, self.pmax)
              and list(pre.n) == [int(x) for x in self.n]
              and list(pre.region.units) == (list(self.units) if self.units is not None
                                             else ["m"] * self.nd))
        # a mesh that does not arrive where it should is C12's / C13's subject, not the
        # caller's: fall back to plain construction
        _hist_event("history.mesh.inplace_quarter_turn" if ok else "history.mesh.not_arrived")
        return pre if ok else None

    def centre(self, idx):
        return self.pmin + (np.asarray(idx) + 0.5) * self.cell

    def vertex(self, idx):
        return self.pmin + np.asarray(idx) * self.cell

    def indices(self):
        """All cell indices, first dimension fastest (my own enumeration)."""
        for rev in itertools.product(*[range(int(k)) for k in self.n[::-1]]):
            yield tuple(rev[::-1])

    def box_region(self, lo, hi):
        """Region spanning the index box [lo, hi) on lattice vertices."""
        return df.Region(p1=self.vertex(lo).tolist(), p2=self.vertex(hi).tolist())

    def describe(self):
        return {
            "pmin": self.pmin.tolist(),
            "cell": self.cell.tolist(),
            "n": self.n.tolist(),
            "dims": self.dims,
            "units": self.units,
            "flip": [bool(f) for f in self.flip],
            "int_corners": self.int_corners,
        }

    def signature(self):
        with np.errstate(all="ignore"):
            off = np.max(np.abs(self.pmin) / self.edges)
        return (
            self.nd,
            tuple(int(min(k, 3)) for k in self.n),
            int(np.floor(np.log10(np.max(self.cell)))),
            0 if off == 0 else int(np.clip(np.floor(np.log10(off + 1e-300)), -3, 9)),
            bool(any(self.flip)),
            self.int_corners,
            "default" if self.dims is None else "named",
        )


def rand_meshspec(
    rng,
    nd=None,
    nd_range=(1, 4),
    n_max=6,
    max_cells=4096,
    scale_decades=(-9, 3),
    offsets=True,
    int_corners=None,
    dims="random",
    anisotropic=True,
    min_n=1,
):
    if nd is None:
        nd = int(rng.integers(nd_range[0], nd_range[1] + 1))
    for _ in range(100):
        n = rng.integers(min_n, n_max + 1, nd)
        if np.prod(n) <= max_cells:
            break
    else:
        n = np.full(nd, min_n)
    if rng.random() < 0.08:
        # one long axis (13..63 cells): block sizes, two-digit indices, stencil runs much
        # longer than any stencil; the other axes shrink until the cell budget is kept
        ax = int(rng.integers(0, nd))
        n[ax] = int(10.0 ** rng.uniform(1.12, 1.8))
        while np.prod(n) > max_cells:
            others = [k for k in range(nd) if k != ax and n[k] > min_n]
            if not others:
                n[ax] = max(min_n, int(max_cells // max(1, np.prod(n) // n[ax])))
                break
            n[others[int(rng.integers(0, len(others)))]] -= 1
    if int_corners is None:
        int_corners = rng.random() < 0.15
    dyadic = (not int_corners) and rng.random() < 0.12
    if int_corners:
        # corners given as Python integers; the cells need not be whole numbers
        # (Mesh(p1=(0, 0, 0), p2=(10, 10, 10), n=(20, 20, 20))): dyadic fractions, so that
        # n * cell is exactly the integer edge
        cell = np.array([float(pick(rng, [q for q in (1, 1, 2, 3, 4, 0.5, 0.25, 1.5, 0.75)
                                          if float(q * k).is_integer()])) for k in n])
        pmin = rng.integers(-20, 20, nd).astype(float) if offsets else np.zeros(nd)
    elif dyadic:
        # float corners on a dyadic lattice: all coordinate arithmetic is exact
        lo2, hi2 = int(np.ceil(scale_decades[0] * 3.33)), int(np.floor(scale_decades[1] * 3.33))
        scale = 2.0 ** int(rng.integers(lo2, hi2 + 1))
        cell = scale * (rng.integers(1, 9, nd) if anisotropic else np.full(nd, rng.integers(1, 9))) / 4
        pmin = scale * rng.integers(-40, 41, nd) / 4 if offsets else np.zeros(nd)
    else:
        scale = 10.0 ** rng.uniform(*scale_decades)
        ratio = rng.uniform(0.2, 5.0, nd) if anisotropic else np.ones(nd)
        cell = scale * ratio
        if not offsets or rng.random() < 0.25:
            pmin = np.zeros(nd)
        else:
            mag = 10.0 ** rng.uniform(-1, 3)  # up to 1e3 edge lengths (rule R7)
            pmin = rng.uniform(-1, 1, nd) * mag * cell * n
            if rng.random() < 0.3:
                pmin = -rng.uniform(0, 1, nd) * cell * n  # straddling the origin
    if dims == "random":
        dims = rand_dims(rng, nd)
    elif dims == "default":
        dims = None
    units = rand_units(rng, nd)
    flip = rng.random(nd) < 0.3
    spec = MeshSpec(pmin, cell, n, dims, units, flip, int_corners, dyadic)
    spec.bc = rand_bc(rng, spec.dim_names, p_none=0.7)
    return spec


def rand_box(rng, n, min_size=1):
    """Random index box lo <= i < hi (at least ``min_size`` cells per axis)."""
    n = np.asarray(n)
    lo = np.array([int(rng.integers(0, max(1, k - min_size + 1))) for k in n])
    hi = np.array([int(rng.integers(l + min_size, k + 1)) if k >= l + min_size else k
                   for l, k in zip(lo, n)])
    return lo, hi


def rand_subregions(rng, spec, kmax=3, names=None):
    """{name: (lo, hi)} index boxes plus the matching {name: Region} dict."""
    k = int(rng.integers(0, kmax + 1))
    names = names or ["s0", "r1", "sub_2", "Z"]
    if kmax >= 2 and names[:2] == ["s0", "r1"] and rng.random() < 0.06:
        # many subregions with numbered names ('r10' sorts before 'r2' as a string)
        k = int(rng.integers(10, 14))
        names = [f"r{j}" for j in rng.permutation(k)]
    boxes, regions = {}, {}
    for j in range(k):
        lo, hi = rand_box(rng, spec.n)
        boxes[names[j]] = (lo, hi)
        regions[names[j]] = spec.box_region(lo, hi)
    return boxes, regions


def shuffle_keys(rng, d, p=0.5):
    """The same dict with its keys inserted in a random order (probability p): a
    component-to-axis mapping is a mapping - nothing may depend on the order in which the
    user happened to write its entries."""
    if not d or rng.random() >= p:
        return d
    keys = list(d)
    return {keys[int(k)]: d[keys[int(k)]] for k in rng.permutation(len(keys))}


def rand_valid(rng, n, kind=None):
    n = tuple(int(k) for k in n)
    kind = kind or pick(rng, ["all", "all", "random", "random", "random", "random", "sparse",
                              "sparse", "dense", "dense", "none", "one"])
    if kind == "all":
        return np.ones(n, dtype=bool)
    if kind == "none":
        return np.zeros(n, dtype=bool)  # nothing valid: still a field
    if kind == "one":
        v = np.zeros(n, dtype=bool)  # a single valid cell (or a single invalid one)
        v[tuple(int(rng.integers(0, k)) for k in n)] = True
        return v if rng.random() < 0.5 else ~v
    p = {"random": 0.5, "sparse": 0.15, "dense": 0.85}[kind]
    return rng.random(n) < p


def rand_values(rng, shape, dtype="float", mag=None):
    if mag is None:
        # SI-scale magnitudes: 30 % tiny (1e-12..1e-6: nm lengths, pJ energies - below numpy's
        # default absolute tolerance 1e-8, a recurring hazard in this code base), 50 %
        # moderate, 20 % large (1e4..1e9: A/m magnetisations)
        r = rng.random()
        lo, hi = (-12, -6) if r < 0.3 else ((-3, 3) if r < 0.8 else (4, 9))
        mag = 10.0 ** rng.uniform(lo, hi)
    if dtype == "int":
        return rng.integers(-50, 50, shape)
    if dtype == "complex":
        return (rng.normal(size=shape) + 1j * rng.normal(size=shape)) * mag
    if dtype == "bool":
        return rng.random(shape) < 0.5
    return rng.normal(size=shape) * mag


VDIM_POOLS = {
    1: [None],
    2: [None, ["a", "b"], ["mx", "my"], ["v_1", "v_2"], ["q", "p"]],
    3: [None, ["a", "b", "c"], ["mx", "my", "mz"], ["v_1", "v_2", "v_3"], ["z", "x", "y"],
        ["c", "a", "b"]],
    4: [None, ["a", "b", "c", "d"], ["m_x", "m_y", "m_z", "m_t"], ["w", "u", "t", "v"]],
}


def rand_vdims(rng, nvdim):
    return pick(rng, VDIM_POOLS.get(nvdim, [None]))


def default_vdims(nvdim):
    if nvdim == 1:
        return None
    if nvdim <= 3:
        return ["x", "y", "z"][:nvdim]
    return [f"v{i}" for i in range(nvdim)]


def rand_field(rng, mesh, nvdim=None, dtype=None, vdims="random", valid="random",
               mapping="default", unit="random"):
    """A Field with known generator-side array/valid; returns (field, array, valid)."""
    n = tuple(int(k) for k in mesh.n)
    if nvdim is None:
        nvdim = int(rng.integers(1, 5))
    if dtype is None:
        dtype = pick(rng, ["float", "float", "int", "complex"])
    arr = rand_values(rng, (*n, nvdim), dtype)
    kw = {}
    if vdims == "random":
        kw["vdims"] = rand_vdims(rng, nvdim)
    elif vdims is not None:
        kw["vdims"] = vdims
    val = rand_valid(rng, n) if valid == "random" else np.ones(n, dtype=bool)
    if unit == "random":
        kw["unit"] = pick(rng, [None, "A/m", "T", "J/m3"])
    labels = kw.get("vdims") or default_vdims(nvdim)
    if mapping == "perm" and nvdim > 1 and nvdim == mesh.region.ndim:
        perm = rng.permutation(nvdim)
        kw["vdim_mapping"] = shuffle_keys(
            rng, {labels[i]: mesh.region.dims[int(perm[i])] for i in range(nvdim)})
    elif isinstance(mapping, dict):
        kw["vdim_mapping"] = mapping
    f = df.Field(mesh, nvdim=nvdim, value=arr, valid=val.copy(), **kw)
    return f, arr, val


def warm(obj):
    """Read the derived quantities of a region / mesh / field once (results discarded), so
    that anything an implementation may cache is filled with the *current* state before a
    workload changes that state in place."""
    import contextlib
    reads = []
    if hasattr(obj, "array"):
        f = obj
        reads += [lambda: f.norm, lambda: f.orientation, lambda: f.valid.sum(),
                  lambda: f.mean(), lambda: f.vdims, lambda: f._valid_as_field,
                  lambda: f._r_dim_mapping]
        obj = obj.mesh
    if hasattr(obj, "n"):
        m = obj
        reads += [lambda: m.cell, lambda: len(m), lambda: m.dV, lambda: m.cells,
                  lambda: m.vertices, lambda: m.index2point((0,) * m.region.ndim),
                  lambda: m.subregions]
        obj = obj.region
    r = obj
    reads += [lambda: r.edges, lambda: r.center, lambda: r.volume, lambda: r.multiplier]
    done = 0
    for read in reads:
        with contextlib.suppress(Exception):
            read()
            done += 1
    return done


_HIST_RNG = None
HIST_EVENTS = {}  # what the history helpers actually did (copied into the evidence)


def _hist_event(name):
    HIST_EVENTS[name] = HIST_EVENTS.get(name, 0) + 1


def set_history_rng(rng):
    """Called by the worker before every case: a generator of its own
    (default_rng([seed, case, 7919])) so that histories never perturb the case's stream."""
    global _HIST_RNG
    _HIST_RNG = rng


def via_history(rng, f, p=0.35):
    """A field in exactly the state of ``f`` that got there through a public *history*
    (probability p): built with other values and full validity, derived quantities read
    once (``warm``), then values and validity written in place through the array objects the
    getters return, through the setters, or through ``update_field_values``.  A correct
    implementation cannot tell the difference; stale caches and bypassed setters can."""
    rng = rng if rng is not None else _HIST_RNG
    if rng is None or rng.random() >= p:
        return f
    a = np.array(f.array)
    if a.dtype.kind == "b":
        other = ~a
    elif a.dtype.kind in "iu":
        other = a + 1
    else:
        other = a * 0.5 + (1 + np.abs(a).max())
    kw = {"vdims": f.vdims, "unit": f.unit, "dtype": f.dtype,
          "vdim_mapping": dict(f.vdim_mapping) if f.vdim_mapping else None}
    if f.nvdim == 1 and not f.vdim_mapping:
        kw.pop("vdim_mapping")
    try:
        g = df.Field(f.mesh, nvdim=f.nvdim, value=other, valid=True, **kw)
    except Exception:  # noqa: BLE001 - keep the plain field if this route is not available
        return f
    if (g.array.dtype != f.array.dtype or g.vdims != f.vdims
            or dict(g.vdim_mapping) != dict(f.vdim_mapping)):
        return f
    warm(g)
    mode = pick(rng, ["inplace", "inplace", "setter", "update"])
    _hist_event("history.field." + mode)
    if mode == "inplace":
        g.array[...] = f.array
        g.valid[...] = f.valid
    elif mode == "setter":
        g.array = np.array(f.array)
        g.valid = np.array(f.valid)
    else:
        g.update_field_values(np.array(f.array))
        g.valid = np.array(f.valid)
    return g


def rand_bc(rng, dim_names, p_none=0.5):
    """A valid boundary-condition string: '', 'neumann', 'dirichlet' or a set of
    single-character dimension names (only those can be periodic)."""
    if rng.random() < p_none:
        return ""
    single = [d for d in dim_names if len(d) == 1 and d.islower()]  # Mesh lower-cases bc strings
    opts = ["neumann", "dirichlet"]
    if single:
        k = int(rng.integers(1, len(single) + 1))
        opts += ["".join(rng.permutation(single)[:k])] * 3
    return pick(rng, opts)
