"""C18 - arbitrary rotations (FieldRotator): vectors rotated, positions resampled."""

META = {
    "property": "C18",
    "level": "exploration",
    "rule": (
        "case i of seed s is generated from default_rng([s, i]); i%4 selects the kind "
        "(0: random scalar/3-vector field with permuted component-to-axis mapping, a "
        "history of 1-3 rotations in random input forms, default or explicit n, judged "
        "against an independent trilinear model + composition + clearing; 1: uniform "
        "vector / linear scalar fields; 2: cubic cells and quarter turns about a "
        "coordinate axis compared with Field.rotate90 on the whole lattice; 3: refusals). "
        "Signature = (kind, nvdim, mapping class, input forms used, explicit n, number of "
        "rotations, decade of cell, offset class); a case is non-trivial when at least one "
        "target cell was judged against the interpolation model (kinds 0-2) or a refusal "
        "was exercised (kind 3)."
    ),
    "cases": {"quick": 640, "thorough": 9600},
    "workers": {"quick": 8, "thorough": 16},
    "timeout": {"quick": 600, "thorough": 5400},
    "deciding": [
        "C18.bbox",
        "C18.interior.trilinear",
        "C18.outside.zero",
        "C18.composition",
        "C18.clear_restores",
        "C18.uniform",
        "C18.linear_scalar",
        "C18.quarter_turn.rotate90",
        "C18.refused",
        "C18.refused.at_construction",
    ],
    "ambient": {"quick": [], "thorough": []},
    "anchor_files": ["discretisedfield/field_rotator.py"],
    "assumptions": [
        "target cells whose back-rotated centre lies less than one cell inside the "
        "original region, or less than 1e-6 cell outside it, are not judged against the "
        "interpolation model (the statement makes no claim there; rule R3)",
        "real floating-point fields, cells 1e-9..1e3, region offsets up to 1e2 edge lengths",
        "scipy.spatial.transform.Rotation is trusted only to convert a rotation matrix "
        "computed here into the input forms handed to the library (quaternion, MRP); "
        "the reference matrix itself is built from axis/angle with Rodrigues' formula",
        "refusal = constructing the rotator raises (wrong nvdim / ndim, component without "
        "an axis of the mesh); for a mapping that puts two components on one axis a "
        "refusal by the first rotate() is accepted as well",
        "names of the rotated mesh's dimensions and validity of the result are not judged",
    ],
}

import itertools  # noqa: E402

import numpy as np  # noqa: E402
from scipy.spatial.transform import Rotation  # noqa: E402

import discretisedfield as df  # noqa: E402
from dfmon.core import close, digest, maxdiff  # noqa: E402
from workloads import gen  # noqa: E402

EPS = np.finfo(float).eps
AX = {"x": 0, "y": 1, "z": 2}


# ------------------------------------------------------------------ rotations
def rodrigues(axis, angle):
    a = np.asarray(axis, dtype=float)
    a = a / np.linalg.norm(a)
    K = np.array([[0, -a[2], a[1]], [a[2], 0, -a[0]], [-a[1], a[0], 0]])
    return np.eye(3) + np.sin(angle) * K + (1 - np.cos(angle)) * (K @ K)


def elementary(ax, angle):
    e = np.zeros(3)
    e[AX[ax]] = 1.0
    return rodrigues(e, angle)


def rand_axis(rng):
    v = rng.normal(size=3)
    return v / np.linalg.norm(v)


def rand_rotation(rng, form=None):
    """(method, args, kwargs, Q, form-name): one rotation in a random input form.

    Q is the reference matrix (active rotation of vectors), computed here.
    """
    forms = ["quat", "matrix", "rotvec", "mrp", "euler", "euler_intrinsic", "align"]
    form = form or gen.pick(rng, forms)
    if form in ("euler", "euler_intrinsic"):
        k = int(rng.integers(1, 4))
        letters = "xyz"
        seq = [letters[int(rng.integers(0, 3))]]
        while len(seq) < k:  # scipy requires consecutive axes to differ
            c = letters[int(rng.integers(0, 3))]
            if c != seq[-1]:
                seq.append(c)
        angles = rng.uniform(-np.pi, np.pi, k)
        if k == 3:
            angles[1] = rng.uniform(-1.4, 1.4) if seq[0] != seq[2] else rng.uniform(0.1, 3.0)
        Q = np.eye(3)
        for c, a in zip(seq, angles):
            # extrinsic: later rotations about the fixed axes (left factors);
            # intrinsic: about the carried-along axes (right factors)
            Q = elementary(c, a) @ Q if form == "euler" else Q @ elementary(c, a)
        s = "".join(seq)
        s = s if form == "euler" else s.upper()
        deg = rng.random() < 0.4
        ang = np.degrees(angles) if deg else angles
        ang = float(ang[0]) if k == 1 and rng.random() < 0.5 else ang.tolist()
        return "from_euler", (), {"seq": s, "angles": ang, "degrees": bool(deg)}, Q, form
    if form == "align":
        u = rand_axis(rng)
        axis = np.cross(u, rand_axis(rng))
        axis /= np.linalg.norm(axis)
        angle = rng.uniform(0.2, np.pi - 0.2)
        Q = rodrigues(axis, angle)
        # only the directions matter: Ms-sized (1e6) and nm-sized (1e-9) vectors included
        lu, lw = (10.0 ** rng.uniform(-9, 9, 2)) if rng.random() < 0.6 else rng.uniform(0.3, 4.0, 2)
        initial = (lu * u).tolist()
        final = (lw * (Q @ u)).tolist()
        return "align_vector", (), {"initial": initial, "final": final}, Q, form
    axis = rand_axis(rng)
    angle = rng.uniform(-np.pi, np.pi) if rng.random() < 0.9 else float(
        rng.choice([0.0, 1e-9, np.pi / 2, np.pi - 1e-9]))
    Q = rodrigues(axis, angle)
    if form == "rotvec":
        return "from_rotvec", ((axis * angle).tolist(),), {}, Q, form
    if form == "matrix":
        arg = Q if rng.random() < 0.5 else Q.tolist()
        return "from_matrix", (arg,), {}, Q, form
    if form == "mrp":
        return "from_mrp", ((axis * np.tan(angle / 4)).tolist(),), {}, Q, form
    # quaternion, scalar last; random overall sign and (sometimes) not normalised
    q = np.concatenate([axis * np.sin(angle / 2), [np.cos(angle / 2)]])
    q = q * float(rng.choice([-1, 1])) * (rng.uniform(0.5, 3.0) if rng.random() < 0.3 else 1.0)
    return "from_quat", (q.tolist(),), {}, Q, form


# ------------------------------------------------------------------ generators
def rand_mesh(rng, n_lo=3, n_hi=6, cubic=False):
    n = rng.integers(n_lo, n_hi + 1, 3)
    scale = 10.0 ** rng.uniform(-9, 3)
    cell = scale * (np.ones(3) if cubic else rng.uniform(0.4, 2.5, 3))
    r = rng.random()
    if r < 0.2:
        pmin, off = np.zeros(3), "origin"
    elif r < 0.4:
        pmin, off = -rng.uniform(0.1, 0.9, 3) * cell * n, "straddle"
    elif r < 0.85:
        pmin, off = rng.uniform(-3, 3, 3) * cell * n, "near"
    else:
        pmin, off = rng.uniform(-1, 1, 3) * 100 * cell * n, "far"
    dims = gen.pick(rng, [None, None, ["a", "b", "c"], ["z", "x", "y"], ["p", "q", "r"]])
    pmax = pmin + cell * n
    region = df.Region(p1=pmin.tolist(), p2=pmax.tolist(), dims=dims)
    mesh = df.Mesh(region=region, n=[int(k) for k in n])
    return mesh, n, cell, pmin, pmax, off


def mapping_class(sigma):
    sigma = tuple(int(s) for s in sigma)
    if sigma == (0, 1, 2):
        return "identity"
    if sum(s == k for k, s in enumerate(sigma)) == 1:
        return "swap"
    return "3-cycle"


def rand_field(rng, mesh, n, nvdim, values=None):
    """Field + sigma (sigma[k] = index of the component pointing along axis k)."""
    if values is None:
        mag = 10.0 ** rng.uniform(-3, 6)
        values = rng.normal(size=(*n, nvdim)) * mag
    if nvdim == 1:
        return gen.via_history(None, df.Field(mesh, nvdim=1, value=values)), None
    dims = list(mesh.region.dims)
    vdims = gen.pick(rng, [None, ["a", "b", "c"], ["mx", "my", "mz"], ["z", "x", "y"]])
    labels = vdims or ["x", "y", "z"]
    if rng.random() < 0.3 and vdims is None and dims == ["x", "y", "z"]:
        sigma = np.arange(3)
        f = gen.via_history(None, df.Field(mesh, nvdim=3, value=values))
    else:
        sigma = rng.permutation(3)
        # component sigma[k] points along axis k
        mapping = {labels[int(sigma[k])]: dims[k] for k in range(3)}
        mapping = gen.shuffle_keys(rng, {lab: mapping[lab] for lab in labels})
        f = gen.via_history(None, df.Field(mesh, nvdim=3, value=values, vdims=vdims, vdim_mapping=mapping))
    return f, np.asarray(sigma)


# ---------------------------------------------------------------------- oracle
def trilinear(arr, n, rel):
    """Trilinear interpolation between cell centres; rel = (p-pmin)/cell - 0.5, (N,3)."""
    n = np.asarray(n)
    i0 = np.clip(np.floor(rel).astype(int), 0, np.maximum(n - 2, 0))
    w = rel - i0
    out = 0.0
    for d in itertools.product([0, 1], repeat=3):
        idx = np.minimum(i0 + np.array(d), n - 1)
        wt = np.prod(np.where(np.array(d) == 1, w, 1 - w), axis=1)
        out = out + wt[:, None] * arr[idx[:, 0], idx[:, 1], idx[:, 2]]
    return out


def rotate_components(v, Q, sigma):
    """Q applied to the physical vector whose axis-k component is stored at sigma[k]."""
    if sigma is None:
        return v
    phys = v[:, sigma]                 # phys[:, k] = component along axis k
    rot = phys @ Q.T
    out = np.empty_like(rot)
    out[:, sigma] = rot
    return out


def back_rotated(g, Q, c):
    """Centres of g's cells (own lattice formula) and their back-rotated positions."""
    gp = np.asarray(g.mesh.region.pmin, dtype=float)
    gn = np.asarray(g.mesh.n)
    gc = (np.asarray(g.mesh.region.pmax, dtype=float) - gp) / gn
    axes = [gp[k] + (np.arange(gn[k]) + 0.5) * gc[k] for k in range(3)]
    q = np.stack(np.meshgrid(*axes, indexing="ij"), axis=-1).reshape(-1, 3)
    return q, c + (q - c) @ Q          # row form of Q^T (q - c)


def classify(p, pmin, pmax, cell):
    inner = np.all((p >= pmin + cell) & (p <= pmax - cell), axis=1)
    outer = np.any((p < pmin - 1e-6 * cell) | (p > pmax + 1e-6 * cell), axis=1)
    band = np.any((np.abs(p - pmin) <= 1e-6 * cell) | (np.abs(p - pmax) <= 1e-6 * cell), axis=1)
    return inner, outer, band


def check_geometry(ctx, f, g, Q, info, explicit_n=None):
    r = f.mesh.region
    c = (np.asarray(r.pmin, float) + np.asarray(r.pmax, float)) / 2
    edges = np.asarray(r.pmax, float) - np.asarray(r.pmin, float)
    half = np.abs(Q) @ edges / 2
    tol = 1e-9 * np.max(edges) + 64 * EPS * np.max(np.abs(c))
    gp, gq = np.asarray(g.mesh.region.pmin, float), np.asarray(g.mesh.region.pmax, float)
    ctx.check("C18.bbox",
              np.all(np.abs(gp - (c - half)) <= tol) and np.all(np.abs(gq - (c + half)) <= tol),
              got_pmin=gp, got_pmax=gq, expected_pmin=c - half, expected_pmax=c + half, **info)
    ctx.check("C18.same_centre", np.all(np.abs((gp + gq) / 2 - c) <= tol),
              got=(gp + gq) / 2, expected=c, **info)
    if explicit_n is not None:
        ctx.check("C18.explicit_n", np.array_equal(g.mesh.n, explicit_n),
                  got=g.mesh.n, expected=explicit_n, **info)
    ctx.check("C18.result_metadata",
              g.nvdim == f.nvdim and g.array.shape == (*g.mesh.n, f.nvdim)
              and (f.nvdim == 1 or (list(g.vdims) == list(f.vdims)
                                    and dict(g.vdim_mapping) == dict(f.vdim_mapping))),
              got_nvdim=g.nvdim, got_vdims=g.vdims, got_mapping=g.vdim_mapping, **info)
    return c


def check_values(ctx, f, g, Q, sigma, info, monitor="C18.interior.trilinear"):
    """g against Q.trilinear(f) inside, exactly zero outside.  Returns #interior judged."""
    r = f.mesh.region
    pmin, pmax = np.asarray(r.pmin, float), np.asarray(r.pmax, float)
    n = np.asarray(f.mesh.n)
    cell = (pmax - pmin) / n
    c = (pmin + pmax) / 2
    q, p = back_rotated(g, Q, c)
    inner, outer, _ = classify(p, pmin, pmax, cell)
    got = g.array.reshape(-1, f.nvdim)
    scale = float(np.max(np.abs(f.array)))
    if inner.any():
        rel = (p[inner] - pmin) / cell - 0.5
        exp = rotate_components(trilinear(f.array, n, rel), Q, sigma)
        ok = close(got[inner], exp, rtol=1e-8, scale=scale)
        w = {}
        if not ok:
            j = int(np.argmax(np.max(np.abs(got[inner] - exp), axis=1)))
            w = {"target_centre": q[inner][j], "back_rotated": p[inner][j],
                 "got": got[inner][j], "expected": exp[j]}
        ctx.check(monitor, ok, maxdiff=maxdiff(got[inner], exp), scale=scale,
                  cells=int(inner.sum()), **w, **info)
        ctx.event("interior_cells_judged", int(inner.sum()))
    if outer.any():
        bad = np.any(got[outer] != 0, axis=1)
        w = {}
        if bad.any():
            j = int(np.argmax(bad))
            w = {"target_centre": q[outer][j], "back_rotated": p[outer][j], "got": got[outer][j]}
        ctx.check("C18.outside.zero", not bad.any(), nonzero_cells=int(bad.sum()),
                  cells=int(outer.sum()), **w, **info)
        ctx.event("outside_cells_judged", int(outer.sum()))
    return int(inner.sum())


def compare_rotators(ctx, monitor, f, g, h, Q, info):
    """Two rotated fields that should coincide (outside the undecided band)."""
    r = f.mesh.region
    pmin, pmax = np.asarray(r.pmin, float), np.asarray(r.pmax, float)
    cell = (pmax - pmin) / np.asarray(f.mesh.n)
    edges = pmax - pmin
    tol = 1e-9 * np.max(edges) + 64 * EPS * np.max(np.abs(pmin + pmax))
    same_mesh = (np.array_equal(g.mesh.n, h.mesh.n)
                 and np.all(np.abs(np.asarray(g.mesh.region.pmin) - np.asarray(h.mesh.region.pmin)) <= tol)
                 and np.all(np.abs(np.asarray(g.mesh.region.pmax) - np.asarray(h.mesh.region.pmax)) <= tol))
    ok = same_mesh
    md = None
    if same_mesh:
        _, p = back_rotated(g, Q, (pmin + pmax) / 2)
        _, _, band = classify(p, pmin, pmax, cell)
        a = g.array.reshape(-1, f.nvdim)[~band]
        b = h.array.reshape(-1, f.nvdim)[~band]
        ok = close(a, b, rtol=1e-9, scale=float(np.max(np.abs(f.array))))
        md = maxdiff(a, b)
    ctx.check(monitor, ok, same_mesh=same_mesh, maxdiff=md,
              n_a=g.mesh.n, n_b=h.mesh.n, **info)


REJECTED = {"n": 0}


def apply(rot, spec, n=None):
    method, args, kwargs, _, _ = spec
    if _HIST is not None and _HIST.random() < 0.25:
        # history: a call that is refused (no mesh has zero cells) precedes the valid one;
        # the refused rotation must not stay behind in the rotator
        try:
            rot.rotate(method, *args, n=(0, 1, 1), **kwargs)
        except Exception:  # noqa: BLE001
            REJECTED["n"] += 1
    if n is None:
        rot.rotate(method, *args, **kwargs)
    else:
        rot.rotate(method, *args, n=n, **kwargs)


def describe(spec):
    method, args, kwargs, Q, form = spec
    return {"method": method, "args": args, "kwargs": kwargs, "Q": Q}


# ----------------------------------------------------------------------- kinds
_HIST = None


def history(ctx):
    global _HIST
    rng = ctx.rng
    _HIST = np.random.default_rng([ctx.i, 18])
    small = rng.random() < 0.12       # thin samples: nothing is >= one cell inside
    mesh, n, cell, pmin, pmax, off = rand_mesh(rng, 1 if small else 3, 3 if small else (7 if ctx.thorough else 6))
    nvdim = int(rng.choice([1, 3]))
    f, sigma = rand_field(rng, mesh, n, nvdim)
    d0 = digest(f)
    rot = df.FieldRotator(f)
    steps = int(rng.integers(1, 4))
    Qtot = np.eye(3)
    forms, judged = [], 0
    base = {"nvdim": nvdim, "sigma": sigma, "mesh": {"pmin": pmin, "cell": cell, "n": n,
                                                     "dims": mesh.region.dims}}
    hist = []
    for s in range(steps):
        spec = rand_rotation(rng)
        explicit = None
        if rng.random() < 0.5:
            explicit = [int(k) for k in rng.integers(2, 9 if ctx.thorough else 8, 3)]
        apply(rot, spec, explicit)
        hist.append(describe(spec))
        forms.append(spec[4])
        Qtot = spec[3] @ Qtot          # later rotations are applied after earlier ones
        g = rot.field
        info = dict(base, step=s, forms=list(forms), explicit_n=explicit, history=hist[-3:])
        check_geometry(ctx, f, g, Qtot, info, explicit)
        judged += check_values(ctx, f, g, Qtot, sigma, info)
        if s >= 1:
            fresh = df.FieldRotator(f)
            fresh.rotate("from_matrix", Qtot, n=[int(k) for k in g.mesh.n])
            compare_rotators(ctx, "C18.composition", f, g, fresh.field, Qtot, info)
            # the wrong order must be distinguishable for the case to count
            ctx.event("composition_checks")
    # clearing restores the original; a rotation afterwards starts from it again
    rot.clear_rotation()
    back = rot.field
    ctx.check("C18.clear_restores", back is f or digest(back) == d0,
              note="field after clear_rotation is not the original", **base)
    spec = rand_rotation(rng)
    apply(rot, spec)
    g = rot.field
    info = dict(base, step="after_clear", forms=[spec[4]], history=[describe(spec)])
    check_geometry(ctx, f, g, spec[3], info)
    judged += check_values(ctx, f, g, spec[3], sigma, info, monitor="C18.clear_restores.then_rotate")
    ctx.check("C18.original_untouched", digest(f) == d0, **base)
    ctx.sig(("history", nvdim, None if sigma is None else mapping_class(sigma),
             tuple(sorted(set(forms))), steps, int(np.floor(np.log10(np.max(cell)))), off, small),
            nontrivial=judged > 0)
    ctx.sample({"kind": "history", **base, "history": hist})


def uniform_linear(ctx):
    rng = ctx.rng
    mesh, n, cell, pmin, pmax, off = rand_mesh(rng, 3, 6)
    c = (pmin + pmax) / 2
    base = {"mesh": {"pmin": pmin, "cell": cell, "n": n, "dims": mesh.region.dims}}
    judged = 0
    # ---- uniform vector field -> Q v
    v = rng.normal(size=3) * 10.0 ** rng.uniform(-3, 6)
    f, sigma = rand_field(rng, mesh, n, 3, values=np.broadcast_to(v, (*n, 3)).copy())
    rot = df.FieldRotator(f)
    spec = rand_rotation(rng)
    explicit = [int(k) for k in rng.integers(2, 8, 3)] if rng.random() < 0.5 else None
    apply(rot, spec, explicit)
    g, Q = rot.field, spec[3]
    info = dict(base, v=v, sigma=sigma, rotation=describe(spec), explicit_n=explicit)
    check_geometry(ctx, f, g, Q, info, explicit)
    _, p = back_rotated(g, Q, c)
    inner, outer, _ = classify(p, pmin, pmax, cell)
    expv = rotate_components(v[None, :], Q, sigma)[0]
    got = g.array.reshape(-1, 3)
    if inner.any():
        ctx.check("C18.uniform", close(got[inner], np.broadcast_to(expv, got[inner].shape),
                                       rtol=1e-9, scale=float(np.max(np.abs(v)))),
                  got=got[inner][0], expected=expv, **info)
        judged += int(inner.sum())
    if outer.any():
        ctx.check("C18.outside.zero", not np.any(got[outer] != 0),
                  cells=int(outer.sum()), field="uniform", **info)
    # ---- linear scalar field reproduced exactly
    a = rng.normal(size=3) / cell
    b = rng.normal() * 3
    axes = [pmin[k] + (np.arange(n[k]) + 0.5) * cell[k] for k in range(3)]
    X = np.stack(np.meshgrid(*axes, indexing="ij"), axis=-1)
    vals = ((X - c) @ a + b)[..., None]
    fs = df.Field(mesh, nvdim=1, value=vals)
    rot = df.FieldRotator(fs)
    steps = int(rng.integers(1, 3))
    Q = np.eye(3)
    specs = []
    for _ in range(steps):
        spec = rand_rotation(rng)
        apply(rot, spec)
        Q = spec[3] @ Q
        specs.append(describe(spec))
    g = rot.field
    q, p = back_rotated(g, Q, c)
    inner, outer, _ = classify(p, pmin, pmax, cell)
    got = g.array.reshape(-1)
    info = dict(base, a=a, b=b, rotations=specs)
    if inner.any():
        exp = (p[inner] - c) @ a + b
        ctx.check("C18.linear_scalar", close(got[inner], exp, rtol=1e-9,
                                             scale=float(np.max(np.abs(vals)))),
                  maxdiff=maxdiff(got[inner], exp), cells=int(inner.sum()), **info)
        judged += int(inner.sum())
    if outer.any():
        ctx.check("C18.outside.zero", not np.any(got[outer] != 0),
                  cells=int(outer.sum()), field="linear scalar", **info)
    ctx.event("interior_cells_judged", judged)
    ctx.sig(("uniform_linear", mapping_class(sigma), spec[4], explicit is not None, steps,
             int(np.floor(np.log10(np.max(cell)))), off), nontrivial=judged > 0)


def large_linear(ctx):
    """A rotated mesh of about 3e5 cells (odd counts): a linear scalar field is reproduced in
    every interior cell, also in the last ones of a long array."""
    rng = ctx.rng
    n = np.array([int(rng.integers(36, 44)), int(rng.integers(36, 44)), int(rng.integers(36, 44))])
    cell = 10.0 ** rng.uniform(-9, 3) * rng.uniform(0.7, 1.4, 3)
    pmin = rng.uniform(-3, 3, 3) * cell * n
    pmax = pmin + cell * n
    mesh = df.Mesh(p1=pmin.tolist(), p2=pmax.tolist(), n=[int(k) for k in n])
    c = (pmin + pmax) / 2
    a = rng.normal(size=3) / (cell * n)
    b = rng.normal() * 3
    axes = [pmin[k] + (np.arange(n[k]) + 0.5) * cell[k] for k in range(3)]
    X = np.stack(np.meshgrid(*axes, indexing="ij"), axis=-1)
    vals = ((X - c) @ a + b)[..., None]
    fs = df.Field(mesh, nvdim=1, value=vals)
    rot = df.FieldRotator(fs)
    spec = rand_rotation(rng)
    explicit = [int(rng.integers(66, 74)) | 1, int(rng.integers(62, 70)) | 1, int(rng.integers(60, 66)) | 1]
    apply(rot, spec, explicit)
    g, Q = rot.field, spec[3]
    q, p = back_rotated(g, Q, c)
    inner, outer, _ = classify(p, pmin, pmax, cell)
    got = g.array.reshape(-1)
    info = {"part": "large", "n": n, "explicit_n": explicit, "target_cells": int(np.prod(explicit)),
            "rotation": describe(spec)}
    ctx.event("large_meshes")
    if inner.any():
        exp = (p[inner] - c) @ a + b
        okv = np.abs(got[inner] - exp) <= 1e-9 * float(np.max(np.abs(vals)))
        w = {}
        if not okv.all():
            badi = np.flatnonzero(inner)[~okv]
            w = {"wrong_cells": int(len(badi)), "first_flat_index": int(badi[0]),
                 "last_flat_index": int(badi[-1]), "got": got[badi[0]]}
        ctx.check("C18.linear_scalar", bool(okv.all()), cells=int(inner.sum()), **w, **info)
    if outer.any():
        ctx.check("C18.outside.zero", not np.any(got[outer] != 0), cells=int(outer.sum()),
                  field="linear scalar", **info)
    ctx.sig(("large_linear", spec[4]), nontrivial=bool(inner.any()))


def quarter_matrix(axis, k):
    """Exact integer matrix of k quarter turns about coordinate axis ``axis``."""
    a, b = [(1, 2), (2, 0), (0, 1)][axis]    # positive turn takes a -> b
    M = np.eye(3)
    cs = [(1, 0), (0, 1), (-1, 0), (0, -1)][k % 4]
    M[a, a] = cs[0]
    M[b, b] = cs[0]
    M[b, a] = cs[1]
    M[a, b] = -cs[1]
    return M


def quarter_turns(ctx):
    rng = ctx.rng
    mesh, n, cell, pmin, pmax, off = rand_mesh(rng, 2, 6, cubic=True)
    nvdim = int(rng.choice([1, 3]))
    f, sigma = rand_field(rng, mesh, n, nvdim)
    d0 = digest(f)
    dims = list(mesh.region.dims)
    rot = df.FieldRotator(f)
    ref = f
    Q = np.eye(3)
    steps = int(rng.integers(1, 3))
    hist, forms = [], []
    judged = 0
    for s in range(steps):
        axis = int(rng.integers(0, 3))
        k = int(rng.choice([1, 2, 3, -1, -2, 5]))
        M = quarter_matrix(axis, k)
        form = gen.pick(rng, ["euler", "rotvec", "matrix", "quat", "euler_deg"])
        e = np.zeros(3)
        e[axis] = 1.0
        ang = k * np.pi / 2
        if form == "euler":
            rot.rotate("from_euler", seq="xyz"[axis], angles=ang)
        elif form == "euler_deg":
            rot.rotate("from_euler", seq="xyz"[axis], angles=90.0 * k, degrees=True)
        elif form == "rotvec":
            rot.rotate("from_rotvec", (e * ang).tolist())
        elif form == "matrix":
            rot.rotate("from_matrix", M)
        else:
            rot.rotate("from_quat", np.concatenate([e * np.sin(ang / 2), [np.cos(ang / 2)]]))
        a, b = [(1, 2), (2, 0), (0, 1)][axis]
        ref = ref.rotate90(dims[a], dims[b], k=k)
        Q = M @ Q
        hist.append({"axis": "xyz"[axis], "k": k, "form": form})
        forms.append(form)
        g = rot.field
        info = {"nvdim": nvdim, "sigma": sigma, "history": list(hist),
                "mesh": {"pmin": pmin, "cell": cell, "n": n, "dims": dims}}
        edges = pmax - pmin
        tol = 1e-9 * np.max(edges) + 64 * EPS * np.max(np.abs(pmin + pmax))
        same = (np.array_equal(g.mesh.n, ref.mesh.n)
                and np.all(np.abs(np.asarray(g.mesh.region.pmin) - np.asarray(ref.mesh.region.pmin)) <= tol)
                and np.all(np.abs(np.asarray(g.mesh.region.pmax) - np.asarray(ref.mesh.region.pmax)) <= tol))
        ctx.check("C18.quarter_turn.mesh", same, got_n=g.mesh.n, expected_n=ref.mesh.n,
                  got_pmin=g.mesh.region.pmin, expected_pmin=ref.mesh.region.pmin, **info)
        if same:
            ctx.check("C18.quarter_turn.rotate90",
                      close(g.array, ref.array, rtol=1e-9, scale=float(np.max(np.abs(f.array)))),
                      maxdiff=maxdiff(g.array, ref.array), **info)
        check_geometry(ctx, f, g, Q, info)
        judged += check_values(ctx, f, g, Q, sigma, info)
    rot.clear_rotation()
    ctx.check("C18.clear_restores", rot.field is f or digest(rot.field) == d0,
              note="field after clear_rotation is not the original", kind="quarter")
    ctx.check("C18.original_untouched", digest(f) == d0, kind="quarter")
    ctx.sig(("quarter", nvdim, None if sigma is None else mapping_class(sigma),
             tuple(sorted(set(forms))), steps, tuple(int(min(x, 3)) for x in n), off),
            nontrivial=bool(np.any(n >= 2)))


def refusals(ctx):
    rng = ctx.rng

    def build_and_rotate(field):
        r = df.FieldRotator(field)
        r.rotate("from_euler", seq="z", angles=0.3)
        return r.field

    mesh, n, cell, pmin, pmax, off = rand_mesh(rng, 2, 4)
    n = [int(k) for k in n]
    dims = list(mesh.region.dims)
    kinds = []

    def refuse(name, field, at_construction=True):
        kinds.append(name)
        what = {"why": name, "nvdim": field.nvdim, "ndim": field.mesh.region.ndim,
                "vdims": field.vdims, "mapping": field.vdim_mapping,
                "dims": field.mesh.region.dims}
        ctx.expect_raises("C18.refused", build_and_rotate, field, unchanged=[field], what=what)
        if at_construction:
            # the field is handed over to the constructor: that is where a field the
            # rotator cannot handle is turned away (not by a crash in a later rotate())
            ctx.expect_raises("C18.refused.at_construction", df.FieldRotator, field,
                              unchanged=[field], what=what)

    # wrong number of components on a 3-d mesh
    for nv in (2, 4) + ((5,) if rng.random() < 0.3 else ()):
        refuse(f"nvdim={nv}", df.Field(mesh, nvdim=nv, value=rng.normal(size=(*n, nv))))
    # ... also when every component names an axis of the mesh
    two = rng.permutation(3)[:2]
    refuse("nvdim=2 mapped", df.Field(mesh, nvdim=2, value=rng.normal(size=(*n, 2)),
                                      vdims=["a", "b"],
                                      vdim_mapping={"a": dims[int(two[0])], "b": dims[int(two[1])]}))
    # wrong spatial dimension
    for nd in (1, 2, 4):
        m = df.Mesh(p1=pmin[:3].tolist()[:nd] if nd <= 3 else pmin.tolist() + [0.0],
                    p2=pmax[:3].tolist()[:nd] if nd <= 3 else pmax.tolist() + [1.0],
                    n=(n + [2])[:nd])
        nv = int(rng.choice([1, 3]))
        kw = {}
        if nv == 3 and nd == 2:
            kw = {"vdim_mapping": {"x": "x", "y": "y", "z": None}} if rng.random() < 0.5 else {}
        refuse(f"ndim={nd},nvdim={nv}",
               df.Field(m, nvdim=nv, value=rng.normal(size=(*m.n, nv)), **kw))
    # incomplete component-to-axis mappings of a 3-vector on a 3-d mesh
    labels = ["a", "b", "c"]
    vals = rng.normal(size=(*n, 3))
    refuse("mapping empty", df.Field(mesh, nvdim=3, value=vals, vdims=labels, vdim_mapping={}))
    j = int(rng.integers(0, 3))
    mp = {labels[k]: dims[k] for k in range(3)}
    mp[labels[j]] = None
    refuse("one component unmapped", df.Field(mesh, nvdim=3, value=vals, vdims=labels,
                                              vdim_mapping=dict(mp)))
    mp[labels[j]] = "not_a_dim"
    refuse("component mapped to a foreign name", df.Field(mesh, nvdim=3, value=vals, vdims=labels,
                                                          vdim_mapping=dict(mp)))
    mp[labels[j]] = dims[(j + 1) % 3]
    # (each label names an axis of the mesh, but one axis has no component: only the
    # constructor-or-first-rotate refusal is required here)
    refuse("two components on one axis", df.Field(mesh, nvdim=3, value=vals, vdims=labels,
                                                  vdim_mapping=dict(mp)), at_construction=False)
    # positive control: the complete mapping of the same data is accepted
    mp[labels[j]] = dims[j]
    ctx.expect_ok("C18.complete_mapping_accepted", build_and_rotate,
                  df.Field(mesh, nvdim=3, value=vals, vdims=labels, vdim_mapping=dict(mp)))
    ctx.sig(("refusals", tuple(kinds), tuple(dims)), nontrivial=True)


def run_case(ctx, i):
    if ctx.thorough and i % 1200 == 323:
        # thorough tier only: the rotator evaluates its target cell by cell in Python, one
        # such case takes ~40 s under the monitors (8 of them in 9600 cases)
        return large_linear(ctx)
    kind = i % 4
    if kind == 0:
        history(ctx)
    elif kind == 1:
        uniform_linear(ctx)
    elif kind == 2:
        quarter_turns(ctx)
    else:
        refusals(ctx)
