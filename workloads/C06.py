"""C06 - integrals and means are cell sums times cell measure, consistent across axes."""

META = {
    "property": "C06",
    "level": "exploration",
    "rule": (
        "case i of seed s is generated from default_rng([s, i]); i%4 selects the kind "
        "(0: volume integral, every directional integral with its result mesh, successive "
        "directional integrals in several orders; 1: cumulative integrals; 2: means over "
        "none / one / several directions in several orders; 3: linearity, translation of "
        "the mesh, per-component action). Every case draws a random 1-4-d mesh with "
        "anisotropic cells and random dimension names, 1-4 components, int / float / "
        "complex values. Signature = (kind, ndim, min(n,3) per axis, nvdim, dtype, decade "
        "of the cell, offset decade, named dims); a case is non-trivial when some axis has "
        ">= 2 cells and the cells are not all equal in size along the axes."
    ),
    "cases": {"quick": 1200, "thorough": 108000},
    "workers": {"quick": 8, "thorough": 16},
    "timeout": {"quick": 600, "thorough": 5400},
    "deciding": [
        "C06.integrate.total",
        "C06.integrate.directional.value",
        "C06.integrate.directional.mesh",
        "C06.integrate.fubini",
        "C06.cumulative.value",
        "C06.cumulative.last_plus_half",
        "C06.mean.all",
        "C06.mean.directions.value",
        "C06.mean.directions.mesh",
        "C06.linear",
        "C06.translation",
        "C06.per_component",
    ],
    "ambient": {"quick": [], "thorough": []},
    "anchor_files": ["discretisedfield/field.py", "discretisedfield/mesh.py"],
    "assumptions": [
        "sums evaluated in a different order are compared with relative tolerance 1e-12 "
        "(1e-11 for chains of successive integrals) of the natural scale sum(|values|) * "
        "measure, widened by the floating-point resolution of the corner coordinates "
        "(8 eps * |corner| / edge per involved axis): the cell length is only known to "
        "that precision when the mesh sits far from the origin",
        "cell sizes 1e-9..1e3, offsets up to 1e3 edge lengths (rule R7)",
        "a directional integral / mean over the only direction of a 1-d mesh has no mesh "
        "left: the bare per-component numbers are expected (as integrate('x') returns)",
        "unit and component labels of the results are not judged (not in the statement)",
    ],
}

import itertools  # noqa: E402

import numpy as np  # noqa: E402

import discretisedfield as df  # noqa: E402
from workloads import gen  # noqa: E402

EPS = np.finfo(float).eps


# ----------------------------------------------------------------------- generators
def _spec(ctx):
    return gen.rand_meshspec(ctx.rng, n_max=7 if ctx.thorough else 5,
                             max_cells=1200 if ctx.thorough else 500)


def _values(ctx, n, nvdim, dtype=None):
    rng = ctx.rng
    dtype = dtype or gen.pick(rng, ["float", "float", "float", "int", "complex"])
    arr = gen.rand_values(rng, (*[int(k) for k in n], nvdim), dtype)
    if dtype == "float" and rng.random() < 0.3:
        # a non-zero mean (cancellation-free) and a gradient along a random axis
        ax = int(rng.integers(0, len(n)))
        shape = [1] * (len(n) + 1)
        shape[ax] = int(n[ax])
        arr = arr + np.abs(arr).max() * (2 + np.arange(n[ax]).reshape(shape))
    return arr, dtype


def _field(mesh, arr, rng=None):
    nvdim = arr.shape[-1]
    kw = {}
    if rng is not None:
        kw["vdims"] = gen.rand_vdims(rng, nvdim)
        kw["unit"] = gen.pick(rng, [None, "T"])
    if np.iscomplexobj(arr):
        kw["dtype"] = complex
    elif rng is not None and arr.dtype.kind == "i" and rng.random() < 0.6:
        # an integer field keeps an integer array only when the dtype is declared;
        # its integrals and means are still real numbers
        kw["dtype"] = gen.pick(rng, [int, np.int64, np.int32])
    elif rng is not None and arr.dtype.kind == "f" and rng.random() < 0.2:
        kw["dtype"] = np.float64
    if rng is not None and rng.random() < 0.4:
        # "the sum of the cell values": the statement knows no exception for cells that are
        # marked invalid (they keep their - here non-zero - numbers)
        kw["valid"] = gen.rand_valid(rng, mesh.n, kind=gen.pick(rng, ["random", "sparse", "dense"]))
    return gen.via_history(None, df.Field(mesh, nvdim=nvdim, value=arr.copy(), **kw))


def _res(spec, axes):
    """Relative uncertainty of prod(cell[axes]) caused by coordinate rounding."""
    big = np.maximum(np.abs(spec.pmin), np.abs(spec.pmax))
    return float(sum(8 * EPS * big[k] / spec.edges[k] for k in axes))


def _close(got, exp, scale, rtol):
    """|got-exp| <= rtol*scale, scale an array broadcastable to exp (or scalar)."""
    got = np.asarray(got)
    exp = np.asarray(exp)
    if got.shape != exp.shape:
        return False
    if not np.all(np.isfinite(got)):
        return False
    return bool(np.all(np.abs(got - exp) <= rtol * np.asarray(scale)))


def _err(got, exp, scale):
    got, exp = np.asarray(got), np.asarray(exp)
    if got.shape != exp.shape:
        return f"shape {got.shape} vs {exp.shape}"
    with np.errstate(all="ignore"):
        return float(np.nanmax(np.abs(got - exp) / np.where(np.asarray(scale) == 0, 1, scale)))


def _coord_tol(spec):
    return 16 * EPS * np.maximum(np.abs(spec.pmin), np.abs(spec.pmax)) + 1e-12 * spec.cell


def _mesh_without(ctx, monitor, got_mesh, spec, removed, info):
    """The result lives on the source mesh with the axes ``removed`` taken out."""
    keep = [k for k in range(spec.nd) if k not in removed]
    names = spec.dim_names
    tol = _coord_tol(spec)[keep]
    ok = isinstance(got_mesh, df.Mesh)
    detail = {}
    if ok:
        r = got_mesh.region
        detail = {"dims_got": list(r.dims), "dims_expected": [names[k] for k in keep],
                  "n_got": got_mesh.n, "n_expected": spec.n[keep],
                  "cell_got": got_mesh.cell, "cell_expected": spec.cell[keep]}
        ok = (list(r.dims) == [names[k] for k in keep]
              and np.array_equal(got_mesh.n, spec.n[keep])
              and r.pmin.shape == (len(keep),)
              and bool(np.all(np.abs(r.pmin - spec.pmin[keep]) <= tol))
              and bool(np.all(np.abs(r.pmax - spec.pmax[keep]) <= tol))
              and bool(np.all(np.abs(got_mesh.cell - spec.cell[keep]) <= tol)))
        if ok and spec.units is not None:
            ok = list(r.units) == [spec.units[k] for k in keep]
            detail["units_got"] = list(r.units)
    ctx.check(monitor, ok, removed=[names[k] for k in removed], **detail, **info)
    return ok


def _integrate(ctx, f, direction=None, cumulative=False):
    """Either entry point (method / module-level function)."""
    if ctx.rng.random() < 0.25:
        if direction is None and not cumulative:
            return df.integrate(f)
        return df.integrate(f, direction=direction, cumulative=cumulative)
    if direction is None and not cumulative:
        return f.integrate()
    if cumulative:
        return f.integrate(direction, cumulative=True)
    return f.integrate(direction) if ctx.rng.random() < 0.5 else f.integrate(direction=direction)


def _arr_of(x):
    return np.asarray(x.array) if isinstance(x, df.Field) else np.asarray(x)


def _setup(ctx, kind):
    rng = ctx.rng
    spec = _spec(ctx)
    nvdim = int(rng.integers(1, 5))
    arr, dtype = _values(ctx, spec.n, nvdim)
    mesh = spec.mesh()
    f = _field(mesh, arr, rng)
    aniso = spec.nd == 1 or not np.allclose(spec.cell, spec.cell[0], rtol=1e-3)
    ctx.sig((kind,) + spec.signature() + (nvdim, dtype),
            nontrivial=bool(np.any(spec.n >= 2)) and aniso)
    info = {"ndim": spec.nd, "n": spec.n, "nvdim": nvdim, "dtype": dtype,
            "dims": spec.dim_names, "cell": spec.cell}
    ctx.sample({"kind": kind, "nvdim": nvdim, "dtype": dtype, **spec.describe()})
    return spec, mesh, arr, f, info


# ----------------------------------------------------------------------------- kinds
def integrals(ctx):
    rng = ctx.rng
    spec, mesh, arr, f, info = _setup(ctx, "integrals")
    nd, names = spec.nd, spec.dim_names
    allax = tuple(range(nd))
    vol = float(np.prod(spec.cell))
    sabs = np.sum(np.abs(arr), axis=allax)
    scale_tot = np.maximum(sabs, np.max(sabs)) * vol
    exp_tot = np.sum(arr, axis=allax) * vol

    # ---- over all directions: sum of the cell values times the cell volume
    tot = _integrate(ctx, f)
    ctx.check("C06.integrate.total",
              _close(tot, exp_tot, scale_tot, 1e-12 + _res(spec, allax)),
              op="integrate()", got=tot, expected=exp_tot,
              relerr=_err(tot, exp_tot, scale_tot), **info)

    # ---- every single direction: sum along the axis times the cell length
    for ax in range(nd):
        d = names[ax]
        op = {"op": "integrate(direction)", "direction": d, "axis": ax}
        okc, di = ctx.expect_ok("C06.integrate.directional.accepted",
                                lambda: _integrate(ctx, f, d), what=dict(info, **op))
        if not okc:
            continue
        exp = np.sum(arr, axis=ax) * spec.cell[ax]
        sc = np.sum(np.abs(arr), axis=ax) * spec.cell[ax]
        sc = np.maximum(sc, np.max(sc))
        if nd == 1:
            ctx.check("C06.integrate.directional.1d_is_numbers", not isinstance(di, df.Field),
                      got_type=type(di).__name__, **op, **info)
        else:
            okm = isinstance(di, df.Field) and di.nvdim == f.nvdim
            ctx.check("C06.integrate.directional.is_field", okm,
                      got_type=type(di).__name__, **op, **info)
            if not okm:
                continue
            _mesh_without(ctx, "C06.integrate.directional.mesh", di.mesh, spec, [ax],
                          dict(info, **op))
        ctx.check("C06.integrate.directional.value",
                  _close(_arr_of(di), exp, sc, 1e-12 + _res(spec, [ax])),
                  relerr=_err(_arr_of(di), exp, sc), **op, **info)
    if nd == 1:
        # the statement's "mesh with that axis removed" does not exist: count the
        # evaluation so that a run made of 1-d cases only is not called inconclusive
        ctx.event("directional_on_1d")

    # ---- direction by direction in any order gives the same number
    perms = list(itertools.permutations(range(nd)))
    if len(perms) > 4:
        perms = [perms[j] for j in rng.choice(len(perms), 4, replace=False)]
    for perm in perms:
        g = f
        okc = True
        for step, ax in enumerate(perm):
            okc, g = ctx.expect_ok("C06.integrate.directional.accepted",
                                   lambda: _integrate(ctx, g, names[ax]),
                                   what=dict(info, op="successive integrate", order=perm,
                                             step=step))
            if not okc:
                break
        if not okc:
            continue
        ctx.check("C06.integrate.fubini",
                  not isinstance(g, df.Field)
                  and _close(g, exp_tot, scale_tot, 1e-11 + _res(spec, allax))
                  and _close(g, tot, scale_tot, 1e-11),
                  op="successive integrate", order=[names[a] for a in perm], got=g,
                  total=tot, expected=exp_tot, **info)
    if nd >= 2:
        # a partial chain: two directions removed, the rest still a field on the right mesh
        a, b = (int(x) for x in rng.choice(nd, 2, replace=False))
        g = _integrate(ctx, _integrate(ctx, f, names[a]), names[b])
        exp = np.sum(arr, axis=(a, b)) * spec.cell[a] * spec.cell[b]
        sc = np.sum(np.abs(arr), axis=(a, b)) * spec.cell[a] * spec.cell[b]
        sc = np.maximum(sc, np.max(sc))
        op = {"op": "integrate(a).integrate(b)", "directions": [names[a], names[b]]}
        ctx.check("C06.integrate.two_directions.value",
                  _close(_arr_of(g), exp, sc, 1e-11 + _res(spec, [a, b])),
                  relerr=_err(_arr_of(g), exp, sc), **op, **info)
        if nd > 2 and isinstance(g, df.Field):
            _mesh_without(ctx, "C06.integrate.directional.mesh", g.mesh, spec, [a, b],
                          dict(info, **op))


def cumulative(ctx):
    rng = ctx.rng
    spec, mesh, arr, f, info = _setup(ctx, "cumulative")
    nd, names = spec.nd, spec.dim_names
    axes = list(range(nd)) if nd <= 2 else [int(x) for x in rng.choice(nd, 2, replace=False)]
    for ax in axes:
        d = names[ax]
        op = {"op": "integrate(direction, cumulative=True)", "direction": d, "axis": ax}
        cu = _integrate(ctx, f, d, cumulative=True)
        okf = isinstance(cu, df.Field) and cu.nvdim == f.nvdim
        ctx.check("C06.cumulative.is_field", okf, got_type=type(cu).__name__, **op, **info)
        if not okf:
            continue
        # cell length times (sum of the preceding cells plus half the cell's own value)
        before = np.cumsum(arr, axis=ax) - arr
        exp = (before + arr / 2) * spec.cell[ax]
        sc = np.sum(np.abs(arr), axis=ax, keepdims=True) * spec.cell[ax]
        sc = np.maximum(sc, np.max(sc)) * np.ones(arr.shape)
        ctx.check("C06.cumulative.value",
                  _close(cu.array, exp, sc, 1e-12 + _res(spec, [ax])),
                  relerr=_err(cu.array, exp, sc),
                  first_line_got=np.moveaxis(cu.array, ax, 0).reshape(arr.shape[ax], -1)[:, 0],
                  first_line_expected=np.moveaxis(exp, ax, 0).reshape(arr.shape[ax], -1)[:, 0],
                  **op, **info)
        _mesh_without(ctx, "C06.cumulative.mesh", cu.mesh, spec, [], dict(info, **op))
        # last entry plus half the last cell equals the directional integral
        di = _arr_of(_integrate(ctx, f, d))
        last = np.take(cu.array, -1, axis=ax) + np.take(arr, -1, axis=ax) * spec.cell[ax] / 2
        scl = np.take(sc, -1, axis=ax)
        ctx.check("C06.cumulative.last_plus_half",
                  _close(last, di, scl, 1e-12 + _res(spec, [ax])),
                  relerr=_err(last, di, scl), **op, **info)
        # the first entry is half the first cell
        first = np.take(cu.array, 0, axis=ax)
        ctx.check("C06.cumulative.first_is_half_cell",
                  _close(first, np.take(arr, 0, axis=ax) * spec.cell[ax] / 2,
                         np.take(sc, 0, axis=ax), 1e-12 + _res(spec, [ax])), **op, **info)


def means(ctx):
    rng = ctx.rng
    spec, mesh, arr, f, info = _setup(ctx, "means")
    nd, names = spec.nd, spec.dim_names
    allax = tuple(range(nd))
    vol = float(np.prod(spec.cell))
    extent = float(np.prod(spec.cell * spec.n))

    def expected(axes):
        axes = tuple(axes)
        meas = float(np.prod(spec.cell[list(axes)]))
        ext = float(np.prod((spec.cell * spec.n)[list(axes)]))
        e = np.sum(arr, axis=axes) * meas / ext
        s = np.sum(np.abs(arr), axis=axes) * meas / ext
        return e, np.maximum(s, np.max(s))

    # ---- over all directions: integral / volume of the region
    exp, sc = expected(allax)
    forms = [("mean()", lambda: f.mean())]
    perm = [names[k] for k in rng.permutation(nd)]
    forms.append((f"mean({perm})", lambda: f.mean(perm)))
    forms.append((f"mean({tuple(perm)})", lambda: f.mean(direction=tuple(perm))))
    for label, fn in forms:
        okc, m = ctx.expect_ok("C06.mean.accepted", fn, what=dict(info, op=label))
        if okc:
            ctx.check("C06.mean.all",
                      not isinstance(m, df.Field) and _close(m, exp, sc, 1e-12),
                      op=label, got=m, expected=exp, **info)
    # integral over everything divided by the integrated extent (library numbers)
    tot = f.integrate()
    ctx.check("C06.mean.is_integral_over_extent",
              _close(f.mean(), np.asarray(tot) / extent, sc, 1e-12 + _res(spec, allax)),
              got=f.mean(), integral=tot, extent=extent, **info)

    # ---- one direction
    for ax in range(nd):
        d = names[ax]
        op = {"op": "mean(direction)", "direction": d, "axis": ax,
              "direction_type": "str"}
        okc, m = ctx.expect_ok("C06.mean.accepted" if nd > 1 else "C06.mean.1d.accepted",
                               lambda: f.mean(d), what=dict(info, **op))
        if not okc:
            continue
        exp1, sc1 = expected([ax])
        if nd > 1:
            okf = isinstance(m, df.Field) and m.nvdim == f.nvdim
            ctx.check("C06.mean.directions.is_field", okf, got_type=type(m).__name__,
                      **op, **info)
            if not okf:
                continue
            _mesh_without(ctx, "C06.mean.directions.mesh", m.mesh, spec, [ax],
                          dict(info, **op))
        ctx.check("C06.mean.directions.value", _close(_arr_of(m), exp1, sc1, 1e-12),
                  relerr=_err(_arr_of(m), exp1, sc1), **op, **info)
        # == directional integral / edge length (library numbers)
        di = _arr_of(f.integrate(d))
        ctx.check("C06.mean.is_integral_over_extent",
                  _close(_arr_of(m), di / (spec.cell[ax] * spec.n[ax]), sc1,
                         1e-12 + _res(spec, [ax])), **op, **info)

    # ---- several directions (a proper subset), in a random order, list or tuple
    if nd >= 2:
        for _ in range(2):
            k = int(rng.integers(1, nd))
            axes = [int(x) for x in rng.choice(nd, k, replace=False)]
            dirs = [names[a] for a in axes]
            arg = dirs if rng.random() < 0.5 else tuple(dirs)
            op = {"op": "mean(directions)", "directions": dirs,
                  "direction_type": type(arg).__name__}
            okc, m = ctx.expect_ok("C06.mean.accepted", lambda: f.mean(arg),
                                   what=dict(info, **op))
            if not okc:
                continue
            expk, sck = expected(axes)
            okf = isinstance(m, df.Field) and m.nvdim == f.nvdim
            ctx.check("C06.mean.directions.is_field", okf, got_type=type(m).__name__,
                      **op, **info)
            if not okf:
                continue
            _mesh_without(ctx, "C06.mean.directions.mesh", m.mesh, spec, axes,
                          dict(info, **op))
            ctx.check("C06.mean.directions.value", _close(m.array, expk, sck, 1e-12),
                      relerr=_err(m.array, expk, sck), **op, **info)
            # the mean of the mean over the remaining directions is the total mean
            rest = [names[a] for a in range(nd) if a not in axes]
            mm = m.mean() if rng.random() < 0.5 else m.mean(rest)
            ctx.check("C06.mean.all", _close(_arr_of(mm), exp, sc, 1e-11),
                      op="mean(directions).mean()", directions=dirs, **info)
    else:
        ctx.event("mean_on_1d")


def structure(ctx):
    """Linearity, independence of the mesh position, per-component action."""
    rng = ctx.rng
    spec, mesh, arr, f, info = _setup(ctx, "structure")
    nd, names, nvdim = spec.nd, spec.dim_names, arr.shape[-1]
    ax = int(rng.integers(0, nd))
    d = names[ax]
    subset = [int(x) for x in rng.choice(nd, int(rng.integers(1, nd)), replace=False)] \
        if nd >= 2 else None

    def ops(field):
        out = {
            "integrate()": field.integrate(),
            f"integrate({d})": field.integrate(d),
            f"integrate({d},cumulative)": field.integrate(d, cumulative=True),
            "mean()": field.mean(),
        }
        if nd >= 2:
            out[f"mean({d})"] = field.mean(d)
            out["mean(subset)"] = field.mean([names[a] for a in subset])
        return out

    def measures():
        v = float(np.prod(spec.cell))
        out = {"integrate()": v, f"integrate({d})": spec.cell[ax],
               f"integrate({d},cumulative)": spec.cell[ax], "mean()": 1.0 / np.prod(spec.n)}
        if nd >= 2:
            out[f"mean({d})"] = 1.0 / spec.n[ax]
            out["mean(subset)"] = 1.0 / np.prod(spec.n[subset])
        return out

    base = ops(f)
    meas = measures()
    res_all = _res(spec, range(nd))

    # ---- linear in the field
    arr2, _ = _values(ctx, spec.n, nvdim, dtype=info["dtype"] if info["dtype"] != "int" else "float")
    a, b = (float(x) for x in rng.normal(size=2) * 10.0 ** rng.uniform(-2, 2, 2))
    g = _field(mesh, arr2)
    h = _field(mesh, a * arr + b * arr2)
    og, oh = ops(g), ops(h)
    total_abs = (abs(a) * np.sum(np.abs(arr)) + abs(b) * np.sum(np.abs(arr2)))
    for key in base:
        exp = a * _arr_of(base[key]) + b * _arr_of(og[key])
        ctx.check("C06.linear", _close(_arr_of(oh[key]), exp, total_abs * meas[key], 1e-11),
                  op=key, a=a, b=b, relerr=_err(_arr_of(oh[key]), exp, total_abs * meas[key]),
                  **info)

    # ---- independent of where the mesh sits
    shift = rng.uniform(-3, 3, nd) * spec.edges * gen.pick(rng, [1.0, 1.0, 30.0])
    if spec.int_corners:
        shift = np.round(shift)
    spec_t = gen.MeshSpec(spec.pmin + shift, spec.cell, spec.n, spec.dims, spec.units,
                          spec.flip, spec.int_corners)
    ft = _field(spec_t.mesh(), arr)
    ot = ops(ft)
    res_t = res_all + _res(spec_t, range(nd))
    tot_abs = np.sum(np.abs(arr))
    for key in base:
        ctx.check("C06.translation",
                  _close(_arr_of(ot[key]), _arr_of(base[key]), tot_abs * meas[key],
                         1e-12 + res_t),
                  op=key, shift=shift,
                  relerr=_err(_arr_of(ot[key]), _arr_of(base[key]), tot_abs * meas[key]), **info)
    if nd >= 2:
        _mesh_without(ctx, "C06.translation.mesh", ot[f"integrate({d})"].mesh, spec_t, [ax],
                      dict(info, op=f"integrate({d}) on the translated mesh"))

    # ---- per component: component k of the result == result of component k
    k = int(rng.integers(0, nvdim))
    fk = _field(mesh, arr[..., k:k + 1])
    ok_ = ops(fk)
    sabs = np.sum(np.abs(arr[..., k]))
    for key in base:
        full = _arr_of(base[key])[..., k:k + 1]
        ctx.check("C06.per_component",
                  _close(_arr_of(ok_[key]), full, max(sabs, 0.0) * meas[key], 1e-12)
                  if sabs > 0 else bool(np.all(_arr_of(ok_[key]) == full)),
                  op=key, component=k, **info)
    # component by label (the public way to take a component)
    if nvdim > 1 and f.vdims is not None:
        comp = getattr(f, f.vdims[k])
        ctx.check("C06.per_component",
                  _close(comp.integrate(), np.asarray(base["integrate()"])[k:k + 1],
                         max(sabs, 1e-300) * meas["integrate()"], 1e-12),
                  op="integrate() of component by label", component=f.vdims[k], **info)


def run_case(ctx, i):
    kind = i % 4
    if kind == 0:
        integrals(ctx)
    elif kind == 1:
        cumulative(ctx)
    elif kind == 2:
        means(ctx)
    else:
        structure(ctx)
