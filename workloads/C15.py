"""C15 - setting a norm rescales non-zero vectors only; orientation is the unit field."""

META = {
    "property": "C15",
    "level": "exploration",
    "rule": (
        "case i of seed s is generated from default_rng([s, i]); i%3 selects the kind "
        "(0: norm setter with a constant / per-cell array / function of position / zero "
        "target in places; 1: norm getter, orientation, orientation*norm; 2: constructor "
        "with norm= (and valid='norm'), then a later value update). Every case draws a "
        "random 1-4-d mesh, 1-4 components, per-cell vector lengths log-uniform in "
        "[1e-6, 1e150] with random directions and a random subset of exactly-zero cells. "
        "Signature = (kind, ndim, nvdim, target kind, decade/25 of the smallest and of the "
        "largest non-zero length, has zero cells, has non-zero cells, zero target present); "
        "a case is non-trivial when the field has a non-zero cell (>= 2 cells for kinds "
        "0 and 2)."
    ),
    "cases": {"quick": 1500, "thorough": 192000},
    "workers": {"quick": 8, "thorough": 16},
    "timeout": {"quick": 600, "thorough": 5400},
    "deciding": [
        "C15.set.length",
        "C15.set.direction",
        "C15.set.zero_stays_zero",
        "C15.set.zero_target",
        "C15.norm.value",
        "C15.norm.meta",
        "C15.orientation.unit",
        "C15.orientation.zero",
        "C15.orientation.times_norm",
        "C15.ctor.length",
        "C15.ctor.direction",
        "C15.update.verbatim",
    ],
    "ambient": {"quick": [], "thorough": []},
    "anchor_files": ["discretisedfield/field.py"],
    "assumptions": [
        "domain of the statement (rule R7): float fields, per-cell lengths exactly 0 or in "
        "[1e-6, 1e150], norm targets exactly 0 or in [1e-6, 1e150]; lengths in (0, 1e-8] "
        "(the library's absolute zero threshold) are never generated (rule R3)",
        "lengths/directions are compared per cell with a relative tolerance of 1e-12 of "
        "that cell's own length (magnitudes span 156 decades inside one field)",
        "position-dependent norm targets are pure functions that look the containing "
        "cell up in a generator-side table (no dependence on the last bits of the cell "
        "centre the library passes in)",
        "valid='norm' in the constructor is judged by its documented meaning (cells whose "
        "final vector is zero are invalid); validity of the orientation is C08's subject",
    ],
}

import numpy as np  # noqa: E402

import discretisedfield as df  # noqa: E402
from workloads import gen  # noqa: E402

RTOL = 1e-12


# ----------------------------------------------------------------------- generators
def _mesh(ctx):
    spec = gen.rand_meshspec(ctx.rng, n_max=6 if ctx.thorough else 5, max_cells=400)
    return spec, spec.mesh()


def _field_data(ctx, n, nvdim):
    """Per-cell lengths, unit directions, array = dirs*mag with exact zeros."""
    rng = ctx.rng
    n = tuple(int(k) for k in n)
    style = gen.pick(rng, ["wide", "wide", "tiny", "huge", "moderate", "integers", "big_integers"])
    if style == "wide":
        mag = 10.0 ** rng.uniform(-6, 150, size=n)
    elif style == "tiny":
        mag = 10.0 ** rng.uniform(-6, -2, size=n)
    elif style == "huge":
        mag = 10.0 ** rng.uniform(140, 150, size=n)
    elif style == "big_integers":
        # whole numbers whose squares do not fit into 64-bit integers (but they themselves
        # do, exactly, in int64 and in float64)
        mag = 10.0 ** rng.uniform(9.5, 15, size=n)
    else:
        mag = 10.0 ** rng.uniform(-2, 4, size=n)
    if nvdim == 1:
        dirs = rng.choice([-1.0, 1.0], size=(*n, 1))
    else:
        dirs = rng.normal(size=(*n, nvdim))
        # sometimes axis-aligned vectors (other components exactly zero)
        axis_al = rng.random(n) < 0.15
        k = rng.integers(0, nvdim, size=n)
        onehot = np.eye(nvdim)[k] * rng.choice([-1.0, 1.0], size=(*n, 1))
        dirs[axis_al] = onehot[axis_al]
        dirs /= np.sqrt(np.sum(dirs * dirs, axis=-1, keepdims=True))
    arr = dirs * mag[..., None]
    if style in ("integers", "big_integers"):
        arr = np.round(arr) + (np.round(arr) == 0).all(axis=-1, keepdims=True) * 1.0
    pz = gen.pick(rng, [0.0, 0.3, 0.3, 0.7, 1.0]) if style not in ("integers", "big_integers") else 0.3
    zero = rng.random(n) < pz
    arr[zero] = 0.0
    length = np.sqrt(np.sum(arr * arr, axis=-1))
    with np.errstate(all="ignore"):
        unit = np.where(length[..., None] > 0, arr / np.where(length > 0, length, 1)[..., None], 0)
    return arr, length, unit, zero, style


def _target(ctx, spec, kind=None):
    """A norm specification and the per-cell lengths it asks for (my own evaluation)."""
    rng = ctx.rng
    n = tuple(int(k) for k in spec.n)
    kind = kind or gen.pick(rng, ["const", "array", "array_n1", "func", "zero", "const_int"])
    lo, hi = gen.pick(rng, [(-6, 150), (-6, 0), (-3, 6), (100, 150)])
    if kind == "const":
        t = float(10.0 ** rng.uniform(lo, hi))
        return kind, t, np.full(n, t)
    if kind == "const_int":
        t = int(rng.integers(1, 1000))
        return kind, t, np.full(n, float(t))
    if kind == "zero":
        return kind, gen.pick(rng, [0, 0.0]), np.zeros(n)
    tarr = 10.0 ** rng.uniform(lo, hi, size=n)
    tarr[rng.random(n) < 0.25] = 0.0
    if kind == "array":
        return kind, tarr.copy(), tarr
    if kind == "array_n1":
        return kind, tarr[..., None].copy(), tarr
    # function of position: pure, looks the containing cell up in my table
    pmin, cell, table, nn = spec.pmin.copy(), spec.cell.copy(), tarr.copy(), spec.n.copy()

    mixed = rng.random() < 0.4
    if mixed:
        # a function that returns whole numbers as Python ints (`0 if outside else Ms * w`)
        # and everything else as floats; the first cell of the mesh gets a whole number
        table[(0,) * len(n)] = float(gen.pick(rng, [0, 3, 868600]))
        whole = rng.random(n) < 0.2
        table[whole] = np.round(table[whole])
        tarr = table.copy()

    def fun(p):
        q = (np.atleast_1d(np.asarray(p, dtype=float)) - pmin) / cell
        idx = tuple(int(v) for v in np.clip(np.floor(q), 0, nn - 1))
        v = float(table[idx])
        return int(v) if (mixed and v.is_integer() and abs(v) < 2**62) else v

    return kind, fun, tarr


def _percell_close(a, b, scale, rtol=RTOL):
    """|a-b| <= rtol*scale with a per-cell scale (broadcast over components)."""
    a = np.asarray(a, dtype=float)
    b = np.asarray(b, dtype=float)
    if a.shape != b.shape:
        return np.zeros((), dtype=bool)
    if not (np.all(np.isfinite(a)) and np.all(np.isfinite(b))):
        return np.isfinite(a) & np.isfinite(b) & (np.abs(a - b) <= rtol * scale)
    return np.abs(a - b) <= rtol * scale


def _worst(okmask, *arrays):
    """Small witness: first failing cell and the values there."""
    okmask = np.asarray(okmask)
    if okmask.ndim == 0:
        return {"shape_mismatch": True}
    bad = np.argwhere(~okmask)
    if bad.size == 0:
        return {}
    idx = tuple(int(v) for v in bad[0])
    out = {"first_bad_index": idx, "n_bad": int(len(bad))}
    for k, a in enumerate(arrays):
        try:
            out[f"v{k}"] = np.asarray(a)[idx[: np.asarray(a).ndim]]
        except Exception:  # noqa: BLE001
            pass
    return out


def _sig(ctx, kind, spec, nvdim, tkind, length, zero, tarr):
    nz = length[length > 0]
    dec = (None, None) if nz.size == 0 else (
        int(np.floor(np.log10(nz.min()) / 25)), int(np.floor(np.log10(nz.max()) / 25)))
    ctx.sig((kind, spec.nd, nvdim, tkind, dec, bool(zero.any()), bool((~zero).any()),
             bool(tarr is not None and np.any(tarr == 0))),
            nontrivial=bool((~zero).any()) and (kind == "getter" or length.size >= 2))


# -------------------------------------------------------------- post-condition of a set
def _check_after_set(ctx, pre, g, arr, length, unit, zero, tarr, info):
    """``g`` had values ``arr``; a norm with per-cell targets ``tarr`` was applied."""
    got = np.asarray(g.array)
    ok_shape = got.shape == arr.shape
    ctx.check(f"{pre}.shape", ok_shape, got=got.shape, expected=arr.shape, **info)
    if not ok_shape:
        return
    nzc = ~zero
    glen = np.sqrt(np.sum(got * got, axis=-1))
    # zero cells stay exactly zero
    if zero.any():
        ctx.check(f"{pre}.zero_stays_zero", bool(np.all(got[zero] == 0)),
                  observed=got[zero][:4], n_zero_cells=int(zero.sum()), **info)
    if not nzc.any():
        return
    # non-zero cells: exactly the requested length ...
    okl = _percell_close(glen[nzc], tarr[nzc], tarr[nzc])
    ctx.check(f"{pre}.length", bool(np.all(okl)),
              **_worst(okl, glen[nzc], tarr[nzc], length[nzc]), **info)
    # ... target 0 gives exactly 0 ...
    zt = nzc & (tarr == 0)
    if zt.any():
        ctx.check(f"{pre}.zero_target", bool(np.all(got[zt] == 0)), observed=got[zt][:4], **info)
    # ... and an unchanged direction (unit vectors equal to 1e-12)
    m = nzc & (tarr != 0)
    if m.any():
        with np.errstate(all="ignore"):
            gunit = got[m] / tarr[m][..., None]
        okd = _percell_close(gunit, unit[m], 1.0)
        ctx.check(f"{pre}.direction", bool(np.all(okd)),
                  **_worst(okd.all(axis=-1) if okd.ndim else okd, gunit, unit[m]), **info)


# ----------------------------------------------------------------------------- kinds
def setter(ctx):
    rng = ctx.rng
    spec, mesh = _mesh(ctx)
    nvdim = int(rng.integers(1, 5))
    arr, length, unit, zero, style = _field_data(ctx, spec.n, nvdim)
    tkind, target, tarr = _target(ctx, spec)
    _sig(ctx, "setter", spec, nvdim, tkind, length, zero, tarr)
    info = {"op": "norm.setter", "target_kind": tkind, "nvdim": nvdim, "ndim": spec.nd,
            "n": spec.n, "style": style}
    ctx.sample({"kind": "setter", "target": tkind, "nvdim": nvdim, "style": style,
                **spec.describe()})
    valid = gen.rand_valid(rng, spec.n)
    g = df.Field(mesh, nvdim=nvdim, value=arr.copy(), vdims=gen.rand_vdims(rng, nvdim),
                 valid=valid.copy(), unit=gen.pick(rng, [None, "A/m"]))
    ok, _ = ctx.expect_ok("C15.set.accepted", lambda: setattr(g, "norm", target), what=info)
    if not ok:
        return
    _check_after_set(ctx, "C15.set", g, arr, length, unit, zero, tarr, info)
    ctx.check("C15.set.valid_untouched", np.array_equal(g.valid, valid), **info)
    # the norm read back is the target (non-zero cells) / zero (zero cells)
    back = np.asarray(g.norm.array)
    exp = np.where(zero, 0.0, tarr)
    okb = back.shape == (*exp.shape, 1) and bool(np.all(_percell_close(back[..., 0], exp, exp)))
    ctx.check("C15.set.readback", okb, **info)
    # a second norm: lengths follow the new target, directions still the original ones
    if rng.random() < 0.5:
        tkind2, target2, tarr2 = _target(ctx, spec)
        info2 = dict(info, op="norm.setter(second)", target_kind=tkind2)
        ok, _ = ctx.expect_ok("C15.set.accepted", lambda: setattr(g, "norm", target2), what=info2)
        if ok:
            zero2 = zero | (tarr == 0)
            unit2 = np.where(zero2[..., None], 0.0, unit)
            cur = np.where(zero2[..., None], 0.0, unit * tarr[..., None])
            _check_after_set(ctx, "C15.set", g, cur, np.where(zero2, 0.0, tarr), unit2, zero2,
                             tarr2, info2)
    # later value updates do not re-apply the earlier norm
    new, *_ = _field_data(ctx, spec.n, nvdim)
    if rng.random() < 0.5:
        g.update_field_values(new.copy())
        how = "update_field_values"
    else:
        g.array = new.copy()
        how = "array setter"
    ctx.check("C15.update.verbatim", np.array_equal(g.array, new), op=how,
              maxdiff=_maxrel(g.array, new), **{k: v for k, v in info.items() if k != "op"})
    # norm = None is "no norm": nothing changes
    g.norm = None
    ctx.check("C15.set.none_is_noop", np.array_equal(g.array, new), **info)


def _maxrel(a, b):
    a, b = np.asarray(a), np.asarray(b)
    if a.shape != b.shape:
        return f"shape {a.shape} vs {b.shape}"
    with np.errstate(all="ignore"):
        d = np.abs(a - b) / np.maximum(np.abs(b), 1e-300)
        return float(np.nanmax(d)) if d.size else 0.0


def getter(ctx):
    rng = ctx.rng
    spec, mesh = _mesh(ctx)
    nvdim = int(rng.integers(1, 5))
    arr, length, unit, zero, style = _field_data(ctx, spec.n, nvdim)
    _sig(ctx, "getter", spec, nvdim, None, length, zero, None)
    valid = gen.rand_valid(rng, spec.n)
    fu = gen.pick(rng, [None, "A/m", "T"])
    vdims = gen.rand_vdims(rng, nvdim)
    kwd = {}
    if style == "integers" and rng.random() < 0.6:
        # whole numbers in an integer-typed field: its lengths and unit vectors are real
        kwd["dtype"] = gen.pick(rng, [int, np.int64, np.int32])
        ctx.event("getter.integer_typed_field")
    elif style == "big_integers" and rng.random() < 0.8:
        kwd["dtype"] = gen.pick(rng, [int, np.int64])
        ctx.event("getter.integer_typed_field")
    f = gen.via_history(None, df.Field(mesh, nvdim=nvdim, value=arr.copy(), vdims=vdims,
                                       valid=valid.copy(), unit=fu, **kwd))
    info = {"nvdim": nvdim, "ndim": spec.nd, "n": spec.n, "style": style,
            "dtype": str(f.array.dtype)}
    ctx.sample({"kind": "getter", "nvdim": nvdim, "style": style, **spec.describe()})

    # ---- norm: Euclidean length per cell, one component, same mesh/unit/validity
    nf = f.norm
    ctx.check("C15.norm.meta",
              isinstance(nf, df.Field) and nf.nvdim == 1 and nf.unit == fu
              and nf.mesh == mesh and np.array_equal(nf.valid, valid)
              and nf.array.shape == (*arr.shape[:-1], 1),
              op="norm.getter", nvdim_got=getattr(nf, "nvdim", None),
              unit_got=getattr(nf, "unit", None), unit_expected=fu,
              valid_equal=bool(np.array_equal(getattr(nf, "valid", None), valid)),
              same_mesh=bool(getattr(nf, "mesh", None) == mesh), **info)
    if nf.array.shape == (*arr.shape[:-1], 1):
        okn = _percell_close(nf.array[..., 0], length, length)
        ctx.check("C15.norm.value", bool(np.all(okn)), op="norm.getter",
                  **_worst(okn, nf.array[..., 0], length), **info)
        if zero.any():
            ctx.check("C15.norm.zero_cells", bool(np.all(nf.array[..., 0][zero] == 0)),
                      op="norm.getter", **info)
    ctx.check("C15.norm.operand_untouched",
              np.array_equal(f.array, arr) and np.array_equal(f.valid, valid), **info)

    # ---- orientation
    o = f.orientation
    oa = np.asarray(o.array)
    ok_shape = isinstance(o, df.Field) and oa.shape == arr.shape and o.mesh == mesh
    ctx.check("C15.orientation.shape", ok_shape, got=oa.shape, expected=arr.shape, **info)
    if not ok_shape:
        return
    nzc = ~zero
    olen = np.sqrt(np.sum(oa * oa, axis=-1))
    if nzc.any():
        oku = np.abs(olen[nzc] - 1.0) <= RTOL
        ctx.check("C15.orientation.unit", bool(np.all(oku)), op="orientation",
                  **_worst(oku, olen[nzc], length[nzc]), **info)
        okd = _percell_close(oa[nzc], unit[nzc], 1.0)
        ctx.check("C15.orientation.direction", bool(np.all(okd)), op="orientation",
                  **_worst(okd.all(axis=-1), oa[nzc], unit[nzc]), **info)
    if zero.any():
        ctx.check("C15.orientation.zero", bool(np.all(oa[zero] == 0)), op="orientation",
                  observed=oa[zero][:4], **info)
    # orientation times norm reproduces the field (both operand orders)
    for order in ("o*norm", "norm*o"):
        okc, prod = ctx.expect_ok("C15.orientation.times_norm.accepted",
                                  (lambda: o * nf) if order == "o*norm" else (lambda: nf * o),
                                  what=dict(info, op=order))
        if okc:
            pa = np.asarray(prod.array)
            okp = pa.shape == arr.shape and bool(
                np.all(_percell_close(pa, arr, length[..., None])))
            ctx.check("C15.orientation.times_norm", okp, op=order,
                      maxrel=_maxrel(pa, arr), **info)
    ctx.check("C15.orientation.operand_untouched",
              np.array_equal(f.array, arr) and np.array_equal(f.valid, valid), **info)


def constructor(ctx):
    rng = ctx.rng
    spec, mesh = _mesh(ctx)
    nvdim = int(rng.integers(1, 5))
    arr, length, unit, zero, style = _field_data(ctx, spec.n, nvdim)
    tkind, target, tarr = _target(ctx, spec)
    _sig(ctx, "ctor", spec, nvdim, tkind, length, zero, tarr)
    vkind = gen.pick(rng, ["mask", "norm", "norm", "default"])
    mask = gen.rand_valid(rng, spec.n)
    info = {"op": "Field(norm=)", "target_kind": tkind, "nvdim": nvdim, "ndim": spec.nd,
            "n": spec.n, "style": style, "valid_kind": vkind}
    ctx.sample({"kind": "ctor", "target": tkind, "valid": vkind, "nvdim": nvdim,
                **spec.describe()})
    # the value itself given as an array, a constant or a function of position
    vk = gen.pick(rng, ["array", "array", "const", "func"])
    if vk == "const":
        c = arr.reshape(-1, nvdim)[int(rng.integers(0, arr.size // nvdim))].copy()
        arr = np.broadcast_to(c, arr.shape).copy()
        length = np.sqrt(np.sum(arr * arr, axis=-1))
        zero = length == 0
        with np.errstate(all="ignore"):
            unit = np.where(zero[..., None], 0.0, arr / np.where(zero, 1, length)[..., None])
        value = tuple(c.tolist()) if nvdim > 1 else float(c[0])
    elif vk == "func":
        pmin, cell, table, nn = spec.pmin.copy(), spec.cell.copy(), arr.copy(), spec.n.copy()

        def value(p):
            q = (np.atleast_1d(np.asarray(p, dtype=float)) - pmin) / cell
            idx = tuple(int(v) for v in np.clip(np.floor(q), 0, nn - 1))
            return table[idx] if nvdim > 1 else float(table[idx][0])
    else:
        value = arr.copy()
    info["value_kind"] = vk
    kw = {}
    if vkind == "mask":
        kw["valid"] = mask.copy()
    elif vkind == "norm":
        kw["valid"] = "norm"
    ok, g = ctx.expect_ok(
        "C15.ctor.accepted",
        lambda: df.Field(mesh, nvdim=nvdim, value=value, norm=target, dtype=np.float64, **kw),
        what=info)
    if not ok:
        return
    _check_after_set(ctx, "C15.ctor", g, arr, length, unit, zero, tarr, info)
    final_zero = zero | (tarr == 0)
    if vkind == "norm":
        # documented meaning: cells whose (final) vector is zero are invalid
        ctx.check("C15.ctor.valid_norm", np.array_equal(g.valid, ~final_zero),
                  got_valid_count=int(np.sum(g.valid)), expected=int(np.sum(~final_zero)),
                  **info)
    elif vkind == "mask":
        ctx.check("C15.ctor.valid_mask", np.array_equal(g.valid, mask), **info)
    else:
        ctx.check("C15.ctor.valid_mask", bool(np.all(g.valid)), **info)
    # later value updates are stored verbatim (no norm is re-applied)
    new, *_ = _field_data(ctx, spec.n, nvdim)
    how = gen.pick(rng, ["update_field_values", "array setter", "const"])
    if how == "update_field_values":
        g.update_field_values(new.copy())
    elif how == "array setter":
        g.array = new.copy()
    else:
        c = new.reshape(-1, nvdim)[0].copy()
        new = np.broadcast_to(c, new.shape).copy()
        g.update_field_values(tuple(c.tolist()) if nvdim > 1 else float(c[0]))
    ctx.check("C15.update.verbatim", np.array_equal(g.array, new), op=how,
              maxrel=_maxrel(g.array, new), **{k: v for k, v in info.items() if k != "op"})


def run_case(ctx, i):
    kind = i % 3
    if kind == 0:
        setter(ctx)
    elif kind == 1:
        getter(ctx)
    else:
        constructor(ctx)
