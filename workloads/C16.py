"""C16 - VTK output puts each value in the grid cell a VTK reader finds at that position."""

META = {
    "property": "C16",
    "level": "exploration",
    "rule": (
        "case i of seed s is generated from default_rng([s, i]); (i + i//16)%4 selects the kind: "
        "0 Field.to_vtk() looked up through an independent VTK cell locator "
        "(pyvista.find_containing_cell) at every cell centre and at random interior points; "
        "1 round trip through bin/txt/xml files of a random field (subregions in 30 % of "
        "the cases); 2 the same on integer-cornered meshes that always carry subregions "
        "(coordinates representable in ten digits, so the text form must load too); 3 "
        "legacy point-data files from an own writer of that layout and the repository's "
        "sample files. Signature = (kind, nvdim, label class, validity class, subregions, "
        "value class, mesh signature); non-trivial when >= 2 directions have >= 2 cells."
    ),
    "cases": {"quick": 400, "thorough": 48000},
    "workers": {"quick": 8, "thorough": 16},
    "timeout": {"quick": 600, "thorough": 5400},
    "deciding": [
        "C16.grid.coordinates",
        "C16.grid.locates",
        "C16.grid.field",
        "C16.grid.components",
        "C16.grid.norm",
        "C16.grid.valid",
        "C16.roundtrip.loads",
        "C16.roundtrip.region",
        "C16.roundtrip.values",
        "C16.roundtrip.valid",
        "C16.roundtrip.labels",
        "C16.roundtrip.subregions",
        "C16.legacy.loads",
        "C16.legacy.values",
        "C16.samples.read",
    ],
    "ambient": {"quick": [], "thorough": []},
    "anchor_files": ["discretisedfield/field.py", "discretisedfield/io/vtk.py",
                     "discretisedfield/io/__init__.py"],
    "assumptions": [
        "real-valued fields with 1-4 components; labels are ASCII identifiers different "
        "from the array names the writer itself uses (field, norm, valid)",
        "the text form is compared with 1e-9 relative tolerance per coordinate and value "
        "(ten significant digits); binary and XML exactly",
        "integer-valued data is compared numerically (storage type not judged); dimension "
        "names and units are not stored in VTK files and not judged",
        "VTK's static cell locator is trusted as the independent consumer; probe points "
        "are cell centres or >= 1 % of a cell away from every face (rule R3)",
        "legacy files: one value per cell in x-fastest order is judged always, the cell "
        "geometry only along directions with >= 2 points (a single point defines no spacing)",
    ],
}

import os  # noqa: E402
import shutil  # noqa: E402
import tempfile  # noqa: E402

import numpy as np  # noqa: E402

import discretisedfield as df  # noqa: E402
from workloads import _io_gen as ig  # noqa: E402
from workloads import gen  # noqa: E402

REPS = ("bin", "txt", "xml")
SAMPLE_DIR = os.path.join(os.path.dirname(df.__file__), "tests", "test_sample")
EPS = np.finfo(float).eps
_pv = None


def pv():
    global _pv
    if _pv is None:
        import pyvista

        _pv = pyvista
    return _pv


def _label_class(labels):
    if labels is None:
        return "default"
    return "underscore" if any("_" in c for c in labels) else "plain"


def _labels(rng, nvdim):
    if nvdim > 1 and rng.random() < 0.08:
        # the labels the library's own sample file (and older versions) use: "any labels"
        base = ["x", "y", "z", "w"][:nvdim]
        return [b + gen.pick(rng, ["-component", "-component", "_component"]) for b in base] \
            if rng.random() < 0.7 else [b + "-component" if j else b for j, b in enumerate(base)]
    labs = ig.rand_labels(rng, nvdim)
    if labs is not None and any(c in ("field", "norm", "valid") for c in labs):
        return None
    return labs


def _make(ctx, spec, p_sub, dtype="float", nvdim=None):
    rng = ctx.rng
    mesh, boxes, note = ig.mesh_with_subregions(rng, spec, p_sub=p_sub)
    if note:
        ctx.event("subregions_refused_by_setter")
    nvdim = nvdim or int(rng.integers(1, 5))
    labels = _labels(rng, nvdim)
    n = tuple(int(k) for k in spec.n)
    if dtype == "int":
        arr = rng.integers(-1000, 1000, (*n, nvdim))
    else:
        arr = ig.rand_float_values(rng, (*n, nvdim), dtype)
    vkind = gen.pick(rng, ["all", "random", "random", "sparse", "dense"])
    valid = gen.rand_valid(rng, n, vkind)
    f = gen.via_history(None, df.Field(mesh, nvdim=nvdim, value=arr, vdims=labels,
                                       valid=valid.copy(), unit=gen.pick(rng, ig.UNITS)))
    return f, arr, valid, labels, boxes, vkind


def _two_dirs(n):
    return int(np.sum(np.asarray(n) >= 2)) >= 2


# ------------------------------------------------------------- kind 0: the grid
def grid_lookup(ctx):
    rng = ctx.rng
    spec = ig.spec_3d(rng, ctx.thorough, same_units=False, n_max=8 if ctx.thorough else 6,
                      max_cells=500 if ctx.thorough else 220)
    dtype = gen.pick(rng, ["normal", "normal", "decades", "int"])
    f, arr, valid, labels, boxes, vkind = _make(ctx, spec, p_sub=0.2, dtype=dtype)
    nvdim = arr.shape[-1]
    n = spec.n
    exp_labels = ig.expected_labels(nvdim, labels)
    ctx.sig(("grid", nvdim, _label_class(labels), vkind, dtype) + spec.signature(),
            nontrivial=_two_dirs(n))
    what = {"spec": spec.describe(), "nvdim": nvdim, "labels": labels}
    ctx.sample({"kind": "grid", **what})
    grid = pv().wrap(f.to_vtk())

    # ---- coordinates are the mesh vertices
    tol = 16 * EPS * np.maximum(np.abs(spec.pmin), np.abs(spec.pmax)) + 1e-12 * spec.cell
    ok = tuple(grid.dimensions) == tuple(int(k) + 1 for k in n)
    for k, c in enumerate((grid.x, grid.y, grid.z)):
        ev = spec.pmin[k] + np.arange(n[k] + 1) * spec.cell[k]
        ok = ok and np.shape(c) == ev.shape and bool(np.all(np.abs(np.asarray(c) - ev) <= tol[k]))
        ok = ok and abs(c[0] - spec.pmin[k]) <= tol[k] and abs(c[-1] - spec.pmax[k]) <= tol[k]
    ctx.check("C16.grid.coordinates", ok, dimensions=grid.dimensions,
              x=np.asarray(grid.x), note="grid coordinates must be the mesh vertices", **what)
    # ---- the outermost vertices are the region's corners, to the last bit, also on long axes
    for _ in range(6):
        tm = _thin_mesh(rng)
        tg = pv().wrap(df.Field(tm, nvdim=1, value=1.0).to_vtk())
        ctx.event("grid.thin_mesh")
        ctx.check("C16.grid.coordinates",
                  tuple(tg.dimensions) == tuple(int(k) + 1 for k in tm.n)
                  and all(c[0] == tm.region.pmin[k] and c[-1] == tm.region.pmax[k]
                          for k, c in enumerate((tg.x, tg.y, tg.z))),
                  note="first and last grid coordinate must be the region's corners exactly",
                  n=tm.n, pmin=tm.region.pmin, pmax=tm.region.pmax,
                  got=[[c[0], c[-1]] for c in (tg.x, tg.y, tg.z)])
    names = set(grid.cell_data.keys())
    want = {"field", "norm", "valid"} | (set(exp_labels) if nvdim > 1 else set())
    ctx.check("C16.grid.arrays_present", want <= names and grid.n_cells == int(np.prod(n)),
              got=sorted(names), expected=sorted(want), n_cells=grid.n_cells, **what)
    if not want <= names:
        return

    # ---- lookup at cell centres and at random interior points
    idx = np.array(list(spec.indices()))
    if len(idx) > 400:
        idx = idx[rng.choice(len(idx), 400, replace=False)]
    centres = spec.pmin + (idx + 0.5) * spec.cell
    ridx = np.stack([rng.integers(0, k, 200) for k in n], axis=1)
    frac = rng.uniform(0.01, 0.99, ridx.shape)
    inner = spec.pmin + (ridx + frac) * spec.cell
    allidx = np.concatenate([idx, ridx])
    pts = np.concatenate([centres, inner])
    cids = np.atleast_1d(grid.find_containing_cell(pts))
    found = cids >= 0
    ctx.check("C16.grid.locates", bool(np.all(found)), not_found=int(np.sum(~found)),
              first=pts[~found][:2], **what)
    allidx, cids = allidx[found], cids[found]
    ii = tuple(allidx.T)
    fa = np.asarray(grid.cell_data["field"]).reshape(grid.n_cells, -1)
    got = fa[cids]
    expv = arr[ii]
    okf = got.shape == expv.shape and np.array_equal(got, expv)
    ctx.check("C16.grid.field", okf, bad=int(np.sum(np.any(got != expv, axis=-1))) if
              got.shape == expv.shape else "shape", of=len(cids),
              first_bad=_first_bad(allidx, got, expv), **what)
    if nvdim > 1:
        okc, badc = True, None
        for j, c in enumerate(exp_labels):
            col = np.asarray(grid.cell_data[c])[cids]
            if not np.array_equal(col, expv[:, j]):
                okc, badc = False, c
                break
        ctx.check("C16.grid.components", okc, component=badc,
                  note="per-component scalar differs from the cell's component", **what)
    nrm = np.asarray(grid.cell_data["norm"])[cids]
    en = np.sqrt(np.sum(np.asarray(expv, float) ** 2, axis=-1))
    with np.errstate(all="ignore"):
        okn = bool(np.all(np.abs(nrm - en) <= 1e-13 * np.maximum(en, np.finfo(float).tiny)))
    ctx.check("C16.grid.norm", okn, **what)
    va = np.asarray(grid.cell_data["valid"])[cids]
    ctx.check("C16.grid.valid", np.array_equal(va.astype(bool), valid[ii])
              and bool(np.all((va == 0) | (va == 1))), validity=vkind, **what)
    ctx.event("grid.lookups", len(cids))


def _first_bad(allidx, got, expv):
    if got.shape != expv.shape:
        return None
    bad = np.nonzero(np.any(got != expv, axis=-1))[0]
    if not len(bad):
        return None
    b = bad[0]
    return {"idx": allidx[b].tolist(), "got": got[b], "expected": expv[b]}


# --------------------------------------------------------- kinds 1, 2: round trip
def _close(a, b, rep):
    a, b = np.asarray(a, float), np.asarray(b, float)
    if rep == "txt":
        return ig.rel_close(a, b, 1e-9)
    return a.shape == b.shape and np.array_equal(a, b)


def roundtrip(ctx, tmp, representable):
    rng = ctx.rng
    if representable:
        spec = gen.rand_meshspec(rng, nd=3, n_max=6 if ctx.thorough else 5,
                                 max_cells=300 if ctx.thorough else 150, int_corners=True)
        p_sub = 1.0
    else:
        spec = ig.spec_3d(rng, ctx.thorough, same_units=False)
        # txt + subregions at non-representable coordinates was finding F23 (repaired:
        # known_findings.json 'fixed:' 42d3b52b) and is an ordinary case now
        p_sub = 0.5
    dtype = gen.pick(rng, ["normal", "normal", "decades", "int"])
    f, arr, valid, labels, boxes, vkind = _make(ctx, spec, p_sub=p_sub, dtype=dtype)
    nvdim = arr.shape[-1]
    n = tuple(int(k) for k in spec.n)
    exp_labels = ig.expected_labels(nvdim, labels)
    sub_before = dict(f.mesh.subregions)
    ctx.sig(("roundtrip", representable, nvdim, _label_class(labels), vkind, bool(boxes), dtype)
            + spec.signature(), nontrivial=_two_dirs(n))
    what0 = {"spec": spec.describe(), "nvdim": nvdim, "labels": labels,
             "has_subregions": bool(boxes), "value_class": dtype}
    ctx.sample({"kind": "roundtrip", **what0})
    for rep in REPS:
        fn = os.path.join(tmp, f"f_{rep}.vtk")
        what = {"representation": rep, **what0}
        try:
            if rng.random() < 0.3:
                # history: the file name was used before, for a field on another mesh with
                # a subregion of its own
                old_mesh = df.Mesh(p1=(0, 0, 0), p2=(2, 2, 2), n=(2, 2, 2),
                                   subregions={"old": df.Region(p1=(0, 0, 0), p2=(1, 2, 2))})
                df.Field(old_mesh, nvdim=1, value=1.0).to_file(fn, representation=rep)
                what["file_name_used_before"] = True
                ctx.event("roundtrip.file_name_reused")
            how = gen.pick(rng, ["bin", "bin8", "default", "positional"]) if rep == "bin" else rep
            if how == "default":      # the documented default of to_file is the binary form
                f.to_file(fn)
            elif how == "positional":
                f.to_file(fn, "bin8")
            else:
                f.to_file(fn, representation=how)
            what["written_as"] = how
            r = df.Field.from_file(fn)
        except Exception as e:  # noqa: BLE001
            ctx.check("C16.roundtrip.loads", False, exc=e, **what)
            _cleanup(fn)
            continue
        ctx.check("C16.roundtrip.loads", True)
        ctx.event(f"roundtrip.{rep}" + (".subregions" if boxes else ""))
        reg = r.mesh.region
        ctx.check("C16.roundtrip.region",
                  _close(reg.pmin, spec.pmin, rep) and _close(reg.pmax, spec.pmax, rep),
                  got=[reg.pmin, reg.pmax], expected=[spec.pmin, spec.pmax], **what)
        ctx.check("C16.roundtrip.n", tuple(int(k) for k in r.mesh.n) == n, got=r.mesh.n,
                  expected=n, **what)
        ctx.check("C16.roundtrip.nvdim", r.nvdim == nvdim, got=r.nvdim, **what)
        ctx.check("C16.roundtrip.values",
                  r.array.shape == arr.shape and not np.iscomplexobj(r.array)
                  and _close(r.array, arr, rep), got_dtype=str(r.array.dtype), **what)
        ctx.check("C16.roundtrip.valid",
                  np.shape(r.valid) == valid.shape
                  and np.array_equal(np.asarray(r.valid).astype(bool), valid),
                  validity=vkind, **what)
        ctx.check("C16.roundtrip.valid_dtype", np.asarray(r.valid).dtype == np.bool_,
                  got_dtype=str(np.asarray(r.valid).dtype),
                  note="validity must be Boolean after reading", **what)
        if nvdim > 1:
            ctx.check("C16.roundtrip.labels", r.vdims == exp_labels, got=r.vdims,
                      expected=exp_labels, **what)
        subs = r.mesh.subregions
        oks = list(subs.keys()) == list(sub_before.keys())
        if oks:
            for k, sr in sub_before.items():
                oks = oks and _close(subs[k].pmin, sr.pmin, rep) and _close(subs[k].pmax, sr.pmax, rep)
            oks = oks and ig.sub_corners_equal(subs, boxes, spec) if rep != "txt" else oks
        ctx.check("C16.roundtrip.subregions", oks, got=ig.subs_describe(subs),
                  expected=ig.subs_describe(sub_before), **what)
        _cleanup(fn)
    # ---- "exactly for binary and XML" on a long axis at non-representable coordinates
    for rep in ("bin", "xml"):
        tm = _thin_mesh(rng)
        fn = os.path.join(tmp, f"thin_{rep}.vtk")
        try:
            df.Field(tm, nvdim=1, value=1.0).to_file(fn, representation=rep)
            r = df.Field.from_file(fn)
        except Exception as e:  # noqa: BLE001
            ctx.check("C16.roundtrip.loads", False, exc=e, representation=rep, n=tm.n)
            _cleanup(fn)
            continue
        ctx.event(f"roundtrip.{rep}.thin_mesh")
        ctx.check("C16.roundtrip.region",
                  np.array_equal(r.mesh.region.pmin, tm.region.pmin)
                  and np.array_equal(r.mesh.region.pmax, tm.region.pmax)
                  and tuple(int(k) for k in r.mesh.n) == tuple(int(k) for k in tm.n),
                  got=[r.mesh.region.pmin, r.mesh.region.pmax],
                  expected=[tm.region.pmin, tm.region.pmax], n=tm.n, representation=rep)
        _cleanup(fn)


def _thin_mesh(rng):
    """A mesh with one axis of 5..40 cells at non-representable coordinates (round 6,
    C16-11: `pmin + k * cell` and the mesh's own vertices part by an ulp on such axes)."""
    nn = [int(rng.integers(1, 3)) for _ in range(3)]
    nn[int(rng.integers(0, 3))] = int(rng.integers(5, 41))
    s = 10.0 ** rng.uniform(-9, 3)
    lo = rng.uniform(-1, 1, 3) * s * float(gen.pick(rng, [0, 1, 1, 100]))
    hi = lo + rng.uniform(0.1, 1, 3) * s
    return df.Mesh(p1=tuple(lo.tolist()), p2=tuple(hi.tolist()), n=tuple(nn))


def _cleanup(fn):
    for p in (fn, fn + ".subregions.json"):
        if os.path.exists(p):
            os.remove(p)


# ------------------------------------------------------------ kind 3: legacy files
def write_legacy(fn, centres, data, numfmt="repr"):
    """Layout written by discretisedfield <= 0.61: RECTILINEAR_GRID whose points are the
    cell centres, POINT_DATA with one value per point (x fastest)."""
    fmt = (lambda v: repr(float(v))) if numfmt == "repr" else (lambda v: "%.17g" % float(v))
    n = [len(c) for c in centres]
    dim = data.shape[-1]
    L = ["# vtk DataFile Version 3.0", "Field", "ASCII", "DATASET RECTILINEAR_GRID",
         f"DIMENSIONS {n[0]} {n[1]} {n[2]}"]
    for a, c in zip("XYZ", centres):
        L += [f"{a}_COORDINATES {len(c)} float", " ".join(fmt(v) for v in c)]
    L.append(f"POINT_DATA {n[0] * n[1] * n[2]}")
    flat = data.transpose(2, 1, 0, 3).reshape(-1, dim)  # x fastest
    if dim == 1:
        L += ["SCALARS field double", "LOOKUP_TABLE default"] + [fmt(v[0]) for v in flat]
    else:
        for j, c in enumerate("xyz"):
            L += [f"SCALARS {c}-component double", "LOOKUP_TABLE default"]
            L += [fmt(v[j]) for v in flat]
        L += ["VECTORS field double"] + [" ".join(fmt(x) for x in v) for v in flat]
    with open(fn, "w") as fh:
        fh.write("\n".join(L))


def parse_legacy(fn):
    """Own parser of that layout (for the repository samples)."""
    toks = open(fn).read().split("\n")
    n, centres, k = None, [], 0
    while k < len(toks):
        w = toks[k].split()
        if w and w[0] == "DIMENSIONS":
            n = [int(x) for x in w[1:4]]
        elif w and w[0] in ("X_COORDINATES", "Y_COORDINATES", "Z_COORDINATES"):
            centres.append(np.array([float(x) for x in toks[k + 1].split()]))
            k += 1
        elif w and w[0] == "VECTORS":
            rows = [[float(x) for x in t.split()] for t in toks[k + 1:k + 1 + int(np.prod(n))]]
            return n, centres, np.array(rows).reshape(n[2], n[1], n[0], 3).transpose(2, 1, 0, 3)
        k += 1
    # scalar file
    k = next(j for j, t in enumerate(toks) if t.startswith("SCALARS"))
    vals = [float(t) for t in toks[k + 2:k + 2 + int(np.prod(n))]]
    return n, centres, np.array(vals).reshape(n[2], n[1], n[0], 1).transpose(2, 1, 0, 3)


def _legacy_geometry_ok(r, centres):
    ok = True
    for k, c in enumerate(centres):
        if len(c) < 2:
            continue
        cell = (c[-1] - c[0]) / (len(c) - 1)
        lo, hi = c[0] - cell / 2, c[-1] + cell / 2
        tol = 1e-9 * max(abs(lo), abs(hi), hi - lo)
        ok = ok and abs(r.mesh.region.pmin[k] - lo) <= tol and abs(r.mesh.region.pmax[k] - hi) <= tol
    return bool(ok)


def legacy(ctx, tmp):
    rng = ctx.rng
    spec = ig.spec_3d(rng, ctx.thorough, same_units=False)
    n = tuple(int(k) for k in spec.n)
    dim = int(gen.pick(rng, [1, 3, 3]))
    data = ig.rand_float_values(rng, (*n, dim), gen.pick(rng, ["normal", "decades"]))
    centres = [spec.pmin[k] + (np.arange(n[k]) + 0.5) * spec.cell[k] for k in range(3)]
    fn = os.path.join(tmp, "legacy.vtk")
    write_legacy(fn, centres, data, gen.pick(rng, ["repr", "g17"]))
    ctx.sig(("legacy", dim) + spec.signature(), nontrivial=_two_dirs(n))
    what = {"layout": "legacy_point_data", "dim": dim, "spec": spec.describe()}
    ok, r = ctx.expect_ok("C16.legacy.loads", df.Field.from_file, fn, what=what)
    os.remove(fn)
    if not ok:
        return
    ctx.check("C16.legacy.values",
              tuple(int(k) for k in r.mesh.n) == n and r.nvdim == dim
              and r.array.shape == data.shape and np.array_equal(r.array, data),
              got_n=r.mesh.n, got_nvdim=r.nvdim, note="one value per cell, x fastest", **what)
    ctx.check("C16.legacy.geometry", _legacy_geometry_ok(r, centres),
              got=[r.mesh.region.pmin, r.mesh.region.pmax], **what)


def samples(ctx, k):
    names = ["vtk-vector-legacy.vtk", "vtk-scalar-legacy.vtk", "vtk-file.vtk"]
    name = names[k % 3]
    src = os.path.join(SAMPLE_DIR, name)
    ctx.sig(("sample", name), nontrivial=True)
    what = {"file": name}
    if not os.path.exists(src):
        ctx.event("samples.missing")
        return
    ok, r = ctx.expect_ok("C16.samples.read", df.Field.from_file, src, what=what)
    if not ok:
        return
    if "legacy" in name:
        n, centres, data = parse_legacy(src)
        ctx.check("C16.samples.read",
                  [int(x) for x in r.mesh.n] == n and np.array_equal(r.array, data)
                  and _legacy_geometry_ok(r, centres), got_n=r.mesh.n, **what)
    else:
        g = pv().read(src)
        n = [d - 1 for d in g.dimensions]
        fa = np.asarray(g.cell_data["field"]).reshape(n[2], n[1], n[0], -1).transpose(2, 1, 0, 3)
        ctx.check("C16.samples.read",
                  [int(x) for x in r.mesh.n] == n and np.array_equal(r.array, fa)
                  and np.array_equal(r.mesh.region.pmin, [g.x[0], g.y[0], g.z[0]])
                  and np.array_equal(r.mesh.region.pmax, [g.x[-1], g.y[-1], g.z[-1]]),
                  got_n=r.mesh.n, **what)


def run_case(ctx, i):
    kind = ig.kind_of(i)
    if kind == 0:
        grid_lookup(ctx)
        return
    tmp = tempfile.mkdtemp(prefix="c16_")
    try:
        if kind == 1:
            roundtrip(ctx, tmp, representable=False)
        elif kind == 2:
            roundtrip(ctx, tmp, representable=True)
        elif (i // 4) % 8 == 7:
            samples(ctx, i // 32)
        else:
            legacy(ctx, tmp)
    finally:
        shutil.rmtree(tmp, ignore_errors=True)
