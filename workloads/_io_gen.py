"""Generators shared by the I/O workloads C09 (OVF), C10 (HDF5), C16 (VTK), C17 (xarray).

Everything is generator-side data (rule R1): the expected mesh/array/validity/labels
of a case are what was drawn here, not what the library reports.
"""

import string

import numpy as np

import discretisedfield as df
from workloads import gen

UNITS = [None, None, "A/m", "T", "J/m3", "rad", "kg*m^2", "1", "µT"]
MESH_UNITS = [None, "m", "nm", "um", "km"]
_FIXED_LABELS = {
    2: [None, ["a", "b"], ["mx", "my"], ["v_1", "v_2"], ["y", "x"]],
    3: [None, ["a", "b", "c"], ["mx", "my", "mz"], ["m_x", "m_y", "m_z"], ["z", "x", "y"],
        ["ft_x", "ft_y", "ft_z"]],
    4: [None, ["a", "b", "c", "d"], ["m_x", "m_y", "m_z", "m_t"]],
}
_ALPHA = string.ascii_letters
_ALNUM = string.ascii_letters + string.digits + "_"


def kind_of(i, k=4):
    """Case kind for index i.  Every aligned group of k consecutive indices holds each
    kind once, and the kind at a fixed position rotates from one block of 16 to the
    next, so that the round-robin shards of 8 or 16 workers (i = w + W*j) all see
    every kind (even load; violations of one kind are not piled on two workers)."""
    return (i + i // 16) % k


def rand_identifier(rng, underscore=None):
    k = int(rng.integers(1, 7))
    s = _ALPHA[int(rng.integers(0, len(_ALPHA)))]
    for _ in range(k - 1):
        s += _ALNUM[int(rng.integers(0, len(_ALNUM)))]
    if underscore is True and "_" not in s:
        s += "_" + _ALPHA[int(rng.integers(0, len(_ALPHA)))]
    return s


def rand_labels(rng, nvdim):
    """Component labels (ASCII identifiers, unique, not shadowing a Field attribute)
    or None for the library default."""
    if nvdim == 1:
        return None
    r = rng.random()
    if r < 0.5 and nvdim in _FIXED_LABELS:
        return gen.pick(rng, _FIXED_LABELS[nvdim])
    if r < 0.6:
        return None
    und = bool(rng.random() < 0.3)
    for _ in range(50):
        labs = [rand_identifier(rng, underscore=und or None) for _ in range(nvdim)]
        if len(set(labs)) == nvdim and not any(hasattr(df.Field, c) for c in labs):
            return labs
    return [f"c{i}" for i in range(nvdim)]


def expected_labels(nvdim, labels):
    """What Field.vdims is documented to hold for these constructor arguments."""
    if labels is not None:
        return list(labels)
    if nvdim == 1:
        return None
    if nvdim <= 3:
        return ["x", "y", "z"][:nvdim]
    return [f"v{i}" for i in range(nvdim)]


def rand_float_values(rng, shape, wide=None):
    """Finite float64 values; ``wide``: None (draw), 'normal', 'decades', 'full'."""
    if wide is None:
        wide = gen.pick(rng, ["normal", "normal", "decades", "full"])
    if wide == "normal":
        a = rng.normal(size=shape) * 10.0 ** rng.uniform(-3, 8)
    elif wide == "decades":
        a = rng.normal(size=shape) * 10.0 ** rng.integers(-30, 31, size=shape)
    else:
        a = rng.uniform(1, 10, size=shape) * 10.0 ** rng.integers(-300, 308, size=shape)
        a *= rng.choice([-1.0, 1.0], size=shape)
        flat = a.reshape(-1)
        specials = [0.0, -0.0, np.finfo(float).max, -np.finfo(float).max,
                    np.finfo(float).tiny, 5e-324, 1.0, -1.0]
        for s in specials:
            if rng.random() < 0.5:
                flat[int(rng.integers(0, flat.size))] = s
    return np.ascontiguousarray(a, dtype=float)


def bits_equal(a, b):
    a = np.ascontiguousarray(a)
    b = np.ascontiguousarray(b)
    if a.shape != b.shape or a.dtype != b.dtype:
        return False
    return a.tobytes() == b.tobytes()


def rel_close(a, b, rtol, floor=np.finfo(float).tiny):
    """Element-wise |a-b| <= rtol*max(|b|, floor); shapes must agree (no atol)."""
    a = np.asarray(a, dtype=float)
    b = np.asarray(b, dtype=float)
    if a.shape != b.shape:
        return False
    with np.errstate(all="ignore"):
        fin = np.isfinite(b)
        if not np.array_equal(np.isfinite(a), fin):
            return False
        if not np.array_equal(a[~fin], b[~fin]):
            return False
        return bool(np.all(np.abs(a[fin] - b[fin]) <= rtol * np.maximum(np.abs(b[fin]), floor)))


def mesh_with_subregions(rng, spec, bc="", p_sub=0.5, kmax=3, overlap_names=None):
    """(mesh, boxes, note): subregions are lattice index boxes; if the library's
    subregion setter refuses them (a C14 matter, findings F15/F22) the mesh is
    built without and ``note`` says so."""
    boxes, regions = {}, {}
    if rng.random() < p_sub:
        boxes, regions = gen.rand_subregions(rng, spec, kmax=kmax, names=overlap_names)
    if regions:
        try:
            return spec.mesh(subregions=regions, bc=bc), boxes, None
        except Exception as e:  # noqa: BLE001 - not this property's claim
            return spec.mesh(bc=bc), {}, f"setter refused: {type(e).__name__}"
    return spec.mesh(bc=bc), {}, None


def spec_3d(rng, thorough, same_units=True, n_max=None, max_cells=None):
    spec = gen.rand_meshspec(
        rng, nd=3, n_max=n_max or (7 if thorough else 5),
        max_cells=max_cells or (400 if thorough else 150),
    )
    if same_units:
        u = gen.pick(rng, MESH_UNITS)
        spec.units = None if u is None else [u] * 3
    return spec


def sub_corners_equal(got, boxes, spec):
    """Subregions come back with the same names, order and corners (value-exact
    against what the mesh held before writing is checked by the caller; this
    compares against generator-side lattice vertices with a few ulp allowance)."""
    if list(got.keys()) != list(boxes.keys()):
        return False
    eps = np.finfo(float).eps
    tol = 16 * eps * np.maximum(np.abs(spec.pmin), np.abs(spec.pmax)) + 1e-12 * spec.cell
    for k, (lo, hi) in boxes.items():
        r = got[k]
        if np.any(np.abs(np.asarray(r.pmin, float) - spec.vertex(lo)) > tol):
            return False
        if np.any(np.abs(np.asarray(r.pmax, float) - spec.vertex(hi)) > tol):
            return False
    return True


def subs_describe(subs):
    return {k: [np.asarray(v.pmin).tolist(), np.asarray(v.pmax).tolist()] for k, v in subs.items()}


def subs_identical(a, b):
    """Same names in the same order, corners value-identical."""
    if list(a.keys()) != list(b.keys()):
        return False
    return all(np.array_equal(a[k].pmin, b[k].pmin) and np.array_equal(a[k].pmax, b[k].pmax)
               for k in a)
