"""C01 - mesh cells tile the region; index<->coordinate maps are mutually inverse."""

META = {
    "property": "C01",
    "level": "exploration",
    "rule": (
        "case i of seed s is generated from default_rng([s, i]); i%4 selects the kind "
        "(0,1: lattice maps on a random 1-4-d mesh; 2: construction by cell size "
        "accept/reject; 3: malformed/out-of-range rejections + Region containment). "
        "Signature = (kind, ndim, min(n,3) per axis, decade of cell, decade of "
        "|offset|/edge, corner order flipped, int corners, named dims); a case is "
        "non-trivial when some axis has >= 2 cells."
    ),
    "cases": {"quick": 480, "thorough": 32000},
    "workers": {"quick": 8, "thorough": 16},
    "timeout": {"quick": 600, "thorough": 5400},
    "deciding": [
        "C01.index2point.formula",
        "C01.roundtrip.index",
        "C01.point2index.interior",
        "C01.point2index.face",
        "C01.point2index.outside_rejected",
        "C01.index2point.out_of_range_rejected",
        "C01.bycell.commensurate_accepted",
        "C01.bycell.incommensurate_rejected",
        "C01.iteration.order",
        "C01.coordinate_field",
        "C01.region.contains",
        "amb.index2point.formula",
        "amb.point2index.cell_contains_point",
    ],
    "owns": ["amb.index2point.formula", "amb.point2index.cell_contains_point"],
    "ambient": {"quick": [], "thorough": [
        "discretisedfield/tests/test_mesh.py", "discretisedfield/tests/test_region.py"]},
    "anchor_files": ["discretisedfield/mesh.py", "discretisedfield/region.py"],
    "assumptions": [
        "behaviour inside the tolerance band (rule R3) is not judged: probe points are "
        "generated >= 1e-6 cell (and >= 10x the region's comparison tolerance) away "
        "from faces, or exactly on lattice vertices where both neighbours are accepted",
        "offsets up to 1e3 edge lengths (rule R7), 1e6 in a tenth of the cases with "
        "coarser probe fractions",
    ],
}

import numpy as np  # noqa: E402

import discretisedfield as df  # noqa: E402
from workloads import gen  # noqa: E402

EPS = np.finfo(float).eps


def _coord_tol(spec):
    """Rounding allowance for a coordinate computed by a different evaluation order."""
    return 16 * EPS * np.maximum(np.abs(spec.pmin), np.abs(spec.pmax)) + 1e-12 * spec.cell


def _band(spec, tol_factor=1e-12):
    """The region's comparison tolerance (absolute + relative part), generously."""
    return tol_factor * (np.min(spec.edges) + np.maximum(np.abs(spec.pmin), np.abs(spec.pmax)))


def _spec(ctx, far=False):
    rng = ctx.rng
    spec = gen.rand_meshspec(
        rng, n_max=12 if ctx.thorough else 8, scale_decades=(-12, 6),
        max_cells=4096 if ctx.thorough else 1500,
    )
    if far and not spec.int_corners:
        # far-away mesh: 1e4..1e6 edge lengths from the origin
        mag = 10.0 ** rng.uniform(4, 6)
        pmin = rng.choice([-1, 1], spec.nd) * mag * spec.cell * spec.n
        spec = gen.MeshSpec(pmin, spec.cell, spec.n, spec.dims, spec.units, spec.flip)
    return spec


def lattice(ctx, far):
    rng = ctx.rng
    spec = _spec(ctx, far)
    mesh = spec.mesh()
    nd, n = spec.nd, spec.n
    ctx.sig(("lattice",) + spec.signature(), nontrivial=bool(np.any(n >= 2)))
    ctx.sample({"kind": "lattice", **spec.describe()})
    tol = _coord_tol(spec)
    fmin = 1e-3 if far else 1e-6

    # ---- geometry the mesh reports
    edges = spec.edges
    ctx.check("C01.cell_is_edges_over_n",
              np.all(np.abs(mesh.cell - edges / n) <= tol) and np.array_equal(mesh.n, n),
              cell=mesh.cell, expected=edges / n, n=mesh.n)
    ctx.check("C01.len", len(mesh) == int(np.prod(n)), got=len(mesh), n=n)

    # ---- per-axis centres and vertices
    cells, verts = mesh.cells, mesh.vertices
    ok = len(cells) == nd and len(verts) == nd
    for k in range(nd):
        if not ok:
            break
        exp_c = spec.pmin[k] + (np.arange(n[k]) + 0.5) * spec.cell[k]
        exp_v = spec.pmin[k] + np.arange(n[k] + 1) * spec.cell[k]
        exp_v[-1] = spec.pmax[k]
        ok = (np.shape(cells[k]) == exp_c.shape and np.shape(verts[k]) == exp_v.shape
              and np.all(np.abs(cells[k] - exp_c) <= tol[k])
              and np.all(np.abs(verts[k] - exp_v) <= tol[k]))
        if ok and n[k] > 1:
            # tiling: vertices strictly increasing with constant spacing, end to end
            d = np.diff(verts[k])
            ok = bool(np.all(d > 0) and np.all(np.abs(d - spec.cell[k]) <= 2 * tol[k])
                      and abs(verts[k][0] - spec.pmin[k]) <= tol[k]
                      and abs(verts[k][-1] - spec.pmax[k]) <= tol[k])
    ctx.check("C01.cells_vertices", ok, cells=[np.asarray(c) for c in cells],
              spec=spec.describe())
    names = spec.dim_names
    ctx.check("C01.cells_vertices.names",
              list(getattr(cells, "_fields", [])) == names
              and list(getattr(verts, "_fields", [])) == names,
              got=getattr(cells, "_fields", None), expected=names)

    # ---- iteration order (first dimension fastest) and centres
    all_idx = list(spec.indices())
    ncell = len(all_idx)
    got_idx = [tuple(int(x) for x in i) for i in mesh.indices]
    ctx.check("C01.iteration.order", got_idx == all_idx,
              first_got=got_idx[:5], first_expected=all_idx[:5], n=n)
    if ncell <= 600:
        pts = list(mesh)
        ok = len(pts) == ncell and all(
            np.all(np.abs(np.asarray(p) - spec.centre(i)) <= tol) for p, i in zip(pts, all_idx))
        ctx.check("C01.iteration.centres", ok, n=n)

    # ---- index -> centre -> index, for all (or 300 sampled) cells
    if ncell > 300:
        sel = [all_idx[j] for j in rng.choice(ncell, 300, replace=False)]
    else:
        sel = all_idx
    for idx in sel:
        arg = idx if rng.random() < 0.5 else list(idx)
        if nd == 1 and rng.random() < 0.3:
            arg = idx[0]
        p = mesh.index2point(arg)
        ctx.check("C01.index2point.formula",
                  np.shape(p) == (nd,) and np.all(np.abs(p - spec.centre(idx)) <= tol),
                  idx=idx, got=p, expected=spec.centre(idx), spec=spec.describe())
        back = mesh.point2index(p)
        ctx.check("C01.roundtrip.index", tuple(back) == tuple(idx),
                  idx=idx, back=back, point=p, spec=spec.describe())
    ctx.event("index_roundtrips", len(sel))

    # ---- coordinate field == lattice of centres
    cf = mesh.coordinate_field()
    exp = np.stack(np.meshgrid(*[spec.pmin[k] + (np.arange(n[k]) + 0.5) * spec.cell[k]
                                 for k in range(nd)], indexing="ij"), axis=-1)
    ctx.check("C01.coordinate_field",
              cf.array.shape == exp.shape and np.all(np.abs(cf.array - exp) <= tol),
              shape=cf.array.shape, expected_shape=exp.shape, n=n)

    # ---- interior points
    for _ in range(25):
        idx = tuple(int(rng.integers(0, k)) for k in n)
        frac = rng.uniform(fmin, 1 - fmin, nd)
        if _ % 3 == 0:
            # just above / just below a face, at every distance between fmin and a third of
            # a cell (log-uniform): "lower face inclusive" is about which side of the face
            d = 10.0 ** rng.uniform(np.log10(fmin), -0.5, nd)
            frac = np.where(rng.random(nd) < 0.5, d, 1 - d)
        p = spec.pmin + (np.asarray(idx) + frac) * spec.cell
        arg = p if rng.random() < 0.5 else tuple(p.tolist())
        okc, got = ctx.expect_ok("C01.point2index.accepts_inside", mesh.point2index, arg,
                                 what={"p": p, "spec": spec.describe()})
        if okc:
            ctx.check("C01.point2index.interior", tuple(got) == idx,
                      idx=idx, got=got, frac=frac, p=p, spec=spec.describe())
            ctx.check("C01.point2index.python_ints",
                      all(type(x) is int for x in got), got=repr(got))

    # ---- points on cell faces (lattice vertices) incl. the region corners
    vs = [tuple(int(rng.integers(0, k + 1)) for k in n) for _ in range(20)]
    vs += [tuple([0] * nd), tuple(int(k) for k in n)]
    for v in vs:
        v = np.asarray(v)
        # computed vertex: may differ from the corner by a few ulp, far inside the
        # region's comparison tolerance ("up to the region's comparison tolerance")
        p = spec.pmin + v * spec.cell
        okc, got = ctx.expect_ok("C01.point2index.accepts_face", mesh.point2index, p,
                                 what={"vertex": v, "spec": spec.describe()})
        if okc:
            got = np.asarray(got)
            lo, hi = np.clip(v - 1, 0, n - 1), np.clip(v, 0, n - 1)
            ctx.check("C01.point2index.face", np.all((got >= lo) & (got <= hi)),
                      vertex=v, got=got, spec=spec.describe())

    # ---- points outside (beyond the tolerance band): rejected
    band = _band(spec)
    for _ in range(12):
        ax = int(rng.integers(0, nd))
        p = spec.pmin + rng.uniform(0.05, 0.95, nd) * edges
        dist = max(10 * band[ax], 10.0 ** rng.uniform(np.log10(fmin), 0.5) * spec.cell[ax])
        p[ax] = spec.pmin[ax] - dist if rng.random() < 0.5 else spec.pmax[ax] + dist
        ctx.expect_raises("C01.point2index.outside_rejected", mesh.point2index, p,
                          what={"p": p, "axis": ax, "spec": spec.describe()})
        ctx.check("C01.region.contains", not bool(p in mesh.region), p=p,
                  note="outside point reported as contained", spec=spec.describe())
    # a hair outside a face, deep inside the comparison tolerance: still "in the region"
    for _ in range(4):
        ax = int(rng.integers(0, nd))
        p = spec.pmin + rng.uniform(0.05, 0.95, nd) * edges
        hair = 1e-3 * 1e-12 * np.min(edges)
        up = rng.random() < 0.5
        p[ax] = spec.pmax[ax] + hair if up else spec.pmin[ax] - hair
        okc, got = ctx.expect_ok("C01.point2index.accepts_within_tolerance",
                                 mesh.point2index, p, what={"p": p, "spec": spec.describe()})
        if okc:
            ctx.check("C01.point2index.face", got[ax] == (n[ax] - 1 if up else 0),
                      got=got, axis=ax, up=up, spec=spec.describe())
    # infinitely far away / not a number: not points of the region
    for bad in (np.inf, -np.inf, np.nan):
        ax = int(rng.integers(0, nd))
        p = spec.pmin + rng.uniform(0.05, 0.95, nd) * edges
        p[ax] = bad
        ctx.expect_raises("C01.point2index.outside_rejected", mesh.point2index, p,
                          what={"p": p, "axis": ax, "non_finite": True, "spec": spec.describe()})
        ctx.check("C01.region.contains", not bool(p in mesh.region), p=p,
                  note="non-finite point reported as contained", spec=spec.describe())
    for _ in range(6):
        p = spec.pmin + rng.uniform(fmin, 1 - fmin, nd) * edges
        ctx.check("C01.region.contains", bool(p in mesh.region), p=p,
                  note="inside point reported as not contained", spec=spec.describe())


def by_cell(ctx):
    rng = ctx.rng
    spec = _spec(ctx, far=(ctx.i % 16 == 2))
    if spec.nd >= 2 and rng.random() < 0.2 and not spec.int_corners and not spec.dyadic:
        # axes of very different scale (a nm-sized axis next to a GHz-sized one): what is
        # commensurate is decided axis by axis
        ax = int(rng.integers(0, spec.nd))
        fac = 10.0 ** rng.uniform(6, 15)
        cell, pmin = spec.cell.copy(), spec.pmin.copy()
        cell[ax] *= fac
        pmin[ax] *= fac
        spec = gen.MeshSpec(pmin, cell, spec.n, spec.dims, spec.units, spec.flip)
        ctx.event("bycell.strongly_anisotropic")
    nd, n = spec.nd, spec.n
    region = spec.region()
    edges = np.asarray(region.edges, dtype=float)
    ctx.sig(("bycell",) + spec.signature(), nontrivial=bool(np.any(n >= 2)))
    # commensurate: a whole number of cells -> exists with that n
    cell = edges / n
    arg = pickarg(rng, cell, nd)
    ok, mesh = ctx.expect_ok("C01.bycell.commensurate_accepted",
                             lambda: df.Mesh(region=region, cell=arg),
                             what={"cell": cell, "spec": spec.describe()})
    if ok:
        ctx.check("C01.bycell.n", np.array_equal(mesh.n, n), got=mesh.n, expected=n,
                  spec=spec.describe())
        ctx.check("C01.bycell.cell", np.all(np.abs(mesh.cell - cell) <= 1e-12 * cell),
                  got=mesh.cell, expected=cell)
    # the *nominal* cell size the corners were built from (pmax = pmin + n * cell, rounded):
    # the edges then differ from n * cell by the rounding of the corner coordinates, which
    # is all a user who writes p1, p2 and cell as decimal numbers can offer
    ok, mesh = ctx.expect_ok("C01.bycell.commensurate_accepted",
                             lambda: df.Mesh(region=region, cell=pickarg(rng, spec.cell, nd)),
                             what={"cell": spec.cell, "nominal": True, "spec": spec.describe()})
    if ok:
        ctx.check("C01.bycell.n", np.array_equal(mesh.n, n), got=mesh.n, expected=n,
                  nominal=True, spec=spec.describe())
    # p1/p2 form
    p1, p2 = spec.corners()
    ok, mesh = ctx.expect_ok("C01.bycell.commensurate_accepted",
                             lambda: df.Mesh(p1=p1, p2=p2, cell=arg), what="p1/p2 form")
    if ok:
        ctx.check("C01.bycell.n", np.array_equal(mesh.n, n), got=mesh.n, expected=n)
    # incommensurate by 1%..99% of a cell along one axis -> rejected
    for _ in range(4):
        ax = int(rng.integers(0, nd))
        f = rng.uniform(0.01, 0.99)
        m = int(rng.integers(0, n[ax] + 1))  # m = 0: cell larger than the edge
        bad = cell.copy()
        bad[ax] = edges[ax] / (m + f)
        ctx.expect_raises("C01.bycell.incommensurate_rejected",
                          lambda: df.Mesh(region=region, cell=pickarg(rng, bad, nd)),
                          what={"cell": bad, "axis": ax, "m+f": m + f, "spec": spec.describe()})
    # a cell far larger than the edge along one axis (the edge is a vanishing fraction of one
    # cell, i.e. zero whole cells): no mesh
    ax = int(rng.integers(0, nd))
    bad = cell.copy()
    bad[ax] = edges[ax] * 10.0 ** rng.uniform(0.2, 7)
    ctx.expect_raises("C01.bycell.incommensurate_rejected",
                      lambda: df.Mesh(region=region, cell=pickarg(rng, bad, nd)),
                      what={"cell": bad, "axis": ax, "larger_than_edge": True,
                            "spec": spec.describe()})
    # many cells along one axis: the decision is still about a fraction of ONE cell
    ax = int(rng.integers(0, nd))
    big = int(10 ** rng.uniform(1.5, 4))
    ncells = n.copy()
    ncells[ax] = big
    cell_big = edges / ncells
    ok, mesh = ctx.expect_ok("C01.bycell.commensurate_accepted",
                             lambda: df.Mesh(region=region, cell=pickarg(rng, cell_big, nd)),
                             what={"cell": cell_big, "n": ncells, "spec": spec.describe(), "big": True})
    if ok:
        ctx.check("C01.bycell.n", np.array_equal(mesh.n, ncells), got=mesh.n, expected=ncells,
                  big=True, spec=spec.describe())
    for _ in range(3):
        f = rng.uniform(0.01, 0.99)
        bad = cell_big.copy()
        bad[ax] = edges[ax] / (big + f)
        ctx.expect_raises("C01.bycell.incommensurate_rejected",
                          lambda: df.Mesh(region=region, cell=pickarg(rng, bad, nd)),
                          what={"cell": bad, "axis": ax, "m+f": big + f, "big": True,
                                "spec": spec.describe()})
    # non-positive cell, wrong length, both/neither of n and cell
    ctx.expect_raises("C01.bycell.malformed_rejected",
                      lambda: df.Mesh(region=region, cell=(-cell).tolist()))
    ctx.expect_raises("C01.bycell.malformed_rejected",
                      lambda: df.Mesh(region=region, cell=cell.tolist() + [1.0]))
    ctx.expect_raises("C01.bycell.malformed_rejected",
                      lambda: df.Mesh(region=region, cell=cell.tolist(), n=n.tolist()))
    ctx.expect_raises("C01.bycell.malformed_rejected", lambda: df.Mesh(region=region))
    bad_n = n.tolist()
    bad_n[int(rng.integers(0, nd))] = int(rng.choice([0, -1]))
    ctx.expect_raises("C01.bycell.malformed_rejected",
                      lambda: df.Mesh(region=region, n=bad_n), what={"n": bad_n})
    ctx.expect_raises("C01.bycell.malformed_rejected",
                      lambda: df.Mesh(region=region, n=[float(k) + 0.5 for k in n]))


def pickarg(rng, arr, nd):
    r = rng.random()
    if nd == 1 and r < 0.3:
        return float(arr[0])
    if r < 0.6:
        return tuple(arr.tolist())
    if r < 0.8:
        return arr.tolist()
    return np.array(arr)


def rejections(ctx):
    rng = ctx.rng
    spec = _spec(ctx)
    mesh = spec.mesh()
    nd, n = spec.nd, spec.n
    ctx.sig(("reject",) + spec.signature(), nontrivial=bool(np.any(n >= 2)))
    d0 = None
    for _ in range(10):
        idx = [int(rng.integers(0, k)) for k in n]
        ax = int(rng.integers(0, nd))
        idx[ax] = int(rng.choice([-1, -2, n[ax], n[ax] + 1, n[ax] + 1000, -(10**6)]))
        ctx.expect_raises("C01.index2point.out_of_range_rejected", mesh.index2point,
                          tuple(idx), unchanged=[mesh], what={"idx": idx, "n": n})
    good = [int(rng.integers(0, k)) for k in n]
    ctx.expect_raises("C01.index2point.malformed_rejected", mesh.index2point, good + [0])
    if nd > 1:
        ctx.expect_raises("C01.index2point.malformed_rejected", mesh.index2point, good[:-1])
    ctx.expect_raises("C01.index2point.malformed_rejected", mesh.index2point,
                      [float(g) + 0.5 for g in good])
    ctx.expect_raises("C01.index2point.malformed_rejected", mesh.index2point, "ab"[:nd])
    p = spec.centre(good)
    ctx.expect_raises("C01.point2index.malformed_rejected", mesh.point2index,
                      p.tolist() + [0.0])
    if nd > 1:
        ctx.expect_raises("C01.point2index.malformed_rejected", mesh.point2index,
                          p.tolist()[:-1])
    ctx.expect_raises("C01.point2index.malformed_rejected", mesh.point2index, None)
    ctx.expect_raises("C01.point2index.malformed_rejected", mesh.point2index,
                      [complex(x, 1.0) for x in p])
    # region containment of sub-boxes: inside box True, box sticking out False
    region = mesh.region
    lo, hi = gen.rand_box(rng, n)
    ctx.check("C01.region.contains", bool(spec.box_region(lo, hi) in region),
              note="lattice sub-box reported as not contained", lo=lo, hi=hi,
              spec=spec.describe())
    ax = int(rng.integers(0, nd))
    p1 = spec.vertex(lo)
    p2 = spec.vertex(hi)
    p2[ax] = spec.pmax[ax] + max(rng.uniform(0.01, 2) * spec.cell[ax], 10 * _band(spec)[ax])
    ctx.check("C01.region.contains",
              not bool(df.Region(p1=p1.tolist(), p2=p2.tolist()) in region),
              note="box sticking out reported as contained", spec=spec.describe())
    ctx.check("C01.region.contains", bool(region in region), note="region not in itself")
    # a region with a generous comparison tolerance (the library's own tests use 0.1): points
    # up to that tolerance outside - possibly more than a cell - are points of the region and
    # map to the outermost cell on that side
    tf = float(gen.pick(rng, [1e-3, 0.02, 0.1, 0.1]))
    # one axis with many cells whose edge is the shortest of the region: the tolerance
    # (a fraction of the shortest edge) then spans several of its cells
    axm = int(rng.integers(0, nd))
    nw, cw = n.copy(), spec.cell.copy()
    nw[axm] = int(rng.integers(15, 60))
    others = [spec.edges[j] for j in range(nd) if j != axm]
    cw[axm] = (0.8 * min(others) if others else spec.edges[axm]) / nw[axm]
    spec, n = gen.MeshSpec(spec.pmin, cw, nw, spec.dims, spec.units, spec.flip), nw
    wide = df.Mesh(region=spec.region(tolerance_factor=tf), n=[int(k) for k in n])
    reach = tf * float(np.min(spec.edges))
    for _ in range(4):
        ax = axm if rng.random() < 0.7 else int(rng.integers(0, nd))
        p = spec.pmin + rng.uniform(0.05, 0.95, nd) * spec.edges
        up = bool(rng.random() < 0.5)
        d = rng.uniform(0.05, 0.9) * reach
        p[ax] = spec.pmax[ax] + d if up else spec.pmin[ax] - d
        what = {"p": p, "axis": ax, "outside_by_cells": d / spec.cell[ax], "tolerance_factor": tf,
                "spec": spec.describe()}
        okc, got = ctx.expect_ok("C01.point2index.accepts_within_tolerance", wide.point2index, p,
                                 what=what)
        if okc:
            got = np.asarray(got)
            ctx.check("C01.point2index.face",
                      bool(np.all((got >= 0) & (got < n))) and got[ax] == (n[ax] - 1 if up else 0),
                      got=got, up=up, **what)


def run_case(ctx, i):
    kind = i % 4
    if kind == 0:
        lattice(ctx, far=False)
    elif kind == 1:
        lattice(ctx, far=(i % 40 == 1))
    elif kind == 2:
        by_cell(ctx)
    else:
        rejections(ctx)
