"""C14 - subregions always stay inside, aligned with and measured in cells of their mesh."""

META = {
    "property": "C14",
    "level": "exploration",
    "rule": (
        "case i of seed s from default_rng([s, i]); i%5 selects the kind: 0 accept/reject of "
        "candidate subregions (construction and assignment), 1 transformations (index ranges "
        "of the subregions are the mapped ones, invariant holds), 2 plane/range selections "
        "(kept subregions and their clipped index ranges expected from integers, including "
        "ranges ending on a subregion face), 3 persistence (JSON side-car, HDF5) and named "
        "extraction, 4 is_aligned decisions. All boxes are drawn as integer index ranges; "
        "coordinates are derived. Signature = (kind, ndim, min(n,3) per axis, number of "
        "subregions, decade of cell, decade of |offset|/edge, sub-kind); non-trivial = mesh "
        "has >= 2 cells and (kinds 0-3) at least one subregion."
    ),
    "cases": {"quick": 500, "thorough": 90000},
    "workers": {"quick": 8, "thorough": 16},
    "timeout": {"quick": 600, "thorough": 5400},
    "deciding": [
        "C14.aligned_accepted",
        "C14.stored_metadata",
        "C14.misaligned_rejected",
        "C14.misaligned_rejected.unchanged",
        "C14.transform.index_ranges",
        "C14.sel.kept_names",
        "C14.sel.clipped_ranges",
        "C14.persist.json",
        "C14.persist.hdf5",
        "C14.named_extraction",
        "C14.is_aligned.true",
        "C14.is_aligned.false",
        "C14.quiescent.inv", "C14.subregions_are_own_objects",
        "inv.mesh.subregions",
    ],
    "owns": ["inv.mesh", "inv.mesh.subregions"],
    "ambient": {"quick": [], "thorough": ["discretisedfield/tests/test_mesh.py"]},
    "anchor_files": ["discretisedfield/mesh.py", "discretisedfield/io/__init__.py",
                     "discretisedfield/io/hdf5.py"],
    "assumptions": [
        "rejected candidates are off the lattice by 10-90 % of a cell (rule R3; the library's "
        "own threshold is 0.1 %), accepted ones are built from integer index ranges",
        "selection coordinates lie 10-90 % inside a cell or exactly at a cell centre",
    ],
}

import os  # noqa: E402
import shutil  # noqa: E402
import tempfile  # noqa: E402

import numpy as np  # noqa: E402

EPS = np.finfo(float).eps

import discretisedfield as df  # noqa: E402
from dfmon import attach, core  # noqa: E402
from workloads import gen  # noqa: E402


def index_box(mesh, sr):
    """Index range of a region on the mesh lattice: (lo, hi, distance from integers).

    The distance is measured in cells, beyond what the coordinates themselves resolve
    (16 ulp of the largest corner, per axis, in units of that axis' cell - rule R2)."""
    pmin = np.asarray(mesh.region.pmin, float)
    cell = np.asarray(mesh.cell, float)
    res = 16 * EPS * np.maximum(np.abs(pmin), np.abs(np.asarray(mesh.region.pmax, float))) / cell
    lo = (np.asarray(sr.pmin, float) - pmin) / cell
    hi = (np.asarray(sr.pmax, float) - pmin) / cell
    err = max(np.max(np.abs(lo - np.round(lo)) - res), np.max(np.abs(hi - np.round(hi)) - res), 0.0)
    return np.round(lo).astype(int), np.round(hi).astype(int), float(err)


def resolution(mesh):
    """Largest coordinate spacing of the mesh's corners in units of the cell along that axis."""
    cell = np.asarray(mesh.cell, float)
    big = np.maximum(np.abs(np.asarray(mesh.region.pmin, float)), np.abs(np.asarray(mesh.region.pmax, float)))
    return float(np.max(EPS * big / cell))


def quiescent(ctx, mesh, where):
    prob = attach._mesh_problem(mesh)
    subs = [] if prob else attach._subregion_problems(mesh)
    ctx.check("C14.quiescent.inv", prob is None and not subs, problem=prob, subregions=subs,
              where=where, pmin=mesh.region.pmin, pmax=mesh.region.pmax, n=mesh.n)


def make(ctx, nd=None, kmin=1, n_max=None, min_n=1):
    rng = ctx.rng
    spec = gen.rand_meshspec(rng, nd=nd, n_max=n_max or (8 if ctx.thorough else 6), min_n=min_n,
                             scale_decades=(-9, 3), max_cells=3000)
    if rng.random() < 0.15 and not spec.int_corners and not spec.dyadic:
        # far from the origin compared with the cell (a film 0.5 mm away cut into nm
        # cells): 1e4..1e6 edge lengths; one-cell-thick subregions included
        mag = 10.0 ** rng.uniform(4, 6)
        pmin = rng.choice([-1, 1], spec.nd) * mag * spec.cell * spec.n
        spec = gen.MeshSpec(pmin, spec.cell, spec.n, spec.dims, spec.units, spec.flip)
        ctx.event("far_mesh")
    elif spec.nd >= 2 and rng.random() < 0.15 and not spec.int_corners and not spec.dyadic:
        # thin-film cells (50 nm x 50 nm x 0.2 nm): one axis 1e2..1e4 times finer than the
        # others - "on the lattice" is decided axis by axis, in units of that axis' cell
        ax = int(rng.integers(0, spec.nd))
        fac = 10.0 ** rng.uniform(2, 4)
        cell, pmin = spec.cell.copy(), spec.pmin.copy()
        # (the other axes are made coarser, so that the finest cell stays well above the
        # documented absolute default tolerance 1e-12 of is_aligned)
        others = np.arange(spec.nd) != ax
        cell[others] *= fac
        pmin[others] *= fac
        spec = gen.MeshSpec(pmin, cell, spec.n, spec.dims, spec.units, spec.flip)
        ctx.event("thin_film_cells")
    for _ in range(20):
        boxes, regions = gen.rand_subregions(rng, spec, kmax=3)
        if len(boxes) >= kmin:
            break
    return spec, boxes, regions


def sig(ctx, kind, spec, boxes, sub=""):
    ctx.sig((kind, sub) + spec.signature()[:4] + (len(boxes),),
            nontrivial=bool(np.prod(spec.n) >= 2 and (len(boxes) >= 1 or kind == "aligned")))


# ---------------------------------------------------------------- 0 accept / reject
def bad_candidate(rng, spec):
    """A box that must be rejected, with the reason."""
    nd, n, cell = spec.nd, spec.n, spec.cell
    lo, hi = gen.rand_box(rng, n)
    p1, p2 = spec.vertex(lo), spec.vertex(hi)
    ax = int(rng.integers(0, nd))
    kind = gen.pick(rng, ["shifted", "fractional", "oversized", "outside", "wrong_ndim"])
    f = rng.uniform(0.1, 0.9)
    if kind == "shifted":  # whole cells, but off the lattice (stays inside if possible)
        if hi[ax] < n[ax]:
            p1[ax] += f * cell[ax]
            p2[ax] += f * cell[ax]
        elif lo[ax] > 0:
            p1[ax] -= f * cell[ax]
            p2[ax] -= f * cell[ax]
        else:
            kind = "fractional"
    if kind == "fractional":  # not a whole number of cells
        if hi[ax] - lo[ax] >= 2 or hi[ax] == n[ax]:
            p2[ax] -= f * cell[ax]
        else:
            p2[ax] += f * cell[ax]
    if kind == "oversized":  # sticks out of the mesh by a fraction of a cell
        p2[ax] = spec.pmax[ax] + f * cell[ax]
    if kind == "outside":  # whole cells on the lattice continued beyond the mesh
        k = int(rng.integers(1, 3))
        p1[ax] = spec.pmax[ax] + (k - 1) * cell[ax] if rng.random() < 0.5 else p1[ax]
        p2[ax] = spec.pmax[ax] + k * cell[ax]
    if kind == "wrong_ndim":
        if nd == 1:
            p1, p2 = np.append(p1, 0.0), np.append(p2, 1.0)
        else:
            p1, p2 = p1[:-1], p2[:-1]
    return kind, df.Region(p1=p1.tolist(), p2=p2.tolist())


def accept_reject(ctx):
    rng = ctx.rng
    spec, boxes, regions = make(ctx)
    sig(ctx, "accept", spec, boxes)
    ctx.sample({"kind": "accept_reject", **spec.describe(),
                "boxes": {k: (lo, hi) for k, (lo, hi) in boxes.items()}})
    ok, mesh = ctx.expect_ok("C14.aligned_accepted", spec.mesh, subregions=regions,
                             what={"spec": spec.describe(), "boxes": boxes, "via": "constructor"})
    if not ok:
        return
    quiescent(ctx, mesh, "constructor")
    # stored subregions: same names/order, mesh's dims/units, the given corners
    names = list(mesh.subregions)
    good = names == list(regions)
    for k in names:
        sr = mesh.subregions[k]
        lo, hi, err = index_box(mesh, sr)
        good = (good and tuple(sr.dims) == tuple(mesh.region.dims)
                and tuple(sr.units) == tuple(mesh.region.units)
                and np.array_equal(lo, boxes[k][0]) and np.array_equal(hi, boxes[k][1])
                and err < 1e-6)
    ctx.check("C14.stored_metadata", good, names=names, expected=list(regions),
              spec=spec.describe())
    # assignment of another aligned set (whole region included) is accepted too
    boxes2, regions2 = gen.rand_subregions(rng, spec, kmax=3, names=["n0", "n1", "n2"])
    regions2["whole"] = spec.box_region(np.zeros(spec.nd, int), spec.n)

    def assign(m, val):
        m.subregions = val

    ok2, _ = ctx.expect_ok("C14.aligned_accepted", assign, mesh, regions2,
                           what={"spec": spec.describe(), "boxes": boxes2, "via": "assignment"})
    if ok2:
        ctx.check("C14.stored_metadata", list(mesh.subregions) == list(regions2),
                  names=list(mesh.subregions))
        quiescent(ctx, mesh, "assignment")
    # candidates that must be rejected: previous subregions are kept
    for _ in range(6):
        kind, bad = bad_candidate(rng, spec)
        cand = dict(regions)
        cand[f"bad_{kind}"] = bad
        if rng.random() < 0.5:
            cand = dict(reversed(list(cand.items())))
        info = {"reason": kind, "bad_pmin": bad.pmin, "bad_pmax": bad.pmax,
                "spec": spec.describe()}
        ctx.expect_raises("C14.misaligned_rejected", assign, mesh, cand, unchanged=[mesh],
                          what={**info, "via": "assignment"})
        ctx.expect_raises("C14.misaligned_rejected", spec.mesh, subregions=cand,
                          what={**info, "via": "constructor"})
    for val in ([1, 2], {"a": (0, 1)}, {1: spec.box_region(np.zeros(spec.nd, int), spec.n)}, "abc"):
        ctx.expect_raises("C14.malformed_rejected", assign, mesh, val, unchanged=[mesh],
                          what={"value": repr(val)[:80]})
    quiescent(ctx, mesh, "after rejections")
    shared_regions(ctx, spec, boxes)


def shared_regions(ctx, spec, boxes):
    """History: the same Region objects are handed to two meshes (``Mesh(...,
    subregions=other.subregions)`` is the usual way to give a finer mesh the subregions of
    a coarser one), then one mesh - or the caller's own Region object - is moved in place.
    Every mesh holds subregions of its own: the other mesh still has its subregions where
    they were, inside its region and on its lattice."""
    rng = ctx.rng
    if not boxes:
        return
    # Regions that already carry the mesh's names, units and tolerance (nothing to convert)
    tmpl = spec.region()
    mine = {k: df.Region(p1=spec.vertex(lo).tolist(), p2=spec.vertex(hi).tolist(),
                         dims=tmpl.dims, units=tmpl.units, tolerance_factor=tmpl.tolerance_factor)
            for k, (lo, hi) in boxes.items()}
    a = spec.mesh(subregions=mine)
    second_from = gen.pick(rng, ["callers_regions", "first_mesh"])
    n2 = [int(k) * int(rng.integers(1, 3)) for k in spec.n]  # same region, same or finer cells
    b = df.Mesh(region=spec.region(), n=n2, subregions=mine if second_from == "callers_regions"
                else a.subregions)
    da, db = core.mesh_digest(a), core.mesh_digest(b)
    moved = gen.pick(rng, ["second_mesh", "first_mesh", "callers_region"])
    v = (rng.integers(1, 4, spec.nd) * spec.cell).tolist()
    if moved == "second_mesh":
        b.translate(v, inplace=True)
    elif moved == "first_mesh":
        k = gen.pick(rng, ["translate", "scale"])
        if k == "translate":
            a.translate(v, inplace=True)
        else:
            a.scale(2.0, reference_point=spec.pmin.tolist(), inplace=True)
    else:
        next(iter(mine.values())).translate(v, inplace=True)
    info = {"second_mesh_got_regions_from": second_from, "moved_in_place": moved,
            "spec": spec.describe(), "boxes": {k: (lo, hi) for k, (lo, hi) in boxes.items()}}
    if moved != "first_mesh":
        ctx.check("C14.subregions_are_own_objects", core.mesh_digest(a) == da,
                  mesh="first", **info)
        quiescent(ctx, a, "shared regions: first mesh")
    if moved != "second_mesh":
        ctx.check("C14.subregions_are_own_objects", core.mesh_digest(b) == db,
                  mesh="second", **info)
        quiescent(ctx, b, "shared regions: second mesh")


# ---------------------------------------------------------------- 1 transformations
def transformations(ctx):
    rng = ctx.rng
    spec, boxes, regions = make(ctx, n_max=5)
    sig(ctx, "transform", spec, boxes)
    mesh = spec.mesh(subregions=regions)
    dims = spec.dim_names
    n = spec.n.copy()
    cur = {k: (lo.copy(), hi.copy()) for k, (lo, hi) in boxes.items()}
    for step in range(int(rng.integers(1, 6))):
        kind = gen.pick(rng, ["translate", "scale", "rotate90"] if spec.nd > 1 else
                        ["translate", "scale"])
        inplace = bool(rng.random() < 0.5)
        edges = np.asarray(mesh.region.edges, float)
        if kind == "translate":
            kw = {"vector": (rng.uniform(-2, 2, spec.nd) * edges).tolist()}
            if rng.random() < 0.35:
                # to the origin (give or take a few whole cells): where the coordinates of
                # a mesh that came from far away are rounding noise
                cellv = np.asarray(mesh.cell, float)
                kw = {"vector": (-np.asarray(mesh.region.pmin, float)
                                 + rng.integers(-2, 3, spec.nd) * cellv).tolist()}
        elif kind == "scale":
            # large factors only while the mesh is still near the origin in units of its cell:
            # beyond ~1e9 cells the coordinates no longer resolve 1e-6 of a cell (rule R7)
            far = float(np.max(np.maximum(np.abs(mesh.region.pmin), np.abs(mesh.region.pmax))
                               / np.asarray(mesh.cell, float)))
            pool = [2, 0.5, -1, -2.5, 3, 0.1] + ([1000.0, 0.001, -300.0] if far < 1e3 else [])
            f = [float(rng.choice(pool)) for _ in range(spec.nd)]
            f = f[0] if rng.random() < 0.4 else f
            ref = None if rng.random() < 0.5 else (
                np.asarray(mesh.region.centre, float) + rng.uniform(-3, 3, spec.nd) * edges).tolist()
            kw = {"factor": f, "reference_point": ref}
            fa = np.full(spec.nd, f) if np.isscalar(f) else np.asarray(f)
            for k in cur:  # negative factor mirrors the index range
                lo, hi = cur[k]
                cur[k] = (np.where(fa < 0, n - hi, lo), np.where(fa < 0, n - lo, hi))
        else:
            a, b = (int(x) for x in rng.choice(spec.nd, 2, replace=False))
            kq = int(rng.integers(-5, 6))
            ref = None if rng.random() < 0.5 else (
                np.asarray(mesh.region.centre, float) + rng.uniform(-3, 3, spec.nd) * edges).tolist()
            kw = {"ax1": dims[a], "ax2": dims[b], "k": kq, "reference_point": ref}
            for _ in range(kq % 4):  # (xa, xb) -> (-xb, xa)
                for k in cur:
                    lo, hi = cur[k][0].copy(), cur[k][1].copy()
                    nlo, nhi = lo.copy(), hi.copy()
                    nlo[a], nhi[a] = n[b] - hi[b], n[b] - lo[b]
                    nlo[b], nhi[b] = lo[a], hi[a]
                    cur[k] = (nlo, nhi)
                n[a], n[b] = n[b], n[a]
        what = {"step": step, "kind": kind, "inplace": inplace, "args": kw, "spec": spec.describe()}
        ok, res = ctx.expect_ok("C14.transform.accepted", getattr(mesh, kind), what=what,
                                **kw, inplace=inplace)
        if not ok:
            return
        mesh = res
        if resolution(mesh) > 1e-8:
            # the history has carried a fine axis to where its coordinates no longer resolve
            # a hundred-millionth of its cell (a quarter turn about a point that is far away in
            # units of the *other* axis' cell, after scalings by 1000 and 0.001): "on the
            # lattice" cannot be decided there - not judged (rule R7), the history ends
            ctx.event("transform.history_unresolvable")
            return
        quiescent(ctx, mesh, what)
        good = list(mesh.subregions) == list(cur) and np.array_equal(mesh.n, n)
        got, errs = {}, {}
        for k in mesh.subregions:
            lo, hi, err = index_box(mesh, mesh.subregions[k])
            got[k] = (lo, hi)
            errs[k] = err
            good = good and err < 1e-6 and np.array_equal(lo, cur[k][0]) and np.array_equal(hi, cur[k][1])
        ctx.check("C14.transform.index_ranges", good, got=got, expected=cur, n=mesh.n,
                  distance_from_lattice_in_cells=errs, pmin=mesh.region.pmin, cell=mesh.cell,
                  expected_n=n, what=what)
        for k in mesh.subregions:
            # the mesh of a named subregion exists after every step, with the parent's cell
            okn, sub = ctx.expect_ok("C14.transform.named_extraction", mesh.__getitem__, k,
                                     what=dict(what, name=k))
            if okn:
                ctx.check("C14.named_extraction", np.array_equal(sub.n, cur[k][1] - cur[k][0]),
                          got_n=sub.n, expected_n=cur[k][1] - cur[k][0], after=what)
        ctx.event("transform." + kind)


# ------------------------------------------------------------------- 2 selections
def selections(ctx):
    rng = ctx.rng
    spec, boxes, regions = make(ctx, min_n=1)
    mesh = spec.mesh(subregions=regions)
    dims = spec.dim_names
    nd, n = spec.nd, spec.n
    for rep in range(4):
        ax = int(rng.integers(0, nd))
        mode = gen.pick(rng, ["range", "range", "range_face", "plane", "plane_centre", "plane_default"])
        if mode.startswith("range"):
            a = int(rng.integers(0, n[ax]))
            b = int(rng.integers(a, n[ax]))
            if mode == "range_face" and boxes:
                # make the selection end exactly on a face of a subregion
                lo_s, hi_s = boxes[gen.pick(rng, list(boxes))]
                opts = []
                if hi_s[ax] < n[ax]:
                    opts.append((int(hi_s[ax]), int(rng.integers(hi_s[ax], n[ax]))))
                if lo_s[ax] > 0:
                    opts.append((int(rng.integers(0, lo_s[ax])), int(lo_s[ax] - 1)))
                if opts:
                    a, b = gen.pick(rng, opts)
            fa, fb = (0.5, 0.5) if rng.random() < 0.5 else rng.uniform(0.1, 0.9, 2)
            ca = spec.pmin[ax] + (a + fa) * spec.cell[ax]
            cb = spec.pmin[ax] + (b + fb) * spec.cell[ax]
            arg = (ca, cb) if rng.random() < 0.7 else [cb, ca]
            what = {"mode": mode, "axis": ax, "cells": (a, b), "arg": arg, "spec": spec.describe(),
                    "boxes": boxes}
            ok, sel = ctx.expect_ok("C14.sel.accepted", lambda: mesh.sel(**{dims[ax]: arg}),
                                    what=what)
            if not ok:
                continue
            exp = {}
            for k, (lo, hi) in boxes.items():
                l2, h2 = max(lo[ax], a), min(hi[ax], b + 1)
                if l2 < h2:
                    elo, ehi = lo.copy(), hi.copy()
                    elo[ax], ehi[ax] = l2 - a, h2 - a
                    exp[k] = (elo, ehi)
            exp_n = n.copy()
            exp_n[ax] = b - a + 1
        else:
            if mode == "plane_default":
                j = None
                arg = None
            else:
                j = int(rng.integers(0, n[ax]))
                f = 0.5 if mode == "plane_centre" else rng.uniform(0.1, 0.9)
                arg = float(spec.pmin[ax] + (j + f) * spec.cell[ax])
            what = {"mode": mode, "axis": ax, "cell": j, "arg": arg, "spec": spec.describe(),
                    "boxes": boxes}
            if nd == 1:
                continue  # selecting a plane of a 1-d mesh leaves nothing
            ok, sel = ctx.expect_ok(
                "C14.sel.accepted",
                (lambda: mesh.sel(dims[ax])) if arg is None else (lambda: mesh.sel(**{dims[ax]: arg})),
                what=what)
            if not ok:
                continue
            if j is None:
                if n[ax] % 2 == 0:
                    continue  # centre on a face: either neighbour (rule R3) - not judged
                j = int(n[ax] // 2)
            keep = [d for d in range(nd) if d != ax]
            exp = {k: (lo[keep], hi[keep]) for k, (lo, hi) in boxes.items() if lo[ax] <= j < hi[ax]}
            exp_n = n[keep]
        sig(ctx, "sel", spec, boxes, mode)
        quiescent(ctx, sel, what)
        ctx.check("C14.sel.n", np.array_equal(sel.n, exp_n), got=sel.n, expected=exp_n, what=what)
        ctx.check("C14.sel.kept_names", sorted(sel.subregions) == sorted(exp),
                  got=sorted(sel.subregions), expected=sorted(exp), what=what)
        good, got = True, {}
        for k in sel.subregions:
            lo, hi, err = index_box(sel, sel.subregions[k])
            got[k] = (lo, hi)
            if k in exp:
                good = good and err < 1e-6 and np.array_equal(lo, exp[k][0]) and np.array_equal(hi, exp[k][1])
        ctx.check("C14.sel.clipped_ranges", good, got=got, expected=exp, what=what)
        ctx.event("sel." + mode)


# ----------------------------------------------------------- 3 persistence / names
def persistence(ctx):
    rng = ctx.rng
    spec, boxes, regions = make(ctx, nd=int(rng.integers(1, 5)))
    if spec.int_corners and rng.random() < 0.6:
        # integer region corners with half-integer subregion corners
        spec = gen.MeshSpec(spec.pmin, spec.cell / 2, spec.n * 2, spec.dims, spec.units,
                            spec.flip, int_corners=True)
        boxes, regions = gen.rand_subregions(rng, spec, kmax=3)
    if regions and spec.int_corners:
        # a set that mixes integer-typed (whole-number) and float-typed corners, the
        # integer-typed one listed first
        for k0 in list(regions):
            r0 = regions[k0]
            a0, b0 = np.asarray(r0.pmin, float), np.asarray(r0.pmax, float)
            if np.all(a0 == np.round(a0)) and np.all(b0 == np.round(b0)):
                first = df.Region(p1=[int(x) for x in a0], p2=[int(x) for x in b0],
                                  dims=r0.dims, units=r0.units)
                regions = {k0: first, **{k: v for k, v in regions.items() if k != k0}}
                boxes = {k0: boxes[k0], **{k: v for k, v in boxes.items() if k != k0}}
                ctx.event("persist.integer_typed_subregion_first")
                break
    sig(ctx, "persist", spec, boxes)
    mesh = spec.mesh(subregions=regions)
    tmp = tempfile.mkdtemp(prefix="dfmon_c14_")
    try:
        # JSON side-car
        fn = os.path.join(tmp, gen.pick(rng, ["f.ovf", "state.omf", "run.0001.ovf", "m"]))
        mesh.save_subregions(fn)
        if rng.random() < 0.5:
            # a sibling file in the same directory (same stem, another suffix) gets a side-car
            # of its own, with other subregions: each file keeps what belongs to it
            _, regions2 = gen.rand_subregions(rng, spec, kmax=2)
            try:
                sib = spec.mesh(subregions={"sib_" + k: v for k, v in regions2.items()})
                root = os.path.splitext(fn)[0]
                sib.save_subregions(root + gen.pick(rng, [".vtk", ".ohf", ".h5x"]))
                ctx.event("persist.sibling_file_with_same_stem")
            except Exception:  # noqa: BLE001 - the sibling is not under test
                pass
        other = spec.mesh()
        ok, _ = ctx.expect_ok("C14.persist.json.loads", other.load_subregions, fn,
                              what={"spec": spec.describe(), "boxes": boxes})
        if ok:
            ctx.check("C14.persist.json", _same_subregions(mesh, other), spec=spec.describe(),
                      got={k: (s.pmin, s.pmax) for k, s in other.subregions.items()},
                      expected={k: (s.pmin, s.pmax) for k, s in mesh.subregions.items()})
            quiescent(ctx, other, "json reload")
        # HDF5 (through a field on the mesh)
        fh = os.path.join(tmp, "f.h5")
        field = df.Field(mesh, nvdim=1, value=1.0)
        field.to_file(fh)
        ok, back = ctx.expect_ok("C14.persist.hdf5.loads", df.Field.from_file, fh,
                                 what={"spec": spec.describe(), "boxes": boxes,
                                       "int_corners": spec.int_corners})
        if ok:
            ctx.check("C14.persist.hdf5", _same_subregions(mesh, back.mesh), spec=spec.describe(),
                      int_corners=spec.int_corners,
                      got={k: (s.pmin, s.pmax) for k, s in back.mesh.subregions.items()},
                      expected={k: (s.pmin, s.pmax) for k, s in mesh.subregions.items()})
            quiescent(ctx, back.mesh, "hdf5 reload")
    finally:
        shutil.rmtree(tmp, ignore_errors=True)
    # named extraction: exactly that subregion, parent's cell
    for k, (lo, hi) in boxes.items():
        ok, sub = ctx.expect_ok("C14.named_extraction.accepted", mesh.__getitem__, k,
                                what={"name": k, "spec": spec.describe(), "box": (lo, hi)})
        if not ok:
            continue
        # 1e-9 cell, plus the resolution of the coordinates themselves (far meshes: one ulp of
        # a corner 1e7 cells from the origin is 2e-9 cell; the cell size is the difference
        # of two such corners)
        tol = 1e-9 * spec.cell + 16 * EPS * np.maximum(np.abs(spec.pmin), np.abs(spec.pmax))
        ctx.check("C14.named_extraction",
                  np.all(np.abs(sub.region.pmin - spec.vertex(lo)) <= tol)
                  and np.all(np.abs(sub.region.pmax - spec.vertex(hi)) <= tol)
                  and np.array_equal(sub.n, hi - lo)
                  and np.all(np.abs(sub.cell - mesh.cell) <= tol),
                  name=k, got_pmin=sub.region.pmin, got_pmax=sub.region.pmax, got_n=sub.n,
                  box=(lo, hi), spec=spec.describe())
    ctx.expect_raises("C14.named_extraction.unknown_rejected", mesh.__getitem__, "no_such_name")


def _same_subregions(a, b):
    if list(a.subregions) != list(b.subregions):
        return False
    for k in a.subregions:
        x, y = a.subregions[k], b.subregions[k]
        if not (np.array_equal(np.asarray(x.pmin, float), np.asarray(y.pmin, float))
                and np.array_equal(np.asarray(x.pmax, float), np.asarray(y.pmax, float))
                and tuple(x.dims) == tuple(y.dims) and tuple(x.units) == tuple(y.units)):
            return False
    return True


# ------------------------------------------------------------------- 4 is_aligned
def aligned(ctx):
    rng = ctx.rng
    spec, boxes, _ = make(ctx, kmin=0)
    sig(ctx, "aligned", spec, {})
    mesh = spec.mesh()
    nd, cell = spec.nd, spec.cell
    for _ in range(6):
        # same cell, origin shifted by whole cells, any extent
        shift = rng.integers(-6, 7, nd)
        if _ % 3 == 2:
            # meshes far apart (tens to a million cells): "differ by whole cells" is still a
            # statement about a fraction of ONE cell
            shift = (rng.choice([-1, 1], nd) * 10.0 ** rng.uniform(1, 6, nd)).astype(np.int64)
        n2 = rng.integers(1, 7, nd)
        p1 = spec.pmin + shift * cell
        other = df.Mesh(p1=p1.tolist(), p2=(p1 + n2 * cell).tolist(), n=[int(k) for k in n2])
        what = {"shift_cells": shift, "n2": n2, "spec": spec.describe()}
        if (np.max(np.abs(shift)) <= 6 and np.max(spec.n) <= 12) or spec.dyadic:
            # (far apart, or along an axis of dozens of cells, "a whole number of the mesh's
            # cells" is only well defined when the arithmetic is exact: the cell size of the
            # other mesh carries the rounding of its corners, and that error times the number
            # of cells between the corners exceeds the documented tolerance (1e-12 plus the
            # resolution of ONE coordinate) - rule R5)
            ctx.check("C14.is_aligned.true",
                      bool(mesh.is_aligned(other)) and bool(other.is_aligned(mesh)),
                      what=what, note="whole-cell shift reported as not aligned")
        # shifted by 10-90 % of a cell along one axis
        ax = int(rng.integers(0, nd))
        fshift = shift.astype(float)
        fshift[ax] += rng.uniform(0.1, 0.9)
        p1 = spec.pmin + fshift * cell
        other = df.Mesh(p1=p1.tolist(), p2=(p1 + n2 * cell).tolist(), n=[int(k) for k in n2])
        ctx.check("C14.is_aligned.false", not mesh.is_aligned(other) and not other.is_aligned(mesh),
                  what={**what, "fractional_shift": fshift}, note="fractional shift reported as aligned")
        # cell differing by >= 10 % along one axis
        c2 = cell.copy()
        c2[ax] *= float(rng.choice([rng.uniform(0.3, 0.9), rng.uniform(1.1, 3)]))
        p1 = spec.pmin + shift * cell
        other = df.Mesh(p1=p1.tolist(), p2=(p1 + n2 * c2).tolist(), n=[int(k) for k in n2])
        ctx.check("C14.is_aligned.false", not mesh.is_aligned(other) and not other.is_aligned(mesh),
                  what={**what, "cell2": c2}, note="different cell size reported as aligned")
        # commensurate but different cells: other cell = cell*q/r along one axis (>= 10 %
        # apart), r*m cells, origin shifted by whole cells - both corners then differ from
        # the mesh's by whole multiples of its cell, so only the cell sizes tell them apart
        q, r = [(2, 1), (1, 2), (3, 2), (2, 3), (4, 3), (3, 4), (5, 4), (4, 5), (9, 8), (8, 9)][
            int(rng.integers(0, 10))]
        m = int(rng.integers(1, 4))
        c3, n3 = cell.copy(), n2.copy()
        c3[ax] = cell[ax] * q / r
        n3[ax] = r * m
        p1 = spec.pmin + shift * cell
        p2 = p1 + n2 * cell
        p2[ax] = p1[ax] + m * q * cell[ax]
        other = df.Mesh(p1=p1.tolist(), p2=p2.tolist(), n=[int(k) for k in n3])
        ctx.check("C14.is_aligned.false", not mesh.is_aligned(other) and not other.is_aligned(mesh),
                  what={**what, "cell2": c3, "ratio": (q, r)},
                  note="commensurate but different cell size reported as aligned")
    ctx.expect_raises("C14.is_aligned.malformed_rejected", mesh.is_aligned, mesh.region)
    ctx.expect_raises("C14.is_aligned.malformed_rejected", mesh.is_aligned, mesh, "tight")


def run_case(ctx, i):
    [accept_reject, transformations, selections, persistence, aligned][i % 5](ctx)
