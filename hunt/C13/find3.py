# C13 finding 3 -- in-place translate / rotate90 accept steps that produce a degenerate region
# Clause violated: "every region still has pmin<pmax in all directions" and "A step that would produce a
#   degenerate region ... is rejected in both forms without modifying the object".
# Trigger: translation vector / rotation reference point so far away that the edge is absorbed by rounding
#   (|v| >= ~1e16 * edge), or non-finite (nan / inf) components:
#     Region((0,0,0),(1,1,1)).translate((1e17, 0, 0), inplace=True)
#     Region(...).rotate90('x', 'y', reference_point=(1e17, 0, 0), inplace=True)
#     Mesh(...).translate((1e17,0,0), inplace=True)   -> mesh.cell[0] == 0
# Observed: the copying form raises ValueError ("edge lengths is zero"), the in-place form silently leaves
#   pmin[0] == pmax[0] (edges == 0, mesh.cell == 0).  With nan/inf even the copying Region form accepts
#   (pmin = pmax = nan, because `np.all(edges)` is True for nan); a Mesh with subregions rejects in the copying
#   form only (via the subregion re-validation) and accepts in place.
# Expected: both forms reject, object unchanged.
# Cause: region.py translate (~963-966) and rotate90 (~1073-1077) assign _pmin/_pmax without the zero-edge
#   check that scale(inplace=True) (~875) and the constructor (~131) perform; the check itself `np.all(edges)`
#   does not catch nan.
# Minimal repair: factor the check into a helper (`if not np.all(pmax - pmin > 0): raise ValueError`) and call
#   it in all three in-place branches before assigning (and in __init__).
import os, sys; sys.path.insert(0, os.getcwd())
import warnings
import numpy as np
import discretisedfield as df

warnings.simplefilter("ignore")
steps = {
    "translate 1e17": lambda o, **kw: o.translate((1e17, 0, 0), **kw),
    "rotate90 ref 1e17": lambda o, **kw: o.rotate90("x", "y", reference_point=(1e17, 0, 0), **kw),
    "translate nan": lambda o, **kw: o.translate((float("nan"), 0, 0), **kw),
}
problems = []
for name, step in steps.items():
    for kind in ("region", "mesh"):
        for inplace in (False, True):
            region = df.Region(p1=(0.0, 0.0, 0.0), p2=(1.0, 1.0, 1.0))
            obj = region if kind == "region" else df.Mesh(region=region, n=(2, 2, 2))
            before = (region.pmin.copy(), region.pmax.copy())
            try:
                res = step(obj, inplace=inplace)
            except (ValueError, TypeError):
                assert np.array_equal(before[0], region.pmin) and np.array_equal(before[1], region.pmax)
                continue
            r = res if kind == "region" else res.region
            if not np.all(r.pmin < r.pmax):
                problems.append(f"{name:18s} {kind:6s} inplace={inplace}: accepted, pmin={r.pmin}, pmax={r.pmax}")
assert not problems, "\n" + "\n".join(problems)
print("ok")
