# C13 finding 2 -- copying form raises ValueError on a valid mesh with subregions, in-place form succeeds
# Clauses violated: "the in-place form ... leaves it equal to what the copying form returns" (the copying form
#   returns nothing, it raises) and "each step realises its documented affine map" for inputs inside the
#   quantifier (far-away reference point, |coordinate|/cell = 5e4; a copy history there-and-back).
# Trigger (a): Mesh with cell 0.1 and a subregion; rotate90('x','y',k=4, reference_point=(5000.3, 0.0)).
# Trigger (b): same mesh, m.translate(v) followed by .translate(-v) with v=(5000.3, 0) (both copying).
# Trigger (c): anisotropic mesh (cell 0.7 x 7e-5), one-cell subregion, plain m.scale(3.0) (default reference).
# Observed: ValueError "Subregion a cannot be divided into discretisation cells of size ..." from the copying
#   form; the in-place form of the very same call succeeds.  Field.rotate90 (both forms) inherits the failure.
# Expected: both forms succeed and agree.
# Cause: the copying form re-validates the transformed subregions through Mesh.subregions.setter ->
#   Mesh(region=sub, cell=self.cell) -> "cell exceeds region" test `Region(pmin, pmin+cell) not in region`
#   (mesh.py ~214-220), whose tolerance is Region.__contains__'s atol = 1e-12 * min(edges) (region.py ~676).
#   Rounding of R + s*(x - R) is ~ulp(|R|) = 1e-12 here, i.e. larger than atol = 1e-13 whenever the result
#   lands near 0 (rtol*|b| does not help) -- or whenever min(edges) belongs to a much finer axis (case c).
# Minimal repair: in the copying forms build the result without re-validation (e.g. copy.deepcopy(self) and
#   apply the in-place step), or use the cell-relative tolerance (1e-3 * cell) for the "cell exceeds" check.
import os, sys; sys.path.insert(0, os.getcwd())
import numpy as np
import discretisedfield as df


def mk():
    sub = {"a": df.Region(p1=(0.3, 0.1), p2=(0.4, 0.3))}
    return df.Mesh(p1=(0, 0), p2=(0.8, 0.4), cell=(0.1, 0.1), subregions=sub)


def aniso():
    sub = {"a": df.Region(p1=(0.0, 2.8e-4), p2=(0.7, 3.5e-4))}
    return df.Mesh(p1=(-0.7, -7e-5), p2=(2.8, 4.2e-4), n=(5, 7), subregions=sub)


cases = {
    "rotate k=4 far ref": (mk, lambda m, **kw: m.rotate90("x", "y", k=4, reference_point=(5000.3, 0.0), **kw)),
    "translate back": (lambda: mk().translate((5000.3, 0.0)), lambda m, **kw: m.translate((-5000.3, 0.0), **kw)),
    "aniso scale(3)": (aniso, lambda m, **kw: m.scale(3.0, **kw)),
}
failed = []
for name, (make, call) in cases.items():
    inpl = call(make(), inplace=True)  # works
    try:
        cp = call(make())
    except ValueError as e:
        failed.append(f"{name}: copy raised {str(e)[:60]!r}, in-place gave {inpl.subregions['a']}")
        continue
    assert cp == inpl
assert not failed, "\n" + "\n".join(failed)
print("ok")
