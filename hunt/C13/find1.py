# C13 finding 1 -- in-place rotation of one owner breaks every other owner of a shared Mesh
# Clause violated: "every field array has shape (*n, nvdim) with a Boolean validity of shape n"
#   after any sequence of public transformation calls (history with an object shared by two owners).
# Trigger: two fields built on the same Mesh object (df.Field stores the mesh by reference; so do all
#   derived fields: f.x, f + f, f.norm, ...).  Calling f.rotate90(ax1, ax2, k odd, inplace=True) -- or
#   f.mesh.rotate90(..., inplace=True) / mesh.rotate90(..., inplace=True) -- on a mesh with n[ax1] != n[ax2].
# Observed: the shared mesh gets n = (2, 4, 1) while the other fields keep arrays / valid masks of shape
#   (4, 2, 1, nvdim) / (4, 2, 1): their shape no longer matches their own mesh (g.mesh.n).
# Expected: every field still satisfies array.shape == (*mesh.n, nvdim) and valid.shape == tuple(mesh.n).
# Cause: field.py Field.__init__ `self._mesh = mesh` (no copy) together with Field.rotate90(inplace=True) calling
#   self.mesh.rotate90(..., inplace=True) (field.py ~3390) and Mesh.rotate90 assigning self._n (mesh.py ~1883).
#   (Mesh.__init__ likewise keeps the caller's Region object, and mesh['name'] hands out the parent's subregion
#   Region object, so in-place translate/scale/rotate of one mesh silently moves the other.)
# Minimal repair: in Field.rotate90(inplace=True) do not mutate the shared mesh: `self._mesh = mesh` (the freshly
#   built rotated copy) instead of self.mesh.rotate90(inplace=True); or copy the mesh in Field.__init__.
import os, sys; sys.path.insert(0, os.getcwd())
import numpy as np
import discretisedfield as df

mesh = df.Mesh(p1=(0, 0, 0), p2=(4, 2, 1), n=(4, 2, 1))
f = df.Field(mesh, nvdim=3, value=(1, 2, 3))
g = df.Field(mesh, nvdim=1, value=5.0)   # second owner of the same mesh
h = f.x                                   # derived field, shares f.mesh as well

ret = f.rotate90("x", "y", inplace=True)
assert ret is f
assert f.array.shape == (*f.mesh.n, f.nvdim) and f.valid.shape == tuple(f.mesh.n)

for name, fld in (("g", g), ("h", h)):
    assert fld.array.shape == (*fld.mesh.n, fld.nvdim), (
        f"{name}: array shape {fld.array.shape} but mesh.n = {tuple(int(i) for i in fld.mesh.n)}"
    )
    assert fld.valid.shape == tuple(fld.mesh.n), name
print("ok")
