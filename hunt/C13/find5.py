# C13 finding 5 -- argument validation holes: malformed reference_point accepted by rotate90; numbers.Real
#   arguments that are not floats/ints (fractions.Fraction) split the in-place and the copying form
# Clauses violated: (a) "A step that ... receives malformed arguments is rejected in both forms";
#   (b) "the in-place form ... leaves it equal to what the copying form returns" for an argument of the documented
#   type numbers.Real.
# Trigger (a): rotate90(ax1, ax2, reference_point=...) with a complex component, or a str / None component on an
#   axis that is not rotated: (1+2j, 0, 0), (0, 0, 'a'), (0, 0, None) -- Region, Mesh and Field, both forms.
#   Observed: accepted; the imaginary part is silently discarded (numpy ComplexWarning), the str/None ignored.
#   translate/scale reject exactly these values (TypeError / ValueError).  Expected: TypeError/ValueError.
#   Cause: region.py rotate90 (~1038-1048) checks only container type and length, never the elements.
#   Repair: `elif any(not isinstance(i, numbers.Real) for i in reference_point): raise TypeError(...)`.
# Trigger (b): Mesh with a subregion, mesh.translate((Fraction(1, 3), 0, 0)) or mesh.scale(Fraction(1, 2)).
#   Observed: Region/Mesh in-place forms succeed (and leave object-dtype corner arrays), the Mesh copying form
#   raises TypeError (np.isclose on object arrays in Region.__contains__).  Expected: same outcome in both forms.
#   Cause: isinstance(elem, numbers.Real) admits Fraction, np.add(int_array, [Fraction, ...]) yields dtype=object,
#   nothing converts to float.  Repair: `vector = np.asarray(vector, dtype=float)` (same for factor/reference).
import os, sys; sys.path.insert(0, os.getcwd())
import warnings
from fractions import Fraction
import numpy as np
import discretisedfield as df

warnings.simplefilter("ignore")
problems = []


def mk():
    return df.Mesh(p1=(0, 0, 0), p2=(4, 2, 6), n=(4, 2, 3), subregions={"a": df.Region(p1=(1, 0, 2), p2=(3, 1, 6))})


for ref in [(1 + 2j, 0, 0), (0, 0, "a"), (0, 0, None)]:
    for inplace in (False, True):
        try:
            res = mk().rotate90("x", "y", reference_point=ref, inplace=inplace)
            problems.append(f"(a) rotate90 reference_point={ref!r} inplace={inplace}: accepted -> {res.region}")
        except (TypeError, ValueError):
            pass

for name, call in {
    "translate((Fraction(1,3),0,0))": lambda m, **kw: m.translate((Fraction(1, 3), 0, 0), **kw),
    "scale(Fraction(1,2))": lambda m, **kw: m.scale(Fraction(1, 2), **kw),
}.items():
    outcome = []
    for inplace in (False, True):
        try:
            res = call(mk(), inplace=inplace)
            outcome.append(f"ok (pmin dtype {res.region.pmin.dtype})")
        except Exception as e:
            outcome.append(type(e).__name__)
    if outcome[0].split()[0] != outcome[1].split()[0] or "object" in "".join(outcome):
        problems.append(f"(b) {name}: copying form -> {outcome[0]}, in-place form -> {outcome[1]}")
assert not problems, "\n" + "\n".join(problems)
print("ok")
