# C13 finding 4 -- rejected in-place Mesh.scale leaves the mesh half transformed
# Clause violated: "A step that would produce a degenerate region ... is rejected in both forms without
#   modifying the object."
# Trigger: Mesh with subregions; scale(factor, reference_point, inplace=True) where the scaled mesh region keeps
#   non-zero edges but a (smaller) subregion collapses to zero width in floating point, e.g. n=(8,8) cells of 1,
#   subregions of 2x2 and 1x1 cells, factor=5e-11 about reference_point=(1e6, 1e6) (|R|/cell = 1e6):
#   region edge 8*5e-11 = 4e-10 > ulp(1e6)/2, subregion edge 1*5e-11 < ulp(1e6)/2 = 5.8e-11.
#   (Same with factor=5e-324 about the origin and a subregion edge < 0.5.)
# Observed: ValueError is raised (fine, the copying form raises too and leaves the mesh alone) but the in-place
#   call has already scaled mesh.region and subregion 'a'; subregion 'b' is untouched, so the mesh is now
#   inconsistent (subregion 'b' = [0,1]^2 lies 1e6 away from the 4e-10 wide mesh region).
# Expected: mesh unchanged after the rejected call.
# Cause: mesh.py Mesh.scale (~1684-1688) mutates self.region first and then the subregions one after the other;
#   Region.scale(inplace=True) raises for the collapsing subregion after earlier objects were modified.
# Minimal repair: compute all new regions with the copying Region.scale first (this performs all checks) and only
#   then assign: e.g. `new = self.scale(factor, reference_point)`; then copy new.region/_subregions corner arrays
#   into the existing Region objects.
import os, sys; sys.path.insert(0, os.getcwd())
import numpy as np
import discretisedfield as df

sub = {"a": df.Region(p1=(2, 2), p2=(4, 4)), "b": df.Region(p1=(0, 0), p2=(1, 1))}
mesh = df.Mesh(p1=(0, 0), p2=(8, 8), n=(8, 8), subregions=sub)


def state(m):
    regs = [m.region, *m.subregions.values()]
    return [(r.pmin.copy(), r.pmax.copy()) for r in regs]


before = state(mesh)
try:
    mesh.scale(5e-11, reference_point=(1e6, 1e6))  # copying form: rejected
    raise SystemExit("copying form unexpectedly accepted")
except ValueError:
    pass
assert all(np.array_equal(a, c) and np.array_equal(b, d) for (a, b), (c, d) in zip(before, state(mesh)))

try:
    mesh.scale(5e-11, reference_point=(1e6, 1e6), inplace=True)
    raise SystemExit("in-place form unexpectedly accepted")
except ValueError:
    pass
after = state(mesh)
assert all(np.array_equal(a, c) and np.array_equal(b, d) for (a, b), (c, d) in zip(before, after)), (
    f"rejected in-place scale modified the mesh:\n{mesh}"
)
print("ok")
