# C08 finding 4 -- validity given as a Field is stored with the Field's dtype, not as Boolean
# Clause violated: "Setting validity ... always yields a Boolean array of the mesh shape."
#   (Reading: the parenthesis "(array, function, constant or 'norm')" lists examples; a scalar
#   Field is an accepted validity input - Field.resample itself passes one - and "always" covers it.
#   If one reads the list as exhaustive this is outside the statement.)
# Trigger: f.valid = <scalar Field with a non-Boolean dtype>, e.g. the norm of another field, a 0/1
#   float mask field, or a mask field read from a file; also df.Field(..., valid=mask_field).
# Observed: f.valid.dtype is float64 (the values of the mask field are stored as they are), so
#   the documented use f.array[f.valid] raises IndexError (results derived from f, e.g. -f, get a
#   Boolean mask again because the array path converts; only the field that was set keeps floats).
# Expected: Boolean array (mask_field.array != 0) of shape mesh.n.
# Cause: discretisedfield/field.py, `@Field._as_array.register(Field)` (approx. l. 4390-4414)
#   ignores its dtype argument and returns the resampled data with val's dtype; the valid setter
#   (l. 567) relies on _as_array(..., dtype=bool) to convert.
# Minimal repair: end the Field implementation of _as_array with
#   `return value.astype(dtype) if dtype is not None else value` (for both return branches),
#   or in the setter: self._valid = np.asarray(..., dtype=bool)[..., 0].
import os, sys; sys.path.insert(0, os.getcwd())
import numpy as np
import discretisedfield as df

mesh = df.Mesh(p1=(0, 0, 0), p2=(4, 3, 2), cell=(1, 1, 1))
f = df.Field(mesh, nvdim=3, value=(1, 2, 3))
before = f.array.copy()

mask_values = np.zeros((4, 3, 2))
mask_values[:2] = 2.5
mask = df.Field(mesh, nvdim=1, value=mask_values)  # float mask field: non-zero = valid

f.valid = mask
assert np.array_equal(f.array, before)
assert f.valid.shape == (4, 3, 2)
assert np.array_equal(f.valid.astype(bool), mask_values != 0)
assert f.valid.dtype == bool, f"validity set from a Field has dtype {f.valid.dtype}, expected bool"
f.array[f.valid]  # documented use of the mask; IndexError with a float mask
