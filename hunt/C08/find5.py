# C08 finding 5 -- valid='norm' marks clearly non-zero float16 vectors as invalid
# Clause violated: "'norm' marks exactly the cells whose value is non-zero (lengths up to the
#   library's absolute 1e-8 threshold count as zero)."
# Trigger: field with dtype=np.float16 whose vectors have a length below ~2.4e-4 (= sqrt of the
#   smallest float16 subnormal 6e-8) but far above the 1e-8 threshold, e.g. (1e-4, 0, 0);
#   valid='norm' in the constructor or f.valid = 'norm'.
# Observed: the cell is marked invalid although its length 1e-4 is 10^4 times the threshold
#   (Field.norm is 0 there: the squares underflow in float16 inside np.linalg.norm).
#   For float32/float64 the same underflow only happens below ~1e-23/1e-162, i.e. inside the
#   tolerated band, so only half precision is affected.
# Expected: valid == (length > 1e-8), i.e. True for that cell.
# Cause: discretisedfield/field.py l. 527 (norm: np.linalg.norm(self.array, ...) in the field's own
#   precision) used by the valid setter l. 561: ~np.isclose(self.norm.array, 0).
# Minimal repair: in the setter compute the length in double precision, e.g.
#   ~np.isclose(np.linalg.norm(self.array.astype(np.result_type(self.array, np.float64)), axis=-1), 0)
#   or test np.abs(self.array).max(axis=-1) first.
import os, sys; sys.path.insert(0, os.getcwd())
import numpy as np
import discretisedfield as df

mesh = df.Mesh(p1=(0, 0, 0), p2=(4, 1, 1), cell=(1, 1, 1))
values = np.zeros((4, 1, 1, 3), dtype=np.float16)
values[0, 0, 0] = (1e-4, 0, 0)  # non-zero, length 1e-4 >> 1e-8
values[1, 0, 0] = (1e-4, 1e-4, 1e-4)
values[2, 0, 0] = (1, 0, 0)
# values[3] stays exactly zero
f = df.Field(mesh, nvdim=3, value=values, dtype=np.float16, valid="norm")
assert f.array.dtype == np.float16 and np.array_equal(f.array, values)

length = np.linalg.norm(values.astype(np.float64), axis=-1)
expected = length > 1e-8  # [True, True, True, False]
assert f.valid.dtype == bool and f.valid.shape == (4, 1, 1)
assert np.array_equal(f.valid, expected), (
    f"valid='norm' gives {f.valid.ravel()} for lengths {length.ravel()}, expected {expected.ravel()}"
)
