# C08 finding 1 -- numpy-ufunc path drops the validity mask
# Clause violated: "Unary operations ... return the operand's validity; binary operations
#   between fields return the cell-wise AND of both" (quantifier: every operator of the
#   public Field API; the brief explicitly lists "operator vs reflected operator vs numpy ufunc").
# Trigger: any operation that is routed through Field.__array_ufunc__:
#   * explicit ufuncs: np.negative(f), np.abs(f), np.sin(f), np.add(f, g), np.multiply(f, g)
#   * ordinary operators whose LEFT operand is a numpy scalar or ndarray, because numpy then
#     calls the ufunc instead of Field.__r<op>__:  np.float64(2) * f, (1/np.sqrt(2)) * f,
#     np.int64(2) + f, np.array([1., 2, 3]) * f, np.float64(2) / f, np.float64(2) ** f
#   The mirrored spellings (f * np.float64(2), 2.0 * f, -f, abs(f), f + g) keep the mask.
# Observed: result.valid is all True.  Expected: operand's valid (unary / field-with-number)
#   or valid_f & valid_g (two fields).
# Cause: discretisedfield/field.py, Field.__array_ufunc__ (approx. l. 3985-4038) builds the
#   result with self.__class__(mesh, nvdim=..., value=..., vdims=..., vdim_mapping=...) and never
#   passes valid=.
# Minimal repair: before unwrapping the inputs compute
#       valid = np.logical_and.reduce([x.valid for x in inputs if isinstance(x, Field)])
#   and pass valid=valid in both constructor calls of __array_ufunc__.
import os, sys; sys.path.insert(0, os.getcwd())
import numpy as np
import discretisedfield as df

mesh = df.Mesh(p1=(0, 0, 0), p2=(4, 3, 2), cell=(1, 1, 1))
rng = np.random.default_rng(0)
vf = rng.random((4, 3, 2)) > 0.4
vg = rng.random((4, 3, 2)) > 0.4
f = df.Field(mesh, nvdim=3, value=rng.random((4, 3, 2, 3)) + 1, valid=vf)
g = df.Field(mesh, nvdim=3, value=rng.random((4, 3, 2, 3)) + 1, valid=vg)
assert not vf.all() and not vg.all()

# reference spellings that work
assert np.array_equal((f * np.float64(2)).valid, vf)
assert np.array_equal((2.0 * f).valid, vf)
assert np.array_equal((-f).valid, vf)
assert np.array_equal((f + g).valid, vf & vg)

failures = []
cases = {
    "np.float64(2) * f": (lambda: np.float64(2) * f, vf),
    "(1/np.sqrt(2)) * f": (lambda: (1 / np.sqrt(2)) * f, vf),
    "np.array([1,2,3.]) * f": (lambda: np.array([1, 2, 3.0]) * f, vf),
    "np.float64(2) / f.x": (lambda: np.float64(2) / f.x, vf),
    "np.negative(f)": (lambda: np.negative(f), vf),
    "np.abs(f)": (lambda: np.abs(f), vf),
    "np.add(f, g)": (lambda: np.add(f, g), vf & vg),
}
for name, (fn, expected) in cases.items():
    res = fn()
    if not np.array_equal(res.valid, expected):
        failures.append(f"{name}: {int(res.valid.sum())} valid cells, expected {int(expected.sum())}")
assert not failures, "validity dropped on the ufunc path:\n  " + "\n  ".join(failures)
