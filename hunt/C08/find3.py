# C08 finding 3 -- a numpy Boolean constant is refused as validity
# Clause violated: "Setting validity (array, function, constant or 'norm') ... always yields a
#   Boolean array of the mesh shape."  A numpy Boolean scalar is the most natural *constant*
#   validity (result of arr.all(), arr.any(), a comparison of numpy scalars, valid_array[i, j, k]).
# Trigger: f.valid = np.True_ / np.False_ / (f.norm.array > 0).all() / other.valid[0, 0, 0];
#   the same through the constructor: df.Field(mesh, nvdim=1, valid=np.True_).
#   Python bool, int, float, complex, np.float64(1), np.int64(1), 0-d arrays wrapped in a list work.
# Observed: TypeError: Unsupported type <class 'numpy.bool'>.
# Expected: every cell valid (np.True_) / invalid (np.False_), stored values untouched.
# Cause: discretisedfield/field.py, Field._as_array is a functools.singledispatchmethod
#   (approx. l. 4307-4334); constants are registered through numbers.Complex, and numpy.bool_
#   is neither a numbers.Complex nor an Iterable, so the dispatch falls to the base
#   implementation that raises.
# Minimal repair: additionally register the constant implementation for np.bool_
#   (@_as_array.register(np.bool_)) or, in the valid setter, convert
#   `if isinstance(valid, np.bool_): valid = bool(valid)`.
import os, sys; sys.path.insert(0, os.getcwd())
import numpy as np
import discretisedfield as df

mesh = df.Mesh(p1=(0, 0, 0), p2=(4, 3, 2), cell=(1, 1, 1))
f = df.Field(mesh, nvdim=3, value=(1, 2, 3))
before = f.array.copy()

for const in (True, 1, 1.0, np.float64(1), np.int64(1)):  # these constants are accepted
    f.valid = const
    assert f.valid.dtype == bool and f.valid.shape == (4, 3, 2) and f.valid.all()

for const, expected in ((np.True_, True), (np.False_, False), ((f.norm.array > 0).all(), True)):
    try:
        f.valid = const
    except TypeError as e:
        raise AssertionError(f"constant validity {const!r} ({type(const)}) refused: {e}") from e
    assert f.valid.dtype == bool and f.valid.shape == (4, 3, 2)
    assert (f.valid == expected).all()
    assert np.array_equal(f.array, before)
