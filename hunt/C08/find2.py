# C08 finding 2 -- unary plus returns the operand itself, so the "result's" validity is the operand's
# Clause violated: "A result's validity is its own: changing it afterwards never alters an
#   operand's validity." (+f is a unary operation of the public API.)
# Trigger: res = +f  (any field), then res.valid = <anything>  or  res.valid[...] = ...
#   (also res.rotate90(..., inplace=True), res.update_field_values(...), ...).
# Observed: (+f) is f  ->  np.shares_memory((+f).valid, f.valid) is True and assigning
#   res.valid = False turns every cell of f invalid.
# Expected: a new field with a copy of the mask, as for -f, abs(f), f.real, f.conjugate ...
# Cause: discretisedfield/field.py, Field.__pos__ (approx. l. 1265-1302): "return self".
# Minimal repair: build a new field as __neg__ does, with value=+self.array (or self.array.copy()),
#   vdims, unit, valid=self.valid and vdim_mapping.
import os, sys; sys.path.insert(0, os.getcwd())
import numpy as np
import discretisedfield as df

mesh = df.Mesh(p1=(0, 0, 0), p2=(4, 3, 2), cell=(1, 1, 1))
rng = np.random.default_rng(0)
v = rng.random((4, 3, 2)) > 0.4
f = df.Field(mesh, nvdim=3, value=rng.random((4, 3, 2, 3)), valid=v)

# the sibling unary operations behave as the statement demands
for res in (-f, abs(f), f.real, f.conjugate, f.norm, f.x):
    assert np.array_equal(res.valid, v) and not np.shares_memory(res.valid, f.valid)
    res.valid = False
    assert np.array_equal(f.valid, v)

res = +f
assert np.array_equal(res.valid, v)
shares = np.shares_memory(res.valid, f.valid)
res.valid = False  # "changing it afterwards"
assert np.array_equal(f.valid, v), (
    f"operand's validity changed through the result of +f (shares_memory={shares}, "
    f"result is operand: {res is f}); operand now has {int(f.valid.sum())} valid cells, "
    f"expected {int(v.sum())}"
)
assert not shares
