# C17 find1 -- round trip crashes when the field's nvdim is a numpy integer
# Clause violated: "importing that DataArray returns an equal field with the same labels and dtype".
# Trigger: any field whose ``nvdim`` is a numpy integer instead of a Python int, e.g.
#   (a) Field(mesh, nvdim=np.int64(3), ...)  (accepted: the constructor checks numbers.Integral), or
#   (b) any field read back from an HDF5 file (Field.from_file('*.h5') yields nvdim of type numpy.int64).
#   to_xarray() copies self.nvdim verbatim into attrs['nvdim']; from_xarray() then refuses its own export.
# Observed: TypeError("The value of nvdim must be an integer.")   Expected: an equal field.
# Cause: field.py ~4248  ``elif not isinstance(xa.attrs["nvdim"], int)``  (Field.__init__ uses numbers.Integral).
# Minimal repair: test ``isinstance(xa.attrs["nvdim"], numbers.Integral)`` (and/or export ``int(self.nvdim)``).
import os, sys; sys.path.insert(0, os.getcwd())
import tempfile
import numpy as np
import discretisedfield as df

mesh = df.Mesh(p1=(0, 0, 0), p2=(4, 3, 2), n=(4, 3, 2))
value = np.random.default_rng(0).random((4, 3, 2, 3))
errors = []

# (a) numpy integer passed by the user (e.g. nvdim=arr.shape[-1] is int, but nvdim=np.int64(...) is common too)
f = df.Field(mesh, nvdim=np.int64(3), value=value)
try:
    assert df.Field.from_xarray(f.to_xarray()) == f
except Exception as e:  # noqa
    errors.append(f"(a) np.int64 nvdim: {type(e).__name__}: {e}")

# (b) field that went through the library's own HDF5 writer/reader
f0 = df.Field(mesh, nvdim=3, value=value)
path = os.path.join(tempfile.mkdtemp(), "f.h5")
f0.to_file(path)
f1 = df.Field.from_file(path)
assert f1 == f0
try:
    assert df.Field.from_xarray(f1.to_xarray()) == f1
except Exception as e:  # noqa
    errors.append(f"(b) field loaded from hdf5 (nvdim type {type(f1.nvdim).__name__}): {type(e).__name__}: {e}")

assert not errors, "\n".join(errors)
print("ok")
