# C17 find4 -- component labels are not preserved when there is no exported "vdims" coordinate
# Clauses violated: export "whose component coordinate lists the component labels"; import "returns an equal field
#   with the same labels".
# Trigger (a): a scalar field (nvdim=1, inside "1-4 components") with a label, Field(..., nvdim=1, vdims=['rho']).
#   to_xarray squeezes the component axis and writes no component coordinate; from_xarray returns vdims=None.
# Trigger (b): a vector field whose labels were removed (vdims=[] -> field.vdims is None, allowed when
#   nvdim != mesh ndim): no component coordinate is exported and the import invents default labels
#   (['v0','v1','v2','v3'] or ['x','y']), i.e. the labels differ from the original (None).
# Observed: (a) 'rho' -> None   (b) None -> ['v0','v1','v2','v3'].   Expected: identical labels.
# Cause: field.py ~4119-4126 only writes the "vdims" coordinate for nvdim > 1 and labels not None;
#   ~4298 passes vdims=None to the constructor, which substitutes defaults.
# Minimal repair: store the labels also as an attribute (e.g. attrs['vdims'] = self.vdims) / keep a length-1
#   component axis for labelled scalar fields, and on import pass ``vdims=[]`` when no labels were stored.
import os, sys; sys.path.insert(0, os.getcwd())
import numpy as np
import discretisedfield as df

rng = np.random.default_rng(0)
mesh = df.Mesh(p1=(0, 0, 0), p2=(4, 3, 2), n=(4, 3, 2))
errors = []

scalar = df.Field(mesh, nvdim=1, value=rng.random((4, 3, 2, 1)), vdims=["rho"])
assert scalar.vdims == ["rho"]
xa = scalar.to_xarray()
if "rho" not in str(xa.coords) and "rho" not in str(xa.attrs):
    errors.append("(a) export of labelled scalar field carries the label nowhere")
back = df.Field.from_xarray(xa)
assert back == scalar
if back.vdims != scalar.vdims:
    errors.append(f"(a) scalar label {scalar.vdims} came back as {back.vdims}")

vector = df.Field(mesh, nvdim=4, value=rng.random((4, 3, 2, 4)), vdims=[])
assert vector.vdims is None
back = df.Field.from_xarray(vector.to_xarray())
assert back == vector
if back.vdims != vector.vdims:
    errors.append(f"(b) unlabelled 4-vector {vector.vdims} came back as {back.vdims}")

assert not errors, "\n".join(errors)
print("ok")
