# C17 find3 -- dimension names that collide with xarray attribute lookup / the reserved name break the import
# Clause violated: "importing that DataArray returns an equal field" for "any dimension names and units".
# Trigger: a region dimension called "units" (import: TypeError) or "vdims" (import: ValueError). Region, Mesh,
#   Field and to_xarray accept both names and export correct coordinates.
# Observed:  dims=('x','units'): TypeError("units can only contain elements of type str.")
#            dims=('x','vdims'): ValueError("dims must have the same length as p1 and p2. Not len(dims)=1 and ndim=2.")
# Expected: equal field with the same dims and units.
# Cause: field.py ~4291 ``units=[xa[i].units for i in dims_list]`` -- attribute-style access on a DataArray resolves
#   coordinates BEFORE attrs, so xa["units"].units is the coordinate DataArray, not the unit string.
#   field.py ~4257 ``dims_list = [dim for dim in xa.dims if dim != "vdims"]`` drops a geometric axis called "vdims"
#   (and to_xarray would produce a duplicate dimension for nvdim > 1).
# Minimal repair: ``units=[xa[i].attrs["units"] for i in dims_list]``; take the geometric dims positionally
#   (``xa.dims[:-1] if nvdim > 1 else xa.dims``) or refuse "vdims" as a dimension name on export.
import os, sys; sys.path.insert(0, os.getcwd())
import numpy as np
import discretisedfield as df

errors = []
for name in ("units", "vdims"):
    region = df.Region(p1=(0, 0), p2=(4, 3), dims=("x", name), units=("m", "s"))
    mesh = df.Mesh(region=region, n=(4, 3))
    field = df.Field(mesh, nvdim=1, value=np.random.default_rng(0).random((4, 3, 1)))
    xa = field.to_xarray()
    assert xa.dims == ("x", name) and np.array_equal(xa[name].values, [0.5, 1.5, 2.5])
    assert xa[name].attrs["units"] == "s"
    try:
        back = df.Field.from_xarray(xa)
        assert back == field
        assert back.mesh.region.dims == ("x", name) and back.mesh.region.units == ("m", "s")
    except Exception as e:  # noqa
        errors.append(f"dimension name {name!r}: {type(e).__name__}: {e}")

assert not errors, "\n".join(errors)
print("ok")
