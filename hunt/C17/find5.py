# C17 find5 -- "lossless": component-to-axis mapping, validity mask and field unit are dropped by the round trip
# Clause (title + "importing that DataArray returns an equal field"): LOWER CONFIDENCE -- Field.__eq__ only compares
#   mesh, nvdim and array, so ``back == field`` is True; I read "lossless"/"equal field" as including the state that
#   export/import is supposed to transport. The unit IS exported (attrs['units']) but ignored by the import; the
#   mapping and the mask are not exported at all (see the two TODO comments in to_xarray / from_xarray).
# Trigger: non-default vdim_mapping (also a dict written in unusual key order), masked cells (valid), unit='A/m'.
# Observed: mapping {'c':'x','a':'y','b':'z'} -> {'a':'x','b':'y','c':'z'} (silently WRONG axes, not just missing);
#           valid with False cells -> all True;  unit 'A/m' -> None.
# Cause: field.py ~4143 "# TODO save vdim_mapping", ~4302 "# TODO load vdim_mapping"; the constructor call at ~4303
#   passes neither unit nor valid nor vdim_mapping.
# Minimal repair: export attrs vdim_mapping (as two lists) and a 'valid' coordinate/variable; import with
#   ``unit=xa.attrs.get("units")``, ``valid=...``, ``vdim_mapping=...``.
import os, sys; sys.path.insert(0, os.getcwd())
import numpy as np
import discretisedfield as df

rng = np.random.default_rng(0)
mesh = df.Mesh(p1=(0, 0, 0), p2=(4, 3, 2), n=(4, 3, 2))
valid = rng.random((4, 3, 2)) > 0.5
field = df.Field(mesh, nvdim=3, value=rng.random((4, 3, 2, 3)), vdims=["a", "b", "c"],
                 vdim_mapping={"c": "x", "a": "y", "b": "z"}, valid=valid, unit="A/m")
xa = field.to_xarray()
assert xa.attrs["units"] == "A/m"
back = df.Field.from_xarray(xa)
assert back == field and list(back.vdims) == field.vdims

errors = []
if {str(k): v for k, v in back.vdim_mapping.items()} != field.vdim_mapping:
    errors.append(f"vdim_mapping {field.vdim_mapping} -> {dict(back.vdim_mapping)}")
if not np.array_equal(back.valid, field.valid):
    errors.append(f"valid: {int(field.valid.sum())} valid cells -> {int(back.valid.sum())}")
if back.unit != field.unit:
    errors.append(f"unit {field.unit!r} -> {back.unit!r}")
assert not errors, "\n".join(errors)
print("ok")
