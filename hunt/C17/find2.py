# C17 find2 -- full-attribute round trip raises for meshes whose axes have very different cell sizes
# Clause violated: "importing that DataArray returns an equal field" (all attributes present, nothing removed);
#   the same failure also hits the attribute-free reconstruction clause.
# Trigger: a valid mesh built with ``n`` whose axes carry different physical quantities/units so that the cell
#   sizes differ by >~1e13/n (here x in metres, cell 5 nm; f in Hz, cell 1/3 MHz near 1 GHz; |coord|/cell = 3000).
#   to_xarray() works; from_xarray() rebuilds the mesh with ``Mesh(region=..., cell=attrs['cell'])`` and Mesh.__init__
#   checks divisibility with ONE absolute tolerance ``min(cell)*1e-3`` for all axes (mesh.py ~222-230), which is below
#   the rounding error of remainder(edge, edge/n) on the coarse axis.
# Observed: ValueError("Region cannot be divided into discretisation cells of size cell=array([5.0e-09, 3.33e+05]).")
# Expected: an equal field (the exported cell IS edges/n of the exported region).
# Minimal repair: in from_xarray build the mesh from the known cell counts,
#   ``df.Mesh(region=region, n=[xa[i].size for i in dims_list])`` (or make the tolerance per-axis in Mesh.__init__:
#   ``tol = np.asarray(cell) * 1e-3``).
import os, sys; sys.path.insert(0, os.getcwd())
import numpy as np
import discretisedfield as df

region = df.Region(p1=(0, 1e9), p2=(100e-9, 1e9 + 1e6), dims=("x", "f"), units=("m", "Hz"))
mesh = df.Mesh(region=region, n=(20, 3))
field = df.Field(mesh, nvdim=2, value=np.random.default_rng(0).random((20, 3, 2)), vdims=["a", "b"])
xa = field.to_xarray()
assert np.array_equal(xa["f"].values, mesh.cells.f) and xa["f"].attrs["units"] == "Hz"

errors = []
try:
    back = df.Field.from_xarray(xa)
    assert back == field and back.vdims == field.vdims
except Exception as e:  # noqa
    errors.append(f"full attributes: {type(e).__name__}: {e}")

xb = xa.copy()
for key in ("cell", "pmin", "pmax"):
    del xb.attrs[key]
try:
    back = df.Field.from_xarray(xb)
    assert (back.mesh.n == mesh.n).all() and np.array_equal(back.array, field.array)
    assert np.allclose(back.mesh.region.pmin, region.pmin, rtol=1e-12, atol=1e-20)
    assert np.allclose(back.mesh.region.pmax, region.pmax, rtol=1e-12, atol=1e-20)
except Exception as e:  # noqa
    errors.append(f"attribute-free: {type(e).__name__}: {e}")

assert not errors, "\n".join(errors)
print("ok")
