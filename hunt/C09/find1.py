# C09 find1 - a stale subregion side-car file is attached to a field written WITHOUT subregions
# Clause: "Writing a field ... and reading it back returns the same region corners ... ; through the
#   side-car file, subregions come back unchanged"  (quantifier: "with or without subregions"; history:
#   the same file name used twice).
# Trigger: write field A (mesh with subregions) to X.ovf, then write field B (mesh WITHOUT subregions, or
#   save_subregions=False) to the same X.ovf.  _to_ovf only writes X.ovf.subregions.json when there are
#   subregions and never removes an existing one; _from_ovf loads whatever side-car exists.
# Observed: B read back has A's subregions {'a','b'} (expected {}); if B's mesh does not contain A's
#   subregions the read of a perfectly valid file raises ValueError("Subregion a is not in the mesh region.").
# Cause: discretisedfield/io/ovf.py  `if save_subregions and self.mesh.subregions: self.mesh.save_subregions(filename)`
#   (no else branch) + unconditional `mesh.load_subregions(filename)` in _from_ovf.
# Minimal repair: in _to_ovf add
#     else: pathlib.Path(self.mesh._subregion_filename(filename)).unlink(missing_ok=True)
import os, sys; sys.path.insert(0, os.getcwd())
import tempfile
import discretisedfield as df

d = tempfile.mkdtemp()
fn = os.path.join(d, "X.ovf")
sub = {"a": df.Region(p1=(0, 0, 0), p2=(1, 2, 1)), "b": df.Region(p1=(1, 0, 0), p2=(3, 2, 1))}
A = df.Field(df.Mesh(p1=(0, 0, 0), p2=(3, 2, 1), n=(3, 2, 1), subregions=sub), nvdim=3, value=(1, 2, 3))
B = df.Field(df.Mesh(p1=(0, 0, 0), p2=(3, 2, 1), n=(3, 2, 1)), nvdim=3, value=(4, 5, 6))
C = df.Field(df.Mesh(p1=(10, 10, 10), p2=(13, 12, 11), n=(3, 2, 1)), nvdim=1, value=7.0)

A.to_file(fn)
assert list(df.Field.from_file(fn).mesh.subregions) == ["a", "b"]

B.to_file(fn)  # overwrite with a field that has no subregions
back = df.Field.from_file(fn)
print("subregions of B after round trip:", back.mesh.subregions)
ok_b = back.mesh.subregions == {}

C.to_file(fn)  # another mesh, again no subregions
try:
    ok_c = df.Field.from_file(fn).mesh.subregions == {}
except ValueError as e:
    print("reading C fails:", e)
    ok_c = False
assert ok_b, "field written without subregions came back with subregions of an earlier file"
assert ok_c, "field written without subregions cannot be read back (stale side-car)"
