# C09 find4 - OVF 1.0 files: 'valuemultiplier' (and 'valueunit') are ignored
# Clause: "files from an independent OVF 1.0 or 2.0 writer in text, 4- or 8-byte binary form are read to that
#   writer's content."
# OVF 1.0 header (OOMMF user guide): "valueunit: units of the data values; valuemultiplier: multiply the file
#   data values by this to get the true values in valueunit".  A conforming writer may store normalised data
#   with e.g. valuemultiplier: 800000.
# Observed: from_file returns the raw file numbers (factor `valuemultiplier` wrong, silently) and unit None
#   although the header says "valueunit: A/m" (also for the bundled OOMMF samples oommf-ovf1-*.omf).
# Expected: values * valuemultiplier, unit 'A/m'.
# Cause: ovf.py _from_ovf never looks at header['valuemultiplier'] and only at 'valueunits' (the OVF 2.0 key).
# Minimal repair: if not ovf_v2: array = array * float(header.get("valuemultiplier", 1));
#   unit = header.get("valueunit") as fallback for "valueunits".
import os, sys; sys.path.insert(0, os.getcwd())
import struct, tempfile
import numpy as np
import discretisedfield as df

d = tempfile.mkdtemp()
n, cell, mult = (4, 3, 2), (1e-9, 2e-9, 3e-9), 8e5
data = np.random.default_rng(0).uniform(-1, 1, (*n, 3))  # [ix, iy, iz, comp], normalised
head = ["# OOMMF: rectangular mesh v1.0", "# Segment count: 1", "# Begin: Segment", "# Begin: Header",
        "# Title: m", "# meshtype: rectangular", "# meshunit: m"]
for i, k in enumerate("xyz"):
    head += [f"# {k}base: {cell[i]/2!r}", f"# {k}stepsize: {cell[i]!r}", f"# {k}nodes: {n[i]}",
             f"# {k}min: 0", f"# {k}max: {n[i]*cell[i]!r}"]
head += ["# valueunit: A/m", f"# valuemultiplier: {mult!r}", "# ValueRangeMinMag: 1e-8",
         "# ValueRangeMaxMag: 1.0", "# End: Header"]
flat = data.transpose(2, 1, 0, 3).reshape(-1, 3)  # x fastest
bad = []
for mode in ["txt", "bin4", "bin8"]:
    fn = os.path.join(d, f"v1_{mode}.omf")
    with open(fn, "wb") as fh:
        if mode == "txt":
            fh.write(("\n".join(head + ["# Begin: Data Text"]) + "\n").encode())
            fh.writelines((" ".join(repr(float(v)) for v in r) + "\n").encode() for r in flat)
            fh.write(b"# End: Data Text\n# End: Segment\n")
        else:
            nb, c, chk = (4, "f", 1234567.0) if mode == "bin4" else (8, "d", 123456789012345.0)
            fh.write(("\n".join(head + [f"# Begin: Data Binary {nb}"]) + "\n").encode())
            fh.write(struct.pack(">" + c, chk) + flat.astype(f">f{nb}").tobytes())  # OVF 1.0: big endian
            fh.write(f"\n# End: Data Binary {nb}\n# End: Segment\n".encode())
    g = df.Field.from_file(fn)
    if not np.allclose(g.array, data * mult, rtol=1e-6):
        bad.append((mode, "values", float(g.array.flat[0]), float(data.flat[0] * mult)))
    if g.unit != "A/m":
        bad.append((mode, "unit", g.unit, "A/m"))
for b in bad:
    print(b)
assert not bad, "OVF 1.0 valuemultiplier / valueunit ignored"
