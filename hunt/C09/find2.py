# C09 find2 - component labels containing characters outside [A-Za-z0-9_] do not survive / make the file unreadable
# Clause: "component labels of vector fields ... come back unchanged" (quantifier: "any labels without spaces").
# Trigger: vector field whose vdims contain e.g. '-', '.', '/', ':', '#', '(' (all accepted by df.Field):
#   vdims=('a-b','c','d')   -> from_file raises ValueError "Number of vdims does not match self.nvdim=3."
#   vdims=('m.x','m.y','m.z') -> read back silently as ['x','y','z']
#   vdims=('x#','y','z')    -> read back as ['x','y','z']
# Cause: ovf.py _from_ovf: vdims = re.findall(r"(\w+|{[\w ]+})", header["valuelabels"]) tokenises on \w, so
#   'field_a-b' becomes two tokens 'field_a','b' (too many labels -> Field() raises) and 'field_m.x' becomes
#   'field_m','x' (duplicates -> vdims=None -> defaults).  Also header values are cut at the first further ':'.
# Minimal repair: tokenise on whitespace/braces instead of \w:  re.findall(r"({[^{}]*}|[^\s{}]+)", ...)
#   and parse header lines with line[1:].split(":", 1).
import os, sys; sys.path.insert(0, os.getcwd())
import tempfile
import discretisedfield as df

d = tempfile.mkdtemp()
mesh = df.Mesh(p1=(0, 0, 0), p2=(3, 2, 1), n=(3, 2, 1))
bad = []
for vdims in [("m.x", "m.y", "m.z"), ("x#", "y", "z"), ("a-b", "c", "d"), ("dm/dt", "u", "w")]:
    f = df.Field(mesh, nvdim=3, value=(1, 2, 3), vdims=vdims)
    for rep in ["bin8", "bin4", "txt"]:
        fn = os.path.join(d, f"l_{rep}.ovf")
        f.to_file(fn, representation=rep)
        try:
            got = df.Field.from_file(fn).vdims
        except Exception as e:
            got = f"{type(e).__name__}: {e}"
        if got != list(vdims):
            bad.append((vdims, rep, got))
            print(vdims, rep, "->", got)
assert not bad, f"{len(bad)} label round trips failed"
