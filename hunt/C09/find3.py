# C09 find3 - a binary file with a SHORT DATA BLOCK is accepted when the trailer lines are still present
# Clause: "A binary file with a wrong check value or a short data block is rejected rather than yielding a field."
# Reading of the clause: "short data block" = fewer than xnodes*ynodes*znodes*valuedim numbers between the check
#   value and "# End: Data".  Pure end-of-file truncation inside the data IS rejected (reshape error), but a file
#   whose data block lacks up to ~40 bytes (bin8: up to 4 values; bin4: up to 9 values) while the trailer
#   "\n# End: Data Binary 8\n# End: Segment\n" follows is read without complaint: np.fromfile simply consumes the
#   ASCII trailer bytes as numbers.  The same happens if the header node counts promise more data than written.
# Observed: from_file returns a Field whose last cells are garbage such as 1.968e-153 / 7.3e+223 (= b"# End: D...").
# Expected: an exception.
# Cause: ovf.py _from_ovf: np.fromfile(f, count=nodes*valuedim, dtype=format) - only the element count is checked
#   (implicitly, by reshape); nothing verifies that the data block is followed by "# End: Data".
# Minimal repair: after np.fromfile check `array.size == nodes*valuedim` and that the rest of the stream matches
#   rb"\s*# *end: *data" (case-insensitive), else raise ValueError.  (mumax omits the newline before "# End: Data",
#   so the newline cannot be demanded; a shortfall of exactly 1 byte then stays undetectable, all others are caught.)
import os, sys; sys.path.insert(0, os.getcwd())
import tempfile
import numpy as np
import discretisedfield as df

d = tempfile.mkdtemp()
mesh = df.Mesh(p1=(0, 0, 0), p2=(3, 2, 2), n=(3, 2, 2))
f = df.Field(mesh, nvdim=3, value=np.random.default_rng(0).uniform(-1, 1, (3, 2, 2, 3)))
accepted = []
for rep, nb in [("bin8", 8), ("bin4", 4)]:
    fn = os.path.join(d, "full.ovf")
    f.to_file(fn, representation=rep)
    raw = open(fn, "rb").read()
    marker = f"# Begin: Data Binary {nb}\n".encode()
    dstart = raw.index(marker) + len(marker) + nb  # after the check value
    dend = dstart + nb * 3 * 12
    assert raw[dend:].startswith(b"\n# End: Data")
    for missing in (1, nb, 2 * nb, 3 * nb):  # bytes missing at the end of the data block
        fn2 = os.path.join(d, "short.ovf")
        open(fn2, "wb").write(raw[: dend - missing] + raw[dend:])
        try:
            g = df.Field.from_file(fn2)
        except Exception:
            continue
        accepted.append((rep, missing))
        print(rep, "data block short by", missing, "bytes -> accepted; last cell:", g.array[-1, -1, -1])
assert not accepted, f"short data blocks accepted: {accepted}"
