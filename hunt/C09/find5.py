# C09 find5 - a field unit containing a blank (or a ':') is lost / truncated by the round trip
# Clause: "... returns the same ... component count and field unit (including no unit)"  (quantifier: "any unit
#   or none"; only LABELS are restricted to "without spaces").
# Trigger: Field(..., unit="kg m") / "J / m^3" / "A m^2", any nvdim, any representation.
#   unit="kg m"   -> read back None (+ UserWarning "contains multiple units")
#   unit="A/m A/m" (nvdim=3) -> 'A/m';  unit="a:b" -> 'a'
# Cause: ovf.py _to_ovf writes  valueunits = " ".join([str(self.unit)] * write_dim)  without OVF/Tcl braces, and
#   _from_ovf does header["valueunits"].split() and demands that all blank separated tokens are equal;
#   the header parser keeps only the text up to the second ':' (line[1:].split(":")[1]).
# Minimal repair: writer: wrap a unit containing whitespace in braces ("{kg m}"), reader: tokenise with
#   re.findall(r"{[^{}]*}|\S+", ...) and strip the braces; parse header lines with split(":", 1).
import os, sys; sys.path.insert(0, os.getcwd())
import tempfile, warnings
import discretisedfield as df

d = tempfile.mkdtemp()
mesh = df.Mesh(p1=(0, 0, 0), p2=(3, 2, 1), n=(3, 2, 1))
bad = []
for unit in ["A/m", None, "kg m", "J / m^3", "A m^2", "a:b"]:
    for nvdim, value in [(1, 1.0), (3, (1, 2, 3))]:
        f = df.Field(mesh, nvdim=nvdim, value=value, unit=unit)
        assert f.unit == unit
        for rep in ["bin8", "txt"]:
            fn = os.path.join(d, "u.ovf")
            f.to_file(fn, representation=rep)
            with warnings.catch_warnings():
                warnings.simplefilter("ignore")
                got = df.Field.from_file(fn).unit
            if got != unit:
                bad.append((unit, nvdim, rep, got))
                print(f"unit {unit!r} nvdim={nvdim} {rep}: read back {got!r}")
assert not bad, f"{len(bad)} unit round trips failed"
