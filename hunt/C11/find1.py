# C11 finding 1 -- clause: "Transforms ... rename components and their axis mapping
# consistently" (and: inverse transforms undo forward ones).
# Trigger: a vector field whose vdim_mapping marks a component as NOT tied to any
#   spatial axis by the value None (the library's own convention, see
#   test_field.py: vdim_mapping={"mx": "x", "my": "y", "mz": None}), transformed with
#   any of fftn / rfftn and back with ifftn / irfftn.
# Observed: forward mapping {'ft_mz': 'k_None'} (a string naming a non-existent
#   k-axis), inverse mapping {'mz': 'None'} (the STRING 'None', not None), so
#   f.fftn().ifftn().vdim_mapping != f.vdim_mapping.
# Expected: None stays None in both directions.
# Cause: Field._fftn (field.py ~3901-3910) formats f"k_{self.vdim_mapping[vdim]}"
#   and strips "k_" without treating None; calling ifftn directly on a field with a
#   None entry even raises AttributeError ('NoneType' has no attribute 'startswith').
# Repair: in both branches keep None:  val = self.vdim_mapping[vdim];
#   new_vdim_mapping[new_vdim] = None if val is None else (f"k_{val}" / stripped val)
import os, sys; sys.path.insert(0, os.getcwd())
import numpy as np
import discretisedfield as df

mesh = df.Mesh(p1=(0, 0, 0), p2=(4, 3, 5), n=(4, 3, 5))
a = np.random.default_rng(0).normal(size=(4, 3, 5, 3))
mapping = {"mx": "x", "my": "y", "mz": None}
f = df.Field(mesh, nvdim=3, value=a, vdims=["mx", "my", "mz"], vdim_mapping=mapping)
assert f._r_dim_mapping == {"x": "mx", "y": "my", "z": None}

errors = []
for name, fwd, back in [
    ("fftn/ifftn", lambda g: g.fftn(), lambda g: g.ifftn()),
    ("rfftn/irfftn", lambda g: g.rfftn(), lambda g: g.irfftn(shape=(4, 3, 5))),
]:
    F = fwd(f)
    if F.vdim_mapping != {"ft_mx": "k_x", "ft_my": "k_y", "ft_mz": None}:
        errors.append(f"{name}: forward mapping {F.vdim_mapping}")
    if any(v is not None and v not in F.mesh.region.dims for v in F.vdim_mapping.values()):
        errors.append(f"{name}: forward mapping names a non-existent axis")
    g = back(F)
    assert np.allclose(g.array, a)
    if g.vdim_mapping != mapping:
        errors.append(f"{name}: round-trip mapping {g.vdim_mapping} != {mapping}")
try:
    f.ifftn()
except AttributeError as e:
    errors.append(f"ifftn on field with None mapping entry crashes: {e}")
print("\n".join(errors))
assert not errors
