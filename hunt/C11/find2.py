# C11 finding 2 -- clause: "Inverse transforms undo forward ones ... on a mesh of the
# original cell size and counts centred at the origin", quantifier "all four transform
# kinds with and without an explicit shape"; observe_at "Mesh.fftn / ifftn".
# Trigger: Mesh.ifftn(rfft=False, shape=<original shape>) on the k-mesh of a complex
#   (full) transform, any mesh whose last axis has n != 1, 2 (n = 1 and n = 2 happen to
#   satisfy n // 2 + 1 == n).
# Observed: ValueError "The last dimension of the shape must match 12 or 13 not 7" for
#   the TRUE original shape; and the wrong shapes 2*(n-1) / 2*(n-1)+1 are accepted and
#   silently return a mesh with 12 (13) cells of size 7/12 (7/13) of the original cell.
# Expected: shape == original n is accepted and gives the same mesh as shape=None;
#   any other last-axis count is refused for the complex transform. (The docstring says
#   "shape: Specifies the shape of the original mesh".)
# Cause: mesh.py Mesh.ifftn (~l.2400): the half-spectrum test
#   `if shape[-1] // 2 + 1 != self.n[-1]` is applied regardless of `rfft`.
# Repair: `if rfft: <that test>  elif shape[-1] != self.n[-1]: raise ValueError(...)`.
import os, sys; sys.path.insert(0, os.getcwd())
import numpy as np
import discretisedfield as df

errors = []
for p1, p2, n in [(0, 7, (7,)), ((0, 0, 0), (4e-9, 3e-9, 5e-9), (4, 3, 5)), ((1, 1), (5, 9), (2, 4))]:
    mesh = df.Mesh(p1=p1, p2=p2, n=n)
    kmesh = mesh.fftn()
    ref = kmesh.ifftn()  # without a shape: correct
    assert np.array_equal(ref.n, mesh.n) and np.allclose(ref.cell, mesh.cell, rtol=1e-12)
    try:
        back = kmesh.ifftn(shape=mesh.n)
        if not (np.array_equal(back.n, mesh.n) and np.allclose(back.cell, mesh.cell, rtol=1e-12)):
            errors.append(f"n={n}: explicit original shape gives n={back.n}, cell={back.cell}")
    except ValueError as e:
        errors.append(f"n={n}: explicit original shape refused: {e}")
    wrong = list(n); wrong[-1] = 2 * (n[-1] - 1)
    if wrong[-1] != n[-1]:
        try:
            bad = kmesh.ifftn(shape=wrong)
            errors.append(f"n={n}: wrong shape {wrong} accepted -> n={bad.n}, cell={bad.cell} (orig {mesh.cell})")
        except ValueError:
            pass
print("\n".join(errors))
assert not errors
