import os, sys; sys.path.insert(0, os.getcwd())
import numpy as np, discretisedfield as df, warnings
rng = np.random.default_rng(0)
mesh = df.Mesh(p1=(0, 0, 0), p2=(4, 3, 2), cell=(1, 1, 1), bc='x')
arr = rng.normal(size=(4,3,2,2)); valid = rng.random((4,3,2)) > 0.4
f = df.Field(mesh, nvdim=2, value=arr, valid=valid)
pw = {'x': (1, 2), 'z': (0, 3)}
for mode, kw in [('constant', {}), ('constant', dict(constant_values=2.5)), ('constant', dict(constant_values=(1, 2))),
    ('constant', dict(constant_values=((1,2),(3,4),(5,6),(7,8)))), ('edge', {}), ('wrap', {}), ('reflect', {}), ('symmetric', {}), ('reflect', dict(reflect_type='odd')),
    ('mean', {}), ('median', {}), ('maximum', {}), ('minimum', {}), ('linear_ramp', {}), ('linear_ramp', dict(end_values=3.0)), ('empty', {}),
    ('mean', dict(stat_length=2)), ('mean', dict(stat_length=((1,1),(1,1),(1,1),(1,1))))]:
    try:
        with warnings.catch_warnings():
            warnings.simplefilter('error')
            r = f.pad(pw, mode=mode, **kw)
        exp = np.pad(arr, ((1,2),(0,0),(0,3),(0,0)), mode=mode, **kw)
        inner = (slice(1,5), slice(None), slice(0,2))
        ok_in = np.array_equal(r.array[inner], arr) and np.array_equal(r.valid[inner], valid)
        ok_out = np.array_equal(r.array, exp) if mode != 'empty' else True
        print(mode, kw, 'inner ok', ok_in, 'outer like np.pad', ok_out, 'n', r.mesh.n, r.mesh.region.pmin, r.mesh.region.pmax, 'valid pad frac', r.valid.mean().round(2), r.valid.dtype)
    except Exception as e:
        print(mode, kw, 'EXC', type(e).__name__, str(e)[:150])
