import os, sys; sys.path.insert(0, os.getcwd())
import numpy as np, discretisedfield as df
mesh = df.Mesh(p1=(0, 0), p2=(10, 4), cell=(1, 1), subregions={'s': df.Region(p1=(1,1), p2=(3,2))})
f = df.Field(mesh, nvdim=1, value=1)
for name, op in {'nan': lambda: f.sel(x=float('nan')), 'inf': lambda: f.sel(x=float('inf')), 'out': lambda: f.sel(x=10.5), 'range out': lambda: f.sel(x=(5, 11)), 'range nan': lambda: f.sel(x=(1, float('nan'))),
   'axis': lambda: f.sel('q'), 'two': lambda: f.sel(x=1, y=1), 'both': lambda: f.sel('x', y=1), 'name': lambda: f['t'], 'reg': lambda: f[df.Region(p1=(5, 0), p2=(11, 4))],
   'n len': lambda: f.resample((3,)), 'n zero': lambda: f.resample((0, 3)), 'n neg': lambda: f.resample((-1, 3)), 'n float': lambda: f.resample((2.5, 3)), 'pad axis': lambda: f.pad({'q': (1,1)}, mode='edge'), 'pad neg': lambda: f.pad({'x': (-1,1)}, mode='edge')}.items():
    try: op(); print(name, 'ACCEPTED')
    except Exception as e: print(name, type(e).__name__)
