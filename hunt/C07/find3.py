# C07 finding 3 -- clause: "return a field whose value ... at any point of the result equal the
# source's at that same point".
# Trigger: a field with an integer dtype (dtype=np.int64 / uint64) holding values above 2**53
#   (or generally any integer/Boolean field), passed through sel (plane or range), field['name'],
#   field[Region] or pad. (resample passes dtype=self.dtype and is correct.)
# Observed: the result field is float64; 2**60 + 1 comes back as 2**60, i.e. the value at the same
#   point differs from the source's. Boolean / small-int fields silently become float fields.
# Expected: identical values (and dtype) -- these operations only move data.
# Cause: Field.sel (field.py ~3053), Field.__getitem__ (~3205) and Field.pad (~1993) call
#   self.__class__(mesh, nvdim=..., value=array, ...) without dtype; Field._as_array then uses
#   dtype = max(np.asarray(val).dtype, np.float64) -> float64 for every integer/bool array.
# Repair: pass dtype=self.dtype (as Field.resample already does) in the three constructors.
import os, sys; sys.path.insert(0, os.getcwd())
import numpy as np
import discretisedfield as df

big = 2**60 + 1
sub = {"s": df.Region(p1=(2, 0), p2=(6, 3))}
mesh = df.Mesh(p1=(0, 0), p2=(10, 3), cell=(2, 1), subregions=sub)
f = df.Field(mesh, nvdim=1, value=np.full((5, 3, 1), big, dtype=np.int64), dtype=np.int64)
assert f.array.dtype == np.int64 and int(f((3, 1))[0]) == big

results = {
    "resample": f.resample((3, 2)),
    "sel plane": f.sel(x=3),
    "sel range": f.sel(x=(3, 7)),
    "field['s']": f["s"],
    "field[Region]": f[df.Region(p1=(1, 1), p2=(3, 2))],
    "pad": f.pad({"x": (1, 1)}, mode="edge"),
}
wrong = []
for name, r in results.items():
    idx = r.mesh.point2index((3, 1) if r.mesh.region.ndim == 2 else (1,))
    got = int(r.array[idx][0])
    print(f"{name:14s} dtype={r.array.dtype} value={got} {'ok' if got == big else 'DIFFERS from ' + str(big)}")
    if got != big or r.array.dtype != f.array.dtype:
        wrong.append(name)
assert not wrong, f"value/dtype changed by {wrong}"
