import os, sys; sys.path.insert(0, os.getcwd())
import numpy as np, discretisedfield as df
from fractions import Fraction
mesh = df.Mesh(p1=(0, 0, 0), p2=(10, 6, 4), cell=(2, 1, 1), subregions={'s': df.Region(p1=(2,0,0), p2=(6,6,2))})
f = df.Field(mesh, nvdim=1, value=np.arange(5*6*4).reshape(5,6,4), dtype=int)
print(f.array.dtype)
for v in [3, 3.0, np.int64(3), np.float32(3), np.int32(3), Fraction(7,2), True, np.float64(3), 10, 0, np.uint8(3)]:
    try:
        r = f.sel(x=v)
        print(type(v).__name__, v, 'ok', r.array[0,0,0], r.mesh.region.pmin, r.array.dtype, list(r.mesh.subregions))
    except Exception as e:
        print(type(v).__name__, v, 'EXC', repr(e))
for v in [(3, 7), (7, 3), [3.0, 7], np.array([3, 7]), np.array([3., 7.]), (np.int64(3), np.int64(7)), (Fraction(7,2), 7), (3, 3), (0, 10), (10, 10), (0,0), (np.float32(3), np.float32(7)), (2, 6), (4,4), (6,6)]:
    try:
        r = f.sel(x=v)
        print(type(v).__name__, v, 'ok', r.array[:,0,0,0], r.mesh.region.pmin, r.mesh.region.pmax, r.array.dtype, {k: (s.pmin, s.pmax) for k, s in r.mesh.subregions.items()})
    except Exception as e:
        print(type(v).__name__, v, 'EXC', repr(e))
