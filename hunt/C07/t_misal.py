import os, sys; sys.path.insert(0, os.getcwd())
import numpy as np, discretisedfield as df
from collections import Counter
rng = np.random.default_rng(11)
cnt = Counter()
for trial in range(3000):
    ndim = int(rng.integers(1, 4))
    n = rng.integers(1, 7, size=ndim)
    cell = float(rng.choice([1, 1e-9, 1/3])) * rng.choice([0.1, 0.3, 1.0, 0.7, 5.0], size=ndim)
    offc = rng.choice([0, 1, 7, 0.5, 100, 1e5], size=ndim)
    pmin = cell * offc * rng.choice([-1, 1], size=ndim)
    pmax = pmin + n * cell
    dims = ['a','b','c','d'][:ndim]
    mesh = df.Mesh(region=df.Region(p1=pmin, p2=pmax, dims=dims), n=[int(i) for i in n])
    cell = mesh.cell; pmin = mesh.region.pmin
    lo = np.array([rng.integers(0, k) for k in n]); hi = np.array([rng.integers(l+1, k+1) for l, k in zip(lo, n)])
    eps = 4e-4*np.min(cell)
    d1 = rng.uniform(-1, 1, ndim)*eps; d2 = rng.uniform(-1, 1, ndim)*eps
    d1 = np.where(lo == 0, np.abs(d1), d1); d2 = np.where(hi == n, -np.abs(d2), d2)
    try:
        mesh.subregions = {'s': df.Region(p1=pmin+lo*cell+d1, p2=pmin+hi*cell+d2)}
    except Exception as e:
        cnt['sub exc'] += 1; continue
    f = df.Field(mesh, nvdim=1, value=rng.normal(size=tuple(n)), valid=rng.random(tuple(n)) > 0.3)
    sl = tuple(slice(a,b) for a,b in zip(lo,hi))
    try:
        r = f['s']
        if r.array.shape != f.array[sl].shape or not np.array_equal(r.array, f.array[sl]): cnt['name BAD'] += 1; print('name BAD', trial, n, lo, hi, r.mesh.n)
        if mesh.region2slices(mesh.subregions['s']) != sl: cnt['r2s BAD'] += 1
    except Exception as e:
        cnt['name EXC'] += 1
        if cnt['name EXC'] < 4: print('name EXC', trial, n, cell, pmin, lo, hi, repr(e)[:200])
    ax = int(rng.integers(0, ndim)); i = int(rng.integers(0, n[ax])); j = int(rng.integers(i, n[ax]))
    try:
        r = f.sel(**{dims[ax]: (pmin[ax] + (i+0.3)*cell[ax], pmin[ax] + (j+0.6)*cell[ax])})
        l = max(lo[ax], i); h = min(hi[ax], j+1)
        if (h-l >= 1) != ('s' in r.mesh.subregions): cnt['range sub BAD'] += 1; print('range sub', trial, n, ax, i, j, lo, hi)
        elif h-l >= 1:
            s2 = r.mesh.region2slices(r.mesh.subregions['s'])
            e = list(sl); e[ax] = slice(l-i, h-i)
            if s2 != tuple(e): cnt['range sub slices BAD'] += 1; print('range sub slices', s2, e)
    except Exception as e:
        cnt['range EXC'] += 1
        if cnt['range EXC'] < 4: print('range EXC', trial, n, cell, pmin, lo, hi, ax, i, j, repr(e)[:200])
    if ndim > 1:
        try:
            r = f.sel(**{dims[ax]: pmin[ax] + (i+0.3)*cell[ax]})
            if (lo[ax] <= i < hi[ax]) != ('s' in r.mesh.subregions): cnt['plane sub BAD'] += 1
        except Exception as e:
            cnt['plane EXC'] += 1
            if cnt['plane EXC'] < 4: print('plane EXC', trial, repr(e)[:200])
print(cnt)
