import os, sys; sys.path.insert(0, os.getcwd())
import numpy as np, discretisedfield as df
for dt in [np.float32, np.uint8, np.int8, np.uint64, np.int32, np.float16]:
    try:
        reg = df.Region(p1=np.array([0, 10], dtype=dt), p2=np.array([10, 20], dtype=dt))
        mesh = df.Mesh(region=reg, n=(20, 5), subregions={'s': df.Region(p1=np.array([2, 12], dtype=dt), p2=np.array([6, 16], dtype=dt))})
        print(dt.__name__, reg.pmin.dtype, mesh.cell, mesh.subregions['s'].pmin.dtype)
        f = df.Field(mesh, nvdim=1, value=lambda p: p[0] + 100*p[1])
        def chk(r, label):
            bad = 0
            for idx in r.mesh.indices:
                p = r.mesh.index2point(idx)
                if p in mesh.region and not np.array_equal(r.array[tuple(idx)], f(p)): bad += 1
            print('   ', label, 'n', r.mesh.n, r.mesh.region.pmin, r.mesh.region.pmax, 'bad', bad)
        for label, op in [('range', lambda: f.sel(x=(3.7, 5.7))), ('range y', lambda: f.sel(y=(12.5, 17.5))), ('name', lambda: f['s']), ('region', lambda: f[df.Region(p1=(1.2, 11), p2=(3.3, 14.5))]),
                          ('pad', lambda: f.pad({'x': (3, 1), 'y': (1, 0)}, mode='edge')), ('resample', lambda: f.resample((7, 3)))]:
            try: chk(op(), label)
            except Exception as e: print('   ', label, 'EXC', repr(e)[:200])
        try:
            r = f.sel(x=3.7); print('    plane', r.array[0], f((3.7, 11)))
        except Exception as e: print('    plane EXC', repr(e)[:200])
    except Exception as e:
        print(dt.__name__, 'EXC', repr(e)[:200])
