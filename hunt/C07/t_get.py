import os, sys; sys.path.insert(0, os.getcwd())
import numpy as np, discretisedfield as df, random
from collections import Counter
rng = np.random.default_rng(2)
exec(open('hunt_out/t_sel.py').read().split("bad = 0")[0].split("random.seed(0)")[1])
cnt = Counter()
for trial in range(8000):
    ndim = int(rng.integers(1, 5))
    scale = float(rng.choice([1, 1e-9, 1e3, 1/3, 0.1]))
    off = float(rng.choice([0, 1, 7, 1e3, 1e6, 0.5, 123456.0, 999999.5]))
    f = mkfield(ndim, scale, off, subregions=False)
    m = f.mesh; n = m.n; cell = m.cell; pmin = m.region.pmin; pmax = m.region.pmax
    lo = np.array([rng.integers(0, k) for k in n]); hi = np.array([rng.integers(l+1, k+1) for l, k in zip(lo, n)])
    mode = rng.choice(['aligned', 'aligned2', 'arb', 'mixed'])
    if mode == 'aligned':
        p1 = pmin + lo*cell; p2 = pmin + hi*cell; elo, ehi = lo, hi
    elif mode == 'aligned2':
        p1 = pmax - (n-lo)*cell; p2 = pmin + hi*(pmax-pmin)/n; elo, ehi = lo, hi
    elif mode == 'arb':
        t1 = rng.uniform(0.01, 0.99, ndim); t2 = rng.uniform(0.01, 0.99, ndim)
        p1 = pmin + (lo+t1)*cell; p2 = pmin + (hi-1+t2)*cell
        sw = p1 > p2
        p1, p2 = np.where(sw, p2, p1), np.where(sw, p1, p2)
        elo, ehi = lo, hi
        if np.any(p1 == p2): continue
    else:
        t1 = rng.choice([0, 0.5, 0.25], ndim); t2 = rng.choice([0, 0.5, 0.75], ndim)
        p1 = pmin + (lo+t1)*cell; p2 = pmin + (hi-t2)*cell
        if np.any(p1 >= p2): continue
        elo, ehi = lo, hi
    try:
        item = df.Region(p1=p1, p2=p2, dims=m.region.dims)
        r = f[item]
    except Exception as e:
        cnt['exc'] += 1
        if cnt['exc'] < 10: print('EXC', trial, mode, ndim, scale, off, n, lo, hi, repr(e))
        continue
    if not np.array_equal(r.mesh.n, ehi-elo):
        cnt['BAD n '+mode] += 1
        if cnt['BAD n '+mode] < 6: print('BAD n', trial, mode, ndim, scale, off, n, lo, hi, r.mesh.n, p1, p2, pmin, cell)
        continue
    sl = tuple(slice(a, b) for a, b in zip(elo, ehi))
    if not (np.array_equal(r.array, f.array[sl]) and np.array_equal(r.valid, f.valid[sl])):
        cnt['BAD val'] += 1; print('BAD val', trial, mode)
    tol = 1e-6*cell
    if not (np.all(np.abs(r.mesh.region.pmin-(pmin+elo*cell)) <= tol) and np.all(np.abs(r.mesh.region.pmax-(pmin+ehi*cell)) <= tol)):
        cnt['BAD geom'] += 1; print('BAD geom', trial, mode)
    # region2slices on result region and on item for aligned
    s2 = m.region2slices(r.mesh.region)
    if s2 != sl: cnt['BAD r2s'] += 1; print('BAD r2s', trial, s2, sl)
    if mode.startswith('aligned'):
        try:
            s3 = m.region2slices(item)
            if s3 != sl: cnt['BAD r2s item'] += 1; print('BAD r2s item', trial, s3, sl)
        except Exception as e:
            cnt['r2s exc'] += 1; print('r2s EXC', trial, repr(e))
print(cnt)
