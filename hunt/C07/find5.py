# C07 finding 5 -- clause: "a range selection keeps exactly the cells from the one containing the
# lower bound to the one containing the upper bound" on meshes "with subregions" (unexpected
# exception).
# Trigger: a mesh with a subregion that the mesh accepts although one face is off the cell grid
#   by a small amount (here 1e-4 cell, e.g. coordinates typed with 4-5 significant digits; the
#   subregion setter tolerates 1e-3 cell), and a range selection that leaves exactly ONE cell
#   layer of that subregion next to the shortened face.
# Observed: Field.sel / Mesh.sel raise
#   ValueError("Subregion s cannot be divided into discretisation cells of size ...").
#   field['s'], plane selections and other ranges on the same mesh work.
# Expected: the two-cell-thick selection whose subregion 's' is the one-cell layer [2, 3] nm.
# Cause: Mesh.sel (mesh.py ~1078-1093) clips the subregion with max()/min() and keeps the
#   off-grid face (2.9999e-9); the clipped subregion is then 0.9999 cell thick and the "cell
#   exceeds region" test in Mesh.__init__ (mesh.py ~214, tolerance 1e-12) run by the subregions
#   setter rejects it, while a >= 2 cell thick remainder passes the 1e-3 divisibility tolerance.
# Repair: snap the clipped faces to the grid of the new mesh, e.g.
#   lo = round((max(min_val, sub_reg_p_min) - min_val) / cell[dim_index]) (same for hi) and use
#   min_val + lo * cell[dim_index] / min_val + hi * cell[dim_index].
import os, sys; sys.path.insert(0, os.getcwd())
import numpy as np
import discretisedfield as df

mesh = df.Mesh(p1=(0, 0), p2=(6e-9, 4e-9), cell=(1e-9, 1e-9))
mesh.subregions = {"s": df.Region(p1=(1e-9, 0), p2=(2.9999e-9, 4e-9))}  # accepted
f = df.Field(mesh, nvdim=1, value=lambda p: p[0])
assert tuple(f["s"].mesh.n) == (2, 4)                       # subregion = cells 1..2 in x
assert "s" in f.sel(x=(0.5e-9, 1.5e-9)).mesh.subregions     # other ranges are fine

try:
    r = f.sel(x=(2.5e-9, 4.5e-9))  # cells 2..4 -> one layer (cell 2) of 's' remains
except ValueError as e:
    raise AssertionError(f"range selection crashed: {e}")
assert tuple(r.mesh.n) == (3, 4)
assert np.allclose(r.mesh.subregions["s"].pmin, (2e-9, 0), atol=1e-12)
