# C07 finding 2 -- clauses: range selection / extraction by region / padding "return a field ..."
# (unexpected exception on inputs inside the quantifier: 2-d mesh, anisotropic cells).
# Trigger: a valid mesh whose axes have very different scales, e.g. space (nm) x frequency (GHz)
#   or space x time, with corner coordinates on the coarse axis that are not exactly representable
#   (|coordinate on coarse axis| * 1e-16  >  1e-3 * smallest cell). The mesh itself (built with n=)
#   and a Field on it are fine; plane selection and resample work.
# Observed: Field.sel(range), Field[Region], Field.pad (and Mesh.sel / Mesh[...] / Mesh.pad) raise
#   ValueError("Region cannot be divided into discretisation cells of size cell=...").
# Expected: the sub-field / padded field.
# Cause: all of them build the result as Mesh(region=..., cell=self.cell); Mesh.__init__
#   (mesh.py ~222) tests divisibility of *every* axis with one absolute tolerance
#       tol = np.min(cell) * 1e-3
#   i.e. 2e-12 here, far below the floating-point resolution (~1e-7) of the frequency axis.
# Repair: per-axis tolerance, tol = np.asarray(cell) * 1e-3 (verified: all calls below succeed).
import os, sys; sys.path.insert(0, os.getcwd())
import numpy as np
import discretisedfield as df

region = df.Region(p1=(0, 1.1e9 / 3), p2=(20e-9, 1.8e9 / 3), dims=("x", "f"), units=("m", "Hz"))
mesh = df.Mesh(region=region, n=(10, 7))  # cell = (2 nm, 33.3 MHz)
f = df.Field(mesh, nvdim=1, value=lambda p: p[1])
assert f.sel(x=3e-9).mesh.n[0] == 7  # plane selection is fine

calls = {
    "sel(x=range)": lambda: f.sel(x=(3e-9, 9e-9)),
    "sel(f=range)": lambda: f.sel(f=(1.25e9 / 3, 1.55e9 / 3)),
    "field[Region]": lambda: f[df.Region(p1=(3e-9, 1.25e9 / 3), p2=(9e-9, 1.55e9 / 3))],
    "pad x": lambda: f.pad({"x": (1, 1)}, mode="edge"),
}
failed = []
for name, call in calls.items():
    try:
        res = call()
        print(name, "ok", res.mesh.n)
    except ValueError as e:
        print(name, "raised", str(e)[:90])
        failed.append(name)
assert not failed, f"unexpected ValueError in {failed}"
