import os, sys; sys.path.insert(0, os.getcwd())
import numpy as np, discretisedfield as df
mesh = df.Mesh(p1=(0, 0), p2=(6, 4), cell=(1, 1), subregions={'s': df.Region(p1=(1,1), p2=(3,2))})
f = df.Field(mesh, nvdim=1, value=lambda p: p[0] + 10*p[1])
r = f['s']
print('shared sub region obj', r.mesh.region is f.mesh.subregions['s'])
r.mesh.translate((2.5, 0), inplace=True)
print(f.mesh.subregions['s'].pmin, f.mesh.subregions['s'].pmax)
r2 = f['s']
print(r2.mesh.region.pmin, r2.array[..., 0], [f(r2.mesh.index2point(i)) for i in r2.mesh.indices])
q = f.resample((3, 2))
print('shared region obj', q.mesh.region is f.mesh.region)
q.mesh.translate((100, 0), inplace=True)
print(f.mesh.region.pmin)
for op in [lambda: f.sel('x'), lambda: f.sel(x=(1,3)), lambda: f.pad({'x': (1,1)}, mode='edge'), lambda: f[df.Region(p1=(0,0), p2=(6,4))]]:
    r = op(); print(r.mesh.region is f.mesh.region, np.shares_memory(r.array, f.array), np.shares_memory(r.valid, f.valid))
