import os, sys; sys.path.insert(0, os.getcwd())
import numpy as np, discretisedfield as df
from collections import Counter
rng = np.random.default_rng(5)
cnt = Counter()
for trial in range(3000):
    ndim = int(rng.integers(2, 5))
    n = rng.integers(1, 6, size=ndim)
    cell = rng.choice([1e-9, 1.0, 1e3, 1e-3], size=ndim) * rng.choice([0.1, 0.3, 1.0, 0.7, 5.0], size=ndim)
    offc = rng.choice([0, 1, 7, 1e3, 1e6, 0.5, 123456.0], size=ndim)
    pmin = cell * offc * rng.choice([-1, 1], size=ndim)
    pmax = pmin + n * cell
    dims = ['a','b','c','d'][:ndim]
    try:
        mesh = df.Mesh(region=df.Region(p1=pmin, p2=pmax, dims=dims), n=[int(i) for i in n])
    except Exception as e:
        cnt['mk '+type(e).__name__] += 1; continue
    cell = mesh.cell; pmin = mesh.region.pmin
    f = df.Field(mesh, nvdim=1, value=rng.normal(size=tuple(n)), valid=rng.random(tuple(n)) > 0.3)
    ax = int(rng.integers(0, ndim)); i = int(rng.integers(0, n[ax])); j = int(rng.integers(i, n[ax]))
    ops = {
      'range': lambda: f.sel(**{dims[ax]: (pmin[ax] + (i+0.5)*cell[ax], pmin[ax] + (j+0.5)*cell[ax])}),
      'plane': lambda: f.sel(**{dims[ax]: pmin[ax] + (i+0.5)*cell[ax]}),
      'centre': lambda: f.sel(dims[ax]),
      'getitem': lambda: f[df.Region(p1=pmin + 0.25*cell, p2=pmin + (n-0.25)*cell, dims=dims)],
      'getitem1': lambda: f[df.Region(p1=pmin + 0.25*cell, p2=pmin + 0.75*cell, dims=dims)],
      'pad': lambda: f.pad({dims[ax]: (1, 2)}, mode='constant'),
      'resample': lambda: f.resample([int(k)+1 for k in n]),
      'r2s': lambda: mesh.region2slices(mesh.region),
    }
    for name, op in ops.items():
        try: r = op()
        except Exception as e:
            cnt[name + ' EXC'] += 1
            if cnt[name+' EXC'] < 3: print(name, 'EXC', trial, n, cell, pmin, ax, i, j, repr(e)[:300])
            continue
        if name == 'getitem' and not np.array_equal(r.mesh.n, n): cnt['getitem n'] += 1; print('getitem n', n, r.mesh.n, cell, pmin)
        if name == 'getitem1' and not np.array_equal(r.mesh.n, 1+0*n): cnt['getitem1 n'] += 1; print('getitem1 n', n, r.mesh.n, cell, pmin)
        if name == 'range' and r.mesh.n[ax] != j-i+1: cnt['range n'] += 1
        if name == 'pad' and r.mesh.n[ax] != n[ax]+3: cnt['pad n'] += 1
print(cnt)
