import os, sys; sys.path.insert(0, os.getcwd())
import numpy as np, discretisedfield as df
mesh = df.Mesh(p1=(0, 0, 0), p2=(10, 6, 4), cell=(2, 1, 1), subregions={'s': df.Region(p1=(2,0,0), p2=(6,6,2))})
big = 2**60 + 1
for dt, val in [(np.int64, big), (bool, True), (np.complex128, 1+2j), (np.float32, 1.5), (np.complex64, 1+2j), (np.int8, 5), (np.uint64, 2**63+1)]:
    arr = np.full((5,6,4,1), val, dtype=dt)
    f = df.Field(mesh, nvdim=1, value=arr, dtype=dt)
    assert f.array.dtype == dt
    ops = {'sel plane': lambda: f.sel(x=3), 'sel range': lambda: f.sel(x=(3,7)), 'getitem name': lambda: f['s'],
           'getitem region': lambda: f[df.Region(p1=(1,1,1), p2=(3,3,3))], 'pad': lambda: f.pad({'x': (1,1)}, mode='constant'),
           'pad edge': lambda: f.pad({'x': (1,1)}, mode='edge'),
           'resample': lambda: f.resample((3,3,3))}
    for name, op in ops.items():
        try:
            r = op()
            v = r.array.flat[r.array.size//2]
            print(dt.__name__, name, r.array.dtype, v, 'EQ' if v == val else 'DIFF')
        except Exception as e:
            print(dt.__name__, name, 'EXC', repr(e))
