import os, sys; sys.path.insert(0, os.getcwd())
import numpy as np, discretisedfield as df, random
from collections import Counter
rng = np.random.default_rng(3)
exec(open('hunt_out/t_sel.py').read().split("bad = 0")[0].split("random.seed(0)")[1])
cnt = Counter()
for trial in range(1500):
    ndim = int(rng.integers(1, 5))
    scale = float(rng.choice([1, 1e-9, 1e3, 1/3, 0.1]))
    off = float(rng.choice([0, 1, 7, 1e3, 1e6, 0.5, 123456.0, 999999.5]))
    f = mkfield(ndim, scale, off, subregions=bool(rng.integers(0,2)), nvdim=int(rng.integers(1,3)))
    m = f.mesh; n = m.n; cell = m.cell; pmin = m.region.pmin; pmax = m.region.pmax
    nn = [int(k) for k in rng.integers(1, 8, ndim)]
    try:
        r = f.resample(nn)
    except Exception as e:
        cnt['exc'] += 1
        if cnt['exc'] < 10: print('EXC', trial, ndim, scale, off, n, nn, repr(e))
        continue
    if not (np.array_equal(r.mesh.region.pmin, pmin) and np.array_equal(r.mesh.region.pmax, pmax) and np.array_equal(r.mesh.n, nn)): cnt['geom'] += 1
    for idx in r.mesh.indices:
        p = r.mesh.index2point(idx)
        # tie?
        t = (p - pmin)/cell
        if np.any(np.abs(t - np.round(t)) < 1e-6): continue
        si = tuple(np.floor(t).astype(int))
        if not (np.array_equal(r.array[tuple(idx)], f.array[si]) and r.valid[tuple(idx)] == f.valid[si]):
            cnt['BAD'] += 1
            if cnt['BAD'] < 10: print('BAD', trial, ndim, scale, off, n, nn, idx, si, t)
    # pad
    pw = {m.region.dims[a]: (int(rng.integers(0,4)), int(rng.integers(0,4))) for a in range(ndim) if rng.random() < 0.6}
    try:
        r = f.pad(pw, mode='constant')
    except Exception as e:
        cnt['pad exc'] += 1
        if cnt['pad exc'] < 10: print('PAD EXC', trial, ndim, scale, off, n, pw, repr(e))
        continue
    lo = np.array([pw.get(d, (0,0))[0] for d in m.region.dims]); hi = np.array([pw.get(d, (0,0))[1] for d in m.region.dims])
    if not np.array_equal(r.mesh.n, n+lo+hi): cnt['pad n'] += 1; print('PAD n', trial, n, pw, r.mesh.n)
    tol = 1e-6*cell
    if not (np.all(np.abs(r.mesh.region.pmin-(pmin-lo*cell)) <= tol) and np.all(np.abs(r.mesh.region.pmax-(pmax+hi*cell)) <= tol)): cnt['pad geom'] += 1
    sl = tuple(slice(a, a+k) for a, k in zip(lo, n))
    if not (np.array_equal(r.array[sl], f.array) and np.array_equal(r.valid[sl], f.valid)): cnt['pad val'] += 1
    # pointwise via call
    for idx in list(m.indices)[:5]:
        p = m.index2point(idx)
        if not np.array_equal(r(p), f(p)): cnt['pad call'] += 1; print('pad call', trial, p, r.mesh.point2index(p), idx, lo)
print(cnt)
