import os, sys; sys.path.insert(0, os.getcwd())
import numpy as np, discretisedfield as df
mesh = df.Mesh(p1=(0, 0), p2=(10, 4), n=(20, 4))
print(mesh.region.pmin.dtype, mesh.cell)
f = df.Field(mesh, nvdim=1, value=lambda p: p[0])
for v in [3.7, np.float32(3.7), np.float16(3.7), np.float64(3.7), np.longdouble(3.7)]:
    try:
        r = f.sel(x=v)
        print(type(v).__name__, r.array[0,0], f((float(v), 1))) 
    except Exception as e: print(type(v).__name__, 'EXC', repr(e))
    try:
        r = f.sel(x=(v, v+2))
        print(type(v).__name__, r.array[:,0,0], r.mesh.region.pmin, r.mesh.region.pmax) 
    except Exception as e: print(type(v).__name__, 'EXC', repr(e))
