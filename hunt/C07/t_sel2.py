import os, sys; sys.path.insert(0, os.getcwd())
import numpy as np, discretisedfield as df, random
rng = np.random.default_rng(1)
exec(open('hunt_out/t_sel.py').read().split("bad = 0")[0].split("rng = np.random.default_rng(0)")[1])
bad = 0
from collections import Counter
cnt = Counter()
for trial in range(6000):
    ndim = int(rng.integers(1, 4))
    scale = float(rng.choice([1, 1e-9, 1e3, 1/3, 0.1]))
    off = float(rng.choice([0, 1, 7, 1e3, 1e6, 0.5, 123456.0]))
    f = mkfield(ndim, scale, off)
    m = f.mesh
    ax = int(rng.integers(0, ndim)); dim = m.region.dims[ax]
    n = m.n; cell = m.cell; pmin = m.region.pmin; pmax = m.region.pmax
    i = int(rng.integers(0, n[ax]+1)); j = int(rng.integers(i, n[ax]+1))
    def coord(k):
        c = rng.integers(0, 4)
        if k == 0 and c==3: return pmin[ax]
        if k == n[ax] : return pmax[ax]
        return [pmin[ax] + k*cell[ax], pmax[ax] - (n[ax]-k)*cell[ax], pmin[ax] + k*(pmax[ax]-pmin[ax])/n[ax], pmin[ax] + k*cell[ax]][c]
    x1, x2 = float(coord(i)), float(coord(j))
    key = None
    try:
        if rng.random() < 0.3:
            if ndim == 1: continue
            r = f.sel(**{dim: x1}); plane = True
        else:
            r = f.sel(**{dim: (x1, x2)}); plane = False
    except Exception as e:
        print('EXC', trial, ndim, scale, off, n, ax, i, j, x1, x2, repr(e)); bad += 1; cnt['exc']+=1; continue
    if plane:
        ok = False
        for k in {max(i-1,0), min(i, n[ax]-1)}:
            sl = [slice(None)]*ndim; sl[ax] = k
            if np.array_equal(r.array, f.array[tuple(sl)]) and np.array_equal(r.valid, f.valid[tuple(sl)]): ok = True
        if not ok: print('BAD plane', trial); bad += 1
        # subregions of plane
        keep = [q for q in range(ndim) if q != ax]
        kk = None
        for k in {max(i-1,0), min(i, n[ax]-1)}:
            sl = [slice(None)]*ndim; sl[ax] = k
            if np.array_equal(r.array, f.array[tuple(sl)]): kk = k
        for name, sr in m.subregions.items():
            lo = np.round((sr.pmin - pmin)/cell).astype(int); hi = np.round((sr.pmax - pmin)/cell).astype(int)
            inside = lo[ax] <= kk < hi[ax]
            if inside != (name in r.mesh.subregions):
                cnt['plane sub mismatch'] += 1
                if cnt['plane sub mismatch'] < 5: print('plane sub mismatch', trial, name, 'k', kk, lo[ax], hi[ax], name in r.mesh.subregions, 'x', x1, n, scale, off)
        continue
    # range
    ok = False
    for a in {max(i-1,0), min(i, n[ax]-1)}:
        for b in {max(j-1,0), min(j, n[ax]-1)}:
            if b < a: continue
            sl = [slice(None)]*ndim; sl[ax] = slice(a, b+1)
            if r.array.shape == f.array[tuple(sl)].shape and np.array_equal(r.array, f.array[tuple(sl)]) and np.array_equal(r.valid, f.valid[tuple(sl)]):
                e1 = pmin.copy(); e1[ax] += a*cell[ax]; e2 = pmax.copy(); e2[ax] = pmin[ax] + (b+1)*cell[ax]
                tol = 1e-6*cell
                if np.all(np.abs(r.mesh.region.pmin-e1) <= tol) and np.all(np.abs(r.mesh.region.pmax-e2) <= tol):
                    ok = True; A, B = a, b
    if not ok:
        print('BAD range', trial, n, ax, i, j, x1, x2, r.mesh.n, r.mesh.region.pmin, r.mesh.region.pmax, pmin, cell); bad += 1; continue
    for name, sr in m.subregions.items():
        lo = np.round((sr.pmin - pmin)/cell).astype(int); hi = np.round((sr.pmax - pmin)/cell).astype(int)
        l = max(lo[ax], A); h = min(hi[ax], B+1)
        if (h - l >= 1) != (name in r.mesh.subregions):
            cnt['range sub mismatch'] += 1
            if cnt['range sub mismatch'] < 8: print('range sub mismatch', trial, name, (A, B), lo[ax], hi[ax], name in r.mesh.subregions, n, scale, off)
        elif h - l >= 1:
            rs = r.mesh.subregions[name]
            e1 = sr.pmin.copy(); e2 = sr.pmax.copy(); e1[ax] = pmin[ax] + l*cell[ax]; e2[ax] = pmin[ax]+h*cell[ax]
            tol = 1e-6*cell
            if not (np.all(np.abs(rs.pmin-e1) <= tol) and np.all(np.abs(rs.pmax-e2) <= tol)): print('BAD sub geom', trial, name); bad += 1
print('bad', bad, cnt)
