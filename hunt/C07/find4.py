# C07 finding 4 -- clauses: "Requests outside the region are rejected" and "the index slices of a
# region ... equal the source's at that same point" (Mesh.region2slices, listed in observe_at).
# Reading: region2slices(region) must describe whole cells of the mesh that belong to `region`
#   (its docstring: "cells contained in the region") and must refuse a region that is not inside
#   the mesh region, exactly as Mesh.__getitem__ does for the same argument.
# Trigger: (a) a region that sticks out of the mesh by less than half a cell;
#          (b) an arbitrary (non cell-aligned) sub-box whose faces are off the grid by < cell/2.
# Observed: (a) slices are returned (mesh[region] raises ValueError for the same region);
#   (b) for x in [0.4, 2.4] on a unit-cell mesh the slices are 0:2, i.e. cell [0,1] which is not
#   contained in the box is included and the box part [2, 2.4] is dropped -> field.array[slices]
#   is neither the contained nor the covering block (mesh[region] gives cells 0:3).
# Cause: mesh.py ~889: i1 = point2index(region.pmin + cell/2); i2 = point2index(region.pmax - cell/2)
#   rounds both corners to the nearest cell face and only then tests membership.
# Repair: reject `region not in self.region` first; compute the indices like __getitem__
#   (ceil for the lower / floor for the upper face with the same tolerance) or raise for
#   non-aligned regions.
import os, sys; sys.path.insert(0, os.getcwd())
import numpy as np
import discretisedfield as df

mesh = df.Mesh(p1=(0, 0), p2=(10, 4), cell=(1, 1))
outside = df.Region(p1=(-0.4, 0), p2=(5, 4))
try:
    mesh[outside]
    raise SystemExit("mesh[outside] unexpectedly accepted")
except ValueError:
    pass  # correctly rejected by __getitem__
try:
    s = mesh.region2slices(outside)
except ValueError:
    s = None
print("region2slices(region sticking out by 0.4 cell) ->", s)

box = df.Region(p1=(0.4, 0), p2=(2.4, 4))
sb = mesh.region2slices(box)
print("region2slices(x in [0.4, 2.4]) ->", sb[0], "; contained cells: 1:2, covering cells: 0:3")
assert sb[0] in (slice(1, 2), slice(0, 3)), "slices are neither the contained nor the covering block"
assert s is None, "region outside the mesh was not rejected"
