import os, sys; sys.path.insert(0, os.getcwd())
import numpy as np, discretisedfield as df
mesh = df.Mesh(p1=(0, 0), p2=(6e-9, 4e-9), cell=(1e-9, 1e-9))
# subregion given with 4 significant digits in x (short by 1e-4 cell), accepted by the mesh
mesh.subregions = {'s': df.Region(p1=(1e-9, 0), p2=(2.9999e-9, 4e-9))}
f = df.Field(mesh, nvdim=1, value=lambda p: p[0])
print(f['s'].mesh.n)
print(f.sel(x=(1.5e-9, 2.5e-9)).mesh.subregions)
try: print(f.sel(x=(2.5e-9, 4.5e-9)).mesh.subregions)
except Exception as e: print('EXC', e)
try: print(f.sel(x=(0.5e-9, 1.5e-9)).mesh.subregions)
except Exception as e: print('EXC', e)
