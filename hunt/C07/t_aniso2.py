import os, sys; sys.path.insert(0, os.getcwd())
import numpy as np, discretisedfield as df
# space (nm) x frequency (GHz)
mesh = df.Mesh(region=df.Region(p1=(0, 1.1e9/3), p2=(20e-9, 1.8e9/3), dims=('x', 'f'), units=('m', 'Hz')), n=(10, 7))
print(mesh.cell, mesh.region.edges)
f = df.Field(mesh, nvdim=1, value=lambda p: p[1])
for name, op in {'range x': lambda: f.sel(x=(3e-9, 9e-9)), 'range f': lambda: f.sel(f=(1.25e9/3, 1.55e9/3)), 'plane x': lambda: f.sel(x=3e-9), 'plane f': lambda: f.sel(f=1.25e9/3),
    'getitem': lambda: f[df.Region(p1=(3e-9, 1.25e9/3), p2=(9e-9, 1.55e9/3))], 'pad': lambda: f.pad({'x': (1, 1)}, mode='edge'), 'padf': lambda: f.pad({'f': (1, 1)}, mode='edge'), 'resample': lambda: f.resample((5, 3))}.items():
    try:
        r = op(); print(name, 'ok', r.mesh.n)
    except Exception as e: print(name, 'EXC', repr(e)[:200])
