import os, sys; sys.path.insert(0, os.getcwd())
import numpy as np, discretisedfield as df
from collections import Counter
rng = np.random.default_rng(7)
cnt = Counter()
for trial in range(4000):
    ndim = int(rng.integers(1, 4))
    tf = float(rng.choice([1e-15, 1e-9, 1e-6, 1e-4]))
    n = rng.integers(1, 7, size=ndim)
    cell = float(rng.choice([1, 1e-9, 1/3])) * rng.choice([0.1, 0.3, 1.0, 0.7, 5.0], size=ndim)
    offc = rng.choice([0, 1, 7, 0.5, 100], size=ndim)
    pmin = cell * offc * rng.choice([-1, 1], size=ndim)
    pmax = pmin + n * cell
    dims = ['a','b','c','d'][:ndim]
    mesh = df.Mesh(region=df.Region(p1=pmin, p2=pmax, dims=dims, tolerance_factor=tf), n=[int(i) for i in n])
    cell = mesh.cell; pmin = mesh.region.pmin
    lo = np.array([rng.integers(0, k) for k in n]); hi = np.array([rng.integers(l+1, k+1) for l, k in zip(lo, n)])
    try:
        mesh.subregions = {'s': df.Region(p1=pmin+lo*cell, p2=pmin+hi*cell)}
    except Exception as e:
        cnt['sub exc'] += 1
    f = df.Field(mesh, nvdim=1, value=rng.normal(size=tuple(n)), valid=rng.random(tuple(n)) > 0.3)
    ax = int(rng.integers(0, ndim)); i = int(rng.integers(0, n[ax])); j = int(rng.integers(i, n[ax]))
    t1 = rng.uniform(0.05, 0.95, ndim); t2 = rng.uniform(0.05, 0.95, ndim)
    ops = {
      'range': lambda: f.sel(**{dims[ax]: (pmin[ax] + (i+t1[0])*cell[ax], pmin[ax] + (j+t2[0])*cell[ax])}),
      'plane': lambda: f.sel(**{dims[ax]: pmin[ax] + (i+t1[0])*cell[ax]}) if ndim > 1 else None,
      'getitem': lambda: f[df.Region(p1=pmin + (lo+t1)*cell, p2=pmin + (hi-t2)*cell, dims=dims)] if np.all(lo+t1 < hi-t2) else None,
      'name': lambda: f['s'] if 's' in mesh.subregions else None,
      'pad': lambda: f.pad({dims[ax]: (1, 2)}, mode='constant'),
      'resample': lambda: f.resample([int(k)+1 for k in n]),
    }
    for name, op in ops.items():
        try: r = op()
        except Exception as e:
            cnt[name + ' EXC'] += 1
            if cnt[name+' EXC'] < 3: print(name, 'EXC', trial, tf, n, cell, pmin, ax, i, j, repr(e)[:300])
            continue
        if r is None: continue
        if name == 'getitem' and not np.array_equal(r.mesh.n, hi-lo): cnt['getitem n'] += 1; print('getitem n', tf, n, lo, hi, r.mesh.n, cell, pmin, t1, t2)
        if name == 'range' and r.mesh.n[ax] != j-i+1: cnt['range n'] += 1
        if name == 'pad' and r.mesh.n[ax] != n[ax]+3: cnt['pad n'] += 1
        if name == 'name' and not np.array_equal(r.array, f.array[tuple(slice(a,b) for a,b in zip(lo,hi))]): cnt['name val'] += 1
print(cnt)
