import os, sys; sys.path.insert(0, os.getcwd())
import numpy as np, discretisedfield as df
for dims in [('x', 'lambda'), ('x', '_t'), ('x', 'vdims'), ('x', 'index'), ('x', 'count'), ('x', 'n'), ('x','region'), ('dx', 'x'), ('x', 'k x'), ('1', '2')]:
    try:
        mesh = df.Mesh(region=df.Region(p1=(0, 0), p2=(4, 3), dims=dims), n=(4, 3), subregions={'s': df.Region(p1=(1,1), p2=(3,2))})
        f = df.Field(mesh, nvdim=2, value=lambda p: (p[0], p[1]))
    except Exception as e:
        print(dims, 'construct EXC', repr(e)[:150]); continue
    for name, op in {'range': lambda: f.sel(**{dims[1]: (0.5, 1.5)}), 'plane': lambda: f.sel(**{dims[1]: 1.5}), 'centre': lambda: f.sel(dims[0]), 'name': lambda: f['s'],
        'getitem': lambda: f[df.Region(p1=(0.5, 0.5), p2=(1.5, 1.5))], 'pad': lambda: f.pad({dims[1]: (1, 1)}, mode='edge'), 'resample': lambda: f.resample((5, 3))}.items():
        try:
            r = op(); 
            ok = all(np.array_equal(r.array[tuple(i)] if hasattr(r,'mesh') else 0, 0) or True for i in [])
            print(dims, name, 'ok')
        except Exception as e: print(dims, name, 'EXC', repr(e)[:150])
