# C07 finding 1 -- clause: "a plane selection removes exactly the chosen axis at the cell
# containing the requested coordinate" / "a range selection keeps exactly the cells from the one
# containing the lower bound to the one containing the upper bound".
# Trigger: mesh whose region corners are integer-typed (p1/p2 given as Python ints -> int64
#   pmin/pmax) with a non-integer cell size, and a selection coordinate of type numpy.float32 /
#   numpy.float16 (e.g. taken from a float32 array).
# Observed: the coordinate is silently truncated to an integer before the cell lookup:
#   sel(x=np.float32(3.7)) returns the cell [3.0, 3.5] instead of [3.5, 4.0]; the range
#   (3.7, 5.7) returns the cells 3.0..5.5, i.e. it does not even contain the upper bound.
#   The same call with a Python float / numpy.float64 is correct.
# Cause: Mesh._sel_convert_input (mesh.py ~1140 and ~1168):
#     test_point = self.region.pmin.copy().astype(max(self.region.pmin.dtype, type(range_)))
#   max(dtype('int64'), numpy.float32) is dtype('int64') (neither can be safely cast to the other,
#   so max() keeps its first argument) -> test_point is an int array and the assignment
#   test_point[dim_index] = 3.7 truncates.
# Repair: test_point = self.region.pmin.astype(np.result_type(self.region.pmin.dtype, float))
#   (or simply .astype(float)).
import os, sys; sys.path.insert(0, os.getcwd())
import numpy as np
import discretisedfield as df

mesh = df.Mesh(p1=(0, 0), p2=(10, 4), n=(20, 4))  # int64 corners, cell = (0.5, 1)
assert mesh.region.pmin.dtype.kind == "i"
f = df.Field(mesh, nvdim=1, value=lambda p: p[0])  # value = x of the cell centre

x32 = np.float32(3.7)
ref = f.sel(x=float(x32))          # Python float: correct cell, centre 3.75
assert ref.array[0, 0] == 3.75
plane = f.sel(x=x32)
rng32 = f.sel(x=(np.float32(3.7), np.float32(5.7)))
print("plane value", plane.array[0, 0], "expected 3.75")
print("range region", rng32.mesh.region.pmin, rng32.mesh.region.pmax, "expected x from 3.5 to 6.0")
assert plane.array[0, 0] == f((float(x32), 0.5))[0], "plane taken from the wrong cell"
assert rng32.mesh.region.pmin[0] <= 3.7 <= 5.7 <= rng32.mesh.region.pmax[0], "range lost a bound"
assert np.array_equal(rng32.array, f.sel(x=(3.7, 5.7)).array)
