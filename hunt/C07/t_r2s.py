import os, sys; sys.path.insert(0, os.getcwd())
import numpy as np, discretisedfield as df
mesh = df.Mesh(p1=(0, 0), p2=(10, 4), cell=(1, 1))
for p1, p2 in [((-0.4, 0), (5, 4)), ((5, 0), (10.4, 4)), ((-0.4, -0.4), (10.4, 4.4)), ((-0.6, 0), (5, 4)), ((0.4, 0), (2.4, 4)), ((0.6, 0), (2.6, 4))]:
    try: print(p1, p2, mesh.region2slices(df.Region(p1=p1, p2=p2)))
    except Exception as e: print(p1, p2, 'EXC', repr(e)[:100])
    try: print('   getitem', mesh[df.Region(p1=p1, p2=p2)].region)
    except Exception as e: print('   getitem EXC', repr(e)[:100])
