import os, sys; sys.path.insert(0, os.getcwd())
import numpy as np, discretisedfield as df, itertools, random, warnings
print(df.__file__)
rng = np.random.default_rng(0)
random.seed(0)
def mkfield(ndim, scale, offset_cells, nvdim=2, dtype=None, subregions=True):
    n = rng.integers(1, 6, size=ndim)
    cell = scale * rng.choice([0.1, 0.3, 1.0, 0.7, 1e-3*3, 5.0], size=ndim)
    pmin = cell * offset_cells * rng.choice([-1, 1], size=ndim)
    pmax = pmin + n * cell
    dims = ['a','b','c','d'][:ndim]
    region = df.Region(p1=pmin, p2=pmax, dims=dims)
    sub = {}
    mesh = df.Mesh(region=region, n=[int(i) for i in n])
    if subregions:
        for name in ['zz', 'aa', 'mm']:
            lo = [rng.integers(0, k) for k in n]
            hi = [rng.integers(l+1, k+1) for l, k in zip(lo, n)]
            sub[name] = df.Region(p1=mesh.region.pmin + np.array(lo)*mesh.cell, p2=mesh.region.pmin + np.array(hi)*mesh.cell, dims=dims)
        mesh.subregions = sub
    arr = rng.normal(size=(*n, nvdim))
    valid = rng.random(size=tuple(n)) > 0.3
    f = df.Field(mesh, nvdim=nvdim, value=arr, valid=valid, vdims=['p','q'][:nvdim] if nvdim>1 else None)
    return f

bad = 0
for trial in range(3000):
    ndim = int(rng.integers(1, 5))
    scale = float(rng.choice([1, 1e-9, 1e3, 1/3]))
    off = float(rng.choice([0, 1, 7, 1e3, 1e6, 0.5, 123456.0]))
    try:
        f = mkfield(ndim, scale, off)
    except Exception as e:
        print('mk fail', ndim, scale, off, repr(e)); continue
    m = f.mesh
    ax = int(rng.integers(0, ndim)); dim = m.region.dims[ax]
    kind = rng.choice(['centre', 'point', 'range'])
    n = m.n; cell = m.cell; pmin = m.region.pmin
    try:
        if kind == 'centre':
            r = f.sel(dim); exp_i = None
            # central cell
            c = m.region.center[ax]
            cand = np.floor((c - pmin[ax]) / cell[ax])
            exp = [int(min(max(cand, 0), n[ax]-1))]
            if n[ax] % 2 == 0: exp = [n[ax]//2 - 1, n[ax]//2]
            lohi = None
        elif kind == 'point':
            i = int(rng.integers(0, n[ax])); t = rng.choice([0.02, 0.5, 0.98, 0.3])
            x = pmin[ax] + (i + t) * cell[ax]
            r = f.sel(**{dim: float(x)}); exp = [i]
        else:
            i = int(rng.integers(0, n[ax])); j = int(rng.integers(i, n[ax]))
            t1 = rng.choice([0.02, 0.5, 0.98]); t2 = rng.choice([0.02, 0.5, 0.98])
            x1 = pmin[ax] + (i+t1)*cell[ax]; x2 = pmin[ax] + (j+t2)*cell[ax]
            if x1 > x2: x1, x2 = x2, x1
            r = f.sel(**{dim: (float(x1), float(x2))}); exp = (i, j)
    except Exception as e:
        print('FAIL', trial, kind, ndim, scale, off, n, ax, repr(e)); bad += 1; continue
    if kind in ('centre', 'point'):
        if ndim == 1:
            ok = any(np.array_equal(r, f.array[k]) for k in exp)
            if not ok: print('BAD 1d', trial, kind); bad += 1
            continue
        ok = False
        for k in exp:
            sl = [slice(None)]*ndim; sl[ax] = k
            if np.array_equal(r.array, f.array[tuple(sl)]) and np.array_equal(r.valid, f.valid[tuple(sl)]): ok = True
        keep = [q for q in range(ndim) if q != ax]
        if not ok: print('BAD val', trial, kind, n, ax); bad += 1
        if not (np.allclose(r.mesh.region.pmin, pmin[keep], rtol=1e-12, atol=0) and np.allclose(r.mesh.region.pmax, m.region.pmax[keep], rtol=1e-12, atol=0) and np.array_equal(r.mesh.n, n[keep]) and r.mesh.region.dims == tuple(np.array(m.region.dims)[keep])):
            print('BAD mesh', trial, kind); bad += 1
    else:
        i, j = exp
        sl = [slice(None)]*ndim; sl[ax] = slice(i, j+1)
        en = n.copy(); en[ax] = j - i + 1
        if not np.array_equal(r.mesh.n, en):
            print('BAD range n', trial, n, ax, exp, r.mesh.n, scale, off, x1, x2); bad += 1; continue
        if not (np.array_equal(r.array, f.array[tuple(sl)]) and np.array_equal(r.valid, f.valid[tuple(sl)])):
            print('BAD range val', trial); bad += 1
        ep1 = pmin.copy(); ep1[ax] += i*cell[ax]
        ep2 = m.region.pmax.copy(); ep2[ax] = pmin[ax] + (j+1)*cell[ax]
        tol = 1e-9*cell + 1e-15*np.abs(pmin)*10
        if not (np.all(np.abs(r.mesh.region.pmin-ep1) <= tol) and np.all(np.abs(r.mesh.region.pmax-ep2) <= tol)):
            print('BAD range mesh', trial, r.mesh.region.pmin, ep1, r.mesh.region.pmax, ep2); bad += 1
        # subregions
        for name, sr in m.subregions.items():
            lo = np.round((sr.pmin - pmin)/cell).astype(int); hi = np.round((sr.pmax - pmin)/cell).astype(int)
            l = max(lo[ax], i); h = min(hi[ax], j+1)
            if h - l >= 1:
                if name not in r.mesh.subregions: print('BAD missing sub', trial, name, n, ax, exp, lo, hi, scale, off); bad += 1; continue
                rs = r.mesh.subregions[name]
                e1 = sr.pmin.copy(); e2 = sr.pmax.copy(); e1[ax] = pmin[ax] + l*cell[ax]; e2[ax] = pmin[ax]+h*cell[ax]
                if not (np.all(np.abs(rs.pmin-e1) <= tol) and np.all(np.abs(rs.pmax-e2) <= tol)): print('BAD sub geom', trial, name); bad += 1
            else:
                if name in r.mesh.subregions: print('BAD extra sub', trial, name, n, ax, exp, lo, hi); bad += 1
print('bad', bad)
