# C01 finding 1 -- per-axis centre / vertex lists crash for dimension names that Region accepts
# Clause violated: "the per-axis lists of cell centres and vertices and the coordinate field all
#   describe this one lattice" for "all regions (... any dimension names ...)".
# Trigger: Region(dims=...) accepts ANY unique strings (region.py dims setter only checks str +
#   uniqueness), but Mesh.cells / Mesh.vertices build collections.namedtuple("cells", dims), which
#   raises ValueError for names that are not identifiers ("x-1", "k x", "1", ""), are Python keywords
#   ("class", "lambda", "in") or start with an underscore ("_x").  Mesh.coordinate_field() calls
#   self.cells and dies the same way.  index2point / point2index / indices / len work fine on the same
#   mesh, so the mesh is a legal object whose lattice simply cannot be listed.
# Observed: ValueError("Type names and field names must be valid identifiers: 'k-x'") etc.
# Expected: arrays pmin+(i+1/2)*cell and pmin+i*cell per axis.
# Cause: mesh.py Mesh.cells (~l.523) / Mesh.vertices (~l.564): collections.namedtuple(name, self.region.dims)
# Minimal repair: either validate in Region.dims setter (dim.isidentifier() and not keyword.iskeyword(dim)
#   and not dim.startswith("_")) so such regions are refused up front, or build the tuples with
#   namedtuple(..., rename=True) / return a plain dict.
import os, sys; sys.path.insert(0, os.getcwd())
import numpy as np
import discretisedfield as df

failures = []
for dims in [("k-x", "k-y"), ("in", "out"), ("_x", "_y"), ("x'", "y'"), ("1", "2")]:
    region = df.Region(p1=(0, 0), p2=(4, 2), dims=dims)   # accepted
    mesh = df.Mesh(region=region, n=(4, 2))               # accepted
    assert mesh.point2index(mesh.index2point((3, 1))) == (3, 1)  # maps work
    for what in ("cells", "vertices", "coordinate_field"):
        try:
            res = getattr(mesh, what)
            res = res() if callable(res) else res
            if what == "cells":
                assert np.allclose(res[0], [0.5, 1.5, 2.5, 3.5]) and np.allclose(res[1], [0.5, 1.5])
            if what == "vertices":
                assert np.allclose(res[0], [0, 1, 2, 3, 4]) and np.allclose(res[1], [0, 1, 2])
        except Exception as e:
            failures.append(f"dims={dims}: mesh.{what} -> {type(e).__name__}: {e}")
print("\n".join(failures))
assert not failures, f"{len(failures)} lattice descriptions unavailable for accepted dimension names"
