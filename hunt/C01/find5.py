# C01 finding 5 (low importance, borderline) -- Region.__contains__ broadcasts points of the wrong
#   dimensionality instead of refusing them
# Clause: "tolerant closed-box containment" / "points ... outside the region are rejected".  A scalar or a
#   1-tuple is not a point of a 3-D region, yet `0.5 in region` and `(0.5,) in region` are True (numpy
#   broadcasting in np.less_equal(self.pmin, other)); a 2-tuple raises a raw numpy broadcasting
#   ValueError; an (N, 3) array of points is reduced with np.all.  Mesh.point2index is NOT affected
#   (it checks len(point) first) - this only concerns Region.__contains__ used directly.
# How I read the statement: containment is only defined for points with region.ndim coordinates, so a
#   wrong-length "point" must not be reported as inside.
# Minimal repair: in Region.__contains__, `other = np.asarray(other); if other.shape != (self.ndim,): return False`
#   (or raise ValueError).
import os, sys; sys.path.insert(0, os.getcwd())
import discretisedfield as df

region = df.Region(p1=(0, 0, 0), p2=(1, 1, 1))
assert (0.5, 0.5, 0.5) in region
bad = []
for p in [0.5, (0.5,), [0.25]]:
    try:
        if p in region:
            bad.append(p)
    except (ValueError, TypeError):
        pass
print("wrong-dimensional points reported inside a 3-D region:", bad)
assert not bad
