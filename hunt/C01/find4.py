# C01 finding 4 (low importance) -- len(mesh) silently wraps around for very large cell counts
# Clause violated: "cell count ... describe this one lattice" for "all cell counts".
# Trigger: prod(n) >= 2**63 (meshes are lazy, so such a Mesh object is constructed instantly), e.g.
#   4-D n=(100000,)*4 or 2-D n=(2**32, 2**32).
# Observed: len(mesh) == 7766279631452241920 for 1e20 cells; len(mesh) == 0 for 2**64 cells
#   (n=(3037000500,)*2 gives a negative product and "ValueError: __len__() should return >= 0").
# Expected: the exact product (or OverflowError from len() because it exceeds sys.maxsize) - not a
#   wrong number.
# Cause: mesh.py Mesh.__len__: int(np.prod(self.n)) multiplies in int64.
# Minimal repair: `return math.prod(int(i) for i in self.n)`.
import os, sys; sys.path.insert(0, os.getcwd())
import math
import discretisedfield as df

for p2, n in [((1, 1, 1, 1), (100000,) * 4), ((1, 1), (2**32, 2**32))]:
    mesh = df.Mesh(p1=(0,) * len(n), p2=p2, n=n)
    true = math.prod(n)
    try:
        got = len(mesh)
    except OverflowError:
        continue  # acceptable: Python cannot represent this len
    print(n, "len ->", got, "true", true)
    assert got == true, f"len(mesh)={got} but the mesh has {true} cells"
