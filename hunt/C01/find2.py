# C01 finding 2 -- coordinate_field() crashes when a dimension name equals a Field attribute name
# Clause violated: "... and the coordinate field all describe this one lattice" for "any dimension names".
# Trigger: region dims that are perfectly good identifiers but coincide with a public attribute of
#   df.Field: "angle", "phase", "real", "imag", "abs", "norm", "mean", "mesh", "unit", "valid", "diff",
#   "line", "pad", "sel", "integrate", "array", "vdims", "nvdim", ... (dims=("r", "angle") or
#   ("freq", "phase") are natural choices).  Mesh.coordinate_field passes vdims=self.region.dims to
#   df.Field, whose vdims setter refuses names already used by a method/property.
#   (dims "div"/"curl"/"grad"... fail with other exceptions, e.g. TypeError 'NoneType' object is not iterable.)
# Observed: ValueError: Component name angle is already used by a different method/property.
#   mesh.cells, vertices, index2point, point2index, iteration all work for the same mesh.
# Expected: a Field with value[i] == index2point(i).
# Cause: mesh.py Mesh.coordinate_field (~l.2188): df.Field(self, nvdim=ndim, vdims=self.region.dims,
#   vdim_mapping=dict(zip(dims, dims)))
# Minimal repair: fall back to default component names when a dim clashes, e.g.
#   vdims = dims if no clash else [f"v{i}" ...] with vdim_mapping=dict(zip(vdims, dims));
#   or refuse such names in Region.dims.
import os, sys; sys.path.insert(0, os.getcwd())
import numpy as np
import discretisedfield as df

failures = []
for dims in [("r", "angle"), ("freq", "phase"), ("real", "imag"), ("mean", "y"), ("div", "y")]:
    mesh = df.Mesh(region=df.Region(p1=(1e-9, -2e-9), p2=(5e-9, 2e-9), dims=dims), n=(4, 2))
    assert np.allclose(mesh.cells[0], 1e-9 + (np.arange(4) + 0.5) * 1e-9)   # the other views work
    try:
        cf = mesh.coordinate_field()
        for i in mesh.indices:
            assert np.allclose(cf.array[i], mesh.index2point(i), rtol=1e-12, atol=0)
    except Exception as e:
        failures.append(f"dims={dims}: coordinate_field -> {type(e).__name__}: {e}")
print("\n".join(failures))
assert not failures, "coordinate_field unavailable for accepted dimension names"
