# C01 finding 3 -- commensurate cell sizes are refused when the axes have very different scales
# Clause violated: "a mesh requested by cell size exists exactly when the edges are a whole number of
#   cells" (here: edges ARE a whole number of cells, in fact cell = edges/n bit-for-bit, yet the
#   constructor raises).
# Trigger: cell sizes whose ratio between two axes is >~ 1e13/n (n = cells along the coarse axis) and a
#   coarse-axis edge/cell pair whose floating-point remainder is not exactly 0, e.g. one axis at the
#   1e-12 end and one at the 1e6 end of the quantifier's length scales, or axes with different units
#   (Region has per-axis `units`; (x [m], f [Hz]) meshes with cell=(5e-9, 1e9/3)).
#   The same coarse axis alone (1-D) is accepted, and so is n=(..).
# Observed: ValueError: Region cannot be divided into discretisation cells of size cell=...
# Expected: mesh with n = (1, 3) resp. (20, 3).
# Cause: mesh.py Mesh.__init__ (~l.222): `tol = np.min(cell) * 1e-3` -- the 0.1 % divisibility tolerance
#   is taken from the SMALLEST cell edge and applied to every axis, so on the coarse axis it is far
#   below one ulp of the edge length and ordinary rounding of np.remainder fails the test.
# Minimal repair: per-axis tolerance, `tol = np.asarray(cell) * 1e-3`.
import os, sys; sys.path.insert(0, os.getcwd())
import numpy as np
import discretisedfield as df

failures = []
cases = [
    ((0, 0), (1e-12, 1e6), (1, 3)),        # both ends of "length scales 1e-12..1e6"
    ((0, 0), (100e-9, 1e9), (20, 3)),      # x in m, second axis in Hz
    ((0, 0, 0), (50e-9, 7e9, 50e-9), (10, 21, 10)),
]
for p1, p2, n in cases:
    region = df.Region(p1=p1, p2=p2)
    cell = tuple(region.edges / np.array(n))         # exactly the cell of Mesh(region, n=n)
    assert np.array_equal(df.Mesh(region=region, n=n).cell, cell)
    # the coarse axis on its own is fine
    assert df.Mesh(p1=p1[1], p2=p2[1], cell=cell[1]).n[0] == n[1]
    try:
        mesh = df.Mesh(region=region, cell=cell)
        assert np.array_equal(mesh.n, n)
    except ValueError as e:
        failures.append(f"p2={p2} cell={cell}: {e}")
print("\n".join(failures))
assert not failures, "commensurate cell sizes rejected"
