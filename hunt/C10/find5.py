# C10 finding 5 (minor) - clause: "identical ... unit (including none)".
# Trigger: field.unit == "None" (a str).  Any other string, "" and None round-trip correctly.
# Observed: read back as None (the NoneType), because absence is encoded in-band as the string "None".
# Expected: the string "None".
# Cause: io/hdf5.py _h5_save_structure `attrs["unit"] = str(self.unit)` / _h5_load_field `if unit == "None": unit = None`.
# Minimal repair: encode absence out of band (do not write the attribute, or write h5py.Empty("S1")) and keep
#   reading "None" as None only for files without that convention.
# Second part (same class of "typed after ..." detail): integer-typed subregion corners come back float-typed as soon
#   as ANY other subregion has a fractional corner, because all corners share one table (values stay equal).
import os, sys; sys.path.insert(0, os.getcwd())
import tempfile
import discretisedfield as df

fn = os.path.join(tempfile.mkdtemp(), "f.h5")
R = df.Region
mesh = df.Mesh(p1=(0, 0, 0), p2=(4, 4, 4), n=(8, 8, 8),
               subregions={"a": R(p1=(0.5, 0.5, 0.5), p2=(2.5, 3, 4)), "b": R(p1=(0, 0, 0), p2=(2, 2, 2))})
f = df.Field(mesh, nvdim=1, value=1.0, unit="None")
f.to_file(fn)
g = df.Field.from_file(fn)
bad = []
if g.unit != f.unit:
    bad.append(f"unit {f.unit!r} -> {g.unit!r}")
for k, sr in f.mesh.subregions.items():
    if g.mesh.subregions[k].pmin.dtype != sr.pmin.dtype:
        bad.append(f"subregion {k} corners {sr.pmin.dtype} -> {g.mesh.subregions[k].pmin.dtype}")
assert not bad, bad
