# C10 finding 3 - clause: "identical ... component labels" with "labels present or absent".
# Trigger: a field with nvdim >= 2 that has NO component labels (vdims=[] -> field.vdims is None; for
#   nvdim == mesh.region.ndim one has to pass vdim_mapping={} as well, or use the setter `field.vdims = []`).
# Observed: the file stores vdims="None"; the reader passes vdims=None to Field(...), whose setter interprets None
#   as "use defaults", so the field comes back labelled ['x','y'] / ['x','y','z'] / ['v0',...] (and for
#   nvdim == ndim also acquires a vdim_mapping and attributes .x/.y/.z it never had).
# Expected: vdims is None after reading.
# Cause: io/hdf5.py _h5_load_field: `if vdims == "None": vdims = None` followed by cls(..., vdims=vdims).
# Minimal repair: pass vdims=[] (the "no labels" spelling of the setter) when the file says "None"
#   and nvdim > 1 (for nvdim == ndim also vdim_mapping={}).
import os, sys; sys.path.insert(0, os.getcwd())
import tempfile
import discretisedfield as df

fn = os.path.join(tempfile.mkdtemp(), "f.hdf5")
mesh = df.Mesh(p1=(0, 0, 0), p2=(2, 2, 2), n=(2, 2, 2))
bad = []
for nvdim in (2, 3, 4):
    f = df.Field(mesh, nvdim=nvdim, value=[1.0] * nvdim, vdims=[], vdim_mapping={})
    assert f.vdims is None
    f.to_file(fn)
    g = df.Field.from_file(fn)
    if g.vdims is not None:
        bad.append(f"nvdim={nvdim}: labels absent before writing, {g.vdims} after reading")
# setter route
f = df.Field(mesh, nvdim=3, value=(1, 2, 3))
f.vdims = []
f.to_file(fn)
g = df.Field.from_file(fn)
if g.vdims != f.vdims:
    bad.append(f"setter route: {f.vdims} -> {g.vdims}")
assert not bad, bad
