# C10 finding 1 - clause: "values (bit-identical, real staying real ...)" for "float/complex/int dtypes".
# Trigger: any field whose array dtype is not float64/complex (int64, int32, uint8, bool, float16, float32).
# Observed: Field.from_file returns a float64 array; for int64 values above 2**53 the numbers themselves
#   change (2**53+1 -> 2**53).  The file on disk is correct (dataset "array" is <i8); the loss is in the reader.
# Expected: same dtype and the same bits.
# Cause: io/hdf5.py _h5_load_field (and _h5_legacy_load_field) call cls(..., value=array) without dtype=, so
#   Field._as_array uses `dtype or max(np.asarray(val).dtype, np.float64)` -> float64.
# Minimal repair: pass dtype=h5_field["array"].dtype (legacy: dtype=array.dtype) to cls(...).
import os, sys; sys.path.insert(0, os.getcwd())
import tempfile
import numpy as np
import discretisedfield as df

mesh = df.Mesh(p1=(0, 0, 0), p2=(2, 2, 2), n=(2, 2, 2))
fn = os.path.join(tempfile.mkdtemp(), "f.h5")
bad = []
big = 2**53 + 1
f = df.Field(mesh, nvdim=1, value=big, dtype=np.int64)
assert f.array.dtype == np.int64 and int(f.array.flat[0]) == big
f.to_file(fn)
g = df.Field.from_file(fn)
if g.array.dtype != f.array.dtype:
    bad.append(f"int64 field read back as {g.array.dtype}")
if int(g.array.flat[0]) != big:
    bad.append(f"value {big} read back as {int(g.array.flat[0])}")
for dt in (np.int32, np.uint8, bool, np.float32, np.float16):
    f = df.Field(mesh, nvdim=2, value=(1, 0), dtype=dt)
    f.to_file(fn)
    g = df.Field.from_file(fn)
    if g.array.dtype != f.array.dtype or g.array.tobytes() != f.array.tobytes():
        bad.append(f"{np.dtype(dt).name} -> {g.array.dtype}")
assert not bad, bad
