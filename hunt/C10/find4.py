# C10 finding 4 (borderline) - title "HDF5 files preserve the complete state of a field" / "returns an equal field";
#   vdim_mapping is NOT in the statement's enumerated list, so this is only a violation if "complete state" is read
#   literally.  Reported because the loss is silent and changes behaviour (vector plotting, rotate90, curl/div
#   component-to-axis association all use vdim_mapping).
# Trigger: any field whose component-to-axis mapping is not the constructor default: a user-supplied permutation,
#   an explicitly empty mapping, or - without any user action - a 3-vector field on a plane (field.sel("z")), which
#   keeps {'x':'x','y':'y','z':'z'} but reads back as {} because nvdim != ndim.
# Observed: vdim_mapping after from_file is the constructor default; nothing about it is in the file.
# Expected: identical mapping.
# Cause: io/hdf5.py _h5_save_structure/_h5_load_field never write/read vdim_mapping.
# Minimal repair: save json.dumps(self.vdim_mapping) as attribute "vdim_mapping"; on load pass
#   vdim_mapping=json.loads(...) if the attribute exists.
import os, sys; sys.path.insert(0, os.getcwd())
import tempfile
import discretisedfield as df

fn = os.path.join(tempfile.mkdtemp(), "f.h5")
mesh = df.Mesh(p1=(0, 0, 0), p2=(2, 2, 2), n=(2, 2, 2))
fields = {
    "permuted": df.Field(mesh, nvdim=3, value=(1, 2, 3), vdims=["a", "b", "c"],
                         vdim_mapping={"c": "x", "a": "y", "b": "z"}),
    "empty": df.Field(mesh, nvdim=3, value=(1, 2, 3), vdim_mapping={}),
    "plane": df.Field(mesh, nvdim=3, value=(1, 2, 3)).sel("z"),
}
bad = []
for name, f in fields.items():
    f.to_file(fn)
    g = df.Field.from_file(fn)
    if g.vdim_mapping != f.vdim_mapping:
        bad.append(f"{name}: {f.vdim_mapping} -> {g.vdim_mapping}")
assert not bad, bad
