# C10 finding 2 - clause: "Writing any field (... component labels, dimension names, units ...) to HDF5" must work.
# Trigger: labels / dimension names / units that are numpy strings (np.str_).  The vdims/dims/units setters
#   explicitly accept numpy arrays, and Field.from_xarray ALWAYS produces np.str_ vdims (vdims = xa.vdims.values),
#   so every vector field that went through xarray cannot be written.
# Observed: to_file raises TypeError "No conversion path for dtype: dtype('<U1')" (h5py cannot store '<U' arrays
#   as attributes); a truncated file is left behind.
# Expected: file written, labels read back equal.
# Cause: io/hdf5.py _h5_save_structure `h5_field.attrs["vdims"] = self.vdims` and _RegionIO_HDF5._h5_save
#   `h5_region.attrs[attr] = getattr(self, attr)` hand lists/tuples of np.str_ to h5py.
# Minimal repair: store `[str(v) for v in ...]` for vdims, dims and units (or normalise to str in the setters).
import os, sys; sys.path.insert(0, os.getcwd())
import tempfile
import numpy as np
import discretisedfield as df

tmp = tempfile.mkdtemp()
mesh = df.Mesh(p1=(0, 0, 0), p2=(2, 2, 2), n=(2, 2, 2))
f = df.Field(mesh, nvdim=3, value=(1, 2, 3), vdims=["a", "b", "c"])
cases = {
    "from_xarray": lambda: df.Field.from_xarray(f.to_xarray()),
    "vdims ndarray": lambda: df.Field(mesh, nvdim=3, value=(1, 2, 3), vdims=np.array(["a", "b", "c"])),
    "dims ndarray": lambda: df.Field(
        df.Mesh(region=df.Region(p1=(0, 0), p2=(1, 1), dims=np.array(["a", "b"])), n=(1, 1)), nvdim=1),
    "units ndarray": lambda: df.Field(
        df.Mesh(region=df.Region(p1=(0, 0), p2=(1, 1), units=np.array(["nm", "s"])), n=(1, 1)), nvdim=1),
}
bad = []
for name, make in cases.items():
    field = make()
    fn = os.path.join(tmp, "f.h5")
    try:
        field.to_file(fn)
        g = df.Field.from_file(fn)
        assert g == field and g.vdims == field.vdims
        assert g.mesh.region.dims == field.mesh.region.dims and g.mesh.region.units == field.mesh.region.units
    except Exception as e:
        bad.append(f"{name}: {type(e).__name__}: {e}")
assert not bad, bad
