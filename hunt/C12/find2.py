# C12 finding 2 - the 2x2 component rotation is done as 0*a -/+ 1*b, so an infinite or NaN value
# in ONE mapped component poisons the OTHER one; even k=0 / k=4 (identity) changes the field.
# Clauses violated: "g(R+Q(p-R)) = Q*f(p) ... Q is the exact quarter-turn matrix" (Q only permutes
#   and negates components), "Rotation by k and by k mod 4 agree, four quarter turns ... are the
#   identity" (k=0 and k=4 are not the identity for such a field).
# Trigger: nvdim>1 field whose mapped components contain inf (or NaN, e.g. as filler in masked
#   cells) in one of the two rotated components only; any k including 0.
# Observed: f=(1, inf) -> k=0 gives (nan, inf); k=1 gives (-inf, nan) instead of (-inf, 1);
#   f=(nan, 2) -> k=1 gives (nan, nan) instead of (-2, nan).  RuntimeWarning "invalid value in multiply".
# Cause: field.py:3384-3386   value[..., vdim1] = cos * value1 - sin * value2  (0 * inf = nan).
# Minimal repair: select instead of multiply, e.g.
#     new1, new2 = [(value1, value2), (-value2, value1), (-value1, -value2), (value2, -value1)][k % 4]
# Reading: I take "for all fields" to include non-finite entries (NaN is the usual filler of invalid
#   cells); if the statement is read as finite values only this finding is outside it.
import os, sys; sys.path.insert(0, os.getcwd())
import warnings
import numpy as np
import discretisedfield as df

warnings.simplefilter("ignore")
mesh = df.Mesh(p1=(0, 0), p2=(2, 3), n=(2, 3))
arr = np.zeros((2, 3, 2)); arr[..., 0] = 1.0; arr[..., 1] = 2.0
arr[0, 0, 1] = np.inf      # cell (0,0): f = (1, inf)
arr[1, 1, 0] = np.nan      # cell (1,1): f = (nan, 2)
valid = np.ones((2, 3), bool); valid[1, 1] = False
f = df.Field(mesh, nvdim=2, value=arr, valid=valid)

g0 = f.rotate90("x", "y", k=0)
g4 = f.rotate90("x", "y", k=4)
g1 = f.rotate90("x", "y", k=1)
print("k=0 cell(0,0):", g0.array[0, 0], " expected", arr[0, 0])
# cell (i,j) -> (ny-1-j, i) for one quarter turn x->y
print("k=1 image of cell(0,0):", g1.array[2, 0], " expected [-inf, 1]")
print("k=1 image of cell(1,1):", g1.array[1, 1], " expected [-2, nan]")
assert np.array_equal(g0.array, arr, equal_nan=True), "k=0 is not the identity"
assert np.array_equal(g4.array, arr, equal_nan=True), "k=4 is not the identity"
assert np.array_equal(g1.array[2, 0], [-np.inf, 1.0])
assert np.array_equal(g1.array[1, 1], [-2.0, np.nan], equal_nan=True)
