import os, sys; sys.path.insert(0, os.getcwd())
import numpy as np
import discretisedfield as df
p1=(6e-9,0,0); p2=(16e-9,2e-9,4e-9)
subs = {"s": df.Region(p1=(6e-9,0,0), p2=(8e-9,1e-9,2e-9))}
m = df.Mesh(p1=p1,p2=p2,n=(5,2,2), subregions=subs)
g = m.rotate90('z','y',k=1)
mi = df.Mesh(p1=p1,p2=p2,n=(5,2,2), subregions=subs)
mi.rotate90('z','y',k=1,inplace=True)
print(g); print(mi)
print(g==mi, g.region==mi.region, g.subregions==mi.subregions)
print(g.subregions, mi.subregions)
print(g.subregions['s'].pmin - mi.subregions['s'].pmin, g.subregions['s'].pmax - mi.subregions['s'].pmax)
