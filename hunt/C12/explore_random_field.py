import os, sys; sys.path.insert(0, os.getcwd())
import itertools, random, traceback
import numpy as np
import discretisedfield as df
print(df.__file__)
BIG = float(sys.argv[1]) if len(sys.argv) > 1 else 1024
rng = np.random.default_rng(0)
random.seed(int(sys.argv[3]) if len(sys.argv)>3 else 0)

def qmat(k):
    c, s = [(1, 0), (0, 1), (-1, 0), (0, -1)][k % 4]
    return c, s

nfail = 0
for trial in range(int(sys.argv[2]) if len(sys.argv)>2 else 400):
    ndim = random.choice([2, 3, 4])
    dims_pool = [["x","y","z","t"],["a","b","c","d"],["z","y","x","w"],["y","x","q","r"]]
    dims = random.choice(dims_pool)[:ndim]
    units = ["m","s","kg","A"][:ndim]
    random.shuffle(units)
    n = [random.choice([1,2,3,4,5]) for _ in range(ndim)]
    sc = random.choice([1.0, 1e-9, 1e3])
    cell = [random.choice([0.5,1.0,2.0,3.0, 0.25]) * sc for _ in range(ndim)]
    off = [random.choice([0, -7, BIG, -BIG/8, 3]) * c for c in cell]
    p1 = np.array(off); p2 = p1 + np.array(n)*np.array(cell)
    region = df.Region(p1=p1, p2=p2, dims=dims, units=units)
    # subregions
    subs = {}
    for name in ["zz", "aa"]:
        lo = [random.randint(0, ni-1) for ni in n]
        hi = [random.randint(l+1, ni) for l, ni in zip(lo, n)]
        subs[name] = df.Region(p1=p1+np.array(lo)*cell, p2=p1+np.array(hi)*cell, dims=dims, units=units)
    mesh = df.Mesh(region=region, n=n, subregions=subs)
    nvdim = random.choice([1, 2, 3, 4, 5])
    ax1, ax2 = random.sample(dims, 2)
    k = random.choice([-7,-6,-5,-4,-3,-2,-1,0,1,2,3,4,5,6,9,10,11])
    if random.random() < 0.5:
        ref = None
    else:
        ref = [o + random.choice([0, 0.5, -3.25, 17]) * c for o, c in zip(off, cell)]
        ref = random.choice([tuple, list, np.array])(ref)
    dtype = random.choice([float, np.float32, complex, int])
    arr = rng.integers(-50, 50, size=(*n, nvdim)).astype(dtype)
    if dtype is complex:
        arr = arr + 1j*rng.integers(-5, 5, size=arr.shape)
    valid = rng.random(n) > 0.3
    if nvdim == 1:
        vdims = random.choice([None, ["s"]])
        mapping = None
    else:
        vdims = ["v%d" % i for i in range(nvdim)]
        random.shuffle(vdims)
        # partial/permuted mapping
        targets = dims + [None]*(max(0, nvdim-ndim))
        tg = random.sample(targets + [None]*nvdim, nvdim)
        # ensure no duplicates of non-None
        seen=set(); tg2=[]
        for t in tg:
            if t is not None and t in seen: t=None
            if t is not None: seen.add(t)
            tg2.append(t)
        items = list(zip(vdims, tg2)); random.shuffle(items)
        mapping = dict(items)
    f = df.Field(mesh, nvdim=nvdim, value=arr, vdims=vdims, valid=valid, vdim_mapping=mapping, dtype=dtype, unit="T")
    rmap = {v: kk for kk, v in (f.vdim_mapping or {}).items()}
    should_refuse = nvdim > 1 and (rmap.get(ax1) is None or rmap.get(ax2) is None)
    try:
        try:
            g = f.rotate90(ax1, ax2, k=k, reference_point=ref)
        except RuntimeError as e:
            assert should_refuse, ("refused unexpectedly", e)
            # object must be untouched, in place too
            f2 = df.Field(mesh, nvdim=nvdim, value=arr, vdims=vdims, valid=valid, vdim_mapping=mapping, dtype=dtype, unit="T")
            try:
                f.rotate90(ax1, ax2, k=k, reference_point=ref, inplace=True)
                assert False, "inplace not refused"
            except RuntimeError:
                pass
            assert f == f2 and f.mesh == f2.mesh and np.array_equal(f.valid, f2.valid)
            assert list(f.mesh.n) == n
            continue
        assert not should_refuse, "should have been refused"
        i1, i2 = dims.index(ax1), dims.index(ax2)
        c, s = qmat(k)
        R = np.array(ref if ref is not None else (p1+p2)/2, dtype=float)
        # geometry
        nexp = list(n)
        uexp = list(units)
        if k % 2:
            nexp[i1], nexp[i2] = nexp[i2], nexp[i1]
            uexp[i1], uexp[i2] = uexp[i2], uexp[i1]
        assert list(g.mesh.n) == nexp, ("n", g.mesh.n, nexp)
        assert list(g.mesh.region.units) == uexp, ("units", g.mesh.region.units, uexp)
        assert list(g.mesh.region.dims) == dims
        assert g.vdims == f.vdims and g.vdim_mapping == f.vdim_mapping and g.unit == f.unit
        assert g.array.dtype == f.array.dtype, (g.array.dtype, f.array.dtype)
        def rotp(p):
            q = np.array(p, dtype=float).copy()
            d1, d2 = p[i1]-R[i1], p[i2]-R[i2]
            q[i1] = R[i1] + c*d1 - s*d2
            q[i2] = R[i2] + s*d1 + c*d2
            return q
        scale = np.abs(np.concatenate([p1,p2,R])).max()
        for idx in itertools.product(*[range(ni) for ni in n]):
            p = mesh.index2point(idx)
            q = rotp(p)
            gi = g.mesh.point2index(q)
            assert np.allclose(g.mesh.index2point(gi), q, rtol=0, atol=1e-9*min(cell)*1 + 1e-12*scale), (p, q, g.mesh.index2point(gi))
            v = arr[idx].copy()
            if nvdim > 1:
                a = f.vdims.index(rmap[ax1]); b = f.vdims.index(rmap[ax2])
                v[a] = c*arr[idx][a] - s*arr[idx][b]
                v[b] = s*arr[idx][a] + c*arr[idx][b]
            assert np.array_equal(g.array[gi], v), ("value", idx, gi, g.array[gi], v)
            assert g.valid[gi] == valid[idx], "valid"
        # subregions
        for name, sr in mesh.subregions.items():
            gs = g.mesh.subregions[name]
            a, b = rotp(sr.pmin), rotp(sr.pmax)
            tol = 1e-6*min(cell)
            assert np.allclose(gs.pmin, np.minimum(a,b), rtol=0, atol=tol) and np.allclose(gs.pmax, np.maximum(a,b), rtol=0, atol=tol), ("subregion", name)
            assert list(gs.units) == uexp, ("sub units", gs.units, uexp)
        assert list(g.mesh.subregions) == list(mesh.subregions)
        # region/mesh consistency
        rr = region.rotate90(ax1, ax2, k=k, reference_point=ref)
        mm = mesh.rotate90(ax1, ax2, k=k, reference_point=ref)
        assert rr == g.mesh.region and mm == g.mesh and mm.subregions == g.mesh.subregions
        assert rr.units == g.mesh.region.units
        # k mod 4
        g4 = f.rotate90(ax1, ax2, k=k % 4, reference_point=ref)
        assert g4 == g and np.array_equal(g4.array, g.array) and np.array_equal(g4.valid, g.valid) and g4.mesh == g.mesh
        # reverse
        back = g.rotate90(ax1, ax2, k=-k, reference_point=ref if ref is not None else None)
        if ref is not None:
            assert back.mesh.allclose(f.mesh, atol=1e-6*min(cell)), "back mesh"
            assert np.array_equal(back.array, f.array) and np.array_equal(back.valid, f.valid)
            assert back.mesh.region.units == f.mesh.region.units
        back2 = g.rotate90(ax2, ax1, k=k, reference_point=ref)
        assert np.array_equal(back2.array, f.array) and np.array_equal(back2.valid, f.valid)
        # inplace
        fi = df.Field(df.Mesh(region=df.Region(p1=p1, p2=p2, dims=dims, units=units), n=n, subregions=subs), nvdim=nvdim, value=arr, vdims=vdims, valid=valid, vdim_mapping=mapping, dtype=dtype, unit="T")
        r = fi.rotate90(ax1, ax2, k=k, reference_point=ref, inplace=True)
        assert r is fi
        assert fi.mesh == g.mesh and all(fi.mesh.subregions[q_].allclose(g.mesh.subregions[q_], atol=1e-9*min(cell)+1e-12*scale) for q_ in subs) and list(fi.mesh.subregions)==list(g.mesh.subregions), "inplace mesh"
        assert list(fi.mesh.region.units) == uexp and all(list(s_.units) == uexp for s_ in fi.mesh.subregions.values()), "inplace units"
        assert np.array_equal(fi.array, g.array) and np.array_equal(fi.valid, g.valid), "inplace arr"
        assert fi.array.dtype == g.array.dtype
        assert fi.allclose(g)
        assert fi.vdims == g.vdims and fi.vdim_mapping == g.vdim_mapping
    except Exception as e:
        if 'cannot be divided' in str(e):
            nsub = globals().get('nsub', 0) + 1
            continue
        nfail += 1
        print("FAIL trial", trial, dict(ndim=ndim, dims=dims, n=n, cell=cell, off=off, ax=(ax1, ax2), k=k, ref=ref, nvdim=nvdim, mapping=mapping, dtype=dtype))
        traceback.print_exc(limit=2)
        if nfail > 8: break
print("done fails", nfail, "subregion errors", globals().get("nsub",0))
