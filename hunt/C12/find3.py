# C12 finding 3 - Field.rotate90(..., inplace=True) rotates the Mesh OBJECT it shares with other
# fields (Field stores the mesh by reference, and f.norm, f.x, f*2, ... reuse self.mesh), and
# Mesh.rotate90(inplace=True) rotates the Region OBJECT it shares with other meshes.  The other
# owners keep their un-rotated array / n, so their values and geometry no longer move together.
# Clauses violated (my reading): "values, vectors, validity and geometry move together", "region,
#   mesh and field rotate consistently with one another" - after the call the sibling field has
#   array.shape (2,3,5,1) on a mesh with n = (3,2,5); the sibling mesh keeps n=(2,3,5) on the rotated
#   region so its cell changes from (2,2,2) to (3,1.33,2).  The statement does not say explicitly that
#   other objects stay untouched, so this is an aliasing hazard of the in-place form rather than a
#   wrong result of the rotated object itself (which IS equal to the copying result).
# Trigger: two fields on the same Mesh object (or one derived from the other), odd k or any k with a
#   non-central reference point, inplace=True.
# Cause: field.py:3390 self.mesh.rotate90(..., inplace=True); mesh.py:1862 region rotated in place,
#   Mesh.__init__ keeps `region` by reference (mesh.py:189), Field.__init__ keeps `mesh` (field.py:174).
# Minimal repair: in the in-place branch of Field.rotate90 rebind instead of mutate:
#     self._mesh = mesh   (the already computed rotated copy);   same in Mesh: self._region = region copy.
import os, sys; sys.path.insert(0, os.getcwd())
import numpy as np
import discretisedfield as df

region = df.Region(p1=(0, 0, 0), p2=(4, 6, 10))
mesh = df.Mesh(region=region, n=(2, 3, 5))
f = df.Field(mesh, nvdim=3, value=lambda p: p)
h = df.Field(mesh, nvdim=1, value=lambda p: p[0])     # independent field, same mesh object
nrm = f.norm                                           # derived earlier
h_before = h((0.5, 0.5, 0.5))

expected = f.rotate90("x", "y")
f.rotate90("x", "y", inplace=True)
assert f.allclose(expected) and f.mesh == expected.mesh   # the rotated object itself is fine

problems = []
for name, other in [("h", h), ("f.norm", nrm)]:
    if tuple(other.array.shape[:-1]) != tuple(other.mesh.n):
        problems.append(f"{name}: array shape {other.array.shape[:-1]} but mesh.n {tuple(other.mesh.n)}")
try:
    assert h((0.5, 0.5, 0.5)) == h_before
except Exception as e:
    problems.append(f"h((0.5,0.5,0.5)) -> {type(e).__name__}: {str(e)[:60]}")

r2 = df.Region(p1=(0, 0, 0), p2=(4, 6, 10))
m1 = df.Mesh(region=r2, n=(2, 3, 5)); m2 = df.Mesh(region=r2, n=(2, 3, 5))
m1.rotate90("x", "y", inplace=True)
if not np.allclose(m2.cell, (2, 2, 2)):
    problems.append(f"sibling mesh cell changed to {m2.cell} with n {m2.n}")
print("\n".join(problems))
assert not problems
