import os, sys; sys.path.insert(0, os.getcwd())
import numpy as np, traceback, random
import discretisedfield as df
random.seed(5); rng = np.random.default_rng(5)
bad = 0
for t in range(300):
    ndim = random.choice([2,3,4]); dims = list("xyzt")[:ndim]
    n = [random.randint(1,4) for _ in dims]
    cell = np.array([random.choice([0.5,1,2,3]) for _ in dims], float)
    p1 = np.array([random.choice([0,-5,100,7]) for _ in dims])*cell
    units = ["m","s","kg","A"][:ndim]
    tf = random.choice([1e-12, 1e-6])
    bcx = random.choice(["", dims[0]])
    mk = lambda: df.Mesh(region=df.Region(p1=p1, p2=p1+cell*n, dims=dims, units=units, tolerance_factor=tf), n=n, bc=bcx,
                         subregions={"b": df.Region(p1=p1, p2=p1+cell, dims=dims), "a": df.Region(p1=p1+cell*(np.array(n)-1), p2=p1+cell*n, dims=dims)})
    arr = rng.integers(-9,9,size=(*n, ndim)).astype(float); valid = rng.random(n) > 0.4
    f = df.Field(mk(), nvdim=ndim, value=arr, valid=valid)
    fi = df.Field(mk(), nvdim=ndim, value=arr, valid=valid)
    ri = mk().region; rc = mk().region
    mi = mk(); mc = mk()
    for step in range(5):
        a,b = random.sample(dims,2); k = random.randint(-5,5)
        ref = random.choice([None, tuple(p1 + cell*rng.integers(-3,3,size=ndim)), list(p1 + cell*0.5)])
        f = f.rotate90(a,b,k=k,reference_point=ref)
        fi.rotate90(a,b,k=k,reference_point=ref,inplace=True)
        rc = rc.rotate90(a,b,k=k,reference_point=ref); ri.rotate90(a,b,k=k,reference_point=ref,inplace=True)
        mc = mc.rotate90(a,b,k=k,reference_point=ref); mi.rotate90(a,b,k=k,reference_point=ref,inplace=True)
        ok = (rc == ri and rc.units == ri.units and rc.tolerance_factor == ri.tolerance_factor == tf
              and mc == mi and mc.bc == mi.bc and all(mc.subregions[s].allclose(mi.subregions[s]) for s in "ab") and list(mc.subregions)==list(mi.subregions)
              and mc.region.tolerance_factor == tf and mc.region == rc and mc.region.units == rc.units
              and f.mesh == mc and f.mesh.region.units == rc.units
              and fi.mesh == mi and np.array_equal(f.array, fi.array) and np.array_equal(f.valid, fi.valid)
              and all(s.tolerance_factor == tf for s in mc.subregions.values()) and all(s.units == rc.units for s in mi.subregions.values()))
        if not ok:
            bad += 1; print("mismatch", t, step, a, b, k, ref); break
print("bad", bad)
checks = dict(r=rc == ri, ru=rc.units == ri.units, tf=(rc.tolerance_factor, ri.tolerance_factor, tf), m=mc==mi, bc=(mc.bc, mi.bc),
  mtf=mc.region.tolerance_factor, mr=mc.region==rc, fm=f.mesh==mc, fim=fi.mesh==mi, arr=np.array_equal(f.array, fi.array),
  stf=[s.tolerance_factor for s in mc.subregions.values()], su=[s.units for s in mi.subregions.values()], rcu=rc.units)
print(checks)
