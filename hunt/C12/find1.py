# C12 finding 1 - copying Mesh/Field.rotate90 raises ValueError for a valid mesh with
# subregions that lies far from the origin (|coordinate|/cell ~ 1e5..1e6).
# Clauses violated: "validity and subregions move with the cells", "the in-place form
#   leaves the object equal to what the copying form returns" (copy raises, in-place works),
#   quantifier: any subregions, far-from-origin coordinates.
# Trigger: mesh at x ~ 1e5 with cell (0.1, 0.2) (1e6 cells from the origin along x, y near 0),
#   one subregion, odd k, default or explicit reference point.  Needs the two rotated axes to
#   have very different |coordinate|: the representation error of the far axis (ulp(1e5) ~
#   1.5e-11) is moved onto the near axis, where Mesh.__init__'s subregion validation
#   ("Region(pmin, pmin + cell) in region", tolerance 1e-12 * edge, mesh.py:213-220, called
#   from the subregions setter mesh.py:367-375) no longer accepts it.
# Observed: ValueError "Subregion s cannot be divided into discretisation cells ..." from
#   Mesh.rotate90 (mesh.py:1886) and hence from Field.rotate90 (both forms); Mesh in-place succeeds.
# Expected: rotated mesh with the subregion rotated along with the cells.
# Frequency: ~3 % of random meshes at 1e6 cells from the origin, ~0.5 % at 1e5, 0 at 1e4.
# Minimal repair: in Mesh.rotate90 (copy branch) do not re-validate the rotated subregions:
#     mesh = self.__class__(region=region, n=n, bc=self.bc); mesh._subregions = subregions
#   (or make the "cell exceeds region" test in Mesh.__init__ use the same 1e-3*cell tolerance
#   as the divisibility test next to it).
import os, sys; sys.path.insert(0, os.getcwd())
import numpy as np
import discretisedfield as df

cell = np.array([0.1, 0.2]); n = (4, 3)
p1 = np.array([1e5, 0.0]); p2 = p1 + cell * n
def make():
    subs = {"s": df.Region(p1=p1 + cell * (1, 1), p2=p1 + cell * (2, 2))}
    return df.Mesh(p1=p1, p2=p2, n=n, subregions=subs)

mi = make()
mi.rotate90("x", "y", inplace=True)           # works
s = mi.subregions["s"]
centre = (p1 + p2) / 2
exp_min = centre + [-(p1[1] + 2 * cell[1] - centre[1]), p1[0] + cell[0] - centre[0]]
assert np.allclose(s.pmin, exp_min, rtol=0, atol=1e-6 * cell.min())   # in-place geometry is right

errors = []
for label, call in [
    ("Mesh copy", lambda: make().rotate90("x", "y")),
    ("Mesh copy k=-1 ref", lambda: make().rotate90("x", "y", k=-1, reference_point=tuple(p1))),
    ("Field copy", lambda: df.Field(make(), nvdim=1, value=1.0).rotate90("x", "y")),
    ("Field in-place", lambda: df.Field(make(), nvdim=1, value=1.0).rotate90("x", "y", inplace=True)),
]:
    try:
        res = call()
        m = res.mesh if isinstance(res, df.Field) else res
        assert m.subregions["s"].allclose(s, atol=1e-6 * cell.min())
    except ValueError as e:
        errors.append(f"{label}: ValueError: {e}")
print("\n".join(errors))
assert not errors, "rotate90 refused a valid mesh with subregions"
