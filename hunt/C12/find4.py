# C12 finding 4 - integer k that is not a Python int is refused.
# Clause violated: "Rotation by k and by k mod 4 agree" / quantifier "all integer k (negative
#   included)".  numpy integers (what one gets from np.arange, mesh.n, array.shape arithmetic, json
#   -> numpy round trips) are integers (numbers.Integral) but Region.rotate90 tests isinstance(k, int).
# Trigger: k = np.int64(1), np.int32(-3), ... on Region/Mesh/Field.rotate90 (copy or in place).
# Observed: TypeError "k must be an integer, not type(k)=<class 'numpy.int64'>"; bool k=True is accepted.
# Expected: same result as int(k).  (Mesh.n itself is validated with numbers.Integral in mesh.py:241.)
# Cause: region.py:1035  `if not isinstance(k, int)`.   Repair: `isinstance(k, numbers.Integral)`
#   followed by k = int(k).
# Confidence that it is inside the statement: medium (depends on reading "integer" as a value, not
#   as the builtin type).
import os, sys; sys.path.insert(0, os.getcwd())
import numpy as np
import discretisedfield as df

mesh = df.Mesh(p1=(0, 0, 0), p2=(4, 6, 10), n=(2, 3, 5))
f = df.Field(mesh, nvdim=3, value=lambda p: (p[0], 2 * p[1], p[2]))
for k in [np.int64(1), np.int32(-3), np.arange(6)[5], mesh.n[0]]:
    ref = f.rotate90("x", "y", k=int(k))
    got = f.rotate90("x", "y", k=k)          # TypeError on the unchanged tree
    assert got.allclose(ref) and got.mesh == ref.mesh
    assert mesh.region.rotate90("x", "y", k=k) == mesh.region.rotate90("x", "y", k=int(k) % 4)
