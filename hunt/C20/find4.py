# C20 finding 4 -- lightness plot: numbers stored in INVALID (hidden) cells decide how the valid
#   cells are drawn; a NaN in an invalid cell blanks the whole picture.
# Clause violated: "Cells that are invalid ... are not drawn" together with "lightness plots ... hand
#   matplotlib exactly the field's values": the colours of the drawn (valid) cells must be a function
#   of the valid cells; here they are not, and with NaN the valid cells are not drawn at all.
#   (Reading: the statement quantifies over "any validity mask"; what is stored in masked cells is
#   by definition meaningless -- e.g. NaN after m / m.norm with valid='norm'.)
# Trigger: 1-3 component field, some invalid cell whose stored value is NaN (or a huge/garbage
#   number), mpl.lightness() with default arguments.
# Observed: (a) NaN in one invalid cell -> alpha == 0 in ALL cells (nothing drawn);
#   (b) 1e30 in one invalid cell -> all valid cells black (lightness ~1e-29) instead of 0..1.
# Expected: same RGBA for the valid cells as for the field with 0 stored in the invalid cell ... or
#   at least valid cells drawn.  scalar()/vector()/contour() are immune (NaN-masked before scaling).
# Cause: plotting/util.py normalise_to_range(): values.min()/values.max() over the complete
#   lightness array; mpl_field.py lightness() filters (`_filter_values`) only AFTER hls2rgb.
# Minimal repair: in lightness() set the filtered/invalid cells of `values` and `lightness` to NaN
#   before hls2rgb and use np.nanmin / np.nanmax in normalise_to_range.
import os, sys; sys.path.insert(0, os.getcwd())
import warnings
import matplotlib; matplotlib.use("Agg")
import matplotlib.pyplot as plt
import numpy as np
import discretisedfield as df

warnings.simplefilter("ignore")
mesh = df.Mesh(p1=(0, 0), p2=(4e-9, 6e-9), n=(2, 3))
valid = np.array([[1, 0, 1], [1, 1, 1]], dtype=bool)
base = np.random.default_rng(0).normal(size=(2, 3, 3))


def rgba(garbage):
    arr = base.copy()
    arr[0, 1] = garbage  # the invalid cell
    f = df.Field(mesh, nvdim=3, value=arr, valid=valid,
                 vdim_mapping={"x": "x", "y": "y", "z": "z"})
    fig, ax = plt.subplots()
    f.mpl.lightness(ax=ax)
    out = np.asarray(ax.images[0].get_array()).transpose(1, 0, 2)
    plt.close("all")
    return out


ref = rgba(base[0, 0])  # harmless content in the invalid cell
assert np.array_equal(ref[..., 3] == 0, ~valid)
errors = []
for garbage in (np.nan, 1e30):
    got = rgba(garbage)
    if not np.array_equal(got[..., 3] == 0, ~valid):
        errors.append(f"invalid cell holds {garbage}: drawn cells (alpha)\n{got[..., 3]}")
    elif not np.allclose(got[valid], ref[valid]):
        errors.append(f"invalid cell holds {garbage}: colours of valid cells changed, max rgb "
                      f"{got[valid][:, :3].max():.3g} vs {ref[valid][:, :3].max():.3g}")
assert not errors, "\n".join(errors)
