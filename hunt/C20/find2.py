# C20 finding 2 -- fields with a non-floating dtype: integer fields cannot be plotted at all,
#   Boolean fields draw their invalid cells.
# Clauses violated: "Scalar, vector, contour ... plots of a 2-d field hand matplotlib exactly the
#   field's values" (crash on an input inside the quantifier) and "Cells that are invalid ... are
#   not drawn" (bool).
# Trigger: Field(..., dtype=int / np.int32 / bool), nvdim 1-3, ANY validity mask (even all valid),
#   with mpl.scalar, mpl.contour, mpl.vector or mpl().
# Observed: int -> ValueError "cannot convert float NaN to integer"; bool -> the hidden-cell marker
#   NaN is cast to True, so invalid cells are drawn with value True (scalar) or as arrows (vector).
# Expected: the integers shown as they are, invalid cells hidden.
# Cause: mpl_field.py _filter_values(): `values[mask] = np.nan` on `self.field.array.copy()`,
#   which keeps the field's dtype (scalar(): line ~296, vector(): ~637, contour(): ~823).
# Minimal repair: make the working copy floating, e.g.
#   `values = self.field.array.astype(float)` (or np.result_type(dtype, float)) in the three places.
import os, sys; sys.path.insert(0, os.getcwd())
import warnings
import matplotlib; matplotlib.use("Agg")
import matplotlib.pyplot as plt
import numpy as np
import discretisedfield as df

warnings.simplefilter("ignore")
mesh = df.Mesh(p1=(0, 0), p2=(4e-9, 6e-9), n=(2, 3))
valid = np.array([[1, 0, 1], [1, 1, 0]], dtype=bool)
errors = []

ivals = np.arange(1, 7).reshape(2, 3, 1)
fi = df.Field(mesh, nvdim=1, value=ivals, dtype=int)  # all cells valid
for kind in ("scalar", "contour", "__call__"):
    fig, ax = plt.subplots()
    try:
        getattr(fi.mpl, kind)(ax=ax)
    except Exception as e:
        errors.append(f"int field, mpl.{kind}: {type(e).__name__}: {e}")
    else:
        if kind != "contour":
            got = np.ma.filled(ax.images[0].get_array().astype(float), np.nan).T
            if not np.array_equal(got, ivals[..., 0]):
                errors.append(f"int field, {kind}: wrong image {got}")
vi = df.Field(mesh, nvdim=2, value=(1, 2), dtype=np.int32)
try:
    vi.mpl.vector(ax=plt.subplots()[1])
except Exception as e:
    errors.append(f"int32 vector field, mpl.vector: {type(e).__name__}: {e}")

fb = df.Field(mesh, nvdim=1, value=np.zeros((2, 3, 1), dtype=bool), dtype=bool, valid=valid)
fig, ax = plt.subplots()
fb.mpl.scalar(ax=ax)
img = np.ma.filled(ax.images[0].get_array().astype(float), np.nan).T
if not np.array_equal(np.isnan(img), ~valid):
    errors.append(f"bool field: invalid cells drawn, image =\n{img}")
assert not errors, "\n".join(errors)
