# C20 finding 3 -- mpl() with explicitly given arrow labels: the background image is drawn from an
#   arbitrary (hash-seed dependent) component, often one of the two arrow components.
# Clause violated: "hand matplotlib exactly the field's values (in-plane arrow components chosen
#   through the component-to-axis mapping or the given labels)" -- for the combined plot the
#   labels given in vector_kw['vdims'] select the arrows only; the image (documented as "the
#   out-of-plane component") ignores them.
# Trigger: 3-component field on a 2-d mesh created directly (nvdim != ndim -> vdim_mapping == {}),
#   `field.mpl(vector_kw={'vdims': [a, c]})`.  vector() alone REQUIRES vdims for such a field.
#   Also with a mapping: mapping a->x, b->y, c->z and vdims=['c', 'a'] -> image shows 'c' (an arrow
#   component) instead of the remaining component 'b'.
# Observed: image (and colourbar label "<name>-component") = set(field.vdims).pop(), i.e. any of
#   the three components, changing with PYTHONHASHSEED.  Expected: the component that is not used
#   for the arrows.
# Cause: mpl_field.py __call__ (~l.143-149): vdims are always taken from self.field._r_dim_mapping
#   (-> [None, None] without mapping) and `(set(self.field.vdims) - set(vdims)).pop()` picks an
#   arbitrary element; vector_kw['vdims'] is never consulted.  (Same pattern in vector() for the
#   colour when one of the two labels is None.)
# Minimal repair: in __call__ use `vdims = vector_kw.get('vdims') or [mapping...]`, and raise if the
#   set difference does not contain exactly one element.
import os, sys; sys.path.insert(0, os.getcwd())
import warnings
import matplotlib; matplotlib.use("Agg")
import matplotlib.pyplot as plt
import numpy as np
import discretisedfield as df

warnings.simplefilter("ignore")
mesh = df.Mesh(p1=(0, 0), p2=(4e-9, 6e-9), n=(2, 3))
errors = []
# several label sets so that the outcome does not depend on the hash seed of one set
for labels in ["abc", "pqr", "uvw", "klm", "def", "ghi", "stn", "xyz"]:
    vd = list(labels)
    f = df.Field(mesh, nvdim=3, value=(1.0, 2.0, 3.0), vdims=vd)  # no vdim_mapping
    assert f.vdim_mapping == {}
    fig, ax = plt.subplots()
    f.mpl(ax=ax, vector_kw={"vdims": [vd[0], vd[2]]})  # arrows: 1st and 3rd component
    q = ax.collections[0]
    assert np.all(q.U == 1.0) and np.all(q.V == 3.0)  # arrows are right
    img = np.ma.filled(ax.images[0].get_array(), np.nan)
    if not np.all(img == 2.0):  # the remaining (2nd) component
        errors.append(f"labels {vd}: arrows ({vd[0]},{vd[2]}), image shows value {img[0, 0]}"
                      f" (expected 2.0 = component {vd[1]})")
    plt.close("all")

# with a mapping: explicit labels are ignored for the image as well
f = df.Field(mesh, nvdim=3, value=(1.0, 2.0, 3.0), vdims=["a", "b", "c"],
             vdim_mapping={"a": "x", "b": "y", "c": "z"})
fig, ax = plt.subplots()
f.mpl(ax=ax, vector_kw={"vdims": ["c", "a"]})
img = np.ma.filled(ax.images[0].get_array(), np.nan)
if not np.all(img == 2.0):
    errors.append(f"mapping + vdims=['c','a']: image shows {img[0, 0]} (expected 2.0 = 'b')")
assert not errors, "\n".join(errors)
