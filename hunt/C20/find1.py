# C20 finding 1 -- explicit filter_field REPLACES the validity mask: invalid cells are drawn.
# Clause violated: "Cells that are invalid, or zero in the filter field, are not drawn."
#   (read as a union: a cell is hidden if it is invalid OR the filter is zero there).
# Trigger: any scalar field with at least one invalid cell, plotted with an explicit
#   filter_field that is non-zero in that cell -- mpl.scalar, mpl.contour, mpl.lightness and
#   mpl(scalar_kw={'filter_field': ...}) (also for 3-component fields: background image).
# Observed: the invalid cell (0, 1) holds the number 2.0 in the AxesImage / alpha 1 in the
#   lightness image.  Expected: NaN / alpha 0 there, as without filter_field.
# Cause: mpl_field.py scalar()/contour()/lightness(): `if filter_field is None: filter_field =
#   self.field._valid_as_field` -- validity is only the *default* filter; __call__ uses
#   scalar_kw.setdefault("filter_field", valid).
# Minimal repair: always apply the validity mask first, e.g. in scalar()/contour()/lightness()
#   `self._filter_values(self.field._valid_as_field, values)` and then, if a filter_field was
#   given, `self._filter_values(filter_field, values)` as well.
import os, sys; sys.path.insert(0, os.getcwd())
import matplotlib; matplotlib.use("Agg")
import matplotlib.pyplot as plt
import numpy as np
import discretisedfield as df

mesh = df.Mesh(p1=(0, 0), p2=(4e-9, 6e-9), n=(2, 3))
valid = np.array([[1, 0, 1], [1, 1, 0]], dtype=bool)
f = df.Field(mesh, nvdim=1, value=np.arange(1.0, 7.0).reshape(2, 3, 1), valid=valid)
filt = df.Field(mesh, nvdim=1, value=np.array([[1, 1, 1], [0, 1, 1.0]]).reshape(2, 3, 1))
must_hide = ~valid | (filt.array[..., 0] == 0)

fig, ax = plt.subplots()
f.mpl.scalar(ax=ax)  # sanity: default hides the invalid cells
assert np.array_equal(np.isnan(np.ma.filled(ax.images[0].get_array(), np.nan)).T, ~valid)

errors = []
fig, ax = plt.subplots()
f.mpl.scalar(ax=ax, filter_field=filt)
hidden = np.isnan(np.ma.filled(ax.images[0].get_array(), np.nan)).T
if not np.array_equal(hidden, must_hide):
    errors.append(f"scalar: hidden cells\n{hidden}\nexpected\n{must_hide}")
fig, ax = plt.subplots()
f.mpl.lightness(ax=ax, filter_field=filt)
hidden = (ax.images[0].get_array()[..., 3] == 0).T
if not np.array_equal(hidden, must_hide):
    errors.append(f"lightness: hidden cells\n{hidden}\nexpected\n{must_hide}")
fig, ax = plt.subplots()
f.mpl(ax=ax, scalar_kw={"filter_field": filt})
hidden = np.isnan(np.ma.filled(ax.images[0].get_array(), np.nan)).T
if not np.array_equal(hidden, must_hide):
    errors.append(f"mpl(): hidden cells\n{hidden}\nexpected\n{must_hide}")
assert not errors, "\n".join(errors)
