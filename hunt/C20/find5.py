# C20 finding 5 -- mpl.vector() accepts fields of the wrong component dimension.
# Clause violated: "fields of the wrong ... component dimension are refused."  (vector() docstring:
#   "field must be a vector field of dimensionality two or three ... Otherwise, ValueError is
#   raised"; scalar/contour/lightness/mpl() all refuse nvdim=4.)
# Trigger: nvdim=4 field on a 2-d mesh, `field.mpl.vector(vdims=['v0', 'v3'])`; likewise a scalar
#   field that carries a label and a mapping (`nvdim=1, vdims=['s'], vdim_mapping={'s': 'x'}`),
#   `field.mpl.vector()` draws arrows (s, 0).
# Observed: a Quiver is drawn, no exception.  Expected: an exception as for the other plot kinds.
# Cause: mpl_field.py vector() has no check of self.field.nvdim (only the vdims / vdim_mapping
#   test at its top).
# Minimal repair: `if self.field.nvdim not in (2, 3): raise RuntimeError(...)` at the top of vector().
import os, sys; sys.path.insert(0, os.getcwd())
import warnings
import matplotlib; matplotlib.use("Agg")
import matplotlib.pyplot as plt
import discretisedfield as df

warnings.simplefilter("ignore")
mesh = df.Mesh(p1=(0, 0), p2=(4e-9, 6e-9), n=(2, 3))
f4 = df.Field(mesh, nvdim=4, value=(1.0, 2.0, 3.0, 4.0))
for kind in ("scalar", "contour", "lightness", "__call__"):  # sanity: these refuse
    try:
        getattr(f4.mpl, kind)()
    except RuntimeError:
        pass
    else:
        raise SystemExit(f"unexpected: {kind} accepted nvdim=4")
accepted = []
try:
    f4.mpl.vector(vdims=["v0", "v3"])
    accepted.append("nvdim=4 field, vector(vdims=['v0','v3'])")
except (ValueError, RuntimeError):
    pass
s = df.Field(mesh, nvdim=1, value=1.0, vdims=["s"], vdim_mapping={"s": "x"})
try:
    s.mpl.vector()
    accepted.append("nvdim=1 field with label+mapping, vector()")
except (ValueError, RuntimeError):
    pass
assert not accepted, "vector plot drawn although it should be refused: " + "; ".join(accepted)
