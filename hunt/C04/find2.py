# C04 finding 2 -- Field.diff raises ValueError on strongly anisotropic meshes.
#
# Clause violated: the result exists for "any cell size ... every axis of
#   1-4-dimensional meshes" (a crash instead of a derivative).
# Trigger: cell sizes of very different magnitude in two axes, the larger one not a
#   "round" binary number, so that the floating-point noise of the long edge
#   (~1e-16 * |coordinate|) exceeds 1e-3 * min(cell):
#     * ratio >~ 1e12 with the mesh at the origin (e.g. x in metres with 5 nm cells and
#       a frequency axis with 1e9/7 Hz cells), or
#     * ratio >~ 1e7 when the mesh sits ~1e6 cells away from the origin.
#   The mesh itself and the field are built without complaint (Mesh(..., n=...)); every
#   diff along an axis *other* than the coarse one raises.
# Observed: ValueError "Region cannot be divided into discretisation cells of size ..."
#   from Mesh.__init__, called by Mesh.sel, called by Field.diff.  Expected: d/dx = 2.
# Cause: Field.diff (field.py ~2362) enumerates the grid lines through
#   `field.mesh.sel(**{direction: (point, point)}).indices`; sel rebuilds a Mesh with
#   `cell=` whose divisibility check uses one absolute tolerance for all axes,
#   `tol = np.min(cell) * 1e-3` (mesh.py ~221).
# Minimal repair (in diff, no mesh needed just to enumerate indices):
#     shape = list(field.mesh.n); shape[direction_idx] = 1
#     for idx in np.ndindex(*shape): ...
#   (or make the tolerance in Mesh.__init__ per axis: tol = np.asarray(cell) * 1e-3).
import os, sys; sys.path.insert(0, os.getcwd())
import numpy as np
import discretisedfield as df

n = (10, 7)
cell = np.array([5e-9, 1e9 / 7])                    # 5 nm  x  0.142857 GHz
region = df.Region(p1=(0, 0), p2=cell * n, dims=("x", "f"), units=("m", "Hz"))
mesh = df.Mesh(region=region, n=n)                  # accepted
field = df.Field(mesh, nvdim=1, value=lambda p: 2 * p[0])   # accepted

d_f = field.diff("f")                               # works
assert np.allclose(d_f.array, 0)
d_x = field.diff("x")                               # ValueError on the unchanged tree
assert np.allclose(d_x.array, 2)

# second trigger: ratio 1e8, mesh 1e6 cells from the origin
cell = np.array([1.3, 2.7e8]); p1 = np.array([0.0, 1e6 * 2.7e8 * 0.37])
mesh = df.Mesh(p1=p1, p2=p1 + cell * n, n=n)
assert np.allclose(df.Field(mesh, nvdim=1, value=lambda p: p[0]).diff("x").array, 1)
