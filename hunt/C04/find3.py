# C04 finding 3 -- low-precision float fields are differentiated in their own
# precision and overflow to inf/nan, although the result array is float64.
#
# Clause violated: "yields the exact derivative of any polynomial of degree <=2" /
#   "linear in the field values" (inf/nan instead of finite, representable numbers).
# Trigger: Field with dtype float16 (any |value| > ~6.5e-5 on a nanometre mesh for
#   order 1; everything for order 2) or float32/complex64 when value/dx**order exceeds
#   3.4e38 (e.g. values ~1e22 with order=2 on a 1 nm mesh).  Integer and Boolean data
#   are converted to float64 first and are fine; float64/complex128 are fine.
# Observed: f = 0,1,2,3,4 (float16), cell 1 nm: diff('x') -> [inf inf inf inf inf],
#   returned with dtype float64.  Expected 1e9 everywhere.
# Cause: Field.diff (field.py ~2353) only promotes dtype kinds "iub"; for float16/32
#   `np.zeros_like(array)`, np.gradient's output buffer and `out` in
#   operators._split_diff_combine all keep the narrow dtype, so value/dx is rounded
#   (and overflows) in float16/float32 before the Field constructor widens it.
# Minimal repair:  array = array.astype(np.result_type(array.dtype, np.float64))
#   (keeps complex, widens every real/integer/bool dtype).
# Scope note: the brief lists float32 explicitly; float16 is my extension of the same
#   class, so treat this finding as the least certain of the three.
import os, sys; sys.path.insert(0, os.getcwd())
import numpy as np
import discretisedfield as df

mesh = df.Mesh(p1=0, p2=5e-9, n=5)
ref = df.Field(mesh, nvdim=1, value=np.arange(5.0)).diff("x").array      # float64: 1e9
assert np.allclose(ref, 1e9)

f32 = df.Field(mesh, nvdim=1, value=(np.arange(5) ** 2 * 1e22).astype(np.float32), dtype=np.float32)
d32 = f32.diff("x", order=2).array
print("float32, order 2:", d32.ravel(), d32.dtype)           # inf, float64

f16 = df.Field(mesh, nvdim=1, value=np.arange(5).astype(np.float16), dtype=np.float16)
d16 = f16.diff("x").array
print("float16, order 1:", d16.ravel(), d16.dtype)           # inf, float64
assert np.allclose(d16, ref), "float16 field: derivative overflowed"
assert np.allclose(d32, 2e40), "float32 field: second derivative overflowed"
