# C04 finding 1 -- an OPEN direction is differentiated as a periodic ring when its
# name happens to be a substring of the boundary-condition word.
#
# Clause violated: "a run longer than the derivative order yields the exact
#   derivative of any polynomial of degree <=2 for first derivatives" (open direction);
#   only "in a periodic direction the line is a ring".
# Trigger: mesh.bc == "dirichlet" or "neumann" (not periodic; Field.diff's docstring
#   says only periodic bc is honoured) and a dimension whose name is a substring of
#   that word: 't', 'r', 'd', 'i', 'c', 'h', 'l', 'e' for "dirichlet";
#   'n', 'e', 'u', 'm', 'a' for "neumann" (e.g. a time axis 't' in an x,y,z,t mesh).
#   Same root cause: dims ('x','y','xy') with bc='xy' makes the open axis 'xy' periodic.
# Observed: d/dt of f = t on 5 cells is [-1.5, 1, 1, 1, -1.5] (wrap-around centred
#   differences); with bc='' it is [1, 1, 1, 1, 1].  x, y, z in the same mesh are
#   (correctly) treated as open.
# Cause: Field.diff tests `direction in self.mesh.bc` (twice, field.py ~2341 and ~2378),
#   a *substring* test on a string that may also hold the words 'neumann'/'dirichlet'.
# Minimal repair: compute once
#     periodic = self.mesh.bc not in ("neumann", "dirichlet") and direction in self.mesh.bc
#   (or `direction in tuple(self.mesh.bc)` after excluding the two words) and use it in
#   both places.
import os, sys; sys.path.insert(0, os.getcwd())
import numpy as np
import discretisedfield as df

region = df.Region(p1=(0, 0, 0, 0), p2=(2, 2, 2, 5), dims=("x", "y", "z", "t"))
for bc in ("", "dirichlet"):
    mesh = df.Mesh(region=region, n=(2, 2, 2, 5), bc=bc)
    f = df.Field(mesh, nvdim=1, value=lambda p: 3 * p[3] + p[0])
    got = f.diff("t").array[0, 0, 0, :, 0]
    print(f"bc={bc!r:12} d/dt:", got, " d/dx:", f.diff("x").array[:, 0, 0, 0, 0])
    assert np.allclose(f.diff("x").array, 1)          # open, linear -> exact
    assert np.allclose(got, 3), f"open direction 't' wrapped around for bc={bc!r}"

# same thing with 'neumann' and an axis called 'n'
mesh = df.Mesh(region=df.Region(p1=(0, 0), p2=(4, 3), dims=("n", "e")), n=(4, 3), bc="neumann")
f = df.Field(mesh, nvdim=1, value=lambda p: p[0])
assert np.allclose(f.diff("n").array, 1)
