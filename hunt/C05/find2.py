# C05 finding 2 -- "Gradient, divergence, curl and Laplacian equal the textbook combinations
# ... for arbitrary component labels".
# Trigger: a vector field one of whose component labels is 'value', 'average', 'integral',
#   'project' or 'write' (keys of Field._removed_attributes).  These labels are ACCEPTED by
#   the constructor / vdims setter and get a regular vdim_mapping.
# Observed: field.div, field.curl and field.laplace raise
#   "AttributeError: Object has no attribute div" (resp. curl, laplace).
# Expected: the same numbers as for the same array labelled ('a','b','c').
# Cause: the operators fetch components with getattr(self, vdim); Field.__getattr__ checks
#   `attr in self._removed_attributes` BEFORE `attr in self.vdims` and raises AttributeError,
#   which escapes from the property and is re-routed to __getattr__('div').  The vdims setter
#   does not notice because hasattr(self, 'value') is False.
# Repair: in Field.__getattr__ test `self.vdims is not None and attr in self.vdims` first
#   (or reject labels in _removed_attributes in the vdims setter).
import os, sys; sys.path.insert(0, os.getcwd())
import numpy as np
import discretisedfield as df

mesh = df.Mesh(p1=(0, 0, 0), p2=(4, 10, 1.5), n=(4, 5, 3))
arr = np.random.default_rng(0).normal(size=(4, 5, 3, 3))
good = df.Field(mesh, nvdim=3, value=arr, vdims=["a", "b", "c"])
bad = df.Field(mesh, nvdim=3, value=arr, vdims=["value", "b", "c"])  # accepted
assert bad.vdim_mapping == {"value": "x", "b": "y", "c": "z"}
for op in ("div", "curl", "laplace"):
    expected = getattr(good, op).array
    try:
        got = getattr(bad, op).array
    except AttributeError as e:
        raise AssertionError(f"{op} crashed for component label 'value': {e}")
    assert np.allclose(got, expected)
