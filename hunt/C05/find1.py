# C05 finding 1 -- exactness clause ("exact for polynomial fields of degree <=2 on
# meshes with at least three cells per direction", quantifier: arbitrary dimension names,
# with and WITHOUT periodic directions).
# Trigger: the mesh has bc="neumann" (or "dirichlet"), i.e. NO periodic direction, and a
#   spatial dimension whose name is a substring of that keyword ('n','e','u','m','a','eu',..
#   resp. 'd','i','r',..).  Same root cause: dims ('x','y','xy') with bc='xy' makes the
#   non-periodic axis 'xy' periodic.
# Observed: Field.diff (hence grad/div/curl/laplace) wraps the data periodically along
#   those axes: grad of 2n+3e-5u is (-2,-4.5,10) at the corner instead of (2,3,-5).
# Expected: one-sided second-order stencils at the boundary -> exact (2,3,-5) everywhere,
#   exactly as for dims ('x','y','z') on the same mesh.
# Cause: field.py Field.diff, `if direction in self.mesh.bc:` (twice) is a *substring* test
#   on the bc string, which may also be the keyword 'neumann'/'dirichlet'.
# Repair: periodic = self.mesh.bc not in ("neumann", "dirichlet") and len(direction) == 1 \
#         and direction in self.mesh.bc   (use it in both places).
import os, sys; sys.path.insert(0, os.getcwd())
import numpy as np
import discretisedfield as df

def grad_of_linear(dims, bc):
    region = df.Region(p1=(0, 0, 0), p2=(4, 5, 6), dims=dims)
    mesh = df.Mesh(region=region, n=(4, 5, 6), bc=bc)
    f = df.Field(mesh, nvdim=1, value=lambda p: 2 * p[0] + 3 * p[1] - 5 * p[2])
    return f.grad

ref = grad_of_linear(("x", "y", "z"), "neumann").array
assert np.allclose(ref, (2, 3, -5))
g = grad_of_linear(("n", "e", "u"), "neumann")
print("corner value:", g.array[0, 0, 0], " expected [2, 3, -5]")
assert np.allclose(g.array, (2, 3, -5)), "grad of a linear field is not exact (neumann, dims n/e/u)"
g = grad_of_linear(("d", "i", "r"), "dirichlet")
assert np.allclose(g.array, (2, 3, -5)), "grad of a linear field is not exact (dirichlet, dims d/i/r)"
