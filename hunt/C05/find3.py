# C05 finding 3 -- refusal clause: "Fields whose components are not mapped onto the mesh
# axes ... are refused" (I read "mapped onto the axes" as a one-to-one pairing; the
# quantifier speaks of "any permutation in the component-to-axis mapping").
# Trigger: nvdim=3 field on a 3d mesh with vdim_mapping={'x':'x','y':'x','z':'z'}
#   (two components on axis x, none on axis y); accepted by constructor and setter.
# Observed: div silently returns d(vx)/dx + d(vy)/dx + d(vz)/dz (no textbook divergence);
#   curl dies with "TypeError: attribute name must be string, not 'NoneType'" instead of the
#   ValueError used for every other unmapped field.
# Expected: both refuse with ValueError (as they do for a value that is no mesh axis).
# Cause: field.py div/curl only check each vdim separately (`self.vdim_mapping[vdim] in
#   self.mesh.region.dims`), never that the values are distinct / cover all dims.
# Repair: in div and curl add
#   if sorted(self.vdim_mapping.values()) != sorted(self.mesh.region.dims): raise ValueError
import os, sys; sys.path.insert(0, os.getcwd())
import numpy as np
import discretisedfield as df

mesh = df.Mesh(p1=(0, 0, 0), p2=(4, 5, 6), n=(4, 5, 3))
v = df.Field(mesh, nvdim=3, value=lambda p: (p[0], 7 * p[0] + p[1], p[2]),
             vdim_mapping={"x": "x", "y": "x", "z": "z"})
errors = []
for op in ("div", "curl"):
    try:
        res = getattr(v, op)
        errors.append(f"{op} accepted a non-injective mapping, value {res.array[1, 1, 1]}")
    except ValueError:
        pass  # refused as the statement demands
    except Exception as e:
        errors.append(f"{op}: unclean refusal {type(e).__name__}: {e}")
print("\n".join(errors))
assert not errors
