# C05 finding 5 (low confidence, documented limitation of Mesh.rotate90) -- clause "all four
# commute with quarter-turn rotations of the field", quantifier "with and without periodic
# directions".
# Trigger: mesh periodic in exactly one of the two axes of the rotation plane (bc='x'),
#   field.rotate90('x', 'y').
# Observed: the rotated mesh still has bc='x' although the periodic data direction is now y,
#   so grad(rot f) != rot(grad f) (max deviation 5.0 for f = x + 2y on a 4x5x6 mesh).
# Expected: identical fields.
# Cause: Mesh.rotate90 keeps the bc string ("it is the user's task to update bc").
# Repair: swap the two axis letters in bc for odd k inside Mesh.rotate90.
import os, sys; sys.path.insert(0, os.getcwd())
import numpy as np
import discretisedfield as df

mesh = df.Mesh(p1=(0, 0, 0), p2=(4, 5, 6), n=(4, 5, 6), bc="x")
f = df.Field(mesh, nvdim=1, value=lambda p: p[0] + 2 * p[1])
a = f.rotate90("x", "y").grad
b = f.grad.rotate90("x", "y")
print("bc after rotation:", a.mesh.bc, " max deviation:", np.abs(a.array - b.array).max())
assert np.allclose(a.array, b.array)
