# C05 finding 4 (minor) -- quantifier "1-4-dimensional meshes"; clauses "gradient ... pairing
# each vector component with the spatial axis" and "fields whose components are not mapped
# ... are refused".
# Trigger: one-dimensional mesh, unlabelled scalar field f (the default).
# Observed: f.grad is an nvdim=1 field with vdims=None and vdim_mapping={} (in 2-4 dimensions
#   grad returns components mapped onto the axes); f.grad.div and f.div raise
#   "TypeError: 'NoneType' object is not iterable" -- neither the Laplacian nor the
#   ValueError that div documents for unmapped fields.  f.laplace works, and so does
#   div on a 1d field created with vdims=['a'], vdim_mapping={'a': 'x'}.
# Expected: div(grad f) == laplace-like result (0 for linear f), or a clean ValueError.
# Cause: Field.div iterates `for vdim in self.vdims` with self.vdims None; Field.grad in 1d
#   returns the bare derivative without label/mapping.
# Repair: in div (and curl) `if self.vdims is None: raise ValueError(...)`; optionally let
#   grad label its single component in 1d (vdims=['x'], vdim_mapping={'x': dims[0]}).
import os, sys; sys.path.insert(0, os.getcwd())
import numpy as np
import discretisedfield as df

mesh = df.Mesh(p1=0, p2=5, n=5)
f = df.Field(mesh, nvdim=1, value=lambda p: 2 * p)
g = f.grad
assert np.allclose(g.array, 2)
try:
    d = g.div
except ValueError:
    d = None  # a clean refusal would be acceptable under the last clause
except TypeError as e:
    raise AssertionError(f"div(grad f) on a 1d mesh crashes: TypeError: {e}")
if d is not None:
    assert np.allclose(d.array, 0)
