# C03 finding 1 -- reflected dot / cross / stacking with a numpy array on the LEFT
# Clause: "dot, cross, ... stacking (<<) ... over fields ..., constant vectors and per-cell
#   arrays, in either operand order ... yields a field whose array equals the same expression
#   evaluated cell by cell".
# Trigger: left operand is a numpy.ndarray (constant vector np.array([1,2,3]) or a per-cell
#   array of shape (*mesh.n, nvdim)), right operand a Field:  arr @ f,  arr & f,  arr << f.
#   (tuples/lists on the left work, because they have no __matmul__/__and__/__lshift__.)
# Observed: ndarray.__matmul__ sees Field.__array_ufunc__ and calls np.matmul through it, so
#   Field.__rmatmul__ is never reached: the result is the stacked MATRIX product of the raw arrays
#   -> an nvdim=3 field of wrong numbers when mesh.n[-1]==nvdim, a ValueError otherwise.
#   arr & f -> TypeError (bitwise_and), arr << f -> TypeError (left_shift).
# Expected: arr @ f == f @ arr (cell-wise dot, nvdim=1);  arr & f == -(f & arr);  arr << f stacks.
# Cause: field.py __array_ufunc__ (~l.3985) forwards every ufunc incl. matmul/bitwise_and/
#   left_shift to the raw arrays; __rmatmul__/__rand__/__rlshift__ (~l.1742,1817,1919) are dead
#   code for ndarray operands.
# Repair: at the top of __array_ufunc__:  if method == "__call__" and ufunc in (np.matmul,
#   np.bitwise_and, np.left_shift) and not isinstance(inputs[0], Field): dispatch to
#   inputs[1].__rmatmul__/__rand__/__rlshift__(inputs[0]).
import os, sys; sys.path.insert(0, os.getcwd())
import numpy as np
import discretisedfield as df

mesh = df.Mesh(p1=(0, 0, 0), p2=(2, 2, 3), n=(2, 2, 3))
rng = np.random.default_rng(1)
f = df.Field(mesh, nvdim=3, value=rng.normal(size=(2, 2, 3, 3)))
vec = np.array([1.0, 2.0, 3.0])
arr = rng.normal(size=(2, 2, 3, 3))
problems = []
for name, left in [("constant vector", vec), ("per-cell array", arr)]:
    ref = np.sum(np.broadcast_to(left, f.array.shape) * f.array, axis=-1, keepdims=True)
    assert np.allclose((f @ left).array, ref)  # forward order is fine
    try:
        res = left @ f
        if not (isinstance(res, df.Field) and res.nvdim == 1 and np.allclose(res.array, ref)):
            problems.append(f"{name} @ f: nvdim={getattr(res, 'nvdim', None)}, not the dot product")
    except Exception as e:
        problems.append(f"{name} @ f raised {type(e).__name__}: {e}")
    for opname, op, fwd in [("&", lambda a, b: a & b, lambda: -(f & left)),
                            ("<<", lambda a, b: a << b, None)]:
        try:
            op(left, f)
        except Exception as e:
            problems.append(f"{name} {opname} f raised {type(e).__name__}")
print("\n".join(problems))
assert not problems
