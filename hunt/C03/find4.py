# C03 finding 4 -- component labels / component-to-axis mapping depend on the operand order,
#   and a labelled one-component field cannot be broadcast at all
# Clause: "a*b and b*a (likewise +) are the same field including component labels and their mapping
#   to spatial axes"; "a scalar field broadcasts over vector components"; ufuncs and operators.
# Triggers / observed (v: 3-component field with vdims a,b,c mapped to z,y,x; s0: plain scalar
#   field; s: one-component field with its own label vdims=['s'], vdim_mapping={'s': 'x'}):
#   (a) np.multiply(s0, v) -> vdims x,y,z, mapping {}   but np.multiply(v, s0) -> a,b,c / z,y,x
#       (the ufunc path always takes labels of the FIRST field, field.py ~l.4030-4036; the operator
#        path _apply_operator handles this case, ~l.1249-1255)
#   (b) s0 * s -> vdims None, mapping {}                 but s * s0 -> ['s'], {'s': 'x'}
#       (_apply_operator takes self's labels whenever self.nvdim == result nvdim)
#   (c) s * (1, 2, 3), s * np.ones((*n, 3)) -> ValueError "Invalid vdim_mapping.keys()" and
#       np.multiply(s, v) -> NotImplementedError: the one-component mapping/labels of `s` are passed
#       on to the 3-component result (field.py ~l.1255 `vdims, vdim_mapping = None, self.vdim_mapping`)
# Expected: same labels+mapping for both orders; s*(1,2,3) is a 3-component field = s.array*(1,2,3).
# Repair: l.1255 -> `vdims, vdim_mapping = None, None`; in _apply_operator prefer the operand
#   that has labels when both have the result's nvdim; in __array_ufunc__ take vdims/vdim_mapping
#   from the first input Field whose nvdim equals result.shape[-1] (else None).
import os, sys; sys.path.insert(0, os.getcwd())
import numpy as np
import discretisedfield as df

mesh = df.Mesh(p1=(0, 0, 0), p2=(2, 2, 2), n=(2, 1, 2))
rng = np.random.default_rng(3)
v = df.Field(mesh, nvdim=3, value=rng.normal(size=(2, 1, 2, 3)), vdims=["a", "b", "c"],
             vdim_mapping={"c": "x", "a": "z", "b": "y"})
s0 = df.Field(mesh, nvdim=1, value=rng.normal(size=(2, 1, 2, 1)))
s = df.Field(mesh, nvdim=1, value=rng.normal(size=(2, 1, 2, 1)), vdims=["s"],
             vdim_mapping={"s": "x"})
problems = []


def meta(field):
    return field.vdims, field.vdim_mapping


r1, r2 = np.multiply(s0, v), np.multiply(v, s0)
assert np.array_equal(r1.array, r2.array)
if meta(r1) != meta(r2):
    problems.append(f"(a) np.multiply(s0, v): {meta(r1)}  vs  np.multiply(v, s0): {meta(r2)}")
assert meta(s0 * v) == meta(v * s0) == meta(v)  # operator form of (a) is fine
r1, r2 = s0 * s, s * s0
if meta(r1) != meta(r2):
    problems.append(f"(b) s0 * s: {meta(r1)}  vs  s * s0: {meta(r2)}")
for name, fn in [("s * (1, 2, 3)", lambda: s * (1, 2, 3)), ("(1, 2, 3) + s", lambda: (1, 2, 3) + s),
                 ("np.multiply(s, v)", lambda: np.multiply(s, v))]:
    try:
        res = fn()
        assert res.nvdim == 3
    except Exception as e:
        problems.append(f"(c) {name} raised {type(e).__name__}: {e}")
print("\n".join(problems))
assert not problems
