# C03 finding 2 -- validity mask lost when the LEFT operand is a numpy scalar / ndarray
#   (and for every numpy ufunc applied to fields)
# Clause: "a*b and b*a (likewise +) are the same field"; "expression ... over fields ..., numbers,
#   constant vectors and per-cell arrays, in either operand order".
# Trigger: field with some invalid cells; left operand np.float64 / np.int32 / np.complex128 (e.g.
#   anything taken out of a numpy array, np.pi*np.float64(..), arr.mean()) or an ndarray:
#       np.float64(2) * f,  np.array([1,2,3]) + f,  per_cell_array - f,  np.float64(2) ** f ...
# Observed: result.valid is all True; f * np.float64(2) keeps f.valid. Same for np.add(f, g),
#   np.sin(f): masks of the inputs are dropped (operators f+g AND the masks).
# Expected: np.float64(2)*f and f*np.float64(2) are the same field (valid == f.valid).
# Cause: numpy scalars/arrays implement __mul__ etc. through the ufunc, which is routed to
#   Field.__array_ufunc__ (field.py ~l.3985-4038); it rebuilds the Field without `valid=`;
#   Field.__rmul__ is never called.
# Repair: in __array_ufunc__ compute
#   valid = np.logical_and.reduce([x.valid for x in inputs if isinstance(x, Field)])
#   and pass valid=valid to the Field(...) constructors (both branches).
import os, sys; sys.path.insert(0, os.getcwd())
import numpy as np
import discretisedfield as df

mesh = df.Mesh(p1=(0, 0), p2=(4, 2), n=(4, 2))
valid = np.array([[True, False], [True, True], [False, False], [True, True]])
f = df.Field(mesh, nvdim=2, value=np.arange(16.0).reshape(4, 2, 2), valid=valid)
g = df.Field(mesh, nvdim=2, value=(1, 2), valid=~valid)
problems = []
cases = {
    "np.float64(2) * f": (np.float64(2) * f, f * np.float64(2)),
    "np.int32(2) + f": (np.int32(2) + f, f + np.int32(2)),
    "np.array([1., 2.]) * f": (np.array([1.0, 2.0]) * f, f * np.array([1.0, 2.0])),
    "np.ones((4,2,2)) + f": (np.ones((4, 2, 2)) + f, f + np.ones((4, 2, 2))),
    "np.add(f, g) vs f + g": (np.add(f, g), f + g),
    "np.multiply(f, 2) vs f * 2": (np.multiply(f, 2), f * 2),
}
for name, (reflected, forward) in cases.items():
    assert np.array_equal(reflected.array, forward.array)
    assert np.array_equal(f.valid, valid)  # operand itself untouched
    if not np.array_equal(reflected.valid, forward.valid):
        problems.append(f"{name}: {reflected.valid.sum()} valid cells instead of {forward.valid.sum()}")
print("\n".join(problems))
assert not problems
