# C03 finding 3 -- reflected subtraction is evaluated as (-field) + other: wrong numbers for
#   unsigned-integer fields, exception for Boolean fields
# Clause: "yields a field ... whose array equals the same expression evaluated cell by cell under
#   numpy broadcasting" (int dtypes, numbers / constant vectors, either operand order).
# Trigger: field with dtype uint8/uint16/uint32/uint64 (e.g. image / counter data); left operand a
#   Python float/int/complex, tuple or list:   2.5 - f,   (1.5, 0.5) - f
# Observed: 2.5 - f == (256 - f.array) + 2.5   (uint8: -3 wraps to 253, then +2.5 = 255.5);
#   numpy: 2.5 - f.array == [-0.5, -1.5, ...].   For dtype=bool, 1 - f raises TypeError
#   ("numpy boolean negative") although 1 - f.array is fine. (f - 2.5 and g - f are correct.)
# Cause: field.py ~l.1539  def __rsub__(self, other): return -self + other
# Repair: return self._apply_operator(other, lambda x, y: np.subtract(y, x), "-")
#   (same pattern that __rtruediv__/__rpow__ already use).
import os, sys; sys.path.insert(0, os.getcwd())
import numpy as np
import discretisedfield as df

mesh = df.Mesh(p1=(0, 0), p2=(2, 2), n=(2, 2))
data = np.array([[3, 4], [5, 6]], dtype=np.uint8)[..., np.newaxis]
f = df.Field(mesh, nvdim=1, value=data, dtype=np.uint8)
assert f.array.dtype == np.uint8
before = f.array.copy()

assert np.array_equal((f - 2.5).array, f.array - 2.5)  # forward order is right
res = 2.5 - f
expected = 2.5 - f.array
print("2.5 - f       :", res.array.ravel())
print("2.5 - f.array :", expected.ravel())
assert np.array_equal(f.array, before)
assert np.allclose(res.array, expected), "reflected subtraction differs from numpy"
