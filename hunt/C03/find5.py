# C03 finding 5 -- operands that must be refused are accepted (and give silently wrong fields)
# Clause: "Combining fields that live on different meshes or have incompatible component counts is
#   rejected with an error."
# (a) meshes that differ only in region.units ('m' vs 'nm'; Mesh/Region.__eq__ say "different"):
#     + - * / ** dot cross angle np.add accept them (only << refuses); a+b lives on a's mesh, b+a
#     on b's. Cause: _check_same_mesh_and_field_dim / __array_ufunc__ use Mesh.allclose, and
#     Region.allclose (region.py ~l.600-612) ignores units.
# (b) far from the origin with a non-default tolerance_factor a mesh shifted by a whole cell is
#     "the same": Region.allclose uses rtol=tolerance_factor relative to |coordinate| (1e6*1e-5 = 10
#     = 5 cells) although the factor is documented as relative to the edge length; cell i of a is
#     then added to cell i+1 of b. Also asymmetric: only self's tolerance is used.
# (c) component count: a 3-component field accepts a 1-component constant vector in dot
#     (einsum broadcasts: v.dot((2,)) == 2*sum of components); _apply_operator accepts any array with
#     len(other)==nvdim, and for a scalar field ANY array: s * np.ones(mesh.n) (a per-cell array in
#     the form the constructor accepts) on a cubic n gives an nvdim=n[-1] field of mis-broadcast data.
# Expected: ValueError/TypeError in all cases (or, for (c2), the per-cell product with nvdim=1).
# Repair: compare units in Region.allclose (or use `self.mesh == other.mesh or allclose and same
#   units`); use atol only (edge based) in Region.allclose; in dot require
#   np.shape(other)[-1] == self.nvdim; in _apply_operator check np.shape(other)[-1] in (nvdim, 1)
#   / expand arrays of shape mesh.n like _as_array does.
import os, sys; sys.path.insert(0, os.getcwd())
import numpy as np
import discretisedfield as df

problems = []


def must_fail(name, fn):
    try:
        res = fn()
    except (ValueError, TypeError):
        return
    problems.append(f"{name}: accepted, result nvdim={res.nvdim}, mesh units={res.mesh.region.units}")


def field(region, nvdim=3):
    return df.Field(df.Mesh(region=region, n=(2, 2, 2)), nvdim=nvdim, value=(1, 2, 3)[:nvdim])


a = field(df.Region(p1=(0, 0, 0), p2=(4, 4, 4), units=["m"] * 3))
b = field(df.Region(p1=(0, 0, 0), p2=(4, 4, 4), units=["nm"] * 3))
assert a.mesh != b.mesh
must_fail("(a) a + b, units m vs nm", lambda: a + b)
must_fail("(a) a.cross(b), units m vs nm", lambda: a.cross(b))
c = field(df.Region(p1=(1e6, 0, 0), p2=(1e6 + 4, 4, 4), tolerance_factor=1e-5))
d = field(df.Region(p1=(1e6 + 2, 0, 0), p2=(1e6 + 6, 4, 4), tolerance_factor=1e-5))
assert c.mesh != d.mesh
must_fail("(b) c * d, d shifted by one cell", lambda: c * d)
must_fail("(c) 3-component field . 1-component vector", lambda: a.dot((2.0,)))
s = df.Field(a.mesh, nvdim=1, value=np.arange(8.0).reshape(2, 2, 2))  # per-cell array accepted here
try:
    res = s * np.ones((2, 2, 2))
    if res.nvdim != 1 or not np.array_equal(res.array, s.array):
        problems.append(f"(c) s * per-cell array of shape mesh.n: nvdim={res.nvdim}")
except (ValueError, TypeError):
    pass
print("\n".join(problems))
assert not problems
