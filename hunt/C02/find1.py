# C02 find1 - wrongly shaped arrays are silently broadcast instead of being rejected
# Clause: "A specification of the wrong shape, component count or type is rejected and
#          leaves an existing field unchanged."  (also: stored value == per-cell array)
# Trigger: constructor / update_field_values / array setter with an array whose shape is
#   neither (nvdim,) [constant] nor (*n, nvdim) [per cell] (nor (*n,) for nvdim=1) but
#   whose LAST axis has length nvdim and whose leading axes happen to broadcast against
#   the trailing mesh axes, e.g. mesh.n=(2,3,4): nvdim=3 with shape (4,3), (3,4,3),
#   (1,1,1,3); nvdim=1 with shape (4,1); mesh.n=(3,3,3), nvdim=3 with a *scalar-field*
#   array of shape (3,3,3).
# Observed: accepted; np.full broadcasts it over the leading mesh axes and an existing
#   field is overwritten.  Expected: ValueError, field unchanged.
# Cause: field.py Field._as_array (Iterable overload, ~l.4324-4334) only checks
#   np.shape(val)[-1] == nvdim and then calls np.full((*mesh.n, nvdim), val).
# Repair: accept only np.shape(val) in {(nvdim,), (*mesh.n, nvdim)} (plus (*mesh.n,) for
#   nvdim == 1), otherwise raise ValueError.
import os, sys; sys.path.insert(0, os.getcwd())
import numpy as np
import discretisedfield as df

mesh = df.Mesh(p1=(0, 0, 0), p2=(2, 3, 4), cell=(1, 1, 1))
accepted = []
for nvdim, shape in [(3, (4, 3)), (3, (3, 4, 3)), (3, (1, 1, 1, 3)), (1, (4, 1))]:
    bad = np.arange(np.prod(shape), dtype=float).reshape(shape)
    for how in ("constructor", "update_field_values", "array setter"):
        f = df.Field(mesh, nvdim=nvdim, value=7.0 if nvdim == 1 else (7.0,) * nvdim)
        before = f.array.copy()
        try:
            if how == "constructor":
                df.Field(mesh, nvdim=nvdim, value=bad)
            elif how == "update_field_values":
                f.update_field_values(bad)
            else:
                f.array = bad
        except (ValueError, TypeError):
            assert np.array_equal(f.array, before)
            continue
        accepted.append((nvdim, shape, how, np.array_equal(f.array, before)))

cube = df.Mesh(p1=(0, 0, 0), p2=(3, 3, 3), cell=(1, 1, 1))
try:  # a scalar per-cell array given to a 3-component field
    g = df.Field(cube, nvdim=3, value=np.arange(27.0).reshape(3, 3, 3))
    accepted.append((3, (3, 3, 3), "constructor(cube)", None))
except (ValueError, TypeError):
    pass

for a in accepted:
    print("ACCEPTED wrong shape: nvdim=%s shape=%s via %s (field unchanged: %s)" % a)
assert not accepted, f"{len(accepted)} wrongly shaped specifications were accepted"
