# C02 find4 - Field.line loses the distance column, coordinates or components
# Clause: "sampling along a line returns the requested number of equidistant points from
#          p1 to p2 inclusive with the values at those points and their distance from p1".
# Triggers / observed (all: no error, wrong table):
#  (a) a region dimension is called "r" (e.g. dims=("r","z")): the coordinate column "r"
#      overwrites the distance column "r" -> distance from p1 is gone (data.r == coordinate).
#  (b) a multi-component field without labels (nvdim=2, vdims=[] -> vdims None): the Line
#      has a single value column "v" holding component 0, component 1 is dropped, although
#      line.dim == 2.
#  (c) dimension names equal to generated value column names (dims ("vx","vy"), vdims
#      x,y): the value columns overwrite the coordinate columns.
# Expected: n rows with r = |p_i - p1|, every coordinate and every component.
# Cause: field.py Field.line (~l.2948-2955) passes value_columns="v" (a str) when vdims is
#   None whatever nvdim is; line.py Line.__init__ (~l.115-120) writes "r", the point
#   columns and the value columns into ONE DataFrame without checking for name clashes,
#   and zip(range(values.shape[-1]), "v") silently stops after one column.
# Repair: value_columns = [f"v{d}" for d in vdims] if vdims else
#   (["v"] if nvdim == 1 else [f"v{i}" for i in range(nvdim)]); in Line.__init__ raise
#   (or rename) when {"r"} | point_columns | value_columns are not pairwise distinct.
import os, sys; sys.path.insert(0, os.getcwd())
import numpy as np
import discretisedfield as df

problems = []
# (a) dimension called "r"
mesh = df.Mesh(region=df.Region(p1=(1, 0), p2=(5, 2), dims=["r", "z"]), cell=(1, 1))
f = df.Field(mesh, nvdim=1, value=lambda p: p[0])
p1, p2 = np.array([1.0, 0.0]), np.array([5.0, 2.0])
line = f.line(p1, p2, n=3)
expected_r = [np.linalg.norm(i * (p2 - p1) / 2) for i in range(3)]
if not np.allclose(line.data["r"], expected_r):
    problems.append(f"(a) distance column: {list(line.data['r'])} expected {expected_r}")

# (b) unlabelled two-component field
mesh3 = df.Mesh(p1=(0, 0, 0), p2=(4, 2, 1), cell=(1, 1, 1))
g = df.Field(mesh3, nvdim=2, value=lambda p: (p[0], -p[0]), vdims=[])
line = g.line((0, 0, 0), (4, 2, 1), n=3)
ncols_values = line.data.shape[1] - 1 - 3
if ncols_values != 2:
    problems.append(f"(b) nvdim=2, vdims=None: columns {list(line.data.columns)}")

# (c) dims named like value columns
mesh = df.Mesh(region=df.Region(p1=(0, 0), p2=(4, 2), dims=["vx", "vy"]), cell=(1, 1))
h = df.Field(mesh, nvdim=2, value=lambda p: (10 + p[0], 20 + p[1]))
line = h.line((0, 0), (4, 2), n=3)
if line.data.shape[1] != 5:
    problems.append(f"(c) dims vx,vy: columns {list(line.data.columns)}")

print("\n".join(problems))
assert not problems
