# C02 find3 - the "default" entry of a per-subregion dictionary is never validated
# Clause: "A specification of the wrong shape, component count or type is rejected and
#          leaves an existing field unchanged."
# Trigger: dict value on a mesh with subregions, nvdim=3, non-callable "default" that is
#   (a) a non-zero scalar (5), (b) a 1-tuple (7,), (c) None, (d) an array of some
#   broadcastable shape such as (2, 1, 3) on a mesh with n=(4, 2, 1).
#   The very same objects ARE rejected as a plain constant value and as the value of a
#   named subregion (ValueError "Wrong dimension ..." / TypeError "Unsupported type").
# Observed: accepted; default cells become (5,5,5), (7,7,7), (nan,nan,nan) resp. a
#   broadcast pattern, and an existing field is overwritten by update_field_values.
# Expected: ValueError/TypeError, field unchanged.
# Cause: field.py Field._as_array dict overload (~l.4353-4356):
#   np.full((*mesh.n, nvdim), val["default"], dtype=dtype) uses the raw object.
# Repair: array = self._as_array(val["default"], mesh, nvdim, dtype) for the constant
#   default (it goes through the same checks as any other constant).
import os, sys; sys.path.insert(0, os.getcwd())
import numpy as np
import discretisedfield as df

sub = {"a": df.Region(p1=(0, 0, 0), p2=(2, 2, 1))}
mesh = df.Mesh(p1=(0, 0, 0), p2=(4, 2, 1), cell=(1, 1, 1), subregions=sub)

bad_defaults = {"scalar 5": 5, "1-tuple (7,)": (7,), "None": None,
                "array (2,1,3)": np.arange(6.0).reshape(2, 1, 3)}
accepted = []
for name, bad in bad_defaults.items():
    # sanity: the same object is refused as a plain value and as a subregion value
    for spec in (bad, {"a": bad, "default": (0, 0, 0)}):
        if name.startswith("array"):
            continue
        try:
            df.Field(mesh, nvdim=3, value=spec)
            raise SystemExit(f"unexpected: {name} accepted outside 'default'")
        except (ValueError, TypeError):
            pass
    f = df.Field(mesh, nvdim=3, value=(1, 2, 3))
    before = f.array.copy()
    try:
        f.update_field_values({"a": (1, 2, 3), "default": bad})
    except (ValueError, TypeError):
        assert np.array_equal(f.array, before)
        continue
    accepted.append(name)
    print(f"default={name}: ACCEPTED, default cell now {f.array[3, 0, 0]}, "
          f"field unchanged: {np.array_equal(f.array, before)}")
assert not accepted, f"wrong 'default' specifications accepted: {accepted}"
