# C02 find2 - a source field on a mesh whose dimension NAMES differ in order (or name)
#             gives silently scrambled values (or an xarray KeyError)
# Clause: "for a source field, the value [stored for a cell is that] of a source cell
#          containing that [cell's] centre, in an array of shape (*n, nvdim)".
# Trigger: value=<Field> where source and target regions coincide geometrically
#   (so `mesh.region in val.mesh.region` passes - Region.__contains__ ignores dims) but
#   region.dims differ: same names in another order, e.g. source ('x','y','z'), target
#   ('z','y','x'), and the target cell counts differ between the swapped axes
#   (here cell=(2,1,1) -> n=(2,4,4)); nvdim=1.
# Observed: a field is returned without any error, 29 of its 32 cells hold neither
#   source(cell centre) nor the value obtained by matching coordinates by name.
#   (With totally different names, e.g. ('a','b','c'), the call dies with a KeyError
#   from xarray instead of working or raising the documented ValueError.)
# Expected: array[idx] == source(target.index2point(idx)) for every cell (this is what
#   Field.__call__ gives), or a clean rejection.
# Cause: field.py `@Field._as_array.register(Field)` (~l.4403-4414): selects with
#   val.to_xarray().sel(**{dim: mesh.cells.<dim>}) BY NAME, the result keeps the SOURCE
#   axis order (x:4, y:4, z:2) and is then blindly `.reshape(*mesh.n, -1)` to (2,4,4,1).
# Repair: select positionally (zip(val.mesh.region.dims, mesh.cells)) - or compute
#   indices with val.mesh.point2index / np.searchsorted per axis - and never reshape
#   across axes; alternatively raise ValueError if mesh.region.dims != val.mesh.region.dims.
import os, sys; sys.path.insert(0, os.getcwd())
import numpy as np
import discretisedfield as df

src_mesh = df.Mesh(region=df.Region(p1=(0, 0, 0), p2=(4, 4, 4), dims=["x", "y", "z"]),
                   cell=(1, 1, 1))
src = df.Field(src_mesh, nvdim=1, value=lambda p: p[0] + 10 * p[1] + 100 * p[2])

tgt_mesh = df.Mesh(region=df.Region(p1=(0, 0, 0), p2=(4, 4, 4), dims=["z", "y", "x"]),
                   cell=(2, 1, 1))
try:
    f = df.Field(tgt_mesh, nvdim=1, value=src)
except ValueError as e:  # a clean rejection would be acceptable
    print("rejected:", e)
    sys.exit(0)

assert f.array.shape == (2, 4, 4, 1)
wrong = 0
for idx, centre in zip(tgt_mesh.indices, tgt_mesh):
    positional = src(centre)[0]                                # source cell containing centre
    by_name = src((centre[2], centre[1], centre[0]))[0]        # coordinates matched by name
    if f.array[idx][0] not in (positional, by_name):
        wrong += 1
print(f"{wrong} of {len(tgt_mesh)} cells match neither reading of the specification")
assert wrong == 0
