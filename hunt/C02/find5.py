# C02 find5 - sequences of strings / None are accepted as field values
# Clause: "A specification of the wrong shape, component count or type is rejected and
#          leaves an existing field unchanged."
# Trigger: dtype not given; value (constructor, update_field_values or array setter) is a
#   sequence of length nvdim - or a per-cell array - whose elements are str or None:
#   ["a","b","c"], ("1","2","3"), [None]*3, np.array(["a","b","c"]).
#   (A bare str IS rejected with TypeError "Unsupported type <class 'str'>".)
# Observed: accepted; Field.array gets dtype '<U1' resp. object, and an existing float
#   field is replaced by an array of strings.
# Expected: TypeError/ValueError, existing field unchanged.
# Cause: field.py Field._as_array Iterable overload (~l.4333):
#   dtype = dtype or max(np.asarray(val).dtype, np.float64) - for non-numeric dtypes the
#   comparison is False both ways, so max() returns the first argument ('<U1' / object).
# Repair: after np.asarray(val), raise TypeError unless its dtype.kind is in "biufc";
#   (the callable and dict overloads already fail for such values because they write
#   into a float array).
import os, sys; sys.path.insert(0, os.getcwd())
import numpy as np
import discretisedfield as df

mesh = df.Mesh(p1=(0, 0, 0), p2=(2, 2, 1), cell=(1, 1, 1))
accepted = []
for bad in (["a", "b", "c"], ("1", "2", "3"), [None, None, None],
            np.array(["a", "b", "c"]), np.full((2, 2, 1, 3), "q")):
    f = df.Field(mesh, nvdim=3, value=(1.0, 2.0, 3.0))
    before = f.array.copy()
    try:
        f.update_field_values(bad)
    except (TypeError, ValueError):
        assert np.array_equal(f.array, before)
        continue
    accepted.append(repr(bad)[:30])
    print(f"value={bad!r:.30}: ACCEPTED, array dtype {f.array.dtype}, cell 0: {f.array[0, 0, 0]}")
assert not accepted, f"non-numeric specifications accepted: {accepted}"
