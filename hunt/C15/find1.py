# C15 finding 1: norm given as a function of position (or Field) that READS the field
# being rescaled sees the already-normalised values -> wrong length.
#
# Clause violated: "After a norm is set to a ... function of position, every cell whose
#   vector was non-zero has exactly that length".
# Trigger: `f.norm = spec` where spec is a callable (a python function or a Field, which
#   is callable) whose value depends on f itself, e.g. "double the length":
#   f.norm = lambda p: 2 * |f(p)|, or for a positive scalar field f.norm = f (a no-op).
# Observed: (0,3,4) with target 2*5=10 ends with length 2; scalar 5 with f.norm = f
#   ends as 1.  Expected: length 10; value 5.
# Cause: field.py norm setter (l.534-542) first overwrites self.array with the unit
#   vectors and only THEN evaluates `self._as_array(val, ...)`; the spec is therefore
#   evaluated against the mutated field.
# Repair: evaluate the target first:
#       target = self._as_array(val, self.mesh, nvdim=1, dtype=None)
#       self.array = np.divide(...);  self.array *= target
import os, sys; sys.path.insert(0, os.getcwd())
import numpy as np
import discretisedfield as df

mesh = df.Mesh(p1=(0, 0, 0), p2=(2, 1, 1), n=(2, 1, 1))

f = df.Field(mesh, nvdim=3, value=(0, 3, 4))
expected = {tuple(p): 2 * np.linalg.norm(f(p)) for p in mesh}  # 10 everywhere
f.norm = lambda p: 2 * np.linalg.norm(f(p))
got = np.linalg.norm(f.array, axis=-1).ravel()
print("function reading f: lengths", got, "expected", list(expected.values()))

s = df.Field(mesh, nvdim=1, value=5.0)
s.norm = s  # |s| == s: must leave the field unchanged
print("scalar s.norm = s:", s.array.ravel(), "expected [5. 5.]")

assert np.allclose(got, 10.0), "norm from function of position not honoured"
assert np.allclose(s.array, 5.0), "s.norm = s changed a positive scalar field"
