# C15 finding 2: integer / unsigned / Boolean dtype fields cannot have a norm set and
# have no orientation: UFuncTypeError from np.divide.
#
# Clause violated: "After a norm is set to a constant ... every cell whose vector was
#   non-zero has exactly that length" and "the orientation has unit length wherever the
#   field is non-zero" -- quantifier: all fields with 1-4 components (dtype unrestricted).
# Trigger: Field(..., dtype=int|np.int32|np.uint8|bool) and then  f.norm = c,
#   Field(..., dtype=int, norm=c)  or  f.orientation.  The example is exactly
#   representable in int: (0,0,2) -> norm 4 -> (0,0,4); orientation (0,0,1).
# Observed: numpy UFuncTypeError "Cannot cast ufunc 'divide' output from float64 to int64"
#   (f.norm getter works and returns 2.0).  Expected: (0,0,4) / (0,0,1).
# Cause: field.py l.536-541 and l.683-688 use `out=np.zeros_like(self.array)`, i.e. an
#   integer output buffer for a true division.
# Repair: out=np.zeros(self.array.shape, dtype=np.result_type(self.array, np.float64))
#   (orientation returns a new field, so a float result is natural; the setter then
#   casts back through the array setter or should raise a clear TypeError).
import os, sys; sys.path.insert(0, os.getcwd())
import numpy as np
import discretisedfield as df

mesh = df.Mesh(p1=(0, 0, 0), p2=(2, 1, 1), n=(2, 1, 1))
val = np.array([[[[0, 0, 2]]], [[[0, 0, 0]]]])
errors = []
for dt in (int, np.int32, np.uint8, bool):
    f = df.Field(mesh, nvdim=3, value=val, dtype=dt)
    assert np.allclose(f.norm.array.ravel(), [2 if dt is not bool else 1, 0])
    try:
        o = f.orientation
        assert np.allclose(o.array.ravel(), [0, 0, 1, 0, 0, 0])
    except Exception as e:
        errors.append((dt.__name__, "orientation", type(e).__name__))
    try:
        f.norm = 4
        assert np.allclose(f.array.ravel(), [0, 0, 4, 0, 0, 0]) or dt is bool
    except Exception as e:
        errors.append((dt.__name__, "norm setter", type(e).__name__))
    try:
        df.Field(mesh, nvdim=3, value=val, dtype=dt, norm=4)
    except Exception as e:
        errors.append((dt.__name__, "constructor norm=", type(e).__name__))
for e in errors:
    print(e)
assert not errors, f"{len(errors)} crashes on integer/Boolean fields"
