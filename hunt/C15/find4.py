# C15 finding 4 (minor): a constant norm given as a 0-d numpy array crashes.
#
# Clause violated: "After a norm is set to a constant ..." -- np.float64(3) and 3 work,
#   np.array(3.0) / np.asarray(x) (what e.g. arr.max(keepdims=False) on a 0-d array,
#   xarray reductions `.values`, or np.asarray(some_float) return) raises IndexError
#   "tuple index out of range" -- and, because of finding 3, leaves the field normalised.
# Cause: field.py _as_array Iterable branch (l.4324-4328): np.ndarray is registered as
#   Iterable, `np.shape(val)[-1]` on shape () fails.
# Repair: treat `np.ndim(val) == 0` like a number (skip the shape checks).
import os, sys; sys.path.insert(0, os.getcwd())
import numpy as np
import discretisedfield as df

mesh = df.Mesh(p1=(0, 0, 0), p2=(2, 1, 1), n=(2, 1, 1))
f = df.Field(mesh, nvdim=3, value=(1, 2, 2))
f.norm = np.float64(6.0)
assert np.allclose(f.array, (2, 4, 4))
try:
    f.norm = np.array(3.0)
except Exception as e:
    print("0-d array norm:", type(e).__name__, e, "| field now", f.array[0, 0, 0])
    raise AssertionError("constant norm as 0-d array rejected") from e
assert np.allclose(f.array, (1, 2, 2))
