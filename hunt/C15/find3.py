# C15 finding 3: a REJECTED norm assignment still rescales the field to unit length.
#
# Clause (my reading): the statement describes the effect of a norm that "is set"; a
#   specification that is refused (TypeError / ValueError) has not been set, so the field
#   must keep its values ("a rejected call followed by a valid one" history).
# Trigger: f.norm = <anything _as_array refuses>: a str, an array of the wrong shape, a
#   function returning the wrong number of values or raising, a Field on a region that
#   does not cover the mesh.
# Observed: exception is raised AND f.array has been replaced by the unit vectors
#   ((0,3,4) -> (0,0.6,0.8)); all magnitudes are silently lost.
# Expected: exception and f unchanged.
# Cause: same as finding 1 -- field.py l.536-542 normalises self.array before
#   `self._as_array(val, ...)` validates/converts the specification.
# Repair: compute `target = self._as_array(val, self.mesh, nvdim=1, dtype=None)` first.
import os, sys; sys.path.insert(0, os.getcwd())
import numpy as np
import discretisedfield as df

mesh = df.Mesh(p1=(0, 0, 0), p2=(2, 1, 1), n=(2, 1, 1))
other = df.Field(df.Mesh(p1=(5, 5, 5), p2=(6, 6, 6), n=(1, 1, 1)), nvdim=1, value=2)


def boom(p):
    raise RuntimeError("no norm here")


bad = {"str": "2", "wrong shape": np.ones((3, 3)), "3 values": lambda p: (1, 2, 3),
       "raising function": boom, "field elsewhere": other}
changed = []
for name, spec in bad.items():
    f = df.Field(mesh, nvdim=3, value=(0, 3, 4))
    before = f.array.copy()
    try:
        f.norm = spec
    except Exception as e:
        print(f"{name}: rejected with {type(e).__name__}; field now {f.array[0, 0, 0]}")
    else:
        raise AssertionError(f"{name} unexpectedly accepted")
    if not np.array_equal(f.array, before):
        changed.append(name)
assert not changed, f"rejected norm assignment modified the field: {changed}"
