# C16 finding 5 -- clauses: "the text form keeps ten significant digits of every coordinate and
#   value" and "exactly for binary and XML" (values); hostile class "integer / float32 dtypes".
# Trigger A: field with dtype=np.float32, representation="txt".  VTK's legacy ASCII writer
#   prints vtkFloatArray with "%g" = 6 significant digits (doubles get 11), so values come back
#   with a relative error of ~1e-6 -- more than the float32 precision itself (6e-8), i.e. real
#   information is lost: 0.33333334 -> 0.333333.
# Trigger B: field with dtype=np.int64 holding values above 2**53, representation "bin"/"xml".
#   The file holds the exact integers (vtkLongArray), but _from_vtk builds the Field without
#   dtype, Field._as_array promotes to float64 and the values change (2**53+1 -> 2**53).
#   (The dtype of every integer/float32 field changes to float64 on reading.)
# Observed: A: max rel. error 1.0e-6 (allowed 1e-10); B: 9007199254740993 -> 9007199254740992.
# Expected: A: |g-f| <= 1e-10 |f|;  B: identical integers.
# Cause: A: field.py Field.to_vtk hands the float32 array to numpy_to_vtk unchanged, and
#   io/vtk.py uses SetFileTypeToASCII.  B: io/vtk.py _from_vtk
#   `cls(mesh, nvdim=dim, value=value, ...)` without dtype=value.dtype.
# Minimal repair: A: for representation == "txt" convert float32 data to float64 before
#   writing (e.g. to_vtk(dtype=float) / astype(float)).  B: pass dtype=value.dtype.
import os, sys; sys.path.insert(0, os.getcwd())
import tempfile
import numpy as np
import discretisedfield as df

tmp = tempfile.mkdtemp()
mesh = df.Mesh(p1=(0, 0, 0), p2=(4, 3, 2), n=(4, 3, 2))
errors = []
vA = np.random.default_rng(0).uniform(0.1, 1, size=(4, 3, 2, 3)).astype(np.float32)
fA = df.Field(mesh, nvdim=3, value=vA, dtype=np.float32)
fn = os.path.join(tmp, "A.vtk")
fA.to_file(fn, representation="txt")
gA = df.Field.from_file(fn)
rel = np.max(np.abs(gA.array.astype(float) - vA.astype(float)) / np.abs(vA.astype(float)))
if rel > 1e-10:
    errors.append(f"A txt/float32: max relative error {rel:.2e} > 1e-10")
vB = np.full((4, 3, 2, 1), 2**53 + 1, dtype=np.int64)
fB = df.Field(mesh, nvdim=1, value=vB, dtype=np.int64)
for rep in ["bin", "xml"]:
    fn = os.path.join(tmp, f"B_{rep}.vtk")
    fB.to_file(fn, representation=rep)
    gB = df.Field.from_file(fn)
    if int(gB.array.flat[0]) != int(vB.flat[0]):
        errors.append(f"B {rep}/int64: wrote {int(vB.flat[0])} read {int(gB.array.flat[0])} ({gB.array.dtype})")
assert not errors, "\n".join(errors)
print("ok")
