# C16 finding 3 -- clauses: "reading it back returns the same ... component labels" and
#   "[the grid] carries the field value, the per-component scalars ..." for "fields with 1-4
#   components, any labels".
# Trigger A: scalar field (nvdim=1) that has a label, e.g. vdims=["T"].  Field.to_vtk only
#   writes label-named arrays for nvdim>1, so the label is not in the grid/file; the reader
#   returns vdims=None.  All three representations.
# Trigger B: a vector field one of whose labels is "field" (accepted by the constructor, it is
#   not an attribute name), e.g. vdims=["field","b","c"].  to_vtk first adds the scalar array
#   "field" (component 0) and then AddArray()s the 3-component array with the same name, which
#   REPLACES it: the grid has no per-component scalar for component "field"; the reader then
#   finds only 2 label arrays != 3 components and silently falls back to ['x','y','z'].
# Observed: A: g.vdims is None (expected ['T']).  B: grid arrays = norm,field(3 comp),b,c,valid;
#   g.vdims == ['x','y','z'] (expected ['field','b','c']).
# Cause: field.py Field.to_vtk `if self.nvdim > 1:` around the component arrays, and fixed
#   array names "field"/"norm"/"valid" sharing one namespace with user labels;
#   io/vtk.py _from_vtk `if len(vdims) != dim: vdims = None`.
# Minimal repair: write the label array also for nvdim == 1 when vdims is not None (reader
#   already handles it), and reject/escape labels equal to "field" (e.g. in the vdims setter or
#   raise in to_vtk) -- or store the labels as component names of the "field" array
#   (vtkDataArray.SetComponentName) and read them from there.
import os, sys; sys.path.insert(0, os.getcwd())
import tempfile
import numpy as np
import discretisedfield as df

tmp = tempfile.mkdtemp()
mesh = df.Mesh(p1=(0, 0, 0), p2=(4, 3, 2), n=(4, 3, 2))
rng = np.random.default_rng(0)
errors = []
fA = df.Field(mesh, nvdim=1, value=rng.normal(size=(4, 3, 2, 1)), vdims=["T"])
fB = df.Field(mesh, nvdim=3, value=rng.normal(size=(4, 3, 2, 3)), vdims=["field", "b", "c"])
cd = fB.to_vtk().GetCellData()
names = [cd.GetArrayName(i) for i in range(cd.GetNumberOfArrays())]
comps = [cd.GetArray(i).GetNumberOfComponents() for i in range(cd.GetNumberOfArrays())]
if sorted(zip(names, comps)) != sorted([("norm", 1), ("field", 1), ("b", 1), ("c", 1), ("field", 3), ("valid", 1)]):
    errors.append(f"B grid: per-component scalar of label 'field' missing: {list(zip(names, comps))}")
for tag, f in [("A", fA), ("B", fB)]:
    for rep in ["bin", "txt", "xml"]:
        fn = os.path.join(tmp, f"{tag}_{rep}.vtk")
        f.to_file(fn, representation=rep)
        g = df.Field.from_file(fn)
        assert np.allclose(g.array, f.array, rtol=1e-9)
        if g.vdims != f.vdims:
            errors.append(f"{tag} {rep}: labels written {f.vdims} read {g.vdims}")
assert not errors, "\n".join(errors)
print("ok")
