# C16 finding 2 -- clause: "Writing it in binary, text or XML form and reading it back returns
#   the same ... subregions" ("with or without subregions"; history: same file name used twice).
# Trigger: a field WITH subregions is written to <name>.vtk (creates <name>.vtk.subregions.json);
#   later a field WITHOUT subregions (or with save_subregions=False) is written to the same
#   file name.  _to_vtk only writes the json side-car when there are subregions and never
#   removes an old one, _from_vtk loads whatever side-car exists.
# Observed: (a) the second field is read back with the first field's subregions
#   ({'r1': ..., 'r2': ...} instead of {}), silently; (b) if the second mesh has a different
#   geometry, Field.from_file raises ValueError("Subregion r1 cannot be divided into
#   discretisation cells ...") although a perfectly valid file was just written.
# Expected: g.mesh.subregions == {} in both cases.
# Cause: discretisedfield/io/vtk.py _to_vtk:  `if save_subregions and self.mesh.subregions:
#   self.mesh.save_subregions(filename)` -- no else branch.
# Minimal repair: else: pathlib.Path(self.mesh._subregion_filename(filename)).unlink(
#   missing_ok=True)  (or always write the json, also for an empty dict, when
#   save_subregions=True).
import os, sys; sys.path.insert(0, os.getcwd())
import tempfile
import discretisedfield as df

tmp = tempfile.mkdtemp()
fn = os.path.join(tmp, "state.vtk")
sub = {
    "r1": df.Region(p1=(0, 0, 0), p2=(2, 3, 2)),
    "r2": df.Region(p1=(2, 0, 0), p2=(4, 3, 2)),
}
m1 = df.Mesh(p1=(0, 0, 0), p2=(4, 3, 2), n=(4, 3, 2), subregions=sub)
df.Field(m1, nvdim=1, value=1.0).to_file(fn)
assert df.Field.from_file(fn).mesh.subregions == m1.subregions

errors = []
# (a) same geometry, no subregions
m2 = df.Mesh(p1=(0, 0, 0), p2=(4, 3, 2), n=(4, 3, 2))
f2 = df.Field(m2, nvdim=1, value=2.0)
f2.to_file(fn)
g2 = df.Field.from_file(fn)
if g2.mesh.subregions != {}:
    errors.append(f"(a) stale subregions read back: {list(g2.mesh.subregions)}")
# (b) different geometry, no subregions
m3 = df.Mesh(p1=(0, 0, 0), p2=(8, 3, 2), n=(2, 3, 2))
df.Field(m3, nvdim=1, value=3.0).to_file(fn)
try:
    g3 = df.Field.from_file(fn)
    if g3.mesh.subregions != {}:
        errors.append("(b) stale subregions read back")
except ValueError as e:
    errors.append(f"(b) from_file raised: {e}")
assert not errors, "\n".join(errors)
print("ok")
