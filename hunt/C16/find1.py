# C16 finding 1 -- clause: "Writing it in ... text ... form and reading it back returns the
#   same region, cell counts, values, validity, component labels and SUBREGIONS (... the text
#   form keeps ten significant digits of every coordinate ...)".
# Trigger: representation="txt", mesh has a subregion that touches the region boundary (e.g.
#   the usual "left/right half" split) and the boundary coordinate is not exactly representable
#   with the 11 significant digits VTK's ASCII writer emits (1/3, 5e-9/3, anything computed).
#   With random anisotropic meshes this hit 196 of 200 cases, including offset 0.
# Observed: Field.from_file raises ValueError("Subregion right is not in the mesh region.")
#   (at |coordinate|/cell ~ 1e6 also "... cannot be divided into discretisation cells").
#   The file cannot be read at all unless the json side-car is deleted by hand.
# Expected: field is read; subregions equal the written ones to ten significant digits.
# Cause: io/vtk.py _from_vtk builds the mesh from the ROUNDED bounds of the ASCII file
#   (p1/p2 = output.GetBounds()) and then mesh.load_subregions() feeds the UNROUNDED
#   full-precision json corners into the Mesh.subregions setter, whose containment test uses
#   tolerance_factor=1e-12 relative to the edge length; the 1e-11 rounding of the region is
#   outside that.  Only FileNotFoundError is suppressed.
# Minimal repair: in _from_vtk, when subregions are loaded, snap the region to the subregion
#   data / or clip the loaded subregion corners to the region (np.clip(pmin/pmax, p1, p2)) and
#   snap them to the nearest mesh vertex before assigning; alternatively store the region in the
#   json file too and use it in place of the rounded bounds.
import os, sys; sys.path.insert(0, os.getcwd())
import tempfile
import numpy as np
import discretisedfield as df

p1, p2, n = (0, 0, 0), (1 / 3, 1, 1), (2, 1, 1)
sub = {
    "left": df.Region(p1=(0, 0, 0), p2=(1 / 6, 1, 1)),
    "right": df.Region(p1=(1 / 6, 0, 0), p2=(1 / 3, 1, 1)),
}
mesh = df.Mesh(p1=p1, p2=p2, n=n, subregions=sub)
f = df.Field(mesh, nvdim=3, value=(1, 2, 3))
tmp = tempfile.mkdtemp()
for rep in ["bin", "xml", "txt"]:
    fn = os.path.join(tmp, f"f_{rep}.vtk")
    f.to_file(fn, representation=rep)
    try:
        g = df.Field.from_file(fn)
    except ValueError as e:
        raise AssertionError(f"{rep}: reading back failed: {e}") from e
    assert list(g.mesh.subregions) == ["left", "right"], rep
    for k in sub:
        assert np.allclose(g.mesh.subregions[k].pmin, sub[k].pmin, rtol=1e-9, atol=0)
        assert np.allclose(g.mesh.subregions[k].pmax, sub[k].pmax, rtol=1e-9, atol=0)
print("ok")
