# C16 finding 4 -- clause: "Writing it in binary, text or XML form and reading it back returns
#   the SAME REGION ... (exactly for binary and XML ...)"; hostile class "renamed dimensions",
#   "nanometre scales" (units).
# Trigger: the field's region has non-default dims and/or units, e.g.
#   df.Region(p1, p2, dims=("a","b","c"), units=("nm","nm","nm")).  Neither is stored in the
#   VTK file (nor, for the mesh region, in the json side-car), the reader builds
#   df.Mesh(p1=p1, p2=p2, n=n) with default dims x,y,z and units m.
# Observed: g.mesh.region != f.mesh.region (Region.__eq__ compares dims and units) for all
#   three representations; g.mesh.region.units == ('m','m','m'), i.e. a 4 nm wide sample comes
#   back 4 m wide; subregions are silently re-labelled x,y,z / m as well, and the derived
#   vdim_mapping changes from {'u':'a',...} to {'u':'x',...}.
# Expected: same region (coordinates, dims, units), as for the HDF5 format.
# Cause: io/vtk.py _from_vtk `mesh = df.Mesh(p1=p1, p2=p2, n=n)`; nothing in _to_vtk/to_vtk
#   records dims/units.
# Minimal repair: store dims/units as vtk field data (vtkStringArray in rgrid.GetFieldData())
#   in Field.to_vtk and pass them to df.Region(...) in _from_vtk when present.
# How I read the clause: "same region" == Region.__eq__, which is what
#   `field_read == field`-style checks and the documented doctest rely on.
import os, sys; sys.path.insert(0, os.getcwd())
import tempfile
import numpy as np
import discretisedfield as df

tmp = tempfile.mkdtemp()
region = df.Region(p1=(0, 0, 0), p2=(4, 3, 2), dims=("a", "b", "c"), units=("nm", "nm", "nm"))
mesh = df.Mesh(region=region, n=(4, 3, 2))
f = df.Field(mesh, nvdim=3, value=np.random.default_rng(0).normal(size=(4, 3, 2, 3)))
errors = []
for rep in ["bin", "xml", "txt"]:
    fn = os.path.join(tmp, f"f_{rep}.vtk")
    f.to_file(fn, representation=rep)
    g = df.Field.from_file(fn)
    assert np.allclose(g.array, f.array, rtol=1e-9)
    if g.mesh.region != f.mesh.region:
        errors.append(
            f"{rep}: region differs: dims {g.mesh.region.dims} vs {f.mesh.region.dims},"
            f" units {g.mesh.region.units} vs {f.mesh.region.units}"
        )
assert not errors, "\n".join(errors)
print("ok")
