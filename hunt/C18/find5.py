# C18 finding 5 - renamed dimensions: the rotated field lives on a default-named mesh
#   ('x','y','z', units 'm') but keeps the ORIGINAL component-to-axis mapping, which now
#   points at axes that do not exist; it therefore does not coincide with rotate90.
# Clause: "for cubic cells a quarter turn about a coordinate axis coincides with the
#   lattice rotation of C12" and (quantifier) "permuted component-to-axis mappings";
#   hostile class "renamed dimensions, units".  Lower confidence: the statement does not
#   spell out dims/units of the result, but a result whose mapping names non-existent
#   axes is not a usable "3-vector field with complete mapping" any more.
# Trigger: region dims=('a','b','c') (any names other than x,y,z), units 'nm'.
# Observed: result.mesh.region.dims == ('x','y','z'), units ('m','m','m'),
#   result.vdim_mapping == {'ma':'a','mb':'b','mc':'c'}; result.div raises, a second
#   FieldRotator(result) is refused, Field.allclose(rotate90 result) raises
#   "The mesh dimensions do not match".  Also dropped: field.unit ('A/m' -> None),
#   valid mask (all True although rotate90 carries the mask), dtype.
# Expected: same dims/units as the input (as rotate90 gives), mapping consistent.
# Cause: field_rotator.py _calculate_new_region builds df.Region(p1=..., p2=...) without
#   dims=/units=/tolerance_factor=, rotate() builds df.Field without unit=.
# Repair: df.Region(p1=..., p2=..., dims=orig.mesh.region.dims,
#   units=orig.mesh.region.units, tolerance_factor=orig.mesh.region.tolerance_factor)
#   and pass unit=self._orig_field.unit to df.Field.
import os, sys; sys.path.insert(0, os.getcwd())
import numpy as np
import discretisedfield as df

region = df.Region(p1=(0, 0, 0), p2=(4e-9, 3e-9, 2e-9), dims=("a", "b", "c"), units=("nm",) * 3)
mesh = df.Mesh(region=region, cell=(1e-9, 1e-9, 1e-9))
field = df.Field(mesh, nvdim=3, value=lambda p: (p[0] * 1e9, 2, 3), vdims=["ma", "mb", "mc"], unit="A/m")

lattice = field.rotate90("a", "b")
fr = df.FieldRotator(field)
fr.rotate("from_euler", seq="z", angles=np.pi / 2)
rot = fr.field
assert np.allclose(rot.array, lattice.array)  # the numbers agree ...
print("dims", rot.mesh.region.dims, "units", rot.mesh.region.units, "unit", rot.unit)
print("mapping", rot.vdim_mapping)
# ... but the result's mapping must refer to axes of its own mesh
assert all(ax in rot.mesh.region.dims for ax in rot.vdim_mapping.values()), (
    f"mapping {rot.vdim_mapping} names axes missing from {rot.mesh.region.dims}"
)
assert rot.mesh.region.dims == lattice.mesh.region.dims
assert rot.mesh.region.units == lattice.mesh.region.units
assert rot.unit == lattice.unit
assert lattice.allclose(rot)
