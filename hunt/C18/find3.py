# C18 finding 3 - complex-valued fields lose their imaginary part.
# Clause: "a cell whose back-rotated centre lies at least one cell inside ... carries Q
#   applied to the linear interpolation of the original ... so uniform fields become
#   Q*v and linear scalar fields are reproduced exactly"; quantifier "for all scalar
#   and 3-vector fields on 3-d meshes" (dtype is not restricted; complex is a
#   supported Field dtype).
# Trigger: FieldRotator(Field(..., dtype=complex)).rotate(<any rotation>), scalar or vector.
# Observed: only a numpy ComplexWarning; the rotated scalar field equals the REAL part
#   of the linear field (imaginary part dropped), result dtype float64.  For vector
#   fields the imaginary part is already dropped inside scipy's Rotation.apply.
# Expected: x + 2j*y reproduced exactly at interior cells (or a refusal in __init__).
# Cause: field_rotator.py _map_and_interpolate: `result = np.ndarray(shape=[...])`
#   is float64 and `result[..., i] = interpolator(...)` casts; rotate():
#   self._rotation.apply(array) casts to float; the new df.Field gets no dtype.
# Repair: allocate result with dtype=rot_field.dtype (np.result_type(float, dtype)),
#   rotate real and imaginary part separately (apply(a.real) + 1j*apply(a.imag)),
#   or raise in __init__ for complex fields.
import os, sys; sys.path.insert(0, os.getcwd())
import warnings
import numpy as np
import discretisedfield as df
from scipy.spatial.transform import Rotation

warnings.simplefilter("ignore")
mesh = df.Mesh(p1=(-4, -3, -2), p2=(4, 3, 2), cell=(1, 1, 1))
lin = lambda p: p[0] + 2j * p[1]
field = df.Field(mesh, nvdim=1, value=lin, dtype=complex)
quat = Rotation.from_euler("xyz", [0.3, 0.5, -0.2]).as_quat()
Q = Rotation.from_quat(quat).as_matrix()

fr = df.FieldRotator(field)
fr.rotate("from_quat", quat)
rot = fr.field
checked = 0
for idx in np.ndindex(*rot.mesh.n):
    point, value = rot.mesh.index2point(idx), rot.array[idx][0]
    back = Q.T @ (np.array(point) - mesh.region.center) + mesh.region.center
    if np.all(back >= mesh.region.pmin + 1) and np.all(back <= mesh.region.pmax - 1):
        checked += 1
        assert abs(value - lin(back)) < 1e-9, (point, value, lin(back))
print("checked", checked)
