# C18 finding 2 - a REJECTED rotate() call still changes the accumulated rotation.
# Clause: "Successive rotations compose, always starting from the original field with
#   later rotations applied after earlier ones" (history: a rejected call followed by
#   a valid one).  A call that raised and produced no field is not a rotation that was
#   applied; FieldRotator.field is still the old field after it.
# Trigger: rotate(<valid rotation>, n=<invalid n>) -> ValueError/TypeError from df.Mesh
#   (n=(0,1,1), n=(2,2), n=(1.5,2,2), n='abc', ...), then any valid rotate().
#   (Same for a field whose mapping makes the vector step raise, see find4.)
# Observed: after the rejected Rx(0.7) call, rotate(Rz(0.2)) returns the field rotated
#   by Rz(0.2)*Rx(0.7) (different region, different values) instead of Rz(0.2);
#   .field in between is still the unrotated original, so the state is inconsistent.
# Expected: field identical to that of a fresh rotator rotated by Rz(0.2) only.
# Cause: field_rotator.py rotate(): `self._rotation = rotation * self._rotation` is
#   executed before the new region/mesh/values are built (which may raise).
# Repair: compute into a local (new_rotation = rotation * self._rotation), use it for
#   region, n, vectors and interpolation, and assign self._rotation together with
#   self._rotated_field at the very end.
import os, sys; sys.path.insert(0, os.getcwd())
import numpy as np
import discretisedfield as df

mesh = df.Mesh(p1=(0, 0, 0), p2=(8, 6, 4), cell=(1, 1, 1))
field = df.Field(mesh, nvdim=3, value=lambda p: (p[0], 2 * p[1] - p[2], 1 + p[0] * p[1]))

fresh = df.FieldRotator(field)
fresh.rotate("from_euler", seq="z", angles=0.2)
expected = fresh.field

fr = df.FieldRotator(field)
try:
    fr.rotate("from_euler", seq="x", angles=0.7, n=(0, 1, 1))
except ValueError as e:
    print("rejected as it should be:", e)
else:
    raise SystemExit("n=(0,1,1) unexpectedly accepted")
assert fr.field is field  # nothing was rotated
fr.rotate("from_euler", seq="z", angles=0.2)
got = fr.field
print("expected region", expected.mesh.region.pmin, expected.mesh.region.pmax, expected.mesh.n)
print("got      region", got.mesh.region.pmin, got.mesh.region.pmax, got.mesh.n)
assert np.allclose(got.mesh.region.pmin, expected.mesh.region.pmin), "rejected call leaked into the rotation"
assert np.array_equal(got.mesh.n, expected.mesh.n)
assert np.allclose(got.array, expected.array)
