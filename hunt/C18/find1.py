# C18 finding 1 - 'align_vector' rotation depends on the LENGTH of initial/final.
# Clause: "Rotating a field by any 3-d rotation Q ... carries Q applied to ..." with
#   the quantifier "all rotations given as ... vector alignment"; "uniform fields
#   become the uniform field Q*v".  The docstring defines Q for align_vector as the
#   rotation taking the direction `initial` to the direction `final` about their cross
#   product, so Q cannot depend on |initial|, |final|.
# Trigger: rotate('align_vector', initial=a, final=b) with |a||b| far from 1, e.g.
#   vectors of magnetisation size (8e5) or nanometre size (1e-9).
# Observed: (a) a=(0,0,Ms), b=(Ms,Ms,0), Ms=8e5: uniform field (0,0,Ms) gets a z
#   component of about -30 (3.8e-5 relative) instead of 0 and Q differs from the true
#   rotation by ~1e-4 rad; (b) the same directions scaled to 1e-9 give a completely
#   different rotation (arbitrary turn about `final`, only a scipy UserWarning).
# Expected: same field as with unit-length vectors (to rounding).
# Cause: field_rotator.py rotate(): fixed = np.cross(initial, final);
#   Rotation.align_vectors([final, fixed], [initial, fixed]) - the Kabsch matrix has
#   singular values |a||b| and (|a||b| sin)^2, whose ratio underflows/overflows eps.
# Repair: normalise first, e.g. initial = initial/norm(initial); final = final/norm(final)
#   (or build Rotation.from_rotvec(axis*atan2(|cross|, dot)) directly).
import os, sys; sys.path.insert(0, os.getcwd())
import warnings
import numpy as np
import discretisedfield as df

warnings.simplefilter("ignore")
Ms = 8e5
mesh = df.Mesh(p1=(0, 0, 0), p2=(6, 6, 6), cell=(1, 1, 1))
field = df.Field(mesh, nvdim=3, value=(0, 0, Ms))

def rotated(initial, final):
    fr = df.FieldRotator(field)
    fr.rotate("align_vector", initial=initial, final=final, n=(7, 7, 7))
    return fr.field.array

ref = rotated((0, 0, 1), (1, 1, 0))  # unit-size vectors: correct
centre = ref[3, 3, 3]
assert np.allclose(centre, Ms * np.array([1, 1, 0]) / np.sqrt(2), atol=1e-9 * Ms), centre

big = rotated((0, 0, Ms), (Ms, Ms, 0))
print("Ms-sized vectors, centre cell:", big[3, 3, 3], "max dev", np.abs(big - ref).max())
small = rotated((0, 0, 1e-9), (1e-9, 1e-9, 0))
a, b = np.array([1.0, 2, 3]), np.array([3.0, -1, 0.5])
gen_ref = rotated(a, b)
gen_small = rotated(a * 1e-9, b * 1e-9)
print("nm-sized generic vectors, max dev", np.abs(gen_small - gen_ref).max())

assert np.allclose(big, ref, atol=1e-9 * Ms), "align_vector depends on |initial|,|final| (Ms scale)"
assert np.allclose(small, ref, atol=1e-9 * Ms), "align_vector depends on vector length (nm scale)"
assert np.allclose(gen_small, gen_ref, atol=1e-9 * Ms), "align_vector depends on vector length (nm)"
