# C18 finding 4 - incomplete (non-injective) component-to-axis mapping is not refused.
# Clause: "Fields that are not scalar or 3-vector on a 3-d mesh with a complete
#   component-to-axis mapping are refused."  I read "complete" as: every mesh axis has
#   exactly one component, i.e. the mapping is a bijection vdims -> dims.
# Trigger: 3-vector field with vdim_mapping={'x': 'x', 'y': 'x', 'z': 'z'} (two
#   components mapped to the same axis, axis 'y' has no component).  Every key is
#   present and every value is a dim, so the constructor loop passes.
# Observed: FieldRotator(field) is constructed without complaint; the first rotate()
#   dies with the unrelated "ValueError: None is not in list" from
#   vdims.index(_r_dim_mapping['y']) - and by then self._rotation was already updated
#   (see find2), so repr(rotator) reports a rotation while .field is unrotated.
# Expected: ValueError from FieldRotator.__init__ (like for {} or a None value).
# Cause: field_rotator.py __init__ checks only "vdim in mapping" and "mapping[vdim] in
#   dims", not that the mapped axes are all different / cover all dims.
# Repair: add e.g.
#   if sorted(field.vdim_mapping.values()) != sorted(field.mesh.region.dims): raise ValueError
import os, sys; sys.path.insert(0, os.getcwd())
import numpy as np
import discretisedfield as df

mesh = df.Mesh(p1=(0, 0, 0), p2=(4, 3, 2), cell=(1, 1, 1))
field = df.Field(mesh, nvdim=3, value=(1, 2, 3), vdim_mapping={"x": "x", "y": "x", "z": "z"})
try:
    fr = df.FieldRotator(field)
except ValueError as e:
    print("refused:", e)
    sys.exit(0)
print("constructor accepted the incomplete mapping", field.vdim_mapping)
try:
    fr.rotate("from_euler", seq="x", angles=0.3)
    print("... and rotated:", fr.field.mean())
except Exception as e:
    print("... rotate() then fails with", type(e).__name__, ":", e)
    print("accumulated rotation is now", fr._rotation.as_rotvec(), "field unrotated:", fr.field is field)
raise AssertionError("incomplete component-to-axis mapping was not refused by FieldRotator()")
