import os, sys; sys.path.insert(0, os.getcwd())
import numpy as np, warnings
import discretisedfield as df
from scipy.spatial.transform import Rotation as R
print(df.__file__)

def ref_check(field, Q, rot_field, label="", tol=1e-9, perm=None):
    """Q: 3x3 matrix. checks rot_field against statement."""
    m = field.mesh; c = m.region.center
    edges = m.region.edges
    half = np.abs(Q) @ edges / 2
    errs = []
    rm = rot_field.mesh
    scale = np.max(edges)
    if not np.allclose(rm.region.pmin, c - half, atol=1e-9*scale, rtol=0): errs.append(("pmin", rm.region.pmin, c-half))
    if not np.allclose(rm.region.pmax, c + half, atol=1e-9*scale, rtol=0): errs.append(("pmax", rm.region.pmax, c+half))
    # values
    pts = np.stack(np.meshgrid(*[np.linspace(rm.region.pmin[i]+rm.cell[i]/2, rm.region.pmax[i]-rm.cell[i]/2, rm.n[i]) for i in range(3)], indexing='ij'), axis=-1).reshape(-1,3)
    back = (pts - c) @ Q  # Q^T applied: Q^T p = p @ Q
    rel = back / m.cell + m.n/2  # in cell index units, 0..n
    inside1 = np.all((rel >= 1.5 - 1e-9) & (rel <= m.n - 1.5 + 1e-9), axis=1)  # at least one cell inside (and interpolable)
    outside = np.any((rel < -1e-6) | (rel > m.n + 1e-6), axis=1)
    arr = field.array
    # trilinear interp
    idxf = rel - 0.5
    got = rot_field.array.reshape(-1, field.nvdim)
    vmax = np.max(np.abs(arr)) or 1
    if outside.any():
        if not np.all(got[outside] == 0): errs.append(("outside nonzero", np.abs(got[outside]).max()))
    sel = np.where(inside1)[0]
    if len(sel):
        f = idxf[sel]; i0 = np.clip(np.floor(f).astype(int), 0, m.n-2); t = f - i0
        val = np.zeros((len(sel), field.nvdim), dtype=arr.dtype if np.iscomplexobj(arr) else float)
        for dx in (0,1):
            for dy in (0,1):
                for dz in (0,1):
                    w = (t[:,0] if dx else 1-t[:,0])*(t[:,1] if dy else 1-t[:,1])*(t[:,2] if dz else 1-t[:,2])
                    val += w[:,None]*arr[i0[:,0]+dx, i0[:,1]+dy, i0[:,2]+dz]
        if field.nvdim == 3:
            if perm is None: perm = [0,1,2]   # perm[k] = vdim index of component along dim k
            perm = np.array(perm)
            v = val[:, perm] @ Q.T
            val = v[:, np.argsort(perm)]
        d = np.abs(got[sel]-val).max()
        if d > tol*vmax: errs.append(("inside mismatch", d, vmax))
    return errs, inside1.sum(), outside.sum()
