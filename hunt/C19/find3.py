# C19 find3 - integer-typed vector fields crash all topological / angle tools
#
# Clauses violated: every clause of the charge / Bloch-point / angle part is stated for
#   "all 3-component fields"; an integer-typed field such as (0,0,1)/(0,0,-1) domains or
#   the hedgehog of integer offsets is a perfectly valid direction field, but
#   topological_charge (both methods), neighbouring_cell_angle,
#   max_neighbouring_cell_angle, count_large_cell_angle_regions and count_bps raise
#   UFuncTypeError instead of returning the (dtype independent) result.
# Trigger: df.Field(..., nvdim=3, dtype=int) (also any other integer dtype).
# Observed: numpy UFuncTypeError "Cannot cast ufunc 'divide' output from float64 to int64".
# Expected: same numbers as for the float copy of the field (e.g. the integer hedgehog
#   -> one tail-to-tail Bloch point; uniform integer field -> charge 0, angles 0).
# Cause: every tool normalises via Field.orientation (tools.py:115, 421, 650);
#   discretisedfield/field.py:683-688 divides into out=np.zeros_like(self.array), which
#   inherits the integer dtype.
# Minimal repair: out=np.zeros_like(self.array, dtype=np.result_type(self.array, float))
import os, sys; sys.path.insert(0, os.getcwd())
import numpy as np
import discretisedfield as df
import discretisedfield.tools as dft

mesh = df.Mesh(p1=(0, 0, 0), p2=(11, 22, 11), cell=(1, 2, 1))
offsets = 2 * (mesh.coordinate_field().array - mesh.region.center)
assert np.array_equal(offsets, np.round(offsets))
f_int = df.Field(mesh, nvdim=3, value=offsets.astype(int), dtype=int)
f_flt = df.Field(mesh, nvdim=3, value=offsets.astype(float))
assert np.array_equal(f_int.array, f_flt.array)

m2 = df.Mesh(p1=(0, 0), p2=(11, 22), cell=(1, 2))  # (Field.sel returns a float field)


def plane(f):
    return df.Field(m2, nvdim=3, value=f.array[:, :, 2], dtype=f.array.dtype)


calls = {
    "charge continuous": lambda f: dft.topological_charge(plane(f)),
    "charge berg-luescher": lambda f: dft.topological_charge(plane(f), method="berg-luescher"),
    "angle x": lambda f: dft.neighbouring_cell_angle(f, direction="x").array,
    "max angle": lambda f: dft.max_neighbouring_cell_angle(f).array,
    "count_bps y": lambda f: tuple(dft.count_bps(f, direction="y").values()),
}
fails = []
for name, call in calls.items():
    expected = call(f_flt)
    try:
        got = call(f_int)
    except Exception as e:
        fails.append(f"{name}: {type(e).__name__}: {str(e)[:70]}")
        continue
    if isinstance(expected, tuple):
        ok = got == expected
    else:
        ok = np.allclose(got, expected, atol=1e-12)
    if not ok:
        fails.append(f"{name}: int {got} != float {expected}")
print("\n".join(fails))
assert not fails
