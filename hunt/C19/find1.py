# C19 find1 - Berg-Luescher charge becomes NaN when two neighbouring vectors are antiparallel
#
# Clause violated: "Both topological-charge methods are unchanged by a global rotation
#   of all vectors" (also "change sign when all vectors are reversed": nan != -nan).
# Trigger: method="berg-luescher", two neighbouring cells with exactly (or to rounding)
#   antiparallel vectors that are NOT axis aligned, e.g. a sharp 180-degree wall
#   between +z and -z domains after any generic global rotation, or simply the
#   vectors (1,2,3) next to (-1,-2,-3).
# Observed: axis-aligned texture -> 0.0 (continuous method: 0.0); the same texture with
#   all vectors rotated by one proper rotation -> nan (continuous method: ~1e-18).
# Expected: the same number (0.0) before and after the rotation.
# Cause: discretisedfield/util/util.py:11-33 bergluescher_angle. Only a triple product
#   that is *exactly* 0 is short-cut. After a rotation the triple product is ~1e-17 and
#   1 + v1.v2 is 0 or -2e-16, so rho = sqrt(2(1+v1.v2)(1+v2.v3)(1+v3.v1)) is 0 or the
#   root of a negative number -> numerator/rho is nan.
# Minimal repair: do not divide by rho at all, the phase is all that is needed:
#       omega = 2*math.atan2(v1.(v2 x v3), 1 + v1.v2 + v2.v3 + v3.v1)
#   (or return 0.0 when the product under the root is <= 0).
import os, sys; sys.path.insert(0, os.getcwd())
import warnings
import numpy as np
import discretisedfield as df
import discretisedfield.tools as dft

warnings.simplefilter("ignore")
mesh = df.Mesh(p1=(0, 0), p2=(10e-9, 8e-9), cell=(1e-9, 2e-9))


def domains(p):  # three uniform domains separated by sharp walls
    x, y = p
    if x < 4e-9:
        return (0, 0, 1)
    return (0, 0, -1) if y < 4e-9 else (1, 0, 0)


f = df.Field(mesh, nvdim=3, value=domains)
# a proper rotation (Rodrigues, axis (1,2,3)/sqrt(14), angle 0.7 rad)
k = np.array([1.0, 2.0, 3.0]) / np.sqrt(14)
K = np.array([[0, -k[2], k[1]], [k[2], 0, -k[0]], [-k[1], k[0], 0]])
R = np.eye(3) + np.sin(0.7) * K + (1 - np.cos(0.7)) * K @ K
assert np.allclose(R @ R.T, np.eye(3)) and np.isclose(np.linalg.det(R), 1)
g = df.Field(mesh, nvdim=3, value=f.array @ R.T)

for method in ["continuous", "berg-luescher"]:
    q0 = dft.topological_charge(f, method=method)
    q1 = dft.topological_charge(g, method=method)
    print(method, "original:", q0, "rotated:", q1)
    assert np.isfinite(q1), f"{method}: charge of the rotated texture is {q1}"
    assert abs(q0 - q1) < 1e-10, f"{method}: {q0} != {q1} after a global rotation"
