# C19 find5 - demag_field cannot be evaluated for cuboids away from the origin, for
#             renamed spatial dimensions or for renamed vector components
#
# Clause violated: "the mean demagnetising field components of a uniformly magnetised
#   cuboid along the three axes sum to -|M|" (for all cuboids) - the call raises instead.
# Trigger (three independent ones, same function):
#   (a) cuboid whose corner is ~1e6 cells away from the origin, e.g. p1=(0.7,0,0) with
#       1 um cells or p1=(1e-3,0,0) with 1 nm cells  -> ValueError "both fields must have
#       the same mesh" (translating the sample must not matter);
#   (b) mesh dimensions not called x,y,z (dims=['a','b','c']) -> ValueError "'x' not in
#       region.dims" although demag_tensor(mesh) accepts the same mesh;
#   (c) magnetisation components not called x,y,z (vdims=['mx','my','mz'])
#       -> AttributeError "Object has no attribute ft_x".
# Expected: Hx+Hy+Hz (means, M along x, y, z in turn) == -|M| in all three cases, as
#   it is for the same cuboid at the origin with default labels.
# Cause: discretisedfield/tools/tools.py:792-812. (a) the k-space meshes of the padded
#   magnetisation (cell = (pmax-pmin)/n, rounded at 1e-16*|p|) and of the tensor (built
#   around 0) differ by ~1e-11 relative and Field.__mul__ demands equal meshes;
#   (b) pad() is called with the literal keys "x","y","z"; (c) m_fft.ft_x/ft_y/ft_z.
# Minimal repair: pad with m.mesh.region.dims, and do the 3x3 contraction on the numpy
#   arrays (m_fft.array[..., i], tensor.array[..., j]) instead of on Field attributes.
import os, sys; sys.path.insert(0, os.getcwd())
import warnings
import numpy as np
import discretisedfield as df
import discretisedfield.tools as dft

warnings.simplefilter("ignore")
M = 8e5


def demag_sum(mesh, **kw):
    tensor = dft.demag_tensor(mesh)
    total = 0.0
    for i in range(3):
        m = df.Field(mesh, nvdim=3, value=tuple(M * np.eye(3)[i]), **kw)
        total += dft.demag_field(m, tensor).mean()[i]
    return total


c = 1e-6
cases = {
    "reference at origin": lambda: demag_sum(df.Mesh(p1=(0, 0, 0), p2=(6 * c, 4 * c, 2 * c), cell=(c, 2 * c, c / 2))),
    "(a) translated by 0.7 m": lambda: demag_sum(df.Mesh(p1=(0.7, 0, 0), p2=(0.7 + 6 * c, 4 * c, 2 * c), cell=(c, 2 * c, c / 2))),
    "(b) dims a,b,c": lambda: demag_sum(df.Mesh(region=df.Region(p1=(0, 0, 0), p2=(6 * c, 4 * c, 2 * c), dims=["a", "b", "c"]), cell=(c, 2 * c, c / 2))),
    "(c) vdims mx,my,mz": lambda: demag_sum(df.Mesh(p1=(0, 0, 0), p2=(6 * c, 4 * c, 2 * c), cell=(c, 2 * c, c / 2)), vdims=["mx", "my", "mz"]),
}
fails = []
for name, fn in cases.items():
    try:
        s = fn()
        print(name, s / M)
        if abs(s + M) > 1e-9 * M:
            fails.append(f"{name}: sum {s}")
    except Exception as e:
        fails.append(f"{name}: {type(e).__name__}: {e}")
print("\n".join(fails))
assert not fails
