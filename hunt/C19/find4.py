# C19 find4 - neighbouring_cell_angle returns a field on a *different kind* of mesh:
#             axis names and units are reset to x,y,z / m, and validity is dropped
#
# Clause violated: "neighbouring-cell angles ... live on a mesh one cell shorter in that
#   direction" - i.e. the input mesh with one cell less along `direction`. For a mesh
#   whose dimensions are not called x,y,z (or whose units are not 'm') the result lives
#   on a mesh with other dimension names/units, so e.g. result.sel('a'), result.mesh.da
#   or a comparison with field.mesh[...] no longer work; invalid (masked) cells yield
#   "valid" angles of exactly pi/2 although no unit vector exists there.
# Trigger: Region(dims=['a','b','c'], units=['nm','nm','s']) (any non-default labels);
#   any field with valid=False cells.
# Observed: result.mesh.region.dims == ('x','y','z'), units == ('m','m','m');
#   result.valid.all() is True and the angle next to a masked zero cell is pi/2.
# Expected: dims ('a','b','c'), units kept, and the angle marked invalid (or at least not
#   reported as a genuine angle) where one of the two cells is invalid.
# Cause: discretisedfield/tools/tools.py:439-448 builds the new mesh with
#   df.Mesh(p1=p1, p2=p2, cell=field.mesh.cell) (no dims/units/tolerance_factor) and
#   the result with df.Field(mesh, nvdim=1, value=...) (no valid=).
# Minimal repair: region = df.Region(p1=p1, p2=p2, dims=field.mesh.region.dims,
#   units=field.mesh.region.units, tolerance_factor=field.mesh.region.tolerance_factor);
#   mesh = df.Mesh(region=region, n=<n with one less>);  valid = valid[one] & valid[two].
import os, sys; sys.path.insert(0, os.getcwd())
import numpy as np
import discretisedfield as df
import discretisedfield.tools as dft

region = df.Region(p1=(0, 0, 0), p2=(10, 6, 9), dims=["a", "b", "c"], units=["nm", "nm", "s"])
mesh = df.Mesh(region=region, cell=(2, 1, 3))
rng = np.random.default_rng(0)
arr = rng.normal(size=(*mesh.n, 3))
valid = np.ones(tuple(mesh.n), dtype=bool)
valid[2, 3, 1] = False
arr[2, 3, 1] = 0
f = df.Field(mesh, nvdim=3, value=arr, valid=valid)

fails = []
for i, d in enumerate(mesh.region.dims):
    a = dft.neighbouring_cell_angle(f, direction=d)
    n = list(mesh.n)
    n[i] -= 1
    assert list(a.mesh.n) == n and np.allclose(a.mesh.cell, mesh.cell)
    if tuple(a.mesh.region.dims) != ("a", "b", "c"):
        fails.append(f"direction {d}: dims {a.mesh.region.dims} instead of ('a','b','c')")
    if tuple(a.mesh.region.units) != ("nm", "nm", "s"):
        fails.append(f"direction {d}: units {a.mesh.region.units} instead of ('nm','nm','s')")
    idx = [2, 3, 1]
    if a.valid[tuple(idx)]:
        fails.append(
            f"direction {d}: angle involving the masked cell is valid, value "
            f"{a.array[tuple(idx)][0]:.6f}"
        )
print("\n".join(fails))
assert not fails
