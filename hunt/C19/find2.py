# C19 find2 - vectors shorter than 1e-8 are treated as zero vectors by every tool
#
# Clauses violated: "Both topological-charge methods are unchanged ... by rescaling
#   vector lengths" (quantifier: all positive rescalings); "a single hedgehog is
#   counted as exactly one Bloch point along every direction"; "neighbouring-cell
#   angles equal the angle between the two unit vectors".
# Trigger: any field whose vector norms are below ~1e-8 (e.g. a field multiplied by
#   1e-9, or the natural hedgehog
#   m(r) = r - r0 on a nanometre mesh, where |r - r0| ~ 1e-8 m and less).
# Observed: skyrmion charge -0.945 / -1.000 becomes 0.0 for both methods after the field
#   is multiplied by 1e-9; hedgehog r - r0 on a 10 nm box -> 0 Bloch points; all
#   neighbour angles become pi/2 (arccos(0)).
# Expected: identical results for every positive rescaling.
# Cause: all tools normalise through Field.orientation (tools.py:115, 421, 650) and
#   discretisedfield/field.py:683-688 uses where=~np.isclose(norm, 0), i.e. the absolute
#   tolerance 1e-8 of numpy.isclose, so short vectors stay unnormalised zeros.
# Minimal repair: field.py orientation: where=(self.norm.array != 0)
#   (or np.isclose(..., atol=0)).
import os, sys; sys.path.insert(0, os.getcwd())
import numpy as np
import discretisedfield as df
import discretisedfield.tools as dft

fails = []
mesh = df.Mesh(p1=(-100e-9, -100e-9), p2=(100e-9, 100e-9), cell=(4e-9, 5e-9))


def sk(p, R=30e-9, w=8e-9):
    r, phi = np.hypot(p[0], p[1]), np.arctan2(p[1], p[0])
    th = 2 * np.arctan2(np.sinh(R / w), np.sinh(r / w))
    return (np.sin(th) * np.cos(phi), np.sin(th) * np.sin(phi), np.cos(th))


f = df.Field(mesh, nvdim=3, value=sk)
for method in ["continuous", "berg-luescher"]:
    q = dft.topological_charge(f, method=method)
    qs = dft.topological_charge(f * 1e-9, method=method)
    print(method, q, "-> scaled by 1e-9:", qs)
    if abs(q - qs) > 1e-9:
        fails.append(f"{method} charge {q} -> {qs} after rescaling by 1e-9")

m3 = df.Mesh(p1=(0, 0, 0), p2=(10e-9, 20e-9, 15e-9), n=(10, 10, 10))
hedgehog = df.Field(m3, nvdim=3, value=m3.coordinate_field().array - m3.region.center)
for d in "xyz":
    res = dft.count_bps(hedgehog, direction=d)
    print(d, res)
    if (res["bp_number"], res["bp_number_tt"], res["bp_number_hh"]) != (1, 1, 0):
        fails.append(f"hedgehog r-r0 on a nm mesh, direction {d}: {res}")

rng = np.random.default_rng(0)
arr = rng.normal(size=(*m3.n, 3))
a1 = dft.neighbouring_cell_angle(df.Field(m3, nvdim=3, value=arr), direction="x").array
a2 = dft.neighbouring_cell_angle(df.Field(m3, nvdim=3, value=arr * 1e-10), direction="x").array
print("max angle change after rescaling:", abs(a1 - a2).max())
if abs(a1 - a2).max() > 1e-9:
    fails.append("neighbour angles change when the vectors are rescaled by 1e-10")
assert not fails, "\n".join(fails)
