# C19 extra6 - max_neighbouring_cell_angle / count_large_cell_angle_regions crash on a
#              mesh with a single cell along one axis (the usual thin-film mesh)
# Clause: neighbour angles "and their maximum" for all 3-d meshes (cell counts of 1).
# Observed: ValueError "At least one of the region's edge lengths is zero".
# Expected: maximum over the neighbours that exist (x and y neighbours here).
# Cause: tools.py:497-510 calls neighbouring_cell_angle for *every* dimension, which
#   cannot build a zero-cell mesh for an axis with n == 1 (tools.py:440-442).
# Minimal repair: `if field.mesh.n[i] < 2: continue` at the top of the loop.
import os, sys; sys.path.insert(0, os.getcwd())
import numpy as np
import discretisedfield as df
import discretisedfield.tools as dft

mesh = df.Mesh(p1=(0, 0, 0), p2=(50e-9, 30e-9, 2e-9), n=(10, 6, 1))
f = df.Field(mesh, nvdim=3, value=lambda p: (0, 0, 1) if p[0] < 25e-9 else (0, 0, -1))
assert dft.count_large_cell_angle_regions(f, min_angle=1, direction="x") == 1
a = dft.max_neighbouring_cell_angle(f)  # raises ValueError
assert np.isclose(a.array.max(), np.pi)
assert dft.count_large_cell_angle_regions(f, min_angle=1) == 1
