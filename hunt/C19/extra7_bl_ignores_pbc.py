# C19 extra7 - the lattice (Berg-Luescher) charge ignores periodic boundary conditions
# Clause: "the lattice (Berg-Luescher) method returns an integer for textures wrapping
#   the sphere a whole number of times" (hostile input: periodic boundary strings).
# A texture that is periodic on a mesh with bc='xy' is a map torus -> sphere and has an
#   exactly integer lattice charge when the triangles across the periodic boundary are
#   included. The library never looks at mesh.bc, drops those triangles and re-weights
#   the edge cells, so the result is the same non-integer as for the open mesh.
# Observed: 0.946204 on a 20x16 mesh (bc='' and bc='xy' give identical numbers), while
#   the continuous method does use the periodic derivative.
# Expected: 1.0 (to rounding) with bc='xy'.
# Cause: tools.py:128-165, neighbours taken only if i+1 < n / i-1 >= 0.
# Minimal repair: wrap the neighbour index with % n for axes contained in field.mesh.bc.
import os, sys; sys.path.insert(0, os.getcwd())
import numpy as np
import discretisedfield as df
import discretisedfield.tools as dft

Lx, Ly = 40.0, 24.0
mesh = df.Mesh(p1=(0, 0), p2=(Lx, Ly), n=(20, 16), bc="xy")


def tex(p):  # periodic, degree +1 map of the torus onto the sphere
    x, y = 2 * np.pi * p[0] / Lx, 2 * np.pi * p[1] / Ly
    return (np.sin(x), np.sin(y), np.cos(x) + np.cos(y) - 1.0)


q = dft.topological_charge(df.Field(mesh, nvdim=3, value=tex), method="berg-luescher")
print(q)
assert abs(q - round(q)) < 1e-9, f"lattice charge {q} of a periodic texture is not an integer"
