# C06 finding 1 -- float32 (and complex64) fields: integral / mean over all directions are
# accumulated in single precision and come out wrong by 1e-4 ... several per cent.
#
# Clauses violated:
#   * "The integral over all directions equals the sum of the cell values times the cell volume"
#   * "integrating direction by direction in any order gives the same number"
#   * "the mean over all ... directions is the integral divided by the integrated extent"
#     (the mean of a UNIFORM field is not the uniform value)
# Trigger: Field(..., dtype=np.float32) (or complex64) with more than a few thousand cells;
#   Field.integrate(), Field.mean(), Field.mean(all dims); also integrate(d)/mean(d)/cumulative
#   along an axis with many (>1e5) cells.  No special values needed: a uniform field suffices.
# Observed (numpy 2.x): uniform (0.1, 0.2, 0.3) on 100x100x100 cells ->
#   mean() = [0.10095835 0.2019167 0.2995467]; integrate() is off by the same 1 %, whereas
#   integrate('x').integrate('y').integrate('z') is right to 1e-7.
# Expected: agreement to a few float32 ulp (6e-8 relative) at worst.
# Cause: field.py Field.integrate  `np.sum(self.array, axis=tuple(range(ndim)))` and Field.mean
#   `self.array.mean(axis=tuple(range(ndim)))` reduce over the leading axes of a (.., nvdim) array;
#   numpy then adds naively in the array dtype (no pairwise summation, no wider accumulator).
# Minimal repair: accumulate in double precision, e.g.
#   acc = np.result_type(self.array.dtype, np.float64)
#   np.sum(self.array, axis=..., dtype=acc) / self.array.mean(axis=..., dtype=acc)
#   (same for np.cumsum(..., dtype=acc) and the directional sum).
import os, sys; sys.path.insert(0, os.getcwd())
import numpy as np
import discretisedfield as df

n = (100, 100, 100)
mesh = df.Mesh(p1=(0, 0, 0), p2=(100e-9, 200e-9, 50e-9), n=n)
value = (0.1, 0.2, 0.3)
f = df.Field(mesh, nvdim=3, value=value, dtype=np.float32)
assert f.array.dtype == np.float32

exact_sum = f.array.astype(np.float64).sum(axis=(0, 1, 2))  # sum of the stored cell values
ref_int = exact_sum * np.prod(mesh.cell)
ref_mean = exact_sum / np.prod(n)

total = f.integrate()
fubini = f.integrate("x").integrate("y").integrate("z")
mean = f.mean()
print("integrate()          ", total, " expected", ref_int)
print("x, then y, then z    ", fubini)
print("mean()               ", mean, " expected", ref_mean)

tol = 1e-5  # generous: ~170 float32 ulp, far more than "a few ulp"
assert np.allclose(fubini, ref_int, rtol=tol, atol=0), "direction by direction wrong"
assert np.allclose(mean, ref_mean, rtol=tol, atol=0), "mean of a uniform field is not the value"
assert np.allclose(total, ref_int, rtol=tol, atol=0), "integral != sum * dV"
assert np.allclose(total, fubini, rtol=tol, atol=0), "Fubini violated"
