# C06 finding 2 -- float32 / complex64 fields: the volume integral is multiplied with dV in single
# precision and under-/overflows on nanometre / kilometre meshes, while the directional
# integrals are evaluated in double precision.
#
# Clauses violated: "The integral over all directions equals the sum of the cell values times
#   the cell volume; integrating direction by direction in any order gives the same number".
# Trigger: dtype=np.float32 field, Field.integrate() (direction=None), and
#   |sum| * dV outside the float32 range [1.2e-38, 3.4e38]:
#   - nm cells (dV = 1e-27 m^3) and values <~ 1e-12  -> result is a float32 subnormal / exactly 0
#   - km cells (dV = 1e9 m^3) and values >~ 1e29     -> result is inf (RuntimeWarning only)
#   Both the values and the exact result are perfectly representable.
# Observed: integrate() = [0.] resp. [inf]; integrate('x').integrate('y').integrate('z') =
#   [2.4e-46] resp. [2.4e+40] (correct).
# Cause: field.py Field.integrate, `return sum_ * self.mesh.dV`: Mesh.dV is a Python float
#   (np.prod(cell).item()), which under NEP 50 is "weak" and leaves the product in float32; the
#   directional branch multiplies with the np.float64 scalar self.mesh.cell[axis] -> float64.
# Minimal repair: sum in float64 (see finding 1) or `sum_ * np.float64(self.mesh.dV)`.
import os, sys; sys.path.insert(0, os.getcwd())
import warnings
import numpy as np
import discretisedfield as df

warnings.simplefilter("ignore", RuntimeWarning)
bad = []
for cell, val in [(1e-9, 1e-20), (1e3, 1e30)]:
    mesh = df.Mesh(p1=(0, 0, 0), p2=(2 * cell, 3 * cell, 4 * cell), cell=(cell, cell, cell))
    arr = np.full((*mesh.n, 1), val, dtype=np.float32)
    f = df.Field(mesh, nvdim=1, value=arr, dtype=np.float32)
    ref = f.array.astype(np.float64).sum(axis=(0, 1, 2)) * np.prod(mesh.cell)
    total = f.integrate()
    fubini = f.integrate("z").integrate("x").integrate("y")
    print(f"cell={cell:g} value={val:g}: integrate()={total} ({total.dtype})",
          f"direction by direction={fubini} expected={ref}")
    assert np.allclose(fubini, ref, rtol=1e-6, atol=0)
    if not (np.all(np.isfinite(total)) and np.allclose(total, ref, rtol=1e-6, atol=0)):
        bad.append(f"integrate() = {total}, but sum * dV = direction by direction = {ref}")
assert not bad, bad
