# C06 finding 3 (reading-dependent) -- the result of a directional integral / mean does not live
# "on the mesh with that axis removed": the periodic boundary condition of the remaining axes is
# dropped, and of the subregions only those that happen to contain the CENTRE cell layer of the
# integrated axis survive (an artefact of re-using the plane-slicing Mesh.sel).
#
# Clause: "each directional integral equals the sum along that axis times the cell length, on the
#   mesh with that axis removed" (I read "the mesh" as region + cells + bc + subregions; numbers,
#   region, cell, n, dims, units and tolerance_factor of the result ARE right).
# Trigger: mesh with bc='yz' and two subregions 'left' (x in [0, 2]) / 'right' (x in [2, 4]) that
#   both span the full y-z cross-section; f.integrate('x'), f.mean('x'), f.mean(['x', ...]).
# Observed: result.mesh.bc == '' and result.mesh.subregions has only 'right' (the region centre
#   x = 2 lies on a cell boundary and is attributed to the upper cell), although the integral
#   treats both halves alike.  Integrating over 'y' instead keeps both.
# Expected: bc == 'yz' and either both projected subregions or none.
# Cause: field.py Field.integrate / Field.mean build the result on self.mesh.sel(direction);
#   mesh.py Mesh.sel filters subregions with `selection > subreg.pmax[dim_index] or
#   selection < subreg.pmin[dim_index]` (selection = centre cell coordinate) and never passes bc.
# Minimal repair: in Mesh.sel pass bc with the removed axis stripped
#   (bc=self.bc if self.bc in ('neumann','dirichlet') else self.bc.replace(dim, '')), and let
#   integrate/mean use an axis-removal helper that projects all subregions.
import os, sys; sys.path.insert(0, os.getcwd())
import numpy as np
import discretisedfield as df

region = df.Region(p1=(0, 0, 0), p2=(4, 6, 3))
sub = {
    "left": df.Region(p1=(0, 0, 0), p2=(2, 6, 3)),
    "right": df.Region(p1=(2, 0, 0), p2=(4, 6, 3)),
}
mesh = df.Mesh(region=region, cell=(1, 3, 0.5), bc="yz", subregions=sub)
f = df.Field(mesh, nvdim=2, value=np.random.default_rng(0).normal(size=(*mesh.n, 2)))

res = f.integrate("x")
assert np.allclose(res.array, f.array.sum(axis=0) * 1.0)  # the numbers are fine
print("bc:", repr(res.mesh.bc), "subregions:", list(res.mesh.subregions))
print("mean:", repr(f.mean("x").mesh.bc), list(f.mean(("z", "x")).mesh.subregions))
bad = []
if res.mesh.bc != "yz":
    bad.append(f"bc of the remaining axes lost: {res.mesh.bc!r}")
if set(res.mesh.subregions) not in (set(), set(sub)):
    bad.append(f"only {list(res.mesh.subregions)} of the two equivalent subregions survive")
assert not bad, bad
