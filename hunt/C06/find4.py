# C06 finding 4 (minor) -- integer fields: the cell sum of Field.integrate is taken in the integer
# dtype and wraps around silently, so integral, direction-by-direction integral and mean disagree.
#
# Clauses violated: "The integral over all directions equals the sum of the cell values times the
#   cell volume; integrating direction by direction in any order gives the same number";
#   "the mean over all ... directions is the integral divided by the integrated extent".
# Trigger: dtype=int64 (uint64 alike) field whose cell sum exceeds 2**63 (here 4 cells of 4e18,
#   each value is a valid int64); Field.integrate() or a directional integral along a long axis.
# Observed: integrate() = [-2.44674407e+18] (negative although all values are positive);
#   integrate('x').integrate('y') = [1.6e+19]; mean() * extent = [1.6e+19].
# Expected: 1.6e19 from all three (Field.mean already accumulates integers in float64).
# Cause: field.py Field.integrate `np.sum(self.array, axis=...)` (and np.cumsum) without dtype.
# Minimal repair: np.sum(..., dtype=np.result_type(self.array.dtype, np.float64)).
import os, sys; sys.path.insert(0, os.getcwd())
import numpy as np
import discretisedfield as df

mesh = df.Mesh(p1=(0, 0), p2=(2, 2), n=(2, 2))
f = df.Field(mesh, nvdim=1, value=np.full((2, 2), 4 * 10**18), dtype=np.int64)
assert f.array.dtype == np.int64 and (f.array == 4 * 10**18).all()

total = f.integrate()
fubini = f.integrate("x").integrate("y")
mean = f.mean()
print("integrate()", total, " x then y", fubini, " mean*extent", mean * 4.0)
assert np.allclose(fubini, 1.6e19) and np.allclose(mean * 4.0, 1.6e19)
assert np.allclose(total, 1.6e19), f"integrate() wrapped around: {total}"
