import os, sys; sys.path.insert(0, os.getcwd())
"""C02 - a field holds the specified value for all component counts and labels.

vdims=[] is the documented-by-code way of asking for a vector field without
component labels (vdims setter: `elif len(vdims) == 0: vdims = None`; the HDF5
reader uses it). It works unless nvdim happens to equal the number of mesh
dimensions: then the default vdim_mapping is built with
dict(zip(self.vdims, self.mesh.region.dims)) and self.vdims is None.
"""
import numpy as np
import discretisedfield as df

print(df.__file__)
bad = 0
for ndim in (1, 2, 3):
    mesh = df.Mesh(p1=(0,) * ndim, p2=(2,) * ndim, n=(2,) * ndim)
    for nvdim in (2, 3, 4):
        if ndim == 1 and nvdim != 2:
            continue
        try:
            f = df.Field(mesh, nvdim=nvdim, value=tuple(range(1, nvdim + 1)), vdims=[])
            print(f"ndim={ndim} nvdim={nvdim} vdims=[]: ok, vdims={f.vdims}, mean={f.mean()}")
        except Exception as e:
            bad += 1
            print(f"ndim={ndim} nvdim={nvdim} vdims=[]: expected an unlabelled field;"
                  f" observed {type(e).__name__}: {e}")
print("VIOLATION" if bad else "ok")
