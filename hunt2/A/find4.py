import os, sys; sys.path.insert(0, os.getcwd())
"""C14 - subregions survive saving and reloading (JSON side-car or HDF5).

Subregion names that are numpy strings (numpy.str_ is a subclass of str, so the
subregions setter accepts them; they appear as soon as the names come from a
numpy array, a pandas index or an xarray coordinate) cannot be written to HDF5:
_MeshIO_HDF5._h5_save passes list(self.subregions.keys()) to h5py, numpy turns
that list into a '<U' array and h5py has no conversion for it. The very same
module already converts dims, units and vdims with str() for this reason
("numpy strings ... cannot be stored by h5py"); the subregion names were missed.
The JSON side-car (OVF/VTK) handles the same mesh.
"""
import tempfile
import numpy as np
import discretisedfield as df

print(df.__file__)
names = np.array(["left", "right"])
subregions = {
    name: df.Region(p1=(2 * i, 0, 0), p2=(2 * i + 2, 2, 1)) for i, name in enumerate(names)
}
mesh = df.Mesh(p1=(0, 0, 0), p2=(4, 2, 1), n=(4, 2, 1), subregions=subregions)
print("subregions accepted:", list(mesh.subregions), [type(k).__name__ for k in mesh.subregions])
field = df.Field(mesh, nvdim=1, value={"left": 1, "right": 2})
print("mesh['left'].n =", mesh["left"].n, " field values:", field.array[..., 0].ravel())
bad = 0
with tempfile.TemporaryDirectory() as d:
    for ext in ("ovf", "vtk", "h5"):
        fn = os.path.join(d, "f." + ext)
        try:
            field.to_file(fn)
            back = df.Field.from_file(fn)
            same = back.mesh.subregions == mesh.subregions
            print(f"{ext}: expected subregions reloaded; observed {list(back.mesh.subregions)} equal={same}")
            bad += not same
        except Exception as e:
            bad += 1
            print(f"{ext}: expected subregions reloaded; observed {type(e).__name__}: {e}")
print("VIOLATION" if bad else "ok")
