import os, sys; sys.path.insert(0, os.getcwd())
"""C02 - value given as another field: the value stored for a cell equals the
value of a source cell containing that cell's centre.

Field._as_array(Field) checks containment positionally
(`mesh.region not in val.mesh.region`, Region.__contains__ ignores names) but
then samples the source BY DIMENSION NAME with the target's names used as
keyword arguments of xarray's DataArray.sel and never re-orders the result:

  val.to_xarray().sel(**{dim: getattr(mesh.cells, dim) for dim in mesh.region.dims},
                      method="nearest")

(a) same names in a different order -> silently wrong values (wrong under the
    positional reading used everywhere else - Field.__call__, Region.__contains__ -
    and also wrong under a by-name reading, because the result keeps the source's
    axis order and out-of-range coordinates are clamped by method='nearest');
(b) a dimension called 'method' (also 'tolerance', 'drop', 'indexers') collides
    with a keyword of DataArray.sel, so even value=<field on the very same mesh>
    and Field.resample fail.
"""
import numpy as np
import discretisedfield as df

print(df.__file__)
bad = 0

src_mesh = df.Mesh(region=df.Region(p1=(0, 0), p2=(4, 2), dims=("x", "y")), n=(4, 2))
src = df.Field(src_mesh, nvdim=1, value=lambda p: 10 * p[0] + p[1])
tgt_mesh = df.Mesh(region=df.Region(p1=(0, 0), p2=(4, 2), dims=("y", "x")), n=(2, 2))
tgt = df.Field(tgt_mesh, nvdim=1, value=src)  # accepted without any complaint
print("(a) source dims", src_mesh.region.dims, " target dims", tgt_mesh.region.dims)
for idx in tgt_mesh.indices:
    c = tgt_mesh.index2point(idx)
    exp = src(c)
    got = tgt.array[idx]
    flag = "" if np.array_equal(exp, got) else "   <-- differs"
    bad += bool(flag)
    print(f"  cell {idx} centre {c}: expected src(centre)={exp}, stored {got}{flag}")

print("(b) dimension named like a keyword of DataArray.sel")
for name in ["method", "tolerance", "drop", "indexers"]:
    m = df.Mesh(region=df.Region(p1=(0, 0), p2=(4, 4), dims=(name, "y")), n=(4, 4))
    s = df.Field(m, nvdim=1, value=lambda p: 10 * p[0] + p[1])
    for what, fn in [("Field(mesh, value=s)", lambda: df.Field(m, nvdim=1, value=s)),
                     ("s.resample((2, 2))", lambda: s.resample((2, 2)))]:
        try:
            r = fn()
            ok = all(np.array_equal(r(p), s(p)) for p in r.mesh)
            print(f"  dims=({name!r}, 'y') {what}: values correct: {ok}")
            bad += not ok
        except Exception as e:
            bad += 1
            print(f"  dims=({name!r}, 'y') {what}: {type(e).__name__}: {str(e)[:90]}")
print("(c) dimension 'tolerance': silently wrong values (the axis is never selected)")
m = df.Mesh(region=df.Region(p1=(0, 0), p2=(4, 4), dims=("tolerance", "y")), n=(4, 4))
s = df.Field(m, nvdim=1, value=lambda p: 10 * p[0] + p[1])
t = df.Mesh(region=df.Region(p1=(2, 0), p2=(4, 4), dims=("tolerance", "y")), n=(4, 4))
r = df.Field(t, nvdim=1, value=s)
for p in list(t)[:4]:
    flag = "" if np.array_equal(r(p), s(p)) else "   <-- differs"
    bad += bool(flag)
    print(f"  centre {p}: expected s(centre)={s(p)}, stored {r(p)}{flag}")
print("VIOLATION" if bad else "ok")
