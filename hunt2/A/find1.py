import os, sys; sys.path.insert(0, os.getcwd())
"""C02 - component access returns the matching column, for all component labels.

The vdims setter rejects labels that collide with an attribute of Field
("Component name ... is already used by a different method/property"), but the
five names in Field._removed_attributes pass that test (hasattr() is False for
them because __getattr__ raises AttributeError) and are then unreachable:
__getattr__ looks at _removed_attributes BEFORE it looks at vdims.
"""
import numpy as np
import discretisedfield as df

print(df.__file__)
mesh = df.Mesh(p1=(0, 0), p2=(4, 2), n=(4, 2))
bad = 0
for label in ["value", "average", "integral", "project", "write"]:
    f = df.Field(mesh, nvdim=2, value=(1, 2), vdims=[label, "other"])
    print(f"vdims={f.vdims} accepted by the constructor")
    print("  expected: field.%s is the scalar field of column 0 (all 1.0)" % label)
    try:
        comp = getattr(f, label)
        print("  observed:", comp.array.ravel())
    except AttributeError as e:
        bad += 1
        print("  observed: AttributeError:", e)

# same root cause through Mesh.coordinate_field (C01): a dimension called 'value'
m = df.Mesh(region=df.Region(p1=(0, 0), p2=(4, 2), dims=("value", "y")), n=(4, 2))
cf = m.coordinate_field()
print("coordinate_field vdims:", cf.vdims)
try:
    print(cf.value.array[..., 0])
except AttributeError as e:
    bad += 1
    print("  coordinate_field().value -> AttributeError:", e)
print("VIOLATION" if bad else "ok")
