import os, sys; sys.path.insert(0, os.getcwd())
"""C01 - the per-axis lists of cell centres and vertices and the coordinate
field describe the lattice, for any dimension names.

Mesh.cells / Mesh.vertices build collections.namedtuple("cells", region.dims).
namedtuple refuses field names that start with an underscore (and keywords),
although such a name is a valid Python identifier, is accepted by Region and
Mesh, does not collide with any attribute of Field and works with
index2point / point2index / sel / rotate90. Everything that goes through
Mesh.cells then fails: cells, vertices, coordinate_field, to_xarray,
Field(value=<field>), resample.
"""
import numpy as np
import discretisedfield as df

print(df.__file__)
dims = ("_x", "_y")
print("'_x'.isidentifier():", "_x".isidentifier(), " hasattr(Field, '_x'):", hasattr(df.Field, "_x"))
mesh = df.Mesh(region=df.Region(p1=(0, 0), p2=(4, 2), dims=dims), n=(4, 2))
print("mesh built, dims", mesh.region.dims, "index2point((1, 1)) =", mesh.index2point((1, 1)),
      "point2index =", mesh.point2index((1.5, 1.5)), "sel:", mesh.sel(_x=1.5).region.dims)
f = df.Field(mesh, nvdim=1, value=lambda p: p[0])
bad = 0
for what, fn in [
    ("mesh.cells", lambda: mesh.cells),
    ("mesh.vertices", lambda: mesh.vertices),
    ("mesh.coordinate_field()", lambda: mesh.coordinate_field()),
    ("field.to_xarray()", lambda: f.to_xarray()),
    ("Field(mesh, value=field)", lambda: df.Field(mesh, nvdim=1, value=f)),
    ("field.resample((2, 2))", lambda: f.resample((2, 2))),
]:
    try:
        fn()
        print(f"{what}: ok")
    except Exception as e:
        bad += 1
        print(f"{what}: expected per-axis centres [0.5 1.5 2.5 3.5], [0.5 1.5] / a result;"
              f" observed {type(e).__name__}: {e}")
print("VIOLATION" if bad else "ok")
