import os, sys; sys.path.insert(0, os.getcwd())
"""C02 - Field.line returns the points, the values at those points and their
distance from p1.

Line stores everything in one DataFrame: column 'r' (distance), one column per
dimension name, one column 'v<label>' per component ('v' for an unlabelled
scalar field). Nothing checks that these names differ, so a dimension called
'r' overwrites the distance, and a dimension called 'v' (or 'vx' ...) is
overwritten by the values.
"""
import numpy as np
import discretisedfield as df

print(df.__file__)
bad = 0

# (a) a radial dimension 'r'
mesh = df.Mesh(region=df.Region(p1=(1, 0), p2=(5, 2), dims=("r", "z")), n=(4, 2))
f = df.Field(mesh, nvdim=1, value=lambda p: p[0])
line = f.line(p1=(1, 0.5), p2=(5, 0.5), n=5)
print(line.data)
print("expected distances from p1: [0 1 2 3 4], length 4.0")
print("observed column 'r':", line.data["r"].to_numpy(), "length", line.length)
if line.length != 4.0:
    bad += 1

# (b) phase space (x, v) with a scalar distribution function
mesh = df.Mesh(region=df.Region(p1=(0, -2), p2=(4, 2), dims=("x", "v")), n=(4, 4))
f = df.Field(mesh, nvdim=1, value=lambda p: 100 + p[0])
line = f.line(p1=(0, -2), p2=(4, 2), n=5)
print(line.data)
print("expected: columns r, x, v (coordinate -2..2) and a value column")
print("observed columns:", list(line.data.columns), "point_columns", line.point_columns,
      "value_columns", line.value_columns)
if list(line.data["v"]) != [-2.0, -1.0, 0.0, 1.0, 2.0]:
    bad += 1
    print("column 'v' holds the field values, the v coordinate is lost:",
          line.data["v"].to_numpy())

# (c) phase space (x, vx) with a vector field with default labels x, y
mesh = df.Mesh(region=df.Region(p1=(0, -2), p2=(4, 2), dims=("x", "vx")), n=(4, 4))
f = df.Field(mesh, nvdim=2, value=(7, 8))
line = f.line(p1=(0, -2), p2=(4, 2), n=5)
print("columns:", list(line.data.columns), "(expected 5: r, x, vx, and two value columns)")
if len(line.data.columns) != 5:
    bad += 1
print("VIOLATION" if bad else "ok")
