import os, sys; sys.path.insert(0, os.getcwd())
import numpy as np
import discretisedfield as df

print(df.__file__)
print("C03: numpy ufuncs over fields give the broadcast result as a field; a+b and b+a are the same")
print("     field including component labels and their mapping; either operand order.")
mesh = df.Mesh(p1=(0, 0, 0), p2=(3, 3, 3), n=(3, 3, 3))
v = df.Field(mesh, nvdim=3, value=lambda p: (p[0], 2 * p[1], 3 * p[2]))
s = v.x  # unlabelled scalar field
bad = 0

a, b = np.add(v, s), np.add(s, v)
print("np.add(v, s):", a.vdims, a.vdim_mapping, "| np.add(s, v):", b.vdims, b.vdim_mapping,
      "| s + v:", (s + v).vdims, (s + v).vdim_mapping)
if a.vdim_mapping != b.vdim_mapping:
    bad += 1
    print("  EXPECTED identical mapping for both operand orders; OBSERVED", a.vdim_mapping, "vs", b.vdim_mapping)
print("  div of np.add(v, s): mean", a.div.mean())
try:
    print("  div of np.add(s, v): mean", b.div.mean())
except Exception as e:
    bad += 1
    print("  div of np.add(s, v): EXPECTED the same numbers; OBSERVED", type(e).__name__, e)

sl = df.Field(mesh, nvdim=1, value=2.0, vdims=["s"])  # scalar field with a label
for name, fn in {
    "sl + v (operator)": lambda: sl + v,
    "np.add(v, sl)": lambda: np.add(v, sl),
    "np.add(sl, v)": lambda: np.add(sl, v),
    "sl + np.ones(3)": lambda: sl + np.ones(3),
    "np.ones(3) + sl": lambda: np.ones(3) + sl,
    "np.multiply(sl, np.ones(3))": lambda: np.multiply(sl, np.ones(3)),
}.items():
    try:
        r = fn()
        print(f"{name}: OK nvdim={r.nvdim} vdims={r.vdims}")
    except BaseException as e:
        bad += 1
        print(f"{name}: EXPECTED a 3-component field; OBSERVED {type(e).__name__}: {e!r}")
print("VIOLATION" if bad else "no violation")
