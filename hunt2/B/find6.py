import os, sys; sys.path.insert(0, os.getcwd())
import numpy as np
import discretisedfield as df

print(df.__file__)
print("C03/C05: binary operations keep the component labels AND their mapping to the spatial axes;")
print("         grad/div/curl pair components with axes via that mapping.")
mesh = df.Mesh(p1=(0, 0, 0), p2=(4, 4, 4), n=(4, 4, 4))
mp = {"a": "y", "b": "z", "c": "x"}  # even permutation: positional cross product == spatial one
f = df.Field(mesh, nvdim=3, value=lambda p: (p[0], p[1] ** 2, p[2]), vdims=list(mp), vdim_mapping=mp)
g = df.Field(mesh, nvdim=3, value=lambda p: (p[2], p[0], p[1] * p[0]), vdims=list(mp), vdim_mapping=mp)
c = f.cross(g)
print("operands: vdims", f.vdims, "mapping", f.vdim_mapping)
print("f*g     : vdims", (f * g).vdims, "mapping", (f * g).vdim_mapping)
print("f x g   : vdims", c.vdims, "mapping", c.vdim_mapping)
# reference: same data, mapping kept
ref = df.Field(mesh, nvdim=3, value=c.array, vdims=list(mp), vdim_mapping=mp)
print("div(f x g) mean, library:", c.div.mean(), " with the operands' mapping:", ref.div.mean())
print("EXPECTED: cross product keeps the mapping a->y, b->z, c->x of its operands (as * + - / do);")
print("OBSERVED: label 'a' is now mapped to x, 'b' to y, 'c' to z; div/curl pair the wrong axes -> VIOLATION"
      if c.vdim_mapping != mp else "no violation")
