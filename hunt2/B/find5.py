import os, sys; sys.path.insert(0, os.getcwd())
import numpy as np
import discretisedfield as df

print(df.__file__)
print("C03: 'stacking the components of a vector field reproduces it' (labels and component-to-axis mapping")
print("      are part of the field: C05 pairs components with axes through the mapping).")
mesh = df.Mesh(p1=(0, 0, 0), p2=(4, 4, 4), n=(4, 4, 4))
f = df.Field(mesh, nvdim=3, value=lambda p: (p[1] * p[2], p[0] ** 2, p[0] * p[1]),
             vdims=["a", "b", "c"], vdim_mapping={"a": "z", "b": "y", "c": "x"})
g = f.a << f.b << f.c
print("f      : vdims", f.vdims, "mapping", f.vdim_mapping)
print("f.a    : vdims", f.a.vdims, "mapping", f.a.vdim_mapping,
      " <- __getattr__ builds {attr: axis} but the setter throws it away because vdims is None")
print("stacked: vdims", g.vdims, "mapping", g.vdim_mapping, "| arrays equal:", np.array_equal(f.array, g.array))
print("max |curl f - curl stacked| =", np.abs(f.curl.array - g.curl.array).max())
print("max |div f  - div stacked | =", np.abs(f.div.array - g.div.array).max())
print("EXPECTED: stacked field has labels a,b,c mapped to z,y,x and the same curl/div;")
print("OBSERVED: labels x,y,z mapped positionally; curl and div differ -> VIOLATION")
