import os, sys; sys.path.insert(0, os.getcwd())
import numpy as np
import discretisedfield as df

print(df.__file__)
print("C03: 'a*b and b*a (likewise +) are the same field including component labels and their mapping")
print("      to spatial axes' (or the combination is rejected).")
mesh = df.Mesh(p1=(0, 0, 0), p2=(4, 4, 4), n=(4, 4, 4))
val = lambda p: (p[0] ** 2, p[1] * p[2], p[2] ** 2)
a = df.Field(mesh, nvdim=3, value=val, vdims=["a", "b", "c"], vdim_mapping={"a": "z", "b": "y", "c": "x"})
b = df.Field(mesh, nvdim=3, value=val)  # labels x,y,z mapped to x,y,z
for name, ab, ba in [("+", a + b, b + a), ("*", a * b, b * a)]:
    print(f"a{name}b: vdims={ab.vdims} mapping={ab.vdim_mapping}")
    print(f"b{name}a: vdims={ba.vdims} mapping={ba.vdim_mapping}")
    print("   arrays equal:", np.array_equal(ab.array, ba.array), "| Field ==:", ab == ba)
    print("   div(a%sb) mean %s   div(b%sa) mean %s" % (name, ab.div.mean(), name, ba.div.mean()))
    print("   max |curl(a%sb) - curl(b%sa)| = %g" % (name, name, np.abs(ab.curl.array - ba.curl.array).max()))
print("EXPECTED: same labels, same mapping, hence same div/curl for both operand orders (or a ValueError);")
print("OBSERVED: the result silently takes labels and mapping of the LEFT operand -> VIOLATION")
