import os, sys; sys.path.insert(0, os.getcwd())
import numpy as np
import discretisedfield as df

print(df.__file__)
print("C06: a directional integral / mean lives 'on the mesh with that axis removed' - the other axes,")
print("     including their periodicity (mesh.bc), are untouched; C04: in a periodic direction the line is a ring.")
mesh = df.Mesh(p1=(0, 0), p2=(4, 5), n=(4, 5), bc="y")
f = df.Field(mesh, nvdim=1, value=np.random.default_rng(1).normal(size=(4, 5, 1)))
fi = f.integrate("x")
print("parent bc=%r | integrate('x') bc=%r | mean('x') bc=%r | sel('x') bc=%r | cumulative bc=%r"
      % (mesh.bc, fi.mesh.bc, f.mean("x").mesh.bc, f.sel("x").mesh.bc, f.integrate("x", cumulative=True).mesh.bc))
a = f.diff("y").integrate("x").array.ravel()   # d/dy on the periodic parent, then integrate over x
b = fi.diff("y").array.ravel()                 # integrate over x, then d/dy on the result mesh
print("int_x d_y f :", a)
print("d_y int_x f :", b)
print("EXPECTED: y stays periodic on the reduced mesh, both orders agree (both operations are linear and act on")
print("          different axes); OBSERVED: bc dropped, boundary cells differ by", np.abs(a - b).max(),
      "-> VIOLATION" if fi.mesh.bc != "y" else "")
