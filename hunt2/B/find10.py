import os, sys; sys.path.insert(0, os.getcwd())
import warnings; warnings.simplefilter("ignore")
import numpy as np
import discretisedfield as df

print(df.__file__)
print("C08: resampling maps data and validity onto the new cells for ALL fields (arbitrary dimension names;")
print("     'method', 'drop', 'tolerance' are valid identifiers and no attributes of Field).")
bad = 0
for dims in [("x", "y"), ("x", "method"), ("x", "drop"), ("x", "tolerance")]:
    region = df.Region(p1=(0, 0), p2=(4, 4), dims=dims)
    mesh = df.Mesh(region=region, n=(4, 4))
    f = df.Field(mesh, nvdim=2, value=lambda p: (p[0], p[1]), valid=lambda p: p[0] < 3)
    try:
        r = f.resample((4, 4))
        print(dims, "OK: data reproduced", np.array_equal(r.array, f.array), "validity reproduced",
              np.array_equal(r.valid, f.valid))
    except Exception as e:
        bad += 1
        print(dims, "EXPECTED the same field (same n); OBSERVED", type(e).__name__, str(e)[:90])
print("VIOLATION" if bad else "no violation")
