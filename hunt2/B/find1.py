import os, sys; sys.path.insert(0, os.getcwd())
import numpy as np
import discretisedfield as df

print(df.__file__)
print("C05: div/curl/laplace must work for ARBITRARY component labels (refusal only for unmapped comps).")
mesh = df.Mesh(p1=(0, 0, 0), p2=(4, 4, 4), n=(4, 4, 4))
val = lambda p: (p[0] ** 2, p[1] * p[0], p[2])
ref = df.Field(mesh, nvdim=3, value=val, vdims=["a", "b", "c"])
print("reference labels a,b,c: div mean", ref.div.mean(), "curl mean", ref.curl.mean())
bad = 0
for lab in ["value", "average", "integral", "project", "write"]:
    f = df.Field(mesh, nvdim=3, value=val, vdims=[lab, "b", "c"])  # accepted
    print(f"\nlabel {lab!r} accepted: vdims={f.vdims} mapping={f.vdim_mapping}")
    for op in ("div", "curl", "laplace"):
        try:
            r = getattr(f, op)
            print(f"  {op}: OK", np.allclose(r.array, getattr(ref, op).array))
        except Exception as e:
            bad += 1
            print(f"  {op}: EXPECTED same numbers as for labels a,b,c; OBSERVED {type(e).__name__}: {e}")
    try:
        getattr(f, lab)
    except Exception as e:
        print(f"  component access f.{lab}: {type(e).__name__}: {e}")
print("\nVIOLATION" if bad else "\nno violation")
