import os, sys; sys.path.insert(0, os.getcwd())
import numpy as np
import discretisedfield as df

print(df.__file__)
print("C03: scalar field (op) constant vector / per-cell array must give the numpy-broadcast field,")
print("     independent of the scalar field's label / mapping, in either operand order.")
mesh = df.Mesh(p1=(0, 0, 0), p2=(2, 2, 2), n=(2, 2, 2))
plain = df.Field(mesh, nvdim=1, value=2.0)
lab = df.Field(mesh, nvdim=1, value=2.0, vdims=["s"], vdim_mapping={"s": "x"})
print("labelled scalar field:", lab.vdims, lab.vdim_mapping)
bad = 0
cases = {
    "s * (1,2,3)": lambda s: s * (1, 2, 3),
    "(1,2,3) * s": lambda s: (1, 2, 3) * s,
    "s + np.ones(3)": lambda s: s + np.ones(3),
    "s - [1,2]": lambda s: s - [1, 2],
    "s / per-cell array (2,2,2,3)": lambda s: s / np.ones((2, 2, 2, 3)),
    "s ** (1,2,3)": lambda s: s ** (1, 2, 3),
}
for name, fn in cases.items():
    expected = fn(plain).array
    try:
        got = fn(lab)
        ok = np.array_equal(got.array, expected)
        print(f"{name}: OK equal={ok} vdims={got.vdims}")
    except Exception as e:
        bad += 1
        print(f"{name}: EXPECTED field with array of shape {expected.shape} (works for an unlabelled "
              f"scalar field); OBSERVED {type(e).__name__}: {e}")
print("VIOLATION" if bad else "no violation")
