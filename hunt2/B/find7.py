import os, sys; sys.path.insert(0, os.getcwd())
import numpy as np
import discretisedfield as df

print(df.__file__)
print("C04/C05: diff/grad/div/curl/laplace work for ARBITRARY dimension names")
print("         ('self' is a valid identifier and no attribute of Field).")
region = df.Region(p1=(0, 0, 0), p2=(4, 4, 4), dims=("self", "y", "z"))
mesh = df.Mesh(region=region, n=(4, 4, 4))
f = df.Field(mesh, nvdim=1, value=lambda p: p[0] ** 2 + p[1])
v = df.Field(mesh, nvdim=3, value=lambda p: (p[0], p[1], p[2]))
print("integrate('self') works:", f.integrate("self").mean(), " mean('self') works:", f.mean("self").mean())
bad = 0
for name, fn in {
    "f.diff('self')": lambda: f.diff("self").mean(),
    "f.diff('y')": lambda: f.diff("y").mean(),
    "f.grad": lambda: f.grad.mean(),
    "f.laplace": lambda: f.laplace.mean(),
    "v.div": lambda: v.div.mean(),
    "v.curl": lambda: v.curl.mean(),
}.items():
    try:
        print(name, "->", fn())
    except Exception as e:
        bad += 1
        print(name, "-> EXPECTED the derivative (exact for this polynomial); OBSERVED", type(e).__name__, e)
print("VIOLATION" if bad else "no violation")
