import os, sys; sys.path.insert(0, os.getcwd())
import numpy as np
import discretisedfield as df

print(df.__file__)
print("C05: 'Fields whose components are not mapped onto the mesh axes ... are refused.'")
mesh = df.Mesh(p1=(0, 0, 0), p2=(4, 4, 4), n=(4, 4, 4))
f = df.Field(mesh, nvdim=3, value=lambda p: (p[0], p[0] ** 2, p[2]),
             vdim_mapping={"x": "x", "y": "x", "z": "z"})  # two components on axis x, none on axis y
print("mapping accepted:", f.vdim_mapping)
for op in ("div", "curl"):
    try:
        r = getattr(f, op)
        print(f"{op}: EXPECTED refusal (ValueError: axis y has no component / axis x has two); "
              f"OBSERVED a result, mean {r.mean()} -> VIOLATION")
    except Exception as e:
        print(f"{op}: refused with {type(e).__name__}: {e}")
try:
    f.rotate90("x", "y")
    print("rotate90: result returned")
except Exception as e:
    print("rotate90('x','y'): refused with", type(e).__name__)
