import os, sys; sys.path.insert(0, os.getcwd())
import numpy as np
import discretisedfield as df

print(df.__file__)
print("C05: grad/div are the textbook combinations on 1-4-dimensional meshes; div(grad f) = laplace f.")
for ndim in (1, 2, 3, 4):
    mesh = df.Mesh(p1=(0,) * ndim, p2=(4,) * ndim, n=(4,) * ndim)
    f = df.Field(mesh, nvdim=1, value=lambda p: np.sum(np.asarray(p) ** 2))
    g = f.grad
    try:
        d = g.div
        print(f"ndim={ndim}: grad -> nvdim={g.nvdim} vdims={g.vdims} mapping={g.vdim_mapping}; "
              f"div(grad f) == laplace f: {np.allclose(d.array, f.laplace.array)}")
    except Exception as e:
        print(f"ndim={ndim}: grad -> nvdim={g.nvdim} vdims={g.vdims} mapping={g.vdim_mapping}; "
              f"EXPECTED div(grad f) = laplace f = {f.laplace.mean()}; OBSERVED {type(e).__name__}: {e} -> VIOLATION")
