import os, sys; sys.path.insert(0, os.getcwd())
# C02 (low confidence): "no component labels" (vdims=[], the form the library's own HDF5 reader
# uses) cannot be combined with the default vdim_mapping when nvdim == mesh.region.ndim: the
# default of the optional argument is built with zip(self.vdims, ...) although vdims is None.
import warnings
warnings.simplefilter("ignore")
import numpy as np
import discretisedfield as df

print(df.__file__)
m2 = df.Mesh(p1=(0, 0), p2=(2, 2), n=(2, 2))
m3 = df.Mesh(p1=(0, 0, 0), p2=(2, 2, 2), n=(2, 2, 2))
print("EXPECTED: Field(mesh, nvdim=k, value=..., vdims=[]) gives an unlabelled field holding the value")
print("          for every mesh and component count (it does whenever nvdim != ndim)")
bad = 0
for mesh, nvdim in [(m3, 2), (m2, 3), (m2, 2), (m3, 3)]:
    try:
        f = df.Field(mesh, nvdim=nvdim, value=list(range(1, nvdim + 1)), vdims=[])
        print(f"OBSERVED: ndim={mesh.region.ndim} nvdim={nvdim}: ok, vdims={f.vdims}, vdim_mapping={f.vdim_mapping}, value={f.array[(0,) * mesh.region.ndim]}")
    except TypeError as e:
        bad += 1
        print(f"OBSERVED: ndim={mesh.region.ndim} nvdim={nvdim}: TypeError: {e}")
print("VIOLATION" if bad else "no violation")
