import os, sys; sys.path.insert(0, os.getcwd())
# C13: the in-place form must leave the object equal to what the copying form returns.
# Mesh.rotate90(inplace=True) (and Field.rotate90(inplace=True)) with the default
# reference point rotate the subregions about the centre of the ALREADY ROTATED region,
# the copying form about the centre of the original region.
import warnings
warnings.simplefilter("ignore")
import numpy as np
import discretisedfield as df

print(df.__file__)
np.set_printoptions(precision=17)


def make():
    return df.Mesh(
        p1=(0.13, 0.43),
        p2=(0.33, 0.83),
        n=(2, 4),
        subregions={"s": df.Region(p1=(0.13, 0.43), p2=(0.23, 0.73))},
    )


copied = make().rotate90("x", "y")
inplace = make()
ret = inplace.rotate90("x", "y", inplace=True)
print("in-place returns self:", ret is inplace)
print("regions equal:        ", copied.region == inplace.region)
print("EXPECTED: subregions of the in-place result == subregions of the copying result")
print("OBSERVED: copied.subregions == inplace.subregions ->", copied.subregions == inplace.subregions)
print("  copy    :", copied.subregions["s"].pmin, copied.subregions["s"].pmax)
print("  in place:", inplace.subregions["s"].pmin, inplace.subregions["s"].pmax)
print("  centre of the original region:", make().region.centre, " of the rotated region:", inplace.region.centre)

# the same through Field.rotate90
f_c = df.Field(make(), nvdim=1, value=1).rotate90("x", "y")
f_i = df.Field(make(), nvdim=1, value=1)
f_i.rotate90("x", "y", inplace=True)
print("Field.rotate90: f_c == f_i ->", f_c == f_i, "; subregions equal ->", f_c.mesh.subregions == f_i.mesh.subregions)

# how often: random cell-aligned meshes
rng = np.random.default_rng(0)
bad = total = 0
for _ in range(500):
    n = rng.integers(1, 6, size=2)
    cell = rng.choice([0.1, 0.3, 1e-9, 0.7, 2.5e-9])
    pmin = np.round(rng.uniform(-5, 5, size=2), 1) * cell
    pmax = pmin + n * cell
    try:
        mk = lambda: df.Mesh(p1=pmin, p2=pmax, n=n, subregions={"s": df.Region(p1=pmin, p2=pmin + (pmax - pmin) / n)})
        a, b = mk(), mk()
    except ValueError:
        continue
    total += 1
    c = a.rotate90("x", "y")
    b.rotate90("x", "y", inplace=True)
    bad += c.subregions != b.subregions
print(f"random meshes: in-place != copy for {bad} of {total}")
print("VIOLATION" if copied.subregions != inplace.subregions else "no violation")
