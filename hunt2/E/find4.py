import os, sys; sys.path.insert(0, os.getcwd())
# C13 / C14: a step that would produce a degenerate region is rejected in BOTH forms without
# modifying the object.  Region.scale(inplace=True) checks the new corners, but
# Region.translate(inplace=True) and Region.rotate90(inplace=True) assign them unchecked, and
# Mesh.scale(inplace=True) scales the region before a subregion is rejected.
import warnings
warnings.simplefilter("ignore")
import numpy as np
import discretisedfield as df

print(df.__file__)
violations = 0


def attempt(label, fn):
    try:
        fn()
        print(f"  {label}: accepted")
        return True
    except ValueError as e:
        print(f"  {label}: rejected (ValueError: {str(e)[:70]}...)")
        return False


print("1. Region.translate by a vector that absorbs an edge (1e17 on a unit region)")
r = df.Region(p1=(0, 0), p2=(1, 1))
attempt("copying form ", lambda: r.translate((1e17, 0)))
acc = attempt("in-place form", lambda: r.translate((1e17, 0), inplace=True))
print("  EXPECTED: rejected in both forms, region unchanged with pmin < pmax")
print("  OBSERVED: region now", r.pmin, r.pmax, "edges", r.edges)
violations += acc and not np.all(r.pmin < r.pmax)

print("2. Region.rotate90 about a far-away reference point")
r = df.Region(p1=(0, 0), p2=(1, 2))
attempt("copying form ", lambda: r.rotate90("x", "y", reference_point=(1e17, 0)))
acc = attempt("in-place form", lambda: r.rotate90("x", "y", reference_point=(1e17, 0), inplace=True))
print("  OBSERVED: region now", r.pmin, r.pmax, "edges", r.edges)
violations += acc and not np.all(r.pmin < r.pmax)

print("3. Mesh.translate in place: mesh with zero cell size")
m = df.Mesh(p1=(0, 0), p2=(1, 1), n=(2, 2))
attempt("copying form ", lambda: m.translate((1e17, 0)))
acc = attempt("in-place form", lambda: m.translate((1e17, 0), inplace=True))
print("  OBSERVED: mesh.cell now", m.cell, " cell*n == edges and cell > 0:", bool(np.all(m.cell > 0)))
violations += acc and not np.all(m.cell > 0)

print("4. Mesh.scale in place about a far-away reference point: region survives, subregion collapses")
m = df.Mesh(p1=(0, 0), p2=(8, 8), n=(8, 8), subregions={"s": df.Region(p1=(0, 0), p2=(1, 1))})
attempt("copying form ", lambda: m.scale(2, reference_point=(3e16, 0)))
print("  after the copying form: region", m.region.pmin, m.region.pmax, " subregion", m.subregions["s"].pmin, m.subregions["s"].pmax)
acc = attempt("in-place form", lambda: m.scale(2, reference_point=(3e16, 0), inplace=True))
print("  EXPECTED: rejected without modifying the mesh; subregion stays inside the mesh region")
print("  OBSERVED: region", m.region.pmin, m.region.pmax, " subregion", m.subregions["s"].pmin, m.subregions["s"].pmax)
print("            subregion in mesh region:", m.subregions["s"] in m.region)
violations += (not acc) and not (m.subregions["s"] in m.region)

print("VIOLATION" if violations else "no violation", f"({violations} of 4 cases)")
