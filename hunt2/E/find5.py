import os, sys; sys.path.insert(0, os.getcwd())
# C08 (low confidence): numpy ufunc protocol with out=<Field>.  The data of the binary operation
# are written into the `out` field, but its validity is left as it was (not the AND of the
# operands), and the call does not return the `out` object as numpy's protocol prescribes.
import warnings
warnings.simplefilter("ignore")
import numpy as np
import discretisedfield as df

print(df.__file__)
mesh = df.Mesh(p1=(0, 0), p2=(2, 2), n=(2, 2))
f1 = df.Field(mesh, nvdim=1, value=1, valid=[[True, False], [True, True]])
f2 = df.Field(mesh, nvdim=1, value=2, valid=[[True, True], [False, True]])
out = df.Field(mesh, nvdim=1, value=0)  # all valid
res = np.add(f1, f2, out=out)
print("EXPECTED: the field that receives f1 + f2 has validity f1.valid & f2.valid =", (f1.valid & f2.valid).ravel())
print("          and np.add(..., out=out) returns out")
print("OBSERVED: out.array =", out.array.ravel(), " out.valid =", out.valid.ravel(), " returned is out:", res is out)
print("          (returned new field: valid =", res.valid.ravel(), ")")
bad = not np.array_equal(out.valid, f1.valid & f2.valid)
print("VIOLATION" if bad else "no violation")
