import os, sys; sys.path.insert(0, os.getcwd())
# Field cannot be copied, deep-copied or pickled: RecursionError in Field.__getattr__
import copy, pickle, warnings
warnings.simplefilter("ignore")
import numpy as np
import discretisedfield as df

print(df.__file__)
mesh = df.Mesh(p1=(0, 0, 0), p2=(2, 2, 1), n=(2, 2, 1))
field = df.Field(mesh, nvdim=3, value=(0, 0, 1))

print("EXPECTED: copy.copy / copy.deepcopy / pickle round trip of a Field give a Field that is")
print("          == the original (and, for deepcopy/pickle, independent of it), as they do for")
print("          Region and Mesh.")
failures = 0
for name, fn in [
    ("copy.copy", copy.copy),
    ("copy.deepcopy", copy.deepcopy),
    ("pickle round trip", lambda o: pickle.loads(pickle.dumps(o))),
]:
    for label, obj in [("Region", mesh.region), ("Mesh", mesh), ("Field", field)]:
        try:
            res = fn(obj)
            print(f"OBSERVED: {name}({label}) ok, equal to original: {res == obj}")
        except RecursionError as e:
            failures += 1
            print(f"OBSERVED: {name}({label}) raises RecursionError: {e}")

# any object that holds a field is affected as well
try:
    copy.deepcopy({"m": field})
except RecursionError:
    failures += 1
    print("OBSERVED: copy.deepcopy({'m': field}) raises RecursionError")
try:
    copy.deepcopy(df.FieldRotator(field))
except RecursionError:
    failures += 1
    print("OBSERVED: copy.deepcopy(FieldRotator(field)) raises RecursionError")

print("VIOLATION" if failures else "no violation", f"({failures} failing protocol calls)")
