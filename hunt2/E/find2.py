import os, sys; sys.path.insert(0, os.getcwd())
# C02: a rejected specification must leave the existing field unchanged - the norm setter
# normalises the stored values BEFORE it validates the new norm specification.
import warnings
warnings.simplefilter("ignore")
import numpy as np
import discretisedfield as df

print(df.__file__)
mesh = df.Mesh(p1=(0, 0), p2=(2, 2), n=(2, 2))
field = df.Field(mesh, nvdim=2, value=(3, 4))
before = field.array.copy()
print("field value before:", before[0, 0], " norm:", field.norm.array[0, 0])
try:
    field.norm = "abc"  # wrong type -> rejected
    print("accepted?!")
except TypeError as e:
    print("field.norm = 'abc' rejected with TypeError:", e)
print("EXPECTED: the rejected assignment leaves the field unchanged, value (3, 4)")
print("OBSERVED: value now", field.array[0, 0], " norm:", field.norm.array[0, 0])
unchanged = np.array_equal(before, field.array)

# same with an object dtype array as norm specification
field2 = df.Field(mesh, nvdim=2, value=(3, 4))
try:
    field2.norm = np.array([[None, None], [None, None]])
except TypeError as e:
    print("object array rejected with TypeError; value now", field2.array[0, 0])
print("no violation" if unchanged else "VIOLATION: rejected norm specification modified the field")
