import os, sys; sys.path.insert(0, os.getcwd())
# C01 / C02 (low confidence): Region.__contains__ does not check the number of coordinates; a
# "point" with too few coordinates is broadcast, reported to be in the region, and accepted as
# an end point by Mesh.line / Field.line.
import warnings
warnings.simplefilter("ignore")
import numpy as np
import discretisedfield as df

print(df.__file__)
region = df.Region(p1=(0, 0, 0), p2=(1, 1, 1))
mesh = df.Mesh(region=region, n=(2, 2, 2))
field = df.Field(mesh, nvdim=1, value=lambda p: p[0])
print("EXPECTED: (0.25,) and 0.25 are not points of a 3d region: `in` is False (or raises),")
print("          Mesh.point2index / Mesh.line / Field.line reject them")
print("OBSERVED: (0.25,) in region ->", (0.25,) in region, "; 0.25 in region ->", 0.25 in region,
      "; np.zeros((5, 3)) in region ->", np.zeros((5, 3)) in region)
print("          1d Region(0.2, 0.4) in 3d region ->", df.Region(p1=0.2, p2=0.4) in region)
try:
    mesh.point2index((0.25,))
except ValueError as e:
    print("          point2index((0.25,)) rejected:", str(e)[:60])
line = field.line(p1=(0.25,), p2=(1, 1, 1), n=3)
print("          field.line(p1=(0.25,), p2=(1, 1, 1), n=3) accepted; points:")
print(line.data)
print("VIOLATION" if (0.25,) in region else "no violation")
