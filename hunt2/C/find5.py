import os, sys; sys.path.insert(0, os.getcwd())
# C09: "files from an independent OVF 1.0 or 2.0 writer in text, 4- or 8-byte binary form are read to that
# writer's content".  OVF header syntax (OOMMF user guide, OVF 1.0 = base of 2.0): the field tag is everything
# between '#' and the first ':', "case is ignored, and all space characters are removed"; the value runs up to
# a '##' comment or the end of the line.
import os, tempfile
_d = tempfile.mkdtemp()
def ovf2(extra_hdr, valuedim=2, enc="utf-8", keymap=lambda k: k, begin="# Begin: Data Text",
         suffix=lambda k: ""):
    """Minimal hand-written OVF 2.0 text file: 2x1x1 cells, values (i, i+10, ...)."""
    H = [("Title", "t"), ("meshtype", "rectangular"), ("meshunit", "m"), ("xbase", 0.5), ("ybase", 0.5),
         ("zbase", 0.5), ("xstepsize", 1), ("ystepsize", 1), ("zstepsize", 1), ("xnodes", 2), ("ynodes", 1),
         ("znodes", 1), ("xmin", 0), ("ymin", 0), ("zmin", 0), ("xmax", 2), ("ymax", 1), ("zmax", 1),
         ("valuedim", valuedim)]
    lines = ["# OOMMF OVF 2.0", "# Segment count: 1", "# Begin: Segment", "# Begin: Header"]
    lines += [f"# {keymap(k)}: {v}{suffix(k)}" for k, v in H] + extra_hdr + ["# End: Header", begin]
    lines += [" ".join(str(float(i + 10 * c)) for c in range(valuedim)) for i in range(2)]
    lines += ["# End: Data Text", "# End: Segment"]
    fn = os.path.join(_d, "x.ovf")
    with open(fn, "wb") as f:
        f.write(("\n".join(lines) + "\n").encode(enc))
    return fn
import discretisedfield as df
print(df.__file__)
LU = ["# valuelabels: m_x m_y", "# valueunits: A/m A/m"]
def rd(desc, fn):
    try:
        f = df.Field.from_file(fn)
        ok = f.unit == "A/m" and f.vdims == ["x", "y"] and f.array.reshape(-1).tolist() == [0, 10, 1, 11]
        print(f"{desc}: unit {f.unit!r} labels {f.vdims} values {f.array.reshape(-1).tolist()} -> {'OK' if ok else 'VIOLATION'}")
    except Exception as e:
        print(f"{desc}: {type(e).__name__}: {e} -> VIOLATION")
print("expected in every case: unit 'A/m', labels ['x', 'y'], values [0, 10, 1, 11]")
rd("reference (lower-case keys)", ovf2(LU))
rd("keys in upper case ('# XMIN: 0', '# VALUEDIM: 2')", ovf2(LU, keymap=str.upper))
rd("'# ValueLabels:' / '# ValueUnits:' (cf. OOMMF's own '# ValueRangeMinMag:')",
   ovf2(["# ValueLabels: m_x m_y", "# ValueUnits: A/m A/m"]))
rd("blank inside a key ('# mesh unit: m', like '# Segment count: 1')", ovf2(LU, keymap=lambda k: k.replace("meshunit", "mesh unit")))
rd("'##' comment after a value ('# xmin: 0 ## lower corner')", ovf2(LU, suffix=lambda k: " ## lower corner" if k == "xmin" else ""))
rd("'#Begin: Data Text' (no blank after '#')", ovf2(LU, begin="#Begin: Data Text"))
rd("'# Begin:  Data Text' (two blanks)", ovf2(LU, begin="# Begin:  Data Text"))
