import os, sys; sys.path.insert(0, os.getcwd())
# C09 / C10: the unit comes back unchanged "(including no unit)" / "unit (including none)"; "any unit or none"
# The string "None" is used as the in-file marker for "no unit", so the unit "None" (and, in OVF, "") is not
# distinguishable from no unit.
import tempfile
import discretisedfield as df
print(df.__file__)
d = tempfile.mkdtemp()
mesh = df.Mesh(p1=(0, 0, 0), p2=(4, 2, 2), n=(4, 2, 2))
for unit in ("None", "", None, "T"):
    f = df.Field(mesh, nvdim=3, value=(1, 2, 3), unit=unit)
    for ext in ("h5", "ovf"):
        fn = os.path.join(d, "a." + ext)
        f.to_file(fn)
        g = df.Field.from_file(fn)
        print(f"unit {unit!r} {ext}: expected {unit!r}; got {g.unit!r} -> {'OK' if g.unit == unit else 'VIOLATION'}")
