import os, sys; sys.path.insert(0, os.getcwd())
# C09: "files from an independent OVF 1.0 or 2.0 writer ... are read to that writer's content"
# (content listed in the first sentence: ..., component count and field unit)
import tempfile
import numpy as np
import discretisedfield as df
print(df.__file__)
# 1. the library's own OOMMF OVF 1.0 samples carry "# valueunit: A/m"
for name in ("oommf-ovf1-txt.omf", "oommf-ovf1-bin4.omf", "oommf-ovf1-bin8.omf", "oommf-ovf2-txt.omf"):
    fn = os.path.join("discretisedfield", "tests", "test_sample", name)
    hdr = [l.decode().strip() for l in open(fn, "rb").read(3000).split(b"\n")[:40] if b"valueunit" in l]
    g = df.Field.from_file(fn)
    print(f"{name}: header {hdr}; expected unit 'A/m', got {g.unit!r}"
          f" -> {'OK' if g.unit == 'A/m' else 'VIOLATION'}")
# 2. hand-written OVF 1.0 text file: valueunit A/m, valuemultiplier 1000 (values stored in kA/m)
lines = ["# OOMMF: rectangular mesh v1.0", "# Segment count: 1", "# Begin: Segment", "# Begin: Header",
         "# Title: t", "# meshtype: rectangular", "# meshunit: nm",
         "# xbase: 0.5", "# ybase: 0.5", "# zbase: 0.5", "# xstepsize: 1", "# ystepsize: 1", "# zstepsize: 1",
         "# xnodes: 2", "# ynodes: 1", "# znodes: 1", "# xmin: 0", "# ymin: 0", "# zmin: 0",
         "# xmax: 2", "# ymax: 1", "# zmax: 1", "# valueunit: A/m", "# valuemultiplier: 1000",
         "# ValueRangeMinMag: 1", "# ValueRangeMaxMag: 10", "# End: Header", "# Begin: Data Text",
         "1 2 3", "4 5 6", "# End: Data Text", "# End: Segment"]
fn = os.path.join(tempfile.mkdtemp(), "y.omf")
open(fn, "w").write("\n".join(lines) + "\n")
g = df.Field.from_file(fn)
print("OVF 1.0, valueunit A/m, valuemultiplier 1000, data '1 2 3 / 4 5 6':")
print("  expected unit 'A/m' and values [1000 2000 3000 4000 5000 6000] (OVF 1.0: data times valuemultiplier is the value in valueunit)")
print("  got unit", repr(g.unit), "values", g.array.reshape(-1).tolist())
