import os, sys; sys.path.insert(0, os.getcwd())
# C10: "Writing any field ... to HDF5 and reading it back returns an equal field with identical ... subregions"
# numpy strings are accepted as subregion names (they are str) and work with OVF/VTK side-cars, but not HDF5;
# the same problem was already handled for dims / units / labels in io/hdf5.py.
import tempfile
import numpy as np
import discretisedfield as df
print(df.__file__)
d = tempfile.mkdtemp()
names = np.array(["bottom", "top"])           # e.g. names coming from a numpy / pandas / xarray object
sub = {n: df.Region(p1=(0, 0, i), p2=(4, 2, i + 1)) for i, n in enumerate(names)}
mesh = df.Mesh(p1=(0, 0, 0), p2=(4, 2, 2), n=(4, 2, 2), subregions=sub)
f = df.Field(mesh, nvdim=1, value=1.0)
for ext in ("ovf", "vtk", "h5"):
    fn = os.path.join(d, "a." + ext)
    try:
        f.to_file(fn)
        g = df.Field.from_file(fn)
        print(f"{ext}: expected subregions ['bottom', 'top']; got {list(g.mesh.subregions)} -> OK")
    except Exception as e:
        print(f"{ext}: expected subregions ['bottom', 'top']; got {type(e).__name__}: {e} -> VIOLATION")
