import os, sys; sys.path.insert(0, os.getcwd())
# C16: "for all 3-d fields with 1-4 components, any labels ... all three representations"
import tempfile
import numpy as np
import discretisedfield as df
print(df.__file__)
d = tempfile.mkdtemp()
mesh = df.Mesh(p1=(0, 0, 0), p2=(4, 2, 2), n=(4, 2, 2))
for labels in (["value", "error"], ["average", "b"], ["integral", "project"], ["write", "b"]):
    f = df.Field(mesh, nvdim=2, vdims=labels, value=(1, 2))  # accepted by Field
    print(f"labels {labels}: Field accepts them; HDF5 round trip gives",
          (f.to_file(os.path.join(d, "a.h5")), df.Field.from_file(os.path.join(d, "a.h5")).vdims)[1])
    for rep in ("bin", "txt", "xml"):
        fn = os.path.join(d, "a.vtk")
        try:
            f.to_file(fn, representation=rep)
            g = df.Field.from_file(fn)
            print(f"  vtk {rep}: expected labels {labels} back; got {g.vdims}")
        except Exception as e:
            print(f"  vtk {rep}: expected a VTK file with labels {labels}; got"
                  f" {type(e).__name__}: {e}  -> VIOLATION")
try:
    f.to_vtk()
except Exception as e:
    print("Field.to_vtk():", type(e).__name__, e)
