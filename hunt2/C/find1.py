import os, sys; sys.path.insert(0, os.getcwd())
# C09: "returns the same ... field unit (including no unit)" / quantifier "any unit or none"
import tempfile, warnings
import numpy as np
import discretisedfield as df
print(df.__file__)
d = tempfile.mkdtemp()
mesh = df.Mesh(p1=(0, 0, 0), p2=(4, 2, 2), n=(4, 2, 2))
bad = 0
for nvdim, unit in [(1, "A m^2"), (3, "A m^2"), (3, "J / m^3"), (1, "kg m"), (3, "A/m")]:
    f = df.Field(mesh, nvdim=nvdim, value=[1.0] * nvdim, unit=unit)
    for rep in ("bin8", "bin4", "txt"):
        fn = os.path.join(d, f"f_{rep}.ovf")
        f.to_file(fn, representation=rep)
        line = [l for l in open(fn, "rb").read().split(b"\n") if b"valueunits" in l][0]
        with warnings.catch_warnings(record=True) as w:
            warnings.simplefilter("always")
            g = df.Field.from_file(fn)
        ok = g.unit == unit
        bad += not ok
        print(f"nvdim={nvdim} rep={rep} unit written {unit!r}: header {line.decode()!r};"
              f" expected unit {unit!r} back, got {g.unit!r}"
              f" ({'OK' if ok else 'VIOLATION'}; warnings: {[str(x.message)[:60] for x in w]})")
print("violations:", bad)
