import os, sys; sys.path.insert(0, os.getcwd())
# C17: "importing that DataArray returns an equal field with the same labels"
# A vector field without labels (such fields are what the HDF5 reader creates for label-less files) is exported
# without a 'vdims' coordinate and re-imported with invented labels.
import numpy as np
import discretisedfield as df
print(df.__file__)
mesh = df.Mesh(p1=(0, 0, 0), p2=(4, 2, 2), n=(4, 2, 2))
f = df.Field(mesh, nvdim=3, value=(1, 2, 3), vdims=[], vdim_mapping={})
xa = f.to_xarray()
g = df.Field.from_xarray(xa)
print("field labels:", f.vdims, "| DataArray coords:", list(xa.coords))
print("expected labels after from_xarray(to_xarray()):", f.vdims, "; got:", g.vdims,
      "->", "OK" if g.vdims == f.vdims else "VIOLATION")
