import os, sys; sys.path.insert(0, os.getcwd())
# C16: "Writing it in binary, text or XML form and reading it back returns the same region, cell counts, values,
# validity, component labels"; quantifier "any labels ... any validity mask"
import tempfile, logging
import numpy as np
import discretisedfield as df
from vtkmodules.vtkCommonCore import vtkObject
vtkObject.GlobalWarningDisplayOff(); logging.disable(logging.CRITICAL)
print(df.__file__)
d = tempfile.mkdtemp()
mesh = df.Mesh(p1=(0, 0, 0), p2=(4, 2, 2), n=(4, 2, 2))
def t(rep, labels):
    f = df.Field(mesh, nvdim=2, vdims=labels, value=lambda p: (p[0], p[1]), valid=lambda p: p[0] > 1)
    fn = os.path.join(d, "a.vtk")
    f.to_file(fn, representation=rep)  # no error
    short = [l if len(l) < 12 else f"{l[0]!r}*{len(l)}" for l in labels]
    try:
        g = df.Field.from_file(fn)
        lab, val = g.vdims == labels, np.array_equal(g.valid, f.valid)
        print(f"{rep} {short}: labels back: {lab} ({g.vdims if not lab else '...'}),"
              f" validity back: {val} (valid cells {int(g.valid.sum())} of {g.valid.size}, written {int(f.valid.sum())})"
              f" -> {'OK' if lab and val else 'VIOLATION'}")
    except Exception as e:
        print(f"{rep} {short}: from_file raised {type(e).__name__}: {e} -> VIOLATION")
print("expected in every case: labels and validity (12 valid cells of 16) come back")
for rep in ("bin", "txt", "xml"):
    t(rep, ["a" * 255, "c"])
    t(rep, ["a" * 256, "c"])
    t(rep, ["я" * 42, "c"])   # 42 Cyrillic letters: 84 UTF-8 bytes, 252 characters when %-encoded by the legacy writer
    t(rep, ["я" * 43, "c"])   # 43 letters -> 258 characters
    t(rep, ["日" * 29, "c"])  # 29 CJK characters -> 261 characters
