import os, sys; sys.path.insert(0, os.getcwd())
# C09: "files from an independent OVF ... 2.0 writer ... are read to that writer's content"
# A well-formed OVF 2.0 file whose value labels end in a word that is an attribute of Field cannot be read.
import os, tempfile
_d = tempfile.mkdtemp()
def ovf2(extra_hdr, valuedim=2, enc="utf-8", keymap=lambda k: k, begin="# Begin: Data Text",
         suffix=lambda k: ""):
    """Minimal hand-written OVF 2.0 text file: 2x1x1 cells, values (i, i+10, ...)."""
    H = [("Title", "t"), ("meshtype", "rectangular"), ("meshunit", "m"), ("xbase", 0.5), ("ybase", 0.5),
         ("zbase", 0.5), ("xstepsize", 1), ("ystepsize", 1), ("zstepsize", 1), ("xnodes", 2), ("ynodes", 1),
         ("znodes", 1), ("xmin", 0), ("ymin", 0), ("zmin", 0), ("xmax", 2), ("ymax", 1), ("zmax", 1),
         ("valuedim", valuedim)]
    lines = ["# OOMMF OVF 2.0", "# Segment count: 1", "# Begin: Segment", "# Begin: Header"]
    lines += [f"# {keymap(k)}: {v}{suffix(k)}" for k, v in H] + extra_hdr + ["# End: Header", begin]
    lines += [" ".join(str(float(i + 10 * c)) for c in range(valuedim)) for i in range(2)]
    lines += ["# End: Data Text", "# End: Segment"]
    fn = os.path.join(_d, "x.ovf")
    with open(fn, "wb") as f:
        f.write(("\n".join(lines) + "\n").encode(enc))
    return fn
import discretisedfield as df
print(df.__file__)
print("expected in every case: a field with values [0, 10, 1, 11] (labels as in the file, or the default labels"
      " as for non-unique labels)")
for labels in ("S_real S_imag", "E_norm E_phase", "u_mean u_std", "real imag", "abs angle", "m_x m_y"):
    fn = ovf2([f"# valuelabels: {labels}", "# valueunits: A/m A/m"])
    try:
        f = df.Field.from_file(fn)
        print(f"valuelabels '{labels}': labels {f.vdims}, values {f.array.reshape(-1).tolist()} -> OK")
    except Exception as e:
        print(f"valuelabels '{labels}': {type(e).__name__}: {e} -> VIOLATION")
