import os, sys; sys.path.insert(0, os.getcwd())
# C09: "component labels of vector fields ... come back unchanged"; quantifier "any labels without spaces"
import tempfile
import discretisedfield as df
print(df.__file__)
d = tempfile.mkdtemp()
mesh = df.Mesh(p1=(0, 0, 0), p2=(4, 2, 2), n=(4, 2, 2))
for labels in (["m{1}", "m{2}"], ["{a}", "b"], ["a}", "{b"]):
    f = df.Field(mesh, nvdim=2, vdims=labels, value=(1, 2))
    fn = os.path.join(d, "a.ovf")
    f.to_file(fn)
    g = df.Field.from_file(fn)
    print(f"labels {labels}: expected {labels}; got {g.vdims} -> {'OK' if g.vdims == labels else 'VIOLATION'}")
