import os, sys; sys.path.insert(0, os.getcwd())
# C16: component labels come back unchanged from binary / text / XML; quantifier "any labels"
# An empty label (accepted by Field, round-trips through HDF5 and OVF) and labels with tab / newline.
import tempfile, logging
import numpy as np
import discretisedfield as df
from vtkmodules.vtkCommonCore import vtkObject
vtkObject.GlobalWarningDisplayOff(); logging.disable(logging.CRITICAL)
print(df.__file__)
d = tempfile.mkdtemp()
mesh = df.Mesh(p1=(0, 0, 0), p2=(4, 2, 2), n=(4, 2, 2))
for labels in (["", "c"], ["a\tb", "c"]):
    f = df.Field(mesh, nvdim=2, vdims=labels, value=(1, 2))
    for ext, rep in (("h5", "bin8"), ("ovf", "bin8"), ("vtk", "bin"), ("vtk", "txt"), ("vtk", "xml")):
        if ext == "ovf" and "\t" in labels[0]:
            continue  # OVF labels with white space are outside C09
        fn = os.path.join(d, "a." + ext)
        try:
            f.to_file(fn, representation=rep)
            g = df.Field.from_file(fn)
            print(f"{labels!r} {ext} {rep}: expected {labels!r}; got {g.vdims!r} -> {'OK' if g.vdims == labels else 'VIOLATION'}")
        except Exception as e:
            print(f"{labels!r} {ext} {rep}: expected {labels!r}; got {type(e).__name__}: {e} -> VIOLATION")
