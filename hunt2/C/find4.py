import os, sys; sys.path.insert(0, os.getcwd())
# C16: "Writing it in binary, text or XML form and reading it back returns the same ... component labels"
# quantifier: "any labels"
import tempfile, logging
import numpy as np
import discretisedfield as df
from vtkmodules.vtkCommonCore import vtkObject
vtkObject.GlobalWarningDisplayOff(); logging.disable(logging.CRITICAL)
print(df.__file__)
d = tempfile.mkdtemp()
mesh = df.Mesh(p1=(0, 0, 0), p2=(4, 2, 2), n=(4, 2, 2))
for labels in (["B&H", "c"], ["<m>", "c"], ['a"b', "c"], ["a>b", "c'd"]):
    f = df.Field(mesh, nvdim=2, vdims=labels, value=(1, 2))
    for rep in ("bin", "xml"):
        fn = os.path.join(d, "a.vtk")
        f.to_file(fn, representation=rep)  # no error on writing
        try:
            g = df.Field.from_file(fn)
            print(f"{labels} {rep}: expected labels back; got {g.vdims} -> {'OK' if g.vdims == labels else 'VIOLATION'}")
        except Exception as e:
            txt = [l for l in open(fn, "rb").read(2000).split(b"\n") if b"DataArray" in l][1][:90]
            print(f"{labels} {rep}: expected labels back; from_file raised {type(e).__name__}: {e} -> VIOLATION")
            print("     file is not well-formed XML:", txt)
