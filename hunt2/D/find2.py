import os, sys; sys.path.insert(0, os.getcwd())
# C18: FieldRotator builds the rotated mesh with default dimension names and units but
# copies the component-to-axis mapping of the original field verbatim.
import warnings; warnings.simplefilter("ignore")
import numpy as np
import discretisedfield as df
print(df.__file__)

print("--- (a) dims ('a','b','c'), units nm, cubic cells, quarter turn about the 3rd axis")
region = df.Region(p1=(0, 0, 0), p2=(4, 4, 4), dims=["a", "b", "c"], units=["nm", "nm", "nm"])
mesh = df.Mesh(region=region, n=(4, 4, 4))
f = df.Field(mesh, nvdim=3, value=lambda p: (p[0], 2 * p[1], 3), vdims=["va", "vb", "vc"])
rot = df.FieldRotator(f)
rot.rotate("from_euler", seq="z", angles=np.pi / 2)
g = rot.field
h = f.rotate90("a", "b")
print("EXPECTED  (C18: coincides with the lattice rotation of C12; C12: dimension names stay)")
print("          rotate90 result: dims", h.mesh.region.dims, "units", h.mesh.region.units,
      "mapping", h.vdim_mapping)
print("OBSERVED  FieldRotator   : dims", g.mesh.region.dims, "units", g.mesh.region.units,
      "mapping", g.vdim_mapping)
print("          values agree:", np.allclose(g.array, h.array), "| meshes equal:", g.mesh == h.mesh)
try:
    print("          g.allclose(h):", g.allclose(h))
except Exception as e:
    print("          g.allclose(h) raised", type(e).__name__, ":", e)
bad = [v for v in g.vdim_mapping.values() if v not in g.mesh.region.dims]
print("          mapping targets that are not dimensions of the rotated mesh:", bad)
for name, fn in [("FieldRotator(rotated field)", lambda: df.FieldRotator(g)),
                 ("rotated.rotate90('x','y')", lambda: g.rotate90("x", "y")),
                 ("rotated.div", lambda: g.div)]:
    try:
        fn(); print("         ", name, "works")
    except Exception as e:
        print("         ", name, "raised", type(e).__name__, ":", str(e)[:90])

print("--- (b) dims ('z','y','x') (default mapping x->'z', y->'y', z->'x'), NULL rotation")
region = df.Region(p1=(0, 0, 0), p2=(6, 6, 6), dims=["z", "y", "x"])
mesh = df.Mesh(region=region, n=(6, 6, 6))
# component 'x' points along array axis 0 (named 'z') and grows linearly along it: div = 1
f = df.Field(mesh, nvdim=3, value=lambda p: (p[0], 0, 0))
rot = df.FieldRotator(f)
rot.rotate("from_rotvec", [0, 0, 0])
g = rot.field
print("EXPECTED  identity rotation reproduces the field: same dims, same mapping meaning, div == 1")
print("          original: dims", f.mesh.region.dims, "mapping", f.vdim_mapping,
      "div (interior) =", np.unique(np.round(f.div.array[2:-2, 2:-2, 2:-2], 12)))
print("OBSERVED  rotated : dims", g.mesh.region.dims, "mapping", g.vdim_mapping,
      "div (interior) =", np.unique(np.round(g.div.array[2:-2, 2:-2, 2:-2], 12)))
print("          arrays identical:", np.allclose(f.array, g.array),
      "-> the array axis named 'z' is now named 'x' while component 'x' is still declared to"
      " point along 'z', which is now a different axis")
