import os, sys; sys.path.insert(0, os.getcwd())
# C20: 3-component field with a partial component-to-axis mapping: the component used for the
# colour of mpl.vector() / the scalar image of mpl() is taken with set.pop() and therefore
# depends on the interpreter's string-hash seed.
import subprocess
import discretisedfield as df
print(df.__file__)

child = r'''
import os, sys; sys.path.insert(0, os.getcwd())
import warnings; warnings.simplefilter("ignore")
import matplotlib; matplotlib.use("Agg")
import matplotlib.pyplot as plt
import numpy as np, discretisedfield as df
mesh3 = df.Mesh(p1=(0, 0, 0), p2=(4e-9, 2e-9, 2e-9), n=(4, 2, 2))
# 'mz' is declared to point along no spatial axis; a cut perpendicular to y leaves the plane (x, z)
f = df.Field(mesh3, nvdim=3, value=(1, 2, 3), vdims=["mx", "my", "mz"],
             vdim_mapping={"mx": "x", "my": "y", "mz": None}).sel("y")
fig, ax = plt.subplots(); f.mpl.vector(ax=ax)
c = np.unique(ax.collections[0].get_array())
fig, ax = plt.subplots(); f.mpl(ax=ax)
s = np.unique(ax.images[0].get_array())
print("plane", f.mesh.region.dims, "axis->component", f._r_dim_mapping, "| vector() colours:", c, "| mpl() image:", s)
'''
print("EXPECTED  one well-defined result (or a refusal) for the same field in every interpreter run")
for seed in ("1", "2", "7", "8"):
    env = dict(os.environ, PYTHONHASHSEED=seed)
    out = subprocess.run([sys.executable, "-c", child], env=env, capture_output=True, text=True, cwd=os.getcwd())
    print("OBSERVED  PYTHONHASHSEED=" + seed, out.stdout.strip() or out.stderr.strip()[-300:])
