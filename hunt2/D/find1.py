import os, sys; sys.path.insert(0, os.getcwd())
# C20: lightness plot of a 2-d field whose component-to-axis mapping has one in-plane
# axis without a component (partial mapping, value None).
import warnings; warnings.simplefilter("ignore")
import matplotlib; matplotlib.use("Agg")
import matplotlib.pyplot as plt
import numpy as np
import discretisedfield as df
import discretisedfield.plotting.util as plot_util
print(df.__file__)

mesh = df.Mesh(p1=(0, 0), p2=(4e-9, 2e-9), n=(4, 2))
vals = np.arange(1, 17, dtype=float).reshape(4, 2, 2) - 8.5   # both signs
f = df.Field(mesh, nvdim=2, value=vals, vdims=["a", "b"],
             vdim_mapping={"a": "x", "b": None})
print("vdim_mapping:", f.vdim_mapping, " axis->component:", f._r_dim_mapping)

fig, ax = plt.subplots()
f.mpl.vector(ax=ax)
q = ax.collections[0]
print("vector(): accepted; U == a-values:", np.array_equal(q.U.reshape(2, 4).T, vals[..., 0]),
      " V == 0:", np.all(q.V == 0))

print("EXPECTED  lightness(): image whose hue is the in-plane angle atan2(0, a), i.e. 0 or pi")
try:
    fig, ax = plt.subplots()
    f.mpl.lightness(ax=ax)
    print("OBSERVED  lightness() drew", ax.images[0].get_array().shape)
except Exception as e:
    print("OBSERVED  lightness() raised", type(e).__name__, ":", e)

# same for a 3-component field (third component unmapped as well)
f3 = df.Field(mesh, nvdim=3, value=(1, 2, 3), vdims=["a", "b", "c"],
              vdim_mapping={"a": "x", "b": None, "c": "z"})
try:
    fig, ax = plt.subplots()
    f3.mpl.lightness(ax=ax)
    print("OBSERVED  3-comp lightness() drew", ax.images[0].get_array().shape)
except Exception as e:
    print("OBSERVED  3-comp lightness() raised", type(e).__name__, ":", e)

# the helper itself: it advertises that one of x, y may be None
for x, y in [("a", None), (None, "b")]:
    try:
        ang = plot_util.inplane_angle(f, x, y)
        print(f"inplane_angle(f, {x!r}, {y!r}) ->", np.unique(ang.array))
    except Exception as e:
        print(f"inplane_angle(f, {x!r}, {y!r}) raised", type(e).__name__, ":", e)
