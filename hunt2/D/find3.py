import os, sys; sys.path.insert(0, os.getcwd())
# C19: demag_field of a uniformly magnetised cube; component labels / dimension names other
# than the literal 'x','y','z' are refused although nvdim == 3 and the mesh is 3-d.
import warnings; warnings.simplefilter("ignore")
import numpy as np
import discretisedfield as df
import discretisedfield.tools as dft
print(df.__file__)

def run(dims, vdims):
    region = df.Region(p1=(0, 0, 0), p2=(4, 4, 4), dims=dims)
    mesh = df.Mesh(region=region, n=(4, 4, 4))
    m = df.Field(mesh, nvdim=3, value=(0, 0, 1), vdims=vdims)
    tensor = dft.demag_tensor(mesh)
    return dft.demag_field(m, tensor).mean()

print("EXPECTED  mean demag field of a uniformly magnetised cube = (0, 0, -1/3) for every 3-component"
      " field on a 3-d mesh")
for dims, vdims in [(["x", "y", "z"], ["x", "y", "z"]),
                    (["x", "y", "z"], ["mx", "my", "mz"]),
                    (["a", "b", "c"], ["x", "y", "z"]),
                    (["z", "y", "x"], ["x", "y", "z"])]:
    try:
        print("OBSERVED  dims", dims, "vdims", vdims, "->", np.round(run(dims, vdims), 12))
    except Exception as e:
        print("OBSERVED  dims", dims, "vdims", vdims, "-> raised", type(e).__name__, ":", e)
