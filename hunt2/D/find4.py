import os, sys; sys.path.insert(0, os.getcwd())
# C19: neighbouring_cell_angle "lives on a mesh one cell shorter in that direction".
# The result mesh is rebuilt with default names/units, so 'that direction' is a different one.
import warnings; warnings.simplefilter("ignore")
import numpy as np
import discretisedfield as df
import discretisedfield.tools as dft
print(df.__file__)
rng = np.random.default_rng(0)

print("--- (a) dims ('z','y','x'), units nm, n=(5,6,7), direction='z' (array axis 0)")
region = df.Region(p1=(0, 0, 0), p2=(5, 6, 7), dims=["z", "y", "x"], units=["nm", "nm", "nm"])
mesh = df.Mesh(region=region, n=(5, 6, 7))
f = df.Field(mesh, nvdim=3, value=rng.normal(size=(5, 6, 7, 3)))
a = dft.neighbouring_cell_angle(f, direction="z")
n_in = dict(zip(f.mesh.region.dims, f.mesh.n.tolist()))
n_out = dict(zip(a.mesh.region.dims, a.mesh.n.tolist()))
print("EXPECTED  result mesh: dims ('z','y','x'), units nm, cells along 'z' = 4, along 'x' = 7")
print("OBSERVED  input  n by name:", n_in, "units", f.mesh.region.units)
print("          result n by name:", n_out, "units", a.mesh.region.units, "dims", a.mesh.region.dims)
m = dft.max_neighbouring_cell_angle(f)
print("          (max_neighbouring_cell_angle keeps them: dims", m.mesh.region.dims, "units", m.mesh.region.units, ")")

print("--- (b) dimension named 'V' (cell size looked up as getattr(mesh, 'd'+dim) -> Mesh.dV = cell volume)")
region = df.Region(p1=(0, 0, 0), p2=(4, 8, 3), dims=["x", "y", "V"])
mesh = df.Mesh(region=region, n=(4, 4, 6))   # cell (1, 2, 0.5), dV = 1
f = df.Field(mesh, nvdim=3, value=rng.normal(size=(4, 4, 6, 3)))
print("EXPECTED  angles along 'V' on a mesh with 5 cells of size 0.5 in the third direction")
try:
    a = dft.neighbouring_cell_angle(f, direction="V")
    print("OBSERVED  n", a.mesh.n, "cell", a.mesh.cell, "pmin", a.mesh.region.pmin, "pmax", a.mesh.region.pmax)
except Exception as e:
    print("OBSERVED  raised", type(e).__name__, ":", str(e)[:150])
