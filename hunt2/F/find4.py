import os, sys; sys.path.insert(0, os.getcwd())
# C12: "the in-place form leaves the object equal to what the copying form returns".
# With the default reference_point=None the subregions of Mesh.rotate90(..., inplace=True)
# (and hence of Field.rotate90(..., inplace=True)) differ from those of the copying form.
import numpy as np
import discretisedfield as df

print(df.__file__)
p1 = (1.0, 0.7, 0.0)
n = (4, 5, 1)
cell = (0.3, 0.7, 1.0)
p2 = tuple(a + k * c for a, k, c in zip(p1, n, cell))


def mk():
    sub = {"s": df.Region(p1=p1, p2=(p1[0] + 0.3, p1[1] + 1.4, 1.0))}
    return df.Mesh(p1=p1, p2=p2, n=n, subregions=sub)


copy = mk().rotate90("x", "y")
inpl = mk()
inpl.rotate90("x", "y", inplace=True)
expl = mk()
expl.rotate90("x", "y", reference_point=mk().region.centre, inplace=True)

print("expected: identical subregions (same rotation about the same point)")
print("copy    :", copy.subregions["s"].pmin.tolist(), copy.subregions["s"].pmax.tolist())
print("in place:", inpl.subregions["s"].pmin.tolist(), inpl.subregions["s"].pmax.tolist())
print("observed: copy.subregions == inplace.subregions ->", copy.subregions == inpl.subregions)
print("          region equal ->", copy.region == inpl.region)
print("          with explicit reference_point=centre   ->", copy.subregions == expl.subregions)

f = df.Field(mk(), nvdim=1, value=1.0)
g = f.rotate90("x", "y")
f.rotate90("x", "y", inplace=True)
print("Field.rotate90: copy.mesh.subregions == inplace.mesh.subregions ->",
      g.mesh.subregions == f.mesh.subregions)
