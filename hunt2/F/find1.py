import os, sys; sys.path.insert(0, os.getcwd())
# C19: max_neighbouring_cell_angle / count_large_cell_angle_regions(direction=None, the
# default) refuse every 3-d mesh that has a single-cell direction (thin film).
import warnings
import numpy as np
import discretisedfield as df
import discretisedfield.tools as dft

print(df.__file__)
rng = np.random.default_rng(1)
mesh = df.Mesh(p1=(0, 0, 0), p2=(4e-9, 3e-9, 1e-9), n=(4, 3, 1))  # one layer in z
m = df.Field(mesh, nvdim=3, value=rng.standard_normal((4, 3, 1, 3)))

print("expected: a scalar field on m.mesh holding, per cell, the largest angle to any "
      "EXISTING neighbour (x and y neighbours exist); a region count for the default "
      "direction=None")
for label, call in [
    ("max_neighbouring_cell_angle(m)", lambda: dft.max_neighbouring_cell_angle(m)),
    ("count_large_cell_angle_regions(m, 1.0)            [direction=None default]",
     lambda: dft.count_large_cell_angle_regions(m, 1.0)),
    ("count_large_cell_angle_regions(m, 1.0, direction='x')",
     lambda: dft.count_large_cell_angle_regions(m, 1.0, direction="x")),
    ("count_large_cell_angle_regions(m, 1.0, direction='y')",
     lambda: dft.count_large_cell_angle_regions(m, 1.0, direction="y")),
]:
    try:
        r = call()
        print("observed:", label, "->", r if not isinstance(r, df.Field) else r.array[..., 0])
    except Exception as e:
        print("observed:", label, "-> raises", type(e).__name__, ":", e)

# same on a 3-vector field on a 2-d mesh with one row
mesh2 = df.Mesh(p1=(0, 0), p2=(5, 1), n=(5, 1))
m2 = df.Field(mesh2, nvdim=3, value=rng.standard_normal((5, 1, 3)))
try:
    print(dft.max_neighbouring_cell_angle(m2).array[..., 0])
except Exception as e:
    print("observed: 2-d mesh n=(5,1) -> raises", type(e).__name__, ":", e)
