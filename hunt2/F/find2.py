import os, sys; sys.path.insert(0, os.getcwd())
# C15 / C07 / C11: a constant given as a 0-d numpy array (np.asarray(2.0), arr.max(keepdims
# ...).squeeze(), xarray scalar .values, ...) is refused with an internal error, while the
# same constant as python number or numpy scalar is accepted.
import numpy as np
import discretisedfield as df

print(df.__file__)
mesh = df.Mesh(p1=(0, 0), p2=(3, 2), cell=(1, 1))
mesh1 = df.Mesh(p1=0, p2=5, cell=1)


def t(label, f):
    try:
        r = f()
        print(f"  OK   {label} -> {r}")
    except Exception as e:
        print(f"  FAIL {label} -> {type(e).__name__}: {e}")


def set_norm(val):
    f = df.Field(mesh, nvdim=3, value=(1, 2, 2))
    f.norm = val
    return f.norm.array.ravel()


print("expected: every line OK (norm 2 everywhere, value 2, cell containing 2.2, ...)")
for v in (2.0, np.float64(2.0), np.array(2.0)):
    t(f"field.norm = {v!r}", lambda: set_norm(v))
t("Field(..., norm=np.array(2.0))",
  lambda: df.Field(mesh, nvdim=3, value=(1, 2, 2), norm=np.array(2.0)).norm.array.ravel())
t("Field(..., value=np.array(2.0))",
  lambda: df.Field(mesh, nvdim=1, value=np.array(2.0)).array.ravel())
t("Field(..., valid=np.array(True))",
  lambda: df.Field(mesh, nvdim=1, value=1, valid=np.array(True)).valid.ravel())
f1 = df.Field(mesh1, nvdim=1, value=lambda p: p)
f2 = df.Field(mesh, nvdim=1, value=lambda p: 10 * p[0] + p[1])
for v in (np.float64(2.2), np.array(2.2)):
    t(f"field.sel(x={v!r}) (2-d mesh)", lambda: f2.sel(x=v).array.ravel())
    t(f"field({v!r}) (1-d mesh)", lambda: f1(v))
for v in (np.int64(3), np.array(3)):
    t(f"field.resample({v!r}) (1-d mesh)", lambda: f1.resample(v).mesh.n)
    t(f"mesh.index2point({v!r}) (1-d mesh)", lambda: mesh1.index2point(v))
F = f1.rfftn()
for v in (np.int64(5), np.array(5)):
    t(f"rfftn().irfftn(shape={v!r}) (1-d mesh)", lambda: F.irfftn(shape=v).mesh.n)
