import os, sys; sys.path.insert(0, os.getcwd())
# C19 / C18: neighbouring_cell_angle and FieldRotator rebuild the result mesh from two corner
# points only: dimension names, units and tolerance_factor of the region (all optional
# arguments of Region at non-default values) are replaced by the defaults.
import warnings
import numpy as np
import discretisedfield as df
import discretisedfield.tools as dft

print(df.__file__)
region = df.Region(p1=(0, 0, 0), p2=(4, 3, 2), dims=["a", "b", "c"],
                   units=["nm", "nm", "s"], tolerance_factor=1e-6)
mesh = df.Mesh(region=region, n=(4, 3, 2))
m = df.Field(mesh, nvdim=3, value=np.random.default_rng(0).standard_normal((4, 3, 2, 3)),
             unit="A/m", vdim_mapping={"x": "a", "y": "b", "z": "c"})

g = dft.neighbouring_cell_angle(m, direction="a")
print("neighbouring_cell_angle(m, 'a'):")
print("  expected: mesh one cell shorter in direction 'a', i.e. dims ('a','b','c'), "
      "units ('nm','nm','s'), tolerance_factor 1e-6, n (3,3,2)")
print("  observed: dims", g.mesh.region.dims, "units", g.mesh.region.units,
      "tolerance_factor", g.mesh.region.tolerance_factor, "n", g.mesh.n)
try:
    g.sel("a")
except Exception as e:
    print("  observed: result.sel('a') ->", type(e).__name__, e)

fr = df.FieldRotator(m)
fr.rotate("from_euler", "z", np.pi / 2)
r = fr.field
print("FieldRotator(m).rotate(quarter turn about c):")
print("  expected: dims ('a','b','c') kept (as Field.rotate90 does), mapping consistent "
      "with the mesh")
print("  observed: dims", r.mesh.region.dims, "units", r.mesh.region.units,
      "tolerance_factor", r.mesh.region.tolerance_factor, "vdim_mapping", r.vdim_mapping)
q = m.rotate90("a", "b")
print("  Field.rotate90 for comparison: dims", q.mesh.region.dims, "units",
      q.mesh.region.units, "values equal:", np.allclose(q.array, r.array))
try:
    df.FieldRotator(r)
except Exception as e:
    print("  observed: FieldRotator(rotated field) ->", type(e).__name__, e)
try:
    r.rotate90("x", "y")
except Exception as e:
    print("  observed: rotated.rotate90('x','y') ->", type(e).__name__, str(e)[:120])
