#!/bin/bash
# tools/seed_run4.sh C07 [extra checks]  - like seed_run2.sh for the fourth round of seed agents
# (/tmp/seed4_<id>/seed_out, changes stored as <id>-7 and <id>-8)
p=$1; extra=$2
rm -rf /tmp/seed_out/$p; mkdir -p /tmp/seed_out/$p
src=/tmp/seed4_$p/seed_out
cp $src/notes.md /tmp/seed_out/$p/notes.md
for k in 1 2; do cp $src/patch$k.diff /tmp/seed_out/$p/patch$((k+6)).diff; cp $src/demo$k.py /tmp/seed_out/$p/demo$((k+6)).py; done
for k in 7 8; do
  DFSEED_DIR=/tmp/dfseed_$p DFMON_REPLAY_DIR=/tmp/dfseed_replays_$p /verif/tools/seed_eval.py /tmp/seed_out/$p/patch$k.diff /tmp/seed_out/$p/demo$k.py --checks $p${extra:+,$extra} --suite > /tmp/seed_eval/${p}_$k.json 2>/tmp/seed_eval/${p}_$k.err
  /verif/tools/seed_store.py $p $k
done
git -C /repo worktree remove --force /tmp/dfseed_$p 2>/dev/null
rm -rf /tmp/dfseed_replays_$p
