#!/usr/bin/env python3
"""Regenerate /verif/MANIFEST.json from the workloads present (tools/manifest_texts.json
holds the per-property level text / notes).  Run after adding or removing a workload."""
import ast, json, os, re, subprocess

ROOT = os.path.dirname(os.path.dirname(os.path.abspath(__file__)))
texts = json.load(open(os.path.join(ROOT, "tools", "manifest_texts.json")))
props = [json.loads(l) for l in open(os.path.join(ROOT, "properties.jsonl"))]

def meta(pid):
    path = os.path.join(ROOT, "workloads", f"{pid}.py")
    if not os.path.exists(path):
        return None
    for node in ast.parse(open(path).read()).body:
        if isinstance(node, ast.Assign) and getattr(node.targets[0], "id", "") == "META":
            return ast.literal_eval(node.value)

checks, na = [], []
for p in props:
    pid = p["id"]
    m = meta(pid)
    t = texts.get(pid, {})
    if m is None or t.get("not_applicable"):
        na.append({"property_id": pid, "reason": t.get("not_applicable", "check not built yet (work in progress)")})
        continue
    checks.append({
        "property_id": pid,
        "quick_cmd": f"./check {pid} --tier quick",
        "thorough_cmd": f"./check {pid} --tier thorough",
        "evidence_file": f"/verif/evidence/{pid}.json",
        "replay_cmd_template": f"./check {pid} --replay {{path}}",
        "engine": "dfmon",
        "level_claimed": {
            "category": m["level"],
            "text": t.get("text", "held on the executions explored by the seeded workload; see DESIGN.md"),
            "design_ref": t.get("design_ref", f"DESIGN.md section 4, {pid}"),
        },
        "level_note": t.get("note", "numpy/scipy/h5py/vtk/xarray/matplotlib are trusted; inputs limited to the generated domains (DESIGN.md rules R3/R7): 1-4-d meshes up to a few thousand cells, scales 1e-12..1e6, offsets up to 1e3 (partly 1e6) edge lengths, values 1e-12..1e9; a third of the fields and some meshes are reached through public histories (derived quantities read once, then values/validity/geometry changed in place or through setters: gen.via_history, DESIGN.md 11.3) so that stale caches and aliasing are observable; held = no unlisted violation on the executions counted in the evidence, not a proof"),
        "technique": t.get("technique", "runtime monitoring: passive contracts / class invariants attached to the real classes (icontract + wrappers) and an independent reference-model oracle observing seeded hostile workloads and histories; offline classification of recorded violations against known_findings.json"),
    })
hooks_commits = json.load(open(os.path.join(ROOT, "tools", "hook_commits.json"))) if os.path.exists(os.path.join(ROOT, "tools", "hook_commits.json")) else []
manifest = {
    "version": 1,
    "setup_cmd": "/venv/bin/python -m pip install -q --no-index --find-links /opt/veriftools/wheels --target /verif/.deps icontract deal",
    "hooks": {
        "guard": "DISCRETISEDFIELD_VERIF",
        "enable": "no source hook in /repo: with DISCRETISEDFIELD_VERIF=1 the harness (PYTHONPATH=/repo:/verif) imports discretisedfield from the current working tree and dfmon.attach wraps Region/Mesh/Field in place (icontract invariants + passive operator wrappers); nothing to build",
        "baseline_off_cmd": "cd /repo && /venv/bin/python -m pytest -ra -q -p no:cacheprovider --timeout=900 --continue-on-collection-errors",
        "source_commits": hooks_commits,
        "add_only": True,
    },
    "engines": [{
        "name": "dfmon",
        "path": "/verif/dfmon",
        "serves_properties": [c["property_id"] for c in checks],
        "kind_free_text": "runtime monitoring: icontract class invariants and passive per-call contracts attached to the real classes, seeded hostile workloads with independent reference-model oracles, event/anchor recorders (sys.monitoring), three-valued verdicts",
    }],
    "checks": checks,
    "not_applicable": na,
    "notes": "exit 0 held / 1 violation (VIOLATION line) / 2 inconclusive (INCONCLUSIVE line). VERIF_SEED and VERIF_TIER honoured. Known findings: /verif/known_findings.json.",
}
json.dump(manifest, open(os.path.join(ROOT, "MANIFEST.json"), "w"), indent=1)
print(f"{len(checks)} checks, {len(na)} not claimed")
