#!/bin/bash
# tools/seed_run.sh C20 [extra checks, comma separated]  - evaluate both seeded changes written by the
# seed agent of that property (in /tmp/seed_<id>/seed_out): demo clean/patched, repo test-suite with the
# patch, own check (+extras), then store under /verif/seeded/<id>-<k>/
p=$1; extra=$2
rm -rf /tmp/seed_out/$p; cp -r /tmp/seed_$p/seed_out /tmp/seed_out/$p
for k in 1 2; do
  DFSEED_DIR=/tmp/dfseed_$p DFMON_REPLAY_DIR=/tmp/dfseed_replays_$p /verif/tools/seed_eval.py /tmp/seed_out/$p/patch$k.diff /tmp/seed_out/$p/demo$k.py --checks $p${extra:+,$extra} --suite > /tmp/seed_eval/${p}_$k.json 2>/tmp/seed_eval/${p}_$k.err
  tail -1 /tmp/seed_eval/${p}_$k.json | cut -c1-1200
  /verif/tools/seed_store.py $p $k
done
git -C /repo worktree remove --force /tmp/dfseed_$p 2>/dev/null
rm -rf /tmp/dfseed_replays_$p
