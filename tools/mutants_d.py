"""Mutation corpus, part D: reverts of repairs whose commit can no longer be un-applied
mechanically (later repairs touched the same lines), written by hand
(see tools/mutrun.py and mutants_a.py for the format; tools/revert_check.py for the rest)."""
F = "discretisedfield/field.py"
M = "discretisedfield/mesh.py"
H5 = "discretisedfield/io/hdf5.py"

MUTANTS = [
    ("f01", ["C02"], F, """            elif np.ndim(val) > 1 and np.shape(val) != (*mesh.n, nvdim):
                # one vector for all cells or one vector per cell; anything else would
                # be broadcast silently
                raise ValueError(
                    f"Wrong shape {np.shape(val)} provided for value; expected shape is"
                    f" {(nvdim,)} or {(*mesh.n, nvdim)}."
                )
""", "", "5abed318 reverted: wrong but broadcastable shapes accepted"),
    ("f02", ["C10"], H5, "            dtype=dtype,\n            **kwargs,", "            **kwargs,",
     "399afe8f reverted: HDF5 reader converts integer / Boolean / single-precision arrays to float64"),
    ("f03", ["C01"], M, "            tol = np.asarray(cell) * 1e-3  # tolerance (per axis)",
     "            tol = np.min(cell) * 1e-3  # tolerance", "f10e00cd reverted: one divisibility tolerance for all axes"),
    ("f04", ["C02"], F, "                array[tuple(idx)] = np.asarray(", "                array[idx] = np.asarray(",
     "3f4fbc34 reverted: callable default written with fancy indexing"),
    ("f05", ["C10"], H5, """        if isinstance(unit, str) and unit == "None":
            unit = None  # written for fields without unit
""", "", "9a48d2b6 reverted: unit=None read back as the string 'None'"),
    ("f06", ["C02"], F, "        unset = np.full(tuple(mesh.n), not constant_default)",
     "        unset = np.full(tuple(mesh.n), False)", "0a9cc293 broken: cells left to a callable / missing default are never filled"),
    ("f07", ["C14", "C13"], M, """            tol = self.cell * 1e-3
            if (
                value.ndim != self.region.ndim""", """            tol = self.cell * 1e-15
            if (
                value.ndim != self.region.ndim""", "42d3b52b (setter half) reverted: containment without tolerance"),
    ("f08", ["C01", "C14"], M, "            if np.greater(cell, self.region.edges + tol).any():",
     "            if np.greater(cell, self.region.edges * (1 + 1e-15)).any():",
     "42d3b52b (constructor half) reverted: 'cell exceeds region' without tolerance"),
    ("f09", ["C04"], F, """            self.mesh.bc not in ("neumann", "dirichlet")
            and len(direction) == 1""", """            len(direction) == 1""",
     "2431db5c reverted: the letters of the keywords 'neumann' / 'dirichlet' read as periodic directions"),
    ("f10", ["C04"], F, """            and len(direction) == 1
            and direction in self.mesh.bc""", """            and direction in self.mesh.bc""",
     "8d9d0f94 reverted: substring test for periodic directions"),
]
