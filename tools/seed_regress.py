#!/venv/bin/python
"""Re-run the property's quick check against every seeded change (development aid).

    tools/seed_regress.py [-j 3] [--only C03-3,C07-1] [--tier quick]

For each /verif/seeded/<id>/: scratch worktree of /repo HEAD under /tmp (one per job,
removed at the end), apply patch.diff, run the demo (must fail) and the check of the
seeded property (DFMON_REPO; evidence not written), undo.  The outcome is stored in
meta.json under "latest_evaluation" and summarised on stdout.
"""
import argparse
import concurrent.futures as cf
import glob
import json
import os
import subprocess
import sys

ROOT = os.path.dirname(os.path.dirname(os.path.abspath(__file__)))
PY = "/venv/bin/python"


def sh(*a, **k):
    return subprocess.run(a, capture_output=True, text=True, **k)


def run(job):
    sid, slot, tier = job
    d = os.path.join(ROOT, "seeded", sid)
    scr = f"/tmp/dfseedreg_{os.getpid()}_{slot}"
    head = sh("git", "-C", "/repo", "rev-parse", "HEAD").stdout.strip()
    if not os.path.isdir(scr):
        sh("git", "-C", "/repo", "worktree", "add", "-q", "--detach", scr, head)
    sh("git", "-C", scr, "checkout", "-q", "--detach", head)
    sh("git", "-C", scr, "checkout", "--", ".")
    out = {"head": head, "tier": tier}
    ap = sh("git", "-C", scr, "apply", os.path.join(d, "patch.diff"))
    if ap.returncode != 0:
        # later repairs moved the context: three-way merge against the blobs the patch names
        ap = sh("git", "-C", scr, "apply", "--3way", os.path.join(d, "patch.diff"))
        out["applied_with"] = "3way"
        if ap.returncode == 0 and "<<<<<<<" in sh("git", "-C", scr, "diff").stdout:
            ap = subprocess.CompletedProcess([], 1, "", "three-way merge left conflicts")
    if ap.returncode != 0:
        out["error"] = "patch does not apply to this HEAD (a later repair rewrote the same lines): " + ap.stderr[-200:]
        sh("git", "-C", scr, "reset", "-q", "--hard", head)
        return sid, out
    try:
        out["demo_with_patch_exit"] = sh(PY, os.path.join(d, "demo.py"), cwd=scr).returncode
        prop = sid.split("-")[0]
        env = dict(os.environ, DFMON_REPO=scr, DFMON_NO_EVIDENCE="1",
                   DFMON_REPLAY_DIR=f"/tmp/dfseedreg_replays_{os.getpid()}_{slot}")
        r = sh(os.path.join(ROOT, "check"), prop, "--tier", tier, "--no-ambient", "--workers", "4",
               env=env, cwd=ROOT)
        out["verdict"] = {0: "MISSED", 1: "CAUGHT"}.get(r.returncode, "INCONCLUSIVE")
        out["monitors"] = [ln.split("monitor=")[1].split()[0] for ln in r.stdout.splitlines()
                           if ln.startswith("VIOLATION") and "monitor=" in ln][:8]
    finally:
        sh("git", "-C", scr, "reset", "-q", "--hard", head)
    return sid, out


def main():
    ap = argparse.ArgumentParser()
    ap.add_argument("-j", type=int, default=3)
    ap.add_argument("--only", default="")
    ap.add_argument("--tier", default="quick")
    args = ap.parse_args()
    ids = sorted(os.path.basename(os.path.dirname(p))
                 for p in glob.glob(os.path.join(ROOT, "seeded", "*", "patch.diff")))
    if args.only:
        ids = [i for i in ids if i in set(args.only.split(","))]
    slots = {}
    for k, sid in enumerate(ids):
        slots.setdefault(k % args.j, []).append((sid, k % args.j, args.tier))

    def run_slot(jobs):
        res = []
        for j in jobs:
            sid, out = run(j)
            print(f"{sid:7s} {out.get('verdict', out.get('error'))} {out.get('monitors', '')}", flush=True)
            res.append((sid, out))
        return res

    missed = []
    with cf.ThreadPoolExecutor(max_workers=args.j) as ex:
        for res in ex.map(run_slot, slots.values()):
            for sid, out in res:
                mp = os.path.join(ROOT, "seeded", sid, "meta.json")
                meta = json.load(open(mp))
                meta["latest_evaluation"] = out
                json.dump(meta, open(mp, "w"), indent=1)
                if out.get("verdict") != "CAUGHT":
                    missed.append(sid)
    for slot in slots:
        sh("git", "-C", "/repo", "worktree", "remove", "--force", f"/tmp/dfseedreg_{os.getpid()}_{slot}")
        sh("rm", "-rf", f"/tmp/dfseedreg_replays_{os.getpid()}_{slot}")
    print(f"{len(ids)} seeded changes; not reported by their property's check: {missed}")
    return 0


if __name__ == "__main__":
    sys.exit(main())
