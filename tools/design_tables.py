#!/usr/bin/env python3
"""Print the validation tables of DESIGN.md section 11 from the recorded results:
tools/mutation_results.json (tools/mutrun.py) and seeded/*/meta.json (tools/seed_*.py)."""
import collections
import glob
import json
import os

ROOT = os.path.dirname(os.path.dirname(os.path.abspath(__file__)))

print("### Seeded changes (independent sub-agents)\n")
print("| id | property | files | what it needs to manifest (summary) | suite with the change | reported by |")
print("|----|----------|-------|--------------------------------------|-----------------------|-------------|")
SUMMARY = json.load(open(os.path.join(ROOT, "seeded", "summaries.json"))) \
    if os.path.exists(os.path.join(ROOT, "seeded", "summaries.json")) else {}
for path in sorted(glob.glob(os.path.join(ROOT, "seeded", "*", "meta.json"))):
    m = json.load(open(path))
    caught = m.get("checks_that_report_it") or {}
    le = m.get("latest_evaluation") or {}
    if le.get("verdict") == "CAUGHT":
        caught = {m["property"]: le.get("monitors", [])}
    rep = "; ".join(f"{p}: {', '.join(x.split('.', 1)[1] if '.' in x else x for x in mons[:3])}"
                    for p, mons in caught.items()) or "**missed**"
    suite = (m["confirmed_by_me"].get("repository_test_suite_with_patch") or ["?"])[0]
    suite = suite.split(" in ")[0]
    files = ", ".join(os.path.basename(f) for f in m.get("files_changed", []))
    print(f"| {m['id']} | {m['property']} | {files} | {SUMMARY.get(m['id'], 'see seeded/%s/notes.md' % m['id'])} | {suite} | {rep} |")

rv_path = os.path.join(ROOT, "tools", "revert_results.json")
if os.path.exists(rv_path):
    rv = json.load(open(rv_path))
    print("\n### Reverted repairs (tools/revert_check.py, quick tier)\n")
    print("| fix: commit | what it repaired | reverting it is reported by |")
    print("|-------------|------------------|-----------------------------|")
    for c, o in sorted(rv.items(), key=lambda kv: kv[1].get("subject", "")):
        subj = o.get("subject", "")[5:90]
        if "error" in o:
            rep = "(cannot be un-applied mechanically; hand-written revert in tools/mutants_d.py / corpus)"
        else:
            rep = "; ".join(f"{p}: {', '.join(m.split('.', 1)[1] if '.' in m else m for m in x['monitors'][:2])}"
                            for p, x in o["checks"].items() if x["verdict"] == "CAUGHT") or "**not reported**"
        print(f"| {c} | {subj} | {rep} |")

res = json.load(open(os.path.join(ROOT, "tools", "mutation_results.json")))
print("\n### Mutation corpus (tools/mutants_*.py, quick tier)\n")
by_prop = collections.defaultdict(lambda: [0, 0, []])
for mid, r in sorted(res.items()):
    if "error" in r:
        continue
    for p, c in r.get("checks", {}).items():
        by_prop[p][0] += 1
        if c["verdict"] == "CAUGHT":
            by_prop[p][1] += 1
        else:
            by_prop[p][2].append(mid)
print("| property | mutants listed for it | caught by its quick check | not caught (id) |")
print("|----------|-----------------------|---------------------------|-----------------|")
for p in sorted(by_prop):
    n, c, miss = by_prop[p]
    print(f"| {p} | {n} | {c} | {', '.join(miss) or '-'} |")
total = [r for r in res.values() if "error" not in r]
any_caught = [r for r in total if any(c["verdict"] == "CAUGHT" for c in r["checks"].values())]
print(f"\n{len(total)} mutants, {len(any_caught)} reported by at least one of the checks listed for them.")
print("\nNot reported by any listed check:\n")
for r in total:
    if r not in any_caught:
        print(f"* `{r['id']}` ({', '.join(r['props'])}; {r['file']}): {r['note']}")
surv = [r for r in total if r.get("suite", {}).get("exit") == 0]
if any("suite" in r for r in total):
    ran = [r for r in total if "suite" in r]
    print(f"\nRepository test-suite run on {len(ran)} mutants: {len(surv)} survive it; "
          f"{sum(1 for r in surv if r in any_caught)} of the survivors are reported by the checks.")
