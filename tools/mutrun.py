#!/venv/bin/python
"""Batch mutation runs (development aid, not a registered check).

    tools/mutrun.py [-j 4] [--tier quick] [--only a01,a02 | --part a,b] [--suite] [--out file.json]

For every mutant of tools/mutants_*.py: apply the single textual replacement in a
private scratch worktree of /repo HEAD under /tmp (one per job, removed at the
end), run the listed properties' checks against it (DFMON_REPO; evidence not
written) and record CAUGHT / MISSED / INCONCLUSIVE plus the monitors that fired.
--suite additionally runs the repository's own tests on the mutant (the two
environmental failures deselected) to see whether the tests would have noticed.
Results are merged into tools/mutation_results.json (keyed by mutant id).
"""
import argparse
import concurrent.futures as cf
import glob
import importlib.util
import json
import os
import subprocess
import sys
import time

ROOT = os.path.dirname(os.path.dirname(os.path.abspath(__file__)))


def load_corpus(parts):
    out = []
    for path in sorted(glob.glob(os.path.join(ROOT, "tools", "mutants_*.py"))):
        part = os.path.basename(path)[len("mutants_"):-3]
        if parts and part not in parts:
            continue
        spec = importlib.util.spec_from_file_location(f"mutants_{part}", path)
        mod = importlib.util.module_from_spec(spec)
        spec.loader.exec_module(mod)
        out += list(mod.MUTANTS)
    return out


def sh(*a, **k):
    return subprocess.run(a, capture_output=True, text=True, **k)


def run_one(job):
    mut, slot, tier, suite, workers, no_checks = job
    mid, props, f, old, new, note = mut
    scr = f"/tmp/dfmutrun_{os.getpid()}_{slot}"
    head = sh("git", "-C", "/repo", "rev-parse", "HEAD").stdout.strip()
    if not os.path.isdir(scr):
        sh("git", "-C", "/repo", "worktree", "add", "-q", "--detach", scr, head)
    else:
        sh("git", "-C", scr, "checkout", "-q", "--detach", head)
        sh("git", "-C", scr, "checkout", "--", ".")
    path = os.path.join(scr, f)
    src = open(path).read()
    res = {"id": mid, "props": props, "file": f, "note": note, "head": head, "tier": tier}
    if src.count(old) != 1:
        res["error"] = f"pattern occurs {src.count(old)} times"
        return res
    open(path, "w").write(src.replace(old, new))
    try:
        imp = sh("/venv/bin/python", "-c", "import os,sys; sys.path.insert(0, os.getcwd()); import discretisedfield",
                 cwd=scr)
        if imp.returncode != 0:
            res["error"] = "does not import: " + imp.stderr[-300:]
            return res
        res["checks"] = {}
        for prop in ([] if no_checks else props):
            env = dict(os.environ, DFMON_REPO=scr, DFMON_NO_EVIDENCE="1",
                       DFMON_REPLAY_DIR=f"/tmp/dfmutrun_replays_{os.getpid()}_{slot}")
            t0 = time.time()
            cmd = ["/verif/check", prop, "--tier", tier, "--no-ambient"]
            if workers:
                cmd += ["--workers", str(workers)]
            r = sh(*cmd, env=env, cwd=ROOT)
            mons = [ln.split("monitor=")[1].split()[0] for ln in r.stdout.splitlines()
                    if ln.startswith("VIOLATION") and "monitor=" in ln]
            res["checks"][prop] = {
                "verdict": {0: "MISSED", 1: "CAUGHT"}.get(r.returncode, "INCONCLUSIVE"),
                "monitors": mons[:8], "wall_s": round(time.time() - t0, 1),
            }
            if r.returncode not in (0, 1):
                res["checks"][prop]["tail"] = (r.stdout + r.stderr)[-400:]
        if suite:
            t0 = time.time()
            r = sh("/venv/bin/python", "-m", "pytest", "-q", "-x", "-p", "no:cacheprovider", "--timeout=900",
                   "discretisedfield/tests",
                   "--deselect", "discretisedfield/tests/test_field.py::test_pyvista_streamlines",
                   "--deselect", "discretisedfield/tests/test_ovf2vtk.py::test_ovf2vtk", cwd=scr)
            last = (r.stdout.strip().splitlines() or [""])[-1]
            res["suite"] = {"exit": r.returncode, "last": last[:200], "wall_s": round(time.time() - t0, 1)}
    finally:
        open(path, "w").write(src)
    return res


def main():
    ap = argparse.ArgumentParser()
    ap.add_argument("-j", type=int, default=4)
    ap.add_argument("--tier", default="quick")
    ap.add_argument("--only", default="")
    ap.add_argument("--part", default="")
    ap.add_argument("--suite", action="store_true")
    ap.add_argument("--no-checks", action="store_true", help="with --suite: only run the repository's tests")
    ap.add_argument("--workers", type=int, default=4)
    ap.add_argument("--out", default=os.path.join(ROOT, "tools", "mutation_results.json"))
    args = ap.parse_args()
    corpus = load_corpus([p for p in args.part.split(",") if p])
    if args.only:
        want = set(args.only.split(","))
        corpus = [m for m in corpus if m[0] in want]
    ids = [m[0] for m in corpus]
    assert len(ids) == len(set(ids)), "duplicate mutant ids"
    results = json.load(open(args.out)) if os.path.exists(args.out) else {}
    jobs = [(m, k % args.j, args.tier, args.suite, args.workers, args.no_checks)
            for k, m in enumerate(corpus)]
    # one worktree per slot: run the jobs of a slot sequentially, the slots in parallel
    by_slot = {}
    for j in jobs:
        by_slot.setdefault(j[1], []).append(j)

    def run_slot(js):
        out = []
        for j in js:
            r = run_one(j)
            out.append(r)
            v = r.get("error") or {p: c["verdict"] for p, c in r.get("checks", {}).items()}
            s = r.get("suite", {}).get("last", "")
            print(f"{r['id']:6s} {v} {s}  # {r['note']}", flush=True)
        return out

    with cf.ThreadPoolExecutor(max_workers=args.j) as ex:
        for out in ex.map(run_slot, by_slot.values()):
            for r in out:
                prev = results.get(r["id"], {})
                if "suite" in prev and "suite" not in r:
                    r["suite"] = prev["suite"]
                if args.no_checks and prev.get("checks"):
                    r["checks"] = prev["checks"]
                results[r["id"]] = r
    for slot in by_slot:
        sh("git", "-C", "/repo", "worktree", "remove", "--force", f"/tmp/dfmutrun_{os.getpid()}_{slot}")
        sh("rm", "-rf", f"/tmp/dfmutrun_replays_{os.getpid()}_{slot}")
    json.dump(results, open(args.out, "w"), indent=1, sort_keys=True)
    missed = [r["id"] for r in results.values() if r["id"] in ids and
              not any(c["verdict"] == "CAUGHT" for c in r.get("checks", {}).values())]
    print(f"{len(ids)} mutants run; not caught by any listed check: {missed}")


if __name__ == "__main__":
    sys.exit(main())
