#!/venv/bin/python
"""Evaluate a seeded change (development aid).

    tools/seed_eval.py <patch.diff> <demo.py> [--checks C01,C13 | --all] [--suite] [--tier quick]

In a private scratch worktree of /repo HEAD (DFSEED_DIR, default /tmp/dfseed):
  1. demo on the clean tree must pass, with the patch applied must fail;
  2. (--suite) the repository's test-suite must still pass with the patch;
  3. the selected /verif checks are run against the patched tree (DFMON_REPO) and the
     ones that report a violation are listed.
The worktree is reset afterwards.  Prints a JSON summary on the last line.
"""
import argparse
import json
import os
import subprocess
import sys

ap = argparse.ArgumentParser()
ap.add_argument("patch")
ap.add_argument("demo")
ap.add_argument("--checks", default="")
ap.add_argument("--all", action="store_true")
ap.add_argument("--suite", action="store_true")
ap.add_argument("--tier", default="quick")
ap.add_argument("--seed", default="0")
args = ap.parse_args()

SCR = os.environ.get("DFSEED_DIR", "/tmp/dfseed")
PY = "/venv/bin/python"


def sh(*a, **k):
    return subprocess.run(a, capture_output=True, text=True, **k)


head = sh("git", "-C", "/repo", "rev-parse", "HEAD").stdout.strip()
if not os.path.isdir(SCR):
    subprocess.run(["git", "-C", "/repo", "worktree", "add", "-q", "--detach", SCR, head], check=True)
sh("git", "-C", SCR, "checkout", "-q", "--detach", head)
sh("git", "-C", SCR, "checkout", "--", ".")

out = {"patch": args.patch, "head": head}
r = sh(PY, args.demo, cwd=SCR)
out["demo_clean_exit"] = r.returncode
ap_ = sh("git", "-C", SCR, "apply", args.patch)
if ap_.returncode != 0:
    out["apply_error"] = ap_.stderr[-500:]
    print(json.dumps(out))
    sys.exit(2)
try:
    out["files"] = sh("git", "-C", SCR, "diff", "--stat").stdout.strip().splitlines()[-1:]
    r = sh(PY, args.demo, cwd=SCR)
    out["demo_patched_exit"] = r.returncode
    out["demo_patched_tail"] = (r.stdout + r.stderr)[-300:]
    if args.suite:
        r = sh(PY, "-m", "pytest", "-q", "-p", "no:cacheprovider", "--timeout=900", "discretisedfield/tests",
               "--deselect", "discretisedfield/tests/test_field.py::test_pyvista_streamlines",
               "--deselect", "discretisedfield/tests/test_ovf2vtk.py::test_ovf2vtk", cwd=SCR)
        out["suite_exit"] = r.returncode
        out["suite_tail"] = r.stdout.strip().splitlines()[-1:] if r.stdout else r.stderr[-300:]
    checks = [c for c in args.checks.split(",") if c]
    if args.all:
        checks = sorted(f[:-3] for f in os.listdir("/verif/workloads") if f.startswith("C") and f.endswith(".py"))
    caught, missed, other = {}, [], {}
    for c in checks:
        env = dict(os.environ, DFMON_REPO=SCR, DFMON_NO_EVIDENCE="1", VERIF_SEED=args.seed)
        r = sh("/verif/check", c, "--tier", args.tier, "--no-ambient", env=env, cwd="/verif")
        if r.returncode == 1:
            caught[c] = [ln.split("monitor=")[1].split()[0] for ln in r.stdout.splitlines()
                         if ln.startswith("VIOLATION") and "monitor=" in ln][:6]
        elif r.returncode == 0:
            missed.append(c)
        else:
            other[c] = (r.stdout + r.stderr)[-400:]
    out.update({"caught": caught, "missed": missed, "inconclusive": other})
finally:
    sh("git", "-C", SCR, "checkout", "--", ".")
print(json.dumps(out))
